package main

import (
	"fmt"
	"go/token"
	"go/types"
	"sort"
	"strings"
	"time"

	"golang.org/x/tools/go/ssa"
)

func init() {
	register(&PropSpec{
		ID:    "C01",
		Title: "Every storage backend behaves as a content-addressed map",
		Explanation: "Decided (structural necessary conditions, all over the type-checked SSA of the current tree). Where a rule below speaks of a site 'in' an enumerator, a storage method or the merge function, it is looked for in that function's EFFECTIVE BODY: the function, its function literals and, transitively (4 levels), the unexported functions and methods of its package and the literals it calls statically; a helper's parameter stands for the argument at the helper's calls inside the body, a helper call's result for the operands of the helper's returns, branch facts at the (single) call of a helper hold inside it, a branch on a bool helper carries the comparisons the helper returns or branches on, and 'P succeeded before Q' holds when P sits in a helper every nil-error return of which lies behind P's err == nil edge (or returns P's error). Unexported names are never anchors: the overlay and shard types, their fields, the tombstone predicate, the routing function and the merge function are found by role (interface implemented, field type, what they call); only exported API (interfaces, interface methods, MergedEnumerate) is named. " +
			"E-close — every declared EnumerateBlobs/StreamBlobs method of every implementer of blobserver.BlobEnumerator/BlobStreamer (and every function such a method hands its channel to) reaches every non-panic exit with dest closed exactly once: by close, a registered defer, a deferred/spawned literal that closes on all its paths, or by handing dest to a callee that is itself checked (interface EnumerateBlobs/StreamBlobs calls discharge by contract because every implementer is in the instance set); no path closes twice. One exception, re-checked structurally on every run and located by role (any enumerator method of package cond that branches on `recv.field == nil`): the exit taken when that storage field is nil is pruned only while every value of the receiver's type is built by a function that stores Loader.GetStorage's result into that field and returns the object only on that call's err == nil edge, and nothing else ever stores to the field. " +
			"E-cursor — for the backends C01 names plus the index: a leaf enumerator skips, within the same loop iteration, every element whose key compares <= the cursor (or == when the iterator was positioned by an inclusive sorted.KeyValue.Find on the cursor); a merging enumerator forwards the cursor to every sub-enumeration; a forwarding enumerator passes on a cursor built only from `after`; the comparison may sit in a bool helper the branch calls (a comparison the helper returns, or one it branches on, with the edges continued through the helper's possible results), the guard may be established around the send itself or - when the send sits in a helper or a local closure that is handed/captures dest - at every call of that helper, edges on which the cursor is known to be empty (`after != \"\"`, `len(after) > 0`) are not followed because nothing is <= an empty cursor; a cursor test in a helper that cannot be followed this way is reported undecided, never passed. " +
			"E-limit — a leaf/merging enumerator has a comparison between a send counter and limit (or a decremented limit and 0) whose stop edge reaches no further send, that is re-evaluated in the loop of the send, stops at count >= limit (not limit+1), and whose counter (a captured variable, or a register followed through the phis of nested loops and of conditional steps) is updated on the path of the send; the comparison may be the branch's own, one known to hold on entry of the branch whose edge stops the sends (`n == limit && limit > 0`), or one inside a bool helper the branch calls; a call of a helper or closure that sends counts as a send of the caller, and the bound may be established at any level of that chain; forwarders pass on a limit derived from `limit`. " +
			"S-route — in shard (type and shard-list field found by role) the index expression of every routing read of the shard list - also when the read sits in an accessor helper, then per call of the accessor - is rendered symbolically, through the helpers of the package it calls, as a term over REF (one blob.Ref) and N (len of the shard list): every read must render (a term that reads anything else is reported on the helper it occurs in), all reads must render to the SAME term (today (Ref.Sum32(REF)%N)), the routed shard is used with that same ref (followed to the callers when a helper returns it), and a map-routed read (batchedShards) files each ref under the term of that ref and hands each shard exactly the list filed under its own key. " +
			"O-tomb — overlay (type, upper/lower/tombstone fields and the tombstone predicate found by role; entry points are the interface methods, sites looked for in their effective bodies): a nil-error ReceiveBlob implies upper.ReceiveBlob succeeded and, when a tombstone store exists, the tombstone of the same ref was deleted successfully; a nil-error RemoveBlobs implies a committed batch that Sets every ref; Fetch, StatBlobs and EnumerateBlobs yield only under isDeleted == false for the ref yielded; isDeleted answers true only on a successful Get of the ref's key; all tombstone keys are Ref.String() of the ref. " +
			"M-dedup — every enumerator instance that sends on dest and whose effective body drives blob.ChanPeekers (today blobserver.mergedEnumerate): the discard predicate - a literal, a named function or a method, comparing the peeked ref with a remembered ref held in a captured variable, a struct field or passed as a parameter - evaluated symbolically for ref <, ==, > last, means ref <= last (and false before anything was sent), Take() happens only under that predicate being true for the peeked ref of the same peeker, the filter precedes the selection of the candidate from the same peeker in every iteration (lifted to a common function when one of the two sits in a helper), and the remembered ref (variable, field or loop-carried value) is assigned the sent ref in the sending iteration. " +
			"M-lowest — in the same instances the candidate variable the sent value is read from (followed into the helper that returns it) is replaced only on the true edge of Less(new candidate, current lowest). " +
			"E-sorted — a leaf enumerator of the C01 backends that does not iterate a sorted.KeyValue (memory, files) sorts the very slice it ranges over for its sends, before the sends: a sorting call on that slice precedes the send on every path, directly, in a helper that sorts its parameter on every path, in a helper every return of which returns the slice sorted, or - when the send loop lives in a helper - at every call of that helper. " +
			"E-refill — filtering re-enumerators, computed over every dest-owning function of every implementer of BlobEnumerator (today: overlay only): a loop that starts a sub-enumeration on a fresh channel (directly, through a literal it starts, or through a named helper it calls/starts with channel, cursor and limit as arguments), drains that channel in a nested receive loop that sends on dest on some iterations only, and goes round again. The integer variables of the round are classified by how they evolve, not by name or form (send counter: 0 before the loop and +1 exactly in the blocks entered when an element was sent on dest, or the mirror-image budget that starts at limit and is decremented there; per-round receive counter: 0 at the start of each round and +1 once per iteration of the receive loop; registers and captured variables alike), and the code before and after the receive loop is then evaluated in every world with limit 1..6, 0..limit sent before the round, R requested, 0..R received, 0..received sent, following both edges of every branch that cannot be evaluated. Decided per refill loop: (request) every round asks for at least 1 and at most limit-sent elements; (exit) every return that can report success lies only in worlds where the page is full or this round received fewer than this round asked for; (progress) the loop goes round again only in worlds where this round received something; (cursor) on every path to the next round the cursor passed to the sub-enumeration is Ref.String() of a variable that every iteration of the receive loop overwrites with the received ref (last received, not last sent). The receive loop may have been moved into a helper the refill loop calls with the round's channel and dest (`seen, n, last := h(ch, dest)`, or with the running send counter passed in and handed back): the helper's own receive loop must then have the shape above, each of its results is classified by how it evolves in that loop (elements received, elements sent, counter parameter plus elements sent, last ref received or its String()), the call stands for the receive loop, and the caller's send counter is the variable to which every way round the refill loop adds the round's sends. Likewise the round may be started by a named helper that is handed cursor and limit and either is handed the channel or makes and returns it. Shapes that cannot be followed (elements received through a peeker or through a helper that reports its counts other than as results, receive loop left by a success return or break, cursor assigned at several places) are reported undecided. " +
			"S-sub-bound / S-sub-neg / S-sub-forward — the ranged-fetch clause (a ranged fetch returns exactly the requested sub-range, never bytes beyond the blob), over every declared SubFetch method of every implementer of blob.SubFetcher (exhaustive by interface; promoted methods are the embedded implementer's; today memory, files(+localdisk), diskpacked, blobpacked, proxycache, and outside the quantifier s3, gcs, azure), each followed into the module functions it hands offset/length to. Integer values are read as linear forms over the leaves offset, length, size (the index-row field that the type's own Fetch reports as the blob's size, of a row looked up with the ref; or the size result of Fetch(ref)) and opaque leaves, integer conversions being transparent, so `a > s-b` and `a+b > s` are the same guard. S-sub-bound, per reader-building site (io.NewSectionReader, io.LimitReader + Seek(offset, io.SeekStart)/io.CopyN(_, r, offset), a SubFetch call on another store, and every success return that hands out a reader built by none of these): the position is offset (plus, for a container larger than the blob — diskpacked's pack file, blobpacked's zip — a base taken from the index row); where the position has such a base the length operand must, on every path (phi edges and helper returns followed), be either size-offset, or length itself on a path dominated by a guard whose leaf set contains offset, length and size and whose sign says offset+length <= size — a guard relating length to size without the offset is reported as 'range cap ignores the offset', a capped value without the offset as such; where the object is the blob itself (memory's slice looked up by ref, files' file opened by blobPath(ref), a Fetch(ref) result) its end bounds the read and only 'positioned at offset on every path unless offset == 0' and 'limited by a value derived from length' are required; sites reachable only with a negative offset/length (the whole-blob mode of a shared fetch helper) are discharged by reference to S-sub-neg; a success return that hands out a reader depending on neither offset nor length is a violation. S-sub-neg, per implementer: every such site is dominated — in its own function, in a caller on the chain from SubFetch, or through the nil error of a helper all of whose success returns are so dominated — by offset >= 0 and length >= 0, and the rejecting edge of each guard leads to a return of blob.ErrNegativeSubFetch; pure forwarders discharge by contract. S-sub-forward, per SubFetch call whose position has no container base: ref, offset and length are passed on unchanged (identity for the ref, the linear form exactly `offset` / `length`); and every store field SubFetch reads from is one the type's Fetch reads from. Implementers outside the C01 quantifier (s3, gcs, azure: the range is served by a remote API) are checked at dependence level only (ref, offset and length all reach calls that leave the module; those calls lie behind the non-negative tests) and a failure there is recorded as a note, not as a violation (today: azure's SubFetch passes a negative length on to Client.GetPartial, which then returns the rest of the object instead of blob.ErrNegativeSubFetch). All arithmetic claims are at leaf-set and sign level: no overflow (offset+length wrapping), no value ranges. " +
			"R-refs-intact — the clauses 'after removal it is absent' and 'stat reports exactly the blobs present' for every supported composition: RemoveBlobs(ctx, []blob.Ref) and StatBlobs(ctx, []blob.Ref, fn) receive a list that belongs to the caller, and wrappers hand the very same slice to several sub-stores one after the other (overlay: upper.RemoveBlobs(blobs), then a tombstone per element of blobs) or at the same time (proxycache: cache and origin; replica, union: every replica/subset) — these callers are computed on every run from the interface call sites of the module (who reads the list again after the call, who starts several store calls on one captured list) and recorded as a note. Instance set: every declared RemoveBlobs/StatBlobs method of every implementer of blobserver.BlobRemover/BlobStatter (exhaustive by interface; implementers outside the C01 quantifier — cloud back ends, client, sync handler — are analysed the same way but a finding there is a note, not a violation) plus, transitively, every module function or function literal that is handed the list, one obligation per (function, list parameter). Decided per obligation: no value that may share the backing array of the list — the parameter, re-slices, conversions, phis, local and captured variables (flow-sensitively where a unique store reaches the load), append results that may have grown in place (not: append onto a full slice expression s[:n:n]), results of helpers that return such a value, function parameters resolved to the literals every static caller passes — is written: no store to an element or to a field of an element, no append onto a re-slice (which grows over the following elements), no copy/clear into it, no sort.Slice/SliceStable/Sort/Stable or slices.Sort*/Reverse (in-place permutation: a sibling store iterating the same list concurrently sees refs twice and misses others), no slices.Delete/Compact/Insert/Replace, directly or in a callee (summarised as 'may write the array of parameter i', with the kind of write). append onto the list itself writes only behind its end and is a violation only when some caller passes a prefix x[:n] of a longer list (none today). Copies made in the function (slices.Clone(list), append([]T(nil), list...)) are own arrays: writing them is not a finding, and a helper that is only ever handed such copies carries no obligation. A list stored into a field, map, channel or global, passed to an unknown external function, to an interface method other than RemoveBlobs/StatBlobs or to a function value that cannot be resolved, or an element address that escapes, is reported undecided, never passed. " +
			"R-refs-cover — for the C01 back ends (and the helpers they hand the list to: StatBlobsParallelHelper, shard.batchedShards), per (function, list parameter): (a) every loop that indexes the list with a loop-variant index is the loop from 0 to len(list)-1 over the whole list (range form or three-clause form; the bound is len of the whole list), and no path from the start of an iteration to the next iteration avoids every use of the current element (a call that receives it or a value computed from it, a literal that captures it, a map lookup/update with it, a store, a send): a path that skips the element under a condition that does not depend on it is a violation, a skip under a comparison on the element without any call or lookup is undecided; (b) no part of the list (list[a:b], or a list filtered in place) is read, handed on or returned — reported undecided, since the rest may or may not be handled elsewhere; (c) every return that may report success (error operand not known non-nil, per incoming phi edge, not behind len(list) == 0) lies behind a point where the whole list (or an unedited copy of it) was handed to a sub-store's RemoveBlobs/StatBlobs or to a helper that itself satisfies this rule, or behind a loop of kind (a) — such a point inside a loop over sub-stores counts at that loop's header (the sub-store lists are assumed non-empty), inside a function literal it counts where the literal is run or handed to a call, provided every return of the literal lies behind it; a success return inside the loop over the list (return where continue was meant) is undecided. " +
			"NOT decided: for the R-refs rules: which sub-store is the authoritative one (a wrapper that hands the whole list to its cache and only a filtered list to its origin satisfies R-refs-cover), whether a list built from the parameter by conditional appends (overlay's exists/lowerBlobs, blobpacked's packed/unpacked/trySmall, proxycache's need set, shard's buckets beyond S-route) drops only refs that need no handling, loops left early by break (StatBlobsParallelHelper on cancellation) and whether an error is reported then, chunked forwarding (list[:n] then list[n:]: reported undecided), corruption of a copy of the list that is afterwards used as if it were the list, writes through reflect/unsafe, callers outside the module; for the S-sub rules: that the bytes returned equal bytes[offset:min(offset+length,size)] (needs execution), integer overflow of offset+length, that the index row's offset/size are right, that offset > size is rejected (ErrOutOfRangeOffsetSubFetch), the order and conditions under which a wrapper tries its stores, the error a failed Seek/CopyN produces, io.LimitedReader/SectionReader values built as struct literals (reported undecided), what a remote range API returns; for E-refill: a refill round whose helper-extracted receive loop hands its counters back other than as results (through a pointer, a captured variable) or whose round-starting helper has several call sites (reported undecided), that the sub-enumeration's error is examined before exhaustion is concluded, that the filter itself is right (O-tomb), enumerating pagers that are not enumerators (blobserver.EnumerateAllFrom), and non-refilling filters; byte-for-byte equality of fetched data, size correctness, that a sorted.KeyValue iterator yields ascending keys (C10) or that the comparator used by a sort call is the blobref text order, that the bypass conditions around the cursor guard (first-iteration flags, after != \"\") are right, cursor semantics of cloud back ends (s3, gcs, azure, mongo, remote: E-close only), duplicate-receive no-op, any statement about histories, compositions or paging completeness. Those need execution.",
		RuleDocs: map[string]string{
			"E-close":       "every declared EnumerateBlobs/StreamBlobs method (exhaustive over implementers) + every static callee that receives dest: dest is closed exactly once on every path to every non-panic exit (close, defer, literal that closes, or delegation to a checked callee)",
			"E-cursor":      "enumerators of the C01 backends + index + the merged-enumerate helpers, each with its effective body: leaf: each send (or, for a send in a helper/closure, every call of it) is skipped in-iteration on the key<=cursor (or key==cursor after Find(cursor)) edge of a comparison - the branch's own or one inside the bool helper it calls - against a value built only from `after`; merge: cursor forwarded to all sub-enumerations (also those started by a named helper); forwarder: cursor argument built only from `after`",
			"E-limit":       "same instance set: leaf/merge: a counter-vs-limit comparison (the branch's own, one known on entry of the stopping branch, or one inside the bool helper it calls) that holds on an edge reaching no send, in the send's loop, polarity count>=limit, counter updated on the send path; a call of a sending helper/closure is a send of the caller and the bound may hold at any level; forwarder: limit argument derived from `limit`",
			"S-route":       "shard (type and shard-list field by role): every routing read of the shard list renders, through the package helpers it calls, to one and the same term over REF and N=len(shards); the routed shard is used with that ref (callers of helpers that return it included); a map-routed read files refs under the term of the same ref and pairs shards[k] with m[k]",
			"O-tomb":        "overlay (type, fields, tombstone predicate by role; effective bodies of the interface methods): nil-error ReceiveBlob dominated by upper.ReceiveBlob ok and (deleted!=nil => deleted.Delete(ref) ok); nil-error RemoveBlobs = CommitBatch of a batch that Sets each ref; reads gated by isDeleted==false; isDeleted true only on Get ok; key agreement Ref.String()",
			"M-dedup":       "every instance that merges through blob.ChanPeeker (mergedEnumerate), effective body: discard predicate (literal, function or method) means ref <= lastSent (evaluated symbolically); Take only under predicate true on the same peeker; filter before candidate selection; lastSent recorded in the sending iteration",
			"E-sorted":      "leaf enumerators of the C01 backends whose elements do not come from a sorted.KeyValue iterator (memory: map keys, files: directory listing): the slice ranged over for the sends is sorted before the send on every path - by a sort/slices call, a helper that sorts its parameter, a helper that returns it sorted, or at every call of the helper holding the send loop",
			"M-lowest":      "same instances as M-dedup, candidate variable followed into the helper that returns it: every Ref.Less-controlled edge into the assignment of the merge candidate is the true edge of Less(candidate, current lowest)",
			"S-sub-bound":   "every declared SubFetch of every blob.SubFetcher implementer + the module functions it hands offset/length to; per reader-building site (NewSectionReader, LimitReader+Seek/CopyN, SubFetch into a container, whole-object success returns): positioned at offset (+ index-row base for containers); container: length operand on every path is size-offset or length under a dominating guard with leaf set {offset,length,size} and sign offset+length<=size; per-blob object: positioned on every path unless offset==0 and limited by a length-derived value; cloud back ends: dependence only",
			"S-sub-neg":     "per SubFetch implementer: every reader-building site is dominated (own function, caller chain, or nil error of a helper) by offset>=0 and length>=0, and each rejecting edge returns blob.ErrNegativeSubFetch; pure forwarders by contract; cloud back ends noted, not enforced",
			"S-sub-forward": "per SubFetch call without a container base: ref identical, offset and length linear forms exactly `offset` / `length`; per wrapper: store fields read by SubFetch are a subset of those read by the type's Fetch",
			"R-refs-intact": "every declared RemoveBlobs/StatBlobs method of every implementer of BlobRemover/BlobStatter (exhaustive; outside the C01 quantifier: noted, not enforced) + every module function/literal handed the list: no value that may share the list's backing array (re-slices, conversions, variables, captures, in-place append results, helper results) is written by an element store, append onto a re-slice, copy, clear, sort.*/slices.* in-place edit, directly or in a callee; justified by the computed set of callers that reuse or share the list (overlay, proxycache, replica, union, handlers); escapes are undecided",
			"R-refs-cover":  "C01 back ends' RemoveBlobs/StatBlobs + helpers handed the list: loops over the list run 0..len-1 over the whole list and cannot reach the next element without using the current one; no part of the list is read/handed on/returned (undecided); every maybe-success return lies behind a hand-over of the whole list to a sub-store/covering helper or behind such a loop (not behind len==0)",
			"E-refill":      "every loop of a dest-owning enumerator function (all implementers of BlobEnumerator + dest delegates) that starts a sub-enumeration, drains it in a nested receive loop that sends on dest on some iterations only, and repeats: evaluated in all worlds limit 1..6 x sent-before x requested x received x sent-now: request in [1, limit-sent]; success returns only where page full or received < requested by this round; next round only where received >= 1; next cursor = Ref.String() of the last ref received (overwritten in every receive iteration) on every path to the next round",
		},
		Run:       runC01,
		DesignRef: "DESIGN.md §4 C01",
		Technique: "static analysis over effective bodies (a function with the unexported same-package helpers and literals it calls, parameters bound to arguments, results to return operands, branch facts and success-dominance carried across the call): CFG path typestate (channel closed exactly once, inter-procedural by summaries), in-iteration skip-edge reachability for cursor guards, control dependence of sends on limit comparisons, dominance/err==nil-edge rules for tombstones, symbolic rendering of shard routing index expressions to terms over (ref, shard count) with term agreement across routing reads, symbolic evaluation of the merge's discard predicate, role classification of loop-carried counters (phi webs and captured cells) plus exhaustive small-world evaluation of the refill protocol's branch conditions, linear forms over {offset, length, indexed size} with inter-procedural frames and dominating branch facts for the ranged-fetch bound, may-alias closure of the backing array of a slice parameter (SSA value flow through re-slices, phis, variables, captures, append, helper returns) with per-(function, parameter) write summaries and computed who-reuses-the-list call sites, induction-variable recognition of whole-list loops with per-iteration use paths, must-pass-through of success returns",
		LevelText: "Decides structural necessary conditions only: enumeration channels are always closed exactly once; the named backends' enumerators contain an exclusive cursor guard and a limit bound wired to the send loop; shard routing is one function of the ref; overlay tombstones are written/cleared before success is reported and consulted before yielding; merged enumeration picks the lowest head and suppresses duplicates against the last sent ref; memory and files sort what they range over; a filtering enumerator that refills its page (overlay) asks each round for exactly the missing number, concludes exhaustion only from the round it just ran, repeats only after receiving something, and resumes after the last ref received; every ranged fetch is positioned at the requested offset, is limited by the requested length and, where it reads from a container larger than the blob (diskpacked, blobpacked), caps the length by a guard over offset, length and the indexed size, rejects negative ranges with blob.ErrNegativeSubFetch before any reader is built, and wrappers pass the range on unchanged (leaf-set and sign level, overflow not modelled); no store, wrapper or helper writes the ref list its caller passed to RemoveBlobs/StatBlobs (which the caller, or a sibling store running concurrently, still uses), loops over that list visit all of it and look at every element, and success is not reported before the whole list was handed on or walked. All of this is decided over effective bodies (helpers, literals and methods a function calls), with unexported names resolved by role, so that extracting, inlining or renaming helpers does not change the verdict. Does not decide which sub-store must receive the whole list or whether refs filtered out of a derived list needed no handling. Does not decide map semantics for any history, byte equality, sortedness of leaf output, paging completeness or compositions (level 'other').",
	})
}

func runC01(p *Program, r *Reporter) {
	t0 := time.Now()
	defer func() { r.Note("C01 rules ran in %.2fs after loading", time.Since(t0).Seconds()) }()
	c01EffCache = map[*ssa.Function]*c01Eff{} // per run: keyed by functions of the program being checked
	defer func() { c01EffCache = map[*ssa.Function]*c01Eff{} }()
	ruleEClose(p, r, "E-close")
	insts := c01ScopeInstances(p)
	c01RuleCursor(p, r, insts)
	c01RuleLimit(p, r, insts)
	c01RuleSorted(p, r, insts)
	c01RuleRefill(p, r)
	c01RuleSubFetch(p, r)
	c01RuleSRoute(p, r)
	c01RuleOTomb(p, r, insts)
	c01RuleMDedup(p, r, insts)
	c01RuleMLowest(p, r, insts)
	c01RuleRefs(p, r)
}

// ===========================================================================
// Enumerator discovery (by role: implementers of the two interfaces)

type c01Enum struct {
	Fn    *ssa.Function
	Kind  string // "EnumerateBlobs" or "StreamBlobs"
	Dest  *ssa.Parameter
	After *ssa.Parameter // EnumerateBlobs only
	Limit *ssa.Parameter // EnumerateBlobs only
}

// c01DeclaredMethod returns the method name declared on n itself (value or
// pointer receiver), nil when it is only promoted from an embedded field.
func c01DeclaredMethod(p *Program, n *types.Named, name string) *ssa.Function {
	for i := 0; i < n.NumMethods(); i++ {
		if m := n.Method(i); m.Name() == name {
			return p.SSA.FuncValue(m)
		}
	}
	return nil
}

func c01IsSendChan(t types.Type) bool {
	ch, ok := t.Underlying().(*types.Chan)
	return ok && ch.Dir() == types.SendOnly
}

func c01IsBasic(t types.Type, k types.BasicKind) bool {
	b, ok := t.Underlying().(*types.Basic)
	return ok && b.Kind() == k
}

// c01FamilyIdx finds, in a signature, the positions of a send-only channel
// parameter, the first string parameter after it and the first int parameter
// after that (the EnumerateBlobs shape). Indices are into sig.Params().
func c01FamilyIdx(sig *types.Signature) (ch, after, limit int, ok bool) {
	ch, after, limit = -1, -1, -1
	ps := sig.Params()
	for i := 0; i < ps.Len(); i++ {
		t := ps.At(i).Type()
		switch {
		case ch < 0 && c01IsSendChan(t):
			ch = i
		case ch >= 0 && after < 0 && c01IsBasic(t, types.String):
			after = i
		case after >= 0 && limit < 0 && c01IsBasic(t, types.Int):
			limit = i
		}
	}
	return ch, after, limit, ch >= 0 && after >= 0 && limit >= 0
}

func c01Enumerators(p *Program) []c01Enum {
	var out []c01Enum
	for _, spec := range [][2]string{{"BlobEnumerator", "EnumerateBlobs"}, {"BlobStreamer", "StreamBlobs"}} {
		it := p.Iface("pkg/blobserver", spec[0])
		for _, n := range p.Implementers(it, false) {
			fn := c01DeclaredMethod(p, n, spec[1])
			if fn == nil || fn.Blocks == nil {
				continue // promoted from an embedded implementer, which is itself enumerated
			}
			e := c01Enum{Fn: fn, Kind: spec[1]}
			off := len(fn.Params) - fn.Signature.Params().Len() // 1 for the receiver
			if spec[1] == "EnumerateBlobs" {
				ci, ai, li, ok := c01FamilyIdx(fn.Signature)
				if !ok {
					brokenf("anchor unresolved: %s does not have the (chan<-, string, int) shape", FuncKey(fn))
				}
				e.Dest, e.After, e.Limit = fn.Params[ci+off], fn.Params[ai+off], fn.Params[li+off]
			} else {
				for _, prm := range fn.Params[off:] {
					if c01IsSendChan(prm.Type()) {
						e.Dest = prm
						break
					}
				}
				if e.Dest == nil {
					brokenf("anchor unresolved: %s has no send-only channel parameter", FuncKey(fn))
				}
			}
			out = append(out, e)
		}
	}
	sort.Slice(out, func(i, j int) bool { return FuncKey(out[i].Fn) < FuncKey(out[j].Fn) })
	return out
}

// c01Same returns a predicate "v denotes root" that works in root's function
// and in every literal nested in it (spills and captures are seen through).
func c01Same(root ssa.Value) func(ssa.Value) bool {
	return func(v ssa.Value) bool {
		return v != nil && (v == root || originValue(v) == root)
	}
}

// ===========================================================================
// E-close (shared with C13 as G-enum)

type c01CloseSum struct {
	done      bool
	events    int      // close / delegation / undecided events anywhere in the function
	leaks     []string // exits reached with the channel still open
	doubles   []string // events reached with the channel already closed
	undecided []string
	leakPos   token.Pos
	usedHint  bool // an exception's assumption pruned a branch
}

func (s *c01CloseSum) always() bool {
	return s.done && s.events > 0 && len(s.leaks) == 0 && len(s.doubles) == 0 && len(s.undecided) == 0
}
func (s *c01CloseSum) never() bool { return s.done && s.events == 0 }

type c01CloseKey struct {
	fn   *ssa.Function
	root ssa.Value
}

type c01Closer struct {
	p         *Program
	memo      map[c01CloseKey]*c01CloseSum
	delegates []c01CloseKey // static callees that received the channel and act on it
	seenDeleg map[*ssa.Function]bool
	enumIface *types.Interface
	strmIface *types.Interface
	assume    map[*ssa.Function]func(ssa.Value) (bool, bool)
}

const (
	c01EvNone = iota
	c01EvClose
	c01EvUndecided
)

func (cl *c01Closer) line(pos token.Pos) int { return cl.p.Fset.Position(pos).Line }

// event classifies one instruction with respect to the channel.
func (cl *c01Closer) event(in ssa.Instruction, root ssa.Value) (int, string) {
	is := c01Same(root)
	ci, ok := in.(ssa.CallInstruction)
	if !ok {
		return c01EvNone, ""
	}
	c := CallSite{in.Parent(), ci}
	cc := c.Common()
	if b, ok := cc.Value.(*ssa.Builtin); ok {
		if b.Name() == "close" && len(cc.Args) == 1 && is(cc.Args[0]) {
			if c.IsDefer() {
				return c01EvClose, "defer close"
			}
			return c01EvClose, "close"
		}
		return c01EvNone, ""
	}
	// the channel handed over as an argument
	for i, a := range c.Args() {
		if !is(a) {
			continue
		}
		if cc.IsInvoke() {
			if (cc.Method.Name() == "EnumerateBlobs" && types.Implements(cc.Value.Type(), cl.enumIface)) ||
				(cc.Method.Name() == "StreamBlobs" && types.Implements(cc.Value.Type(), cl.strmIface)) {
				return c01EvClose, "delegated to " + c.CalleeKey() + " (every implementer is checked)"
			}
			return c01EvUndecided, fmt.Sprintf("channel passed to interface method %s at line %d, whose implementations are not in the instance set", c.CalleeKey(), cl.line(c.Pos()))
		}
		callee := c.Callee()
		if callee == nil {
			return c01EvUndecided, fmt.Sprintf("channel passed to a dynamic call at line %d", cl.line(c.Pos()))
		}
		if callee.Blocks == nil || i >= len(callee.Params) || !(InModule(callee) || callee.Parent() != nil) {
			return c01EvUndecided, fmt.Sprintf("channel passed to %s (no source) at line %d", c.CalleeKey(), cl.line(c.Pos()))
		}
		sum := cl.analyse(callee, callee.Params[i])
		if !sum.done {
			return c01EvUndecided, fmt.Sprintf("recursive hand-over of the channel through %s", FuncKey(callee))
		}
		if sum.never() {
			return c01EvNone, ""
		}
		if callee.Parent() == nil && !cl.seenDeleg[callee] {
			cl.seenDeleg[callee] = true
			cl.delegates = append(cl.delegates, c01CloseKey{callee, callee.Params[i]})
		}
		// the callee is reported on its own; here the obligation has moved
		return c01EvClose, "delegated to " + FuncKey(callee)
	}
	// literals: deferred, spawned or called here (they run: the obligation can move into
	// them); literals passed as callbacks to other calls must not touch the channel's state
	var lits []*ssa.Function
	transfer := false
	if l := ClosureOf(c); l != nil {
		lits, transfer = []*ssa.Function{l}, true
	} else if isSpawner(c) {
		lits, transfer = FuncArgClosures(c), true
	} else {
		lits = FuncArgClosures(c)
	}
	for _, l := range lits {
		sum := cl.analyse(l, root)
		switch {
		case !sum.done:
			return c01EvUndecided, "recursive literal"
		case sum.never():
			continue
		case sum.always() && transfer:
			return c01EvClose, "literal " + FuncKey(l) + " closes on all its paths"
		default:
			return c01EvUndecided, fmt.Sprintf("function literal %s (line %d) closes the channel on some paths only, or is a callback that closes it", FuncKey(l), cl.line(l.Pos()))
		}
	}
	return c01EvNone, ""
}

// escapes reports uses of the channel the typestate cannot follow.
func (cl *c01Closer) escapes(fn *ssa.Function, root ssa.Value) []string {
	is := c01Same(root)
	var out []string
	for _, b := range fn.Blocks {
		for _, in := range b.Instrs {
			switch x := in.(type) {
			case *ssa.Store:
				if !is(x.Val) {
					continue
				}
				if _, isVar := x.Addr.(*ssa.Alloc); isVar {
					continue // parameter spill / local variable
				}
				fa, ok := x.Addr.(*ssa.FieldAddr)
				carrier, isLocal := (ssa.Value)(nil), false
				if ok {
					carrier = fa.X
					_, isLocal = fa.X.(*ssa.Alloc)
				}
				if !isLocal {
					out = append(out, fmt.Sprintf("channel stored to a non-local location at line %d", cl.line(x.Pos())))
					continue
				}
				// a local struct carrying the channel: every function it is passed to must not close channel fields
				for _, c := range CallsIn(fn, false) {
					for ai, a := range c.Args() {
						ld, isLoad := a.(*ssa.UnOp)
						if !(a == carrier || isLoad && ld.Op == token.MUL && ld.X == carrier) {
							continue
						}
						callee := c.Callee()
						if callee == nil || callee.Blocks == nil || ai >= len(callee.Params) {
							out = append(out, fmt.Sprintf("struct carrying the channel passed to an unresolvable call at line %d", cl.line(c.Pos())))
							continue
						}
						if c01ClosesCarriedChan(callee, callee.Params[ai]) {
							out = append(out, fmt.Sprintf("%s closes a channel field of the struct that carries dest; ownership through struct fields is not followed", FuncKey(callee)))
						}
					}
				}
			case *ssa.Send:
				if is(x.X) {
					out = append(out, fmt.Sprintf("channel itself sent over another channel at line %d", cl.line(x.Pos())))
				}
			case *ssa.Return:
				for _, rv := range x.Results {
					if is(rv) {
						out = append(out, "channel returned to the caller")
					}
				}
			}
		}
	}
	return out
}

// c01ClosesCarriedChan: does fn (deep) close a channel read from a field of prm?
func c01ClosesCarriedChan(fn *ssa.Function, prm *ssa.Parameter) bool {
	found := false
	for _, c := range CallsIn(fn, true) {
		b, ok := c.Common().Value.(*ssa.Builtin)
		if !ok || b.Name() != "close" {
			continue
		}
		if DependsOn(c.Common().Args[0], func(v ssa.Value) bool { return v == ssa.Value(prm) }) {
			found = true
		}
	}
	return found
}

// analyse computes the close summary of fn for the channel root (a parameter
// of fn, or - for literals - a value of an enclosing function).
func (cl *c01Closer) analyse(fn *ssa.Function, root ssa.Value) *c01CloseSum {
	key := c01CloseKey{fn, root}
	if s, ok := cl.memo[key]; ok {
		return s
	}
	sum := &c01CloseSum{}
	cl.memo[key] = sum
	if len(fn.Blocks) == 0 {
		sum.done = true
		return sum
	}
	// classify every instruction once
	type ev struct {
		kind int
		what string
	}
	evs := map[ssa.Instruction]ev{}
	for _, b := range fn.Blocks {
		if b == fn.Recover {
			continue
		}
		for _, in := range b.Instrs {
			k, w := cl.event(in, root)
			if k != c01EvNone {
				evs[in] = ev{k, w}
				sum.events++
				if k == c01EvUndecided {
					sum.undecided = append(sum.undecided, w)
				}
			}
		}
	}
	if esc := cl.escapes(fn, root); len(esc) > 0 {
		sum.events += len(esc)
		sum.undecided = append(sum.undecided, esc...)
	}
	// typestate over (block, closed?) with witness parents
	type node struct {
		b      *ssa.BasicBlock
		closed bool
	}
	parent := map[node]node{}
	seen := map[node]bool{}
	start := node{fn.Blocks[0], false}
	seen[start] = true
	work := []node{start}
	pathOf := func(n node) string {
		var bs []*ssa.BasicBlock
		for cur := n; ; {
			bs = append(bs, cur.b)
			p, ok := parent[cur]
			if !ok {
				break
			}
			cur = p
		}
		for i, j := 0, len(bs)-1; i < j; i, j = i+1, j-1 {
			bs[i], bs[j] = bs[j], bs[i]
		}
		return blockNames(bs)
	}
	assume := cl.assume[fn]
	dblSeen := map[ssa.Instruction]bool{}
	for len(work) > 0 {
		n := work[len(work)-1]
		work = work[:len(work)-1]
		closed := n.closed
		var succs []*ssa.BasicBlock
		stop := false
		for _, in := range n.b.Instrs {
			if e, ok := evs[in]; ok && e.kind == c01EvClose {
				if closed && !dblSeen[in] {
					dblSeen[in] = true
					sum.doubles = append(sum.doubles, fmt.Sprintf("%s at line %d is reached with the channel already closed (or a close already deferred) via blocks %s: close of closed channel panics", e.what, cl.line(in.Pos()), pathOf(n)))
				}
				closed = true
			}
			switch t := in.(type) {
			case *ssa.Return:
				if !closed {
					if sum.leakPos == token.NoPos {
						sum.leakPos = t.Pos()
					}
					sum.leaks = append(sum.leaks, fmt.Sprintf("return at line %d reached via blocks %s without closing the channel", cl.line(t.Pos()), pathOf(n)))
				}
				stop = true
			case *ssa.Panic:
				stop = true
			case *ssa.If:
				if assume != nil {
					if known, val := assume(t.Cond); known {
						sum.usedHint = true
						if val {
							succs = []*ssa.BasicBlock{n.b.Succs[0]}
						} else {
							succs = []*ssa.BasicBlock{n.b.Succs[1]}
						}
					}
				}
			}
		}
		if stop {
			continue
		}
		if succs == nil {
			succs = n.b.Succs
		}
		for _, s := range succs {
			nn := node{s, closed}
			if !seen[nn] {
				seen[nn] = true
				parent[nn] = n
				work = append(work, nn)
			}
		}
	}
	sum.done = true
	return sum
}

// c01CloseException: one package + one reason; the reason is re-checked
// structurally on every run, for the very field the pruned branch tests. The
// enumerator and the field are found by role (an enumerator method of the
// package that branches on `recv.field == nil`), not by name.
type c01CloseException struct {
	pkg      string // the package whose enumerators may rely on it
	ctorCall string // interface method whose successful result is the only thing ever stored in the field
	reason   string
}

var c01CloseExceptions = []c01CloseException{
	{
		pkg: "pkg/blobserver/cond", ctorCall: "GetStorage",
		reason: "the exit taken when a storage field of the receiver is nil is infeasible: every value of the receiver's type is built by a function that stores Loader.GetStorage's result into that field and returns the object only on that call's err == nil edge",
	},
}

// c01NilTestedField: cond is `recv.f == nil` / `recv.f != nil` for a field f of
// the receiver; returns the field index and whether the condition is true when
// the field is non-nil.
func c01NilTestedField(cond ssa.Value, recv *ssa.Parameter) (field int, trueWhenSet, ok bool) {
	bo, isBo := cond.(*ssa.BinOp)
	if !isBo || (bo.Op != token.EQL && bo.Op != token.NEQ) {
		return 0, false, false
	}
	var other ssa.Value
	if IsNilConst(bo.Y) {
		other = bo.X
	} else if IsNilConst(bo.X) {
		other = bo.Y
	} else {
		return 0, false, false
	}
	ld, isLd := originValue(other).(*ssa.UnOp)
	if !isLd || ld.Op != token.MUL {
		return 0, false, false
	}
	fa, isFA := ld.X.(*ssa.FieldAddr)
	if !isFA || originValue(fa.X) != ssa.Value(recv) {
		return 0, false, false
	}
	return fa.Field, bo.Op == token.NEQ, true
}

// c01FieldAlwaysSet re-checks the exception's reason: every allocation of the
// struct happens in a function that stores result 0 of an invoke of ctorCall
// into the field and returns the object only where that call succeeded; there
// is no other store to the field anywhere in the module.
func c01FieldAlwaysSet(p *Program, named *types.Named, fieldIdx int, ctorCall string) (bool, string) {
	typName := named.Obj().Name()
	fldName := fieldName(named, fieldIdx)
	ex := struct{ typ, field, ctorCall string }{typName, fldName, ctorCall}
	isField := func(fa *ssa.FieldAddr) bool {
		n := NamedOf(fa.X.Type())
		return n != nil && n.Obj() == named.Obj() && fa.Field == fieldIdx
	}
	allocs := 0
	for _, fn := range p.AllFuncs {
		var objs []*ssa.Alloc
		for _, b := range fn.Blocks {
			for _, in := range b.Instrs {
				switch x := in.(type) {
				case *ssa.Alloc:
					if pt, ok := x.Type().(*types.Pointer); ok {
						if n, ok := pt.Elem().(*types.Named); ok && n.Obj() == named.Obj() {
							objs = append(objs, x)
						}
					}
				case *ssa.Store:
					if fa, ok := x.Addr.(*ssa.FieldAddr); ok && isField(fa) {
						call, _ := originValue(x.Val).(*ssa.Extract)
						var cv *ssa.Call
						if call != nil && call.Index == 0 {
							cv, _ = call.Tuple.(*ssa.Call)
						}
						if cv == nil || !cv.Call.IsInvoke() || cv.Call.Method.Name() != ex.ctorCall {
							return false, fmt.Sprintf("%s stores something other than a %s result into %s.%s", FuncKey(fn), ex.ctorCall, ex.typ, ex.field)
						}
					}
				}
			}
		}
		for _, obj := range objs {
			allocs++
			// the call whose result is stored into obj.field
			var ctor *ssa.Call
			for _, b := range fn.Blocks {
				for _, in := range b.Instrs {
					st, ok := in.(*ssa.Store)
					if !ok {
						continue
					}
					fa, ok := st.Addr.(*ssa.FieldAddr)
					if !ok || !isField(fa) || originValue(fa.X) != ssa.Value(obj) && fa.X != ssa.Value(obj) {
						continue
					}
					if xt, ok := originValue(st.Val).(*ssa.Extract); ok {
						ctor, _ = xt.Tuple.(*ssa.Call)
					}
				}
			}
			for _, ri := range Returns(fn) {
				for _, rv := range ri.Results {
					if originValue(rv) != ssa.Value(obj) {
						continue
					}
					if ctor == nil {
						return false, fmt.Sprintf("%s returns a %s whose .%s is never set", FuncKey(fn), ex.typ, ex.field)
					}
					if ok, why := SuccessDominates(ctor, ri.Ret); !ok {
						return false, fmt.Sprintf("%s returns a %s on a path where %s did not succeed (%s)", FuncKey(fn), ex.typ, ex.ctorCall, why)
					}
				}
			}
		}
	}
	if allocs == 0 {
		return false, "no allocation site of " + ex.typ + " found"
	}
	return true, ""
}

func ruleEClose(p *Program, r *Reporter, as string) {
	cl := &c01Closer{
		p: p, memo: map[c01CloseKey]*c01CloseSum{}, seenDeleg: map[*ssa.Function]bool{},
		enumIface: p.Iface("pkg/blobserver", "BlobEnumerator"),
		strmIface: p.Iface("pkg/blobserver", "BlobStreamer"),
		assume:    map[*ssa.Function]func(ssa.Value) (bool, bool){},
	}
	enums := c01Enumerators(p)
	// arm the (structurally re-checked) exceptions
	exNote := map[*ssa.Function]string{}
	for _, ex := range c01CloseExceptions {
		for _, en := range enums {
			fn := en.Fn
			if fn.Pkg == nil || RelPkg(fn.Pkg.Pkg) != ex.pkg || fn.Signature.Recv() == nil || len(fn.Params) == 0 {
				continue
			}
			recv := fn.Params[0]
			named := NamedOf(recv.Type())
			if named == nil {
				continue
			}
			if _, isStruct := named.Underlying().(*types.Struct); !isStruct {
				continue
			}
			// the fields this enumerator tests against nil, each re-checked
			armed := map[int]bool{}
			for _, f := range c01DeepFuncs(fn) {
				for _, blk := range f.Blocks {
					if len(blk.Instrs) == 0 {
						continue
					}
					ifi, isIf := blk.Instrs[len(blk.Instrs)-1].(*ssa.If)
					if !isIf {
						continue
					}
					cond, _ := c01StripNot(ifi.Cond)
					fi, _, ok := c01NilTestedField(cond, recv)
					if !ok {
						continue
					}
					if _, done := armed[fi]; done {
						continue
					}
					good, why := c01FieldAlwaysSet(p, named, fi, ex.ctorCall)
					armed[fi] = good
					if !good {
						exNote[fn] = "exception not applied, its reason does not hold: " + why
					}
				}
			}
			any := false
			for _, g := range armed {
				any = any || g
			}
			if !any {
				continue
			}
			cl.assume[fn] = func(cond ssa.Value) (bool, bool) {
				c, neg := c01StripNot(cond)
				fi, trueWhenSet, ok := c01NilTestedField(c, recv)
				if !ok || !armed[fi] {
					return false, false
				}
				return true, trueWhenSet != neg // the field is set
			}
			if exNote[fn] == "" {
				exNote[fn] = "exception (re-checked): " + ex.reason
			}
		}
	}
	reported := map[*ssa.Function]bool{}
	report := func(fn *ssa.Function, root ssa.Value, role string) {
		if reported[fn] {
			return
		}
		reported[fn] = true
		sum := cl.analyse(fn, root)
		construct := FuncKey(fn) + "#close-dest"
		site := p.Pos(fn.Pos())
		switch {
		case len(sum.undecided) > 0:
			r.Undecided(as, construct, site, role+": "+strings.Join(sum.undecided, "; "))
		case len(sum.leaks) > 0:
			d := fmt.Sprintf("%s: %d exit(s) leave the channel open, so a consumer ranging over it blocks forever: %s", role, len(sum.leaks), strings.Join(c01First(sum.leaks, 3), "; "))
			if n := exNote[fn]; n != "" {
				d += " [" + n + "]"
			}
			r.Violation(as, construct, p.Pos(sum.leakPos), d)
		case len(sum.doubles) > 0:
			r.Violation(as, construct, site, role+": "+strings.Join(c01First(sum.doubles, 3), "; "))
		case sum.events == 0:
			r.Violation(as, construct, site, role+": the channel is never closed nor handed to a function that closes it")
		default:
			d := role + ": channel closed exactly once (close, defer, closing literal or checked delegate) on every path to every non-panic exit"
			if sum.usedHint {
				d += "; " + exNote[fn]
			}
			r.OK(as, construct, site, d)
		}
	}
	for _, e := range enums {
		report(e.Fn, e.Dest, "implements "+e.Kind)
	}
	for i := 0; i < len(cl.delegates); i++ {
		d := cl.delegates[i]
		report(d.fn, d.root, "receives the channel from an enumerator")
	}
	r.Analysed("enumerator_methods", len(enums))
	r.Analysed("close_delegates", len(cl.delegates))
	r.Floor(as, 31) // 35 today; a bound below today's count, so that merging two delegates does not read as "rule matches nothing"
}

func c01First(s []string, n int) []string {
	if len(s) > n {
		return s[:n]
	}
	return s
}

// ===========================================================================
// Shared machinery for E-cursor / E-limit

// c01ScopePkgs: the backends the property names (its quantifier) plus the
// index's own enumerator. Cloud back ends (s3, gcs, azure, mongo, drive,
// remote/client) keep their cursor in a remote API and are covered by E-close only.
var c01ScopePkgs = map[string]bool{
	"pkg/blobserver/memory": true, "pkg/blobserver/files": true, "pkg/blobserver/localdisk": true,
	"pkg/blobserver/diskpacked": true, "pkg/blobserver/blobpacked": true, "pkg/blobserver/encrypt": true,
	"pkg/blobserver/replica": true, "pkg/blobserver/shard": true, "pkg/blobserver/cond": true,
	"pkg/blobserver/overlay": true, "pkg/blobserver/namespace": true, "pkg/blobserver/proxycache": true,
	"pkg/blobserver/union": true, "pkg/index": true,
}

// c01Body is one function whose CFG contains sends on the enumeration channel,
// with role tests for the channel, the cursor and the limit that are valid in
// that function and its literals.
type c01Body struct {
	fn      *ssa.Function
	isDest  func(ssa.Value) bool
	isAfter func(ssa.Value) bool
	isLimit func(ssa.Value) bool
	how     string
	parent  *c01Body // the body whose call hands dest to this helper body (nil otherwise)
	via     CallSite // that call
}

// c01Send is a send on the enumeration channel. A call of a helper that
// (transitively) sends on dest is a send site of the calling body too: such a
// "virtual" send has the call as its instruction, and every send inside the
// helper points to it through up. A guard or bound may be established at any
// level of that chain.
type c01Send struct {
	in      ssa.Instruction // *ssa.Send or *ssa.Select; for a virtual send the call/go/defer of the sending helper
	x       ssa.Value       // value sent (nil for a virtual send)
	body    *c01Body
	virtual bool
	up      []*c01Send // the calls through which the send's helper body is reached
}

type c01FamCall struct {
	c                CallSite
	ch, after, limit ssa.Value
	body             *c01Body // the body the call was found in (nil: a helper of the effective body that does not own dest)
}

type c01Inst struct {
	Root               *ssa.Function
	Dest, After, Limit *ssa.Parameter
	bodies             []*c01Body
	sends              []c01Send    // real sends, in every body
	vsends             []c01Send    // virtual sends: calls of helper bodies that send
	destDelegs         []c01FamCall // family calls that receive dest
	subEnums           []c01FamCall // family calls on another channel
	class              string       // "leaf", "merge", "forwarder", "silent"
}

func c01IsSizedRefChan(t types.Type) bool {
	ch, ok := t.Underlying().(*types.Chan)
	if !ok {
		return false
	}
	return IsNamed(ch.Elem(), "perkeep.org/pkg/blob", "SizedRef")
}

// c01FamilyArgs recognises a call of EnumerateBlobs shape and returns its
// channel, cursor and limit arguments.
func c01FamilyArgs(c CallSite) (fc c01FamCall, ok bool) {
	cc := c.Common()
	sig := cc.Signature()
	if sig == nil {
		return fc, false
	}
	ci, ai, li, ok := c01FamilyIdx(sig)
	if !ok || !c01IsSizedRefChan(sig.Params().At(ci).Type()) {
		return fc, false
	}
	off := 0
	if !cc.IsInvoke() && sig.Recv() != nil {
		off = 1
	}
	if li+off >= len(cc.Args) {
		return fc, false
	}
	return c01FamCall{c: c, ch: cc.Args[ci+off], after: cc.Args[ai+off], limit: cc.Args[li+off]}, true
}

func c01DeepFuncs(fn *ssa.Function) []*ssa.Function {
	out := []*ssa.Function{fn}
	for _, a := range fn.AnonFuncs {
		out = append(out, c01DeepFuncs(a)...)
	}
	return out
}

func c01SendsIn(b *c01Body) []c01Send {
	var out []c01Send
	for _, f := range c01DeepFuncs(b.fn) {
		for _, blk := range f.Blocks {
			for _, in := range blk.Instrs {
				switch x := in.(type) {
				case *ssa.Send:
					if b.isDest(x.Chan) {
						out = append(out, c01Send{in: x, x: x.X, body: b})
					}
				case *ssa.Select:
					for _, st := range x.States {
						if st.Dir == types.SendOnly && b.isDest(st.Chan) {
							out = append(out, c01Send{in: x, x: st.Send, body: b})
						}
					}
				}
			}
		}
	}
	return out
}

// c01CarriedBody follows dest when the enumerator packs (dest, after, limit)
// into a local struct and passes it to a static callee (files.readBlobs): the
// field indices are discovered by data flow, never by name.
func c01CarriedBodies(root *ssa.Function, dest, after, limit *ssa.Parameter) ([]*c01Body, []string) {
	var out []*c01Body
	var undecided []string
	isDest := c01Same(dest)
	for _, blk := range root.Blocks {
		for _, in := range blk.Instrs {
			st, ok := in.(*ssa.Store)
			if !ok || !isDest(st.Val) {
				continue
			}
			fa, ok := st.Addr.(*ssa.FieldAddr)
			if !ok {
				continue
			}
			carrier, ok := fa.X.(*ssa.Alloc)
			if !ok {
				continue
			}
			chIdx, afterIdx, limIdx, limPtr := fa.Field, -1, -1, false
			for _, ref := range *carrier.Referrers() {
				f2, ok := ref.(*ssa.FieldAddr)
				if !ok {
					continue
				}
				for _, r2 := range *f2.Referrers() {
					s2, ok := r2.(*ssa.Store)
					if !ok || s2.Addr != ssa.Value(f2) {
						continue
					}
					v := originValue(s2.Val)
					switch {
					case v == ssa.Value(after):
						afterIdx = f2.Field
					case v == ssa.Value(limit):
						limIdx = f2.Field
					default:
						if al, ok := v.(*ssa.Alloc); ok {
							sts := storesTo(al)
							if len(sts) == 1 && originValue(sts[0].Val) == ssa.Value(limit) {
								limIdx, limPtr = f2.Field, true
							}
						}
					}
				}
			}
			for _, c := range CallsIn(root, false) {
				for ai, a := range c.Args() {
					ld, isLoad := a.(*ssa.UnOp)
					if !(isLoad && ld.Op == token.MUL && ld.X == ssa.Value(carrier)) {
						continue
					}
					g := c.Callee()
					if g == nil || g.Blocks == nil || ai >= len(g.Params) {
						undecided = append(undecided, "struct carrying dest is passed to an unresolvable call")
						continue
					}
					prm := g.Params[ai]
					spills := map[ssa.Value]bool{}
					for _, ref := range *prm.Referrers() {
						if s3, ok := ref.(*ssa.Store); ok && s3.Val == ssa.Value(prm) {
							if al, ok := s3.Addr.(*ssa.Alloc); ok {
								spills[al] = true
							}
						}
					}
					roleField := func(v ssa.Value, idx int) bool {
						if idx < 0 {
							return false
						}
						switch x := v.(type) {
						case *ssa.UnOp:
							if x.Op == token.MUL {
								if f, ok := x.X.(*ssa.FieldAddr); ok && f.Field == idx && spills[f.X] {
									return true
								}
							}
						case *ssa.Field:
							return x.Field == idx && x.X == ssa.Value(prm)
						}
						return false
					}
					// role fields must not be reassigned in the callee
					for _, f := range c01DeepFuncs(g) {
						for _, b2 := range f.Blocks {
							for _, in2 := range b2.Instrs {
								if s4, ok := in2.(*ssa.Store); ok {
									if f4, ok := s4.Addr.(*ssa.FieldAddr); ok && spills[f4.X] && (f4.Field == chIdx || f4.Field == afterIdx || f4.Field == limIdx) {
										undecided = append(undecided, FuncKey(g)+" reassigns a field of the request struct that carries dest/after/limit")
									}
								}
							}
						}
					}
					body := &c01Body{fn: g, how: "via struct passed to " + FuncKey(g)}
					body.isDest = func(v ssa.Value) bool { return roleField(v, chIdx) }
					body.isAfter = func(v ssa.Value) bool { return roleField(v, afterIdx) }
					if limPtr {
						body.isLimit = func(v ssa.Value) bool {
							u, ok := v.(*ssa.UnOp)
							return ok && u.Op == token.MUL && roleField(u.X, limIdx)
						}
					} else {
						body.isLimit = func(v ssa.Value) bool { return roleField(v, limIdx) }
					}
					out = append(out, body)
				}
			}
		}
	}
	return out, undecided
}

// c01BodySite is one call that hands dest to a helper body.
type c01BodySite struct {
	c      CallSite
	parent *c01Body
}

// c01HelperBody: the body of helper g, which call c (found in body b) hands
// dest to as argument di. The cursor and limit roles are mapped to g's
// parameters by what the call passes: a parameter is the cursor when its
// argument is built only from b's cursor, the limit when its argument derives
// from b's limit.
func c01HelperBody(b *c01Body, c CallSite, g *ssa.Function, di int) *c01Body {
	args := c.Args()
	afterPrm, limitPrm := map[ssa.Value]bool{}, map[ssa.Value]bool{}
	for ai, a := range args {
		if ai >= len(g.Params) || ai == di {
			continue
		}
		switch {
		case c01IsStringish(a.Type()) && c01PureCursor(a, b.isAfter, 0) && DependsOn(a, b.isAfter):
			afterPrm[g.Params[ai]] = true
		case c01IsBasic(a.Type(), types.Int) && DependsOn(a, b.isLimit):
			limitPrm[g.Params[ai]] = true
		}
	}
	return &c01Body{fn: g, how: "via helper " + FuncKey(g), parent: b, via: c,
		isDest:  c01Same(g.Params[di]),
		isAfter: func(v ssa.Value) bool { return afterPrm[v] },
		isLimit: func(v ssa.Value) bool { return limitPrm[v] },
	}
}

func c01BuildInst(root *ssa.Function, dest, after, limit *ssa.Parameter) (*c01Inst, []string) {
	in := &c01Inst{Root: root, Dest: dest, After: after, Limit: limit}
	direct := &c01Body{fn: root, how: "direct",
		isDest:  c01Same(dest),
		isAfter: func(v ssa.Value) bool { return v == ssa.Value(after) },
		isLimit: func(v ssa.Value) bool { return v == ssa.Value(limit) },
	}
	in.bodies = append(in.bodies, direct)
	carried, und := c01CarriedBodies(root, dest, after, limit)
	in.bodies = append(in.bodies, carried...)
	// helper bodies: the unexported functions/methods of the package (and literals) a body hands dest to as a plain
	// argument (a callee of EnumerateBlobs shape is an instance of its own, see c01Instances)
	bodyOf := map[*ssa.Function]*c01Body{}
	sites := map[*c01Body][]c01BodySite{}
	depth := map[*c01Body]int{}
	for _, b := range in.bodies {
		bodyOf[b.fn] = b
	}
	for i := 0; i < len(in.bodies); i++ {
		b := in.bodies[i]
		for _, c := range CallsIn(b.fn, true) {
			if _, fam := c01FamilyArgs(c); fam {
				continue
			}
			g := c.Callee()
			if !c01IsHelperOf(root, g) {
				continue
			}
			di := -1
			for ai, a := range c.Args() {
				if ai < len(g.Params) && b.isDest(a) {
					di = ai
				}
			}
			if di < 0 {
				continue
			}
			child := bodyOf[g]
			if child == nil {
				if depth[b] >= c01EffDepth {
					und = append(und, "dest is handed on through more than "+fmt.Sprint(c01EffDepth)+" levels of helpers")
					continue
				}
				child = c01HelperBody(b, c, g, di)
				depth[child] = depth[b] + 1
				bodyOf[g] = child
				in.bodies = append(in.bodies, child)
			} else if child.parent == nil {
				continue // the recursion of a carried body, or a call back into the root
			}
			sites[child] = append(sites[child], c01BodySite{c, b})
		}
	}
	inBody := map[*ssa.Function]bool{}
	for _, b := range in.bodies {
		for _, f := range c01DeepFuncs(b.fn) {
			inBody[f] = true
		}
		for _, c := range CallsIn(b.fn, true) {
			fc, ok := c01FamilyArgs(c)
			if !ok {
				continue
			}
			fc.body = b
			if b.isDest(fc.ch) {
				in.destDelegs = append(in.destDelegs, fc)
			} else if b == direct || c.Callee() != b.fn { // the recursion of a carried body is not a sub-enumeration
				in.subEnums = append(in.subEnums, fc)
			}
		}
	}
	// sub-enumerations started by helpers of the effective body that do not own dest (a start-one-source closure
	// turned into a named function)
	for _, f := range c01EffOf(root).fns {
		if inBody[f] {
			continue
		}
		for _, c := range CallsIn(f, false) {
			if fc, ok := c01FamilyArgs(c); ok {
				in.subEnums = append(in.subEnums, fc)
			}
		}
	}
	// sends: real ones per body, and bottom-up the virtual ones (bodies are listed parent first)
	byBody := map[*c01Body][]*c01Send{}
	var real, virt []*c01Send
	for _, b := range in.bodies {
		for _, s := range c01SendsIn(b) {
			s := s
			byBody[b] = append(byBody[b], &s)
			real = append(real, &s)
		}
	}
	// a send inside a function literal that its body calls (an `emit := func(...)` closure): every call of the literal
	// is a send site of the calling function
	litCalls := func(b *c01Body) {
		vsAt := map[ssa.Instruction]*c01Send{}
		for i := 0; i < len(byBody[b]); i++ {
			s := byBody[b][i]
			lit := s.in.Parent()
			if lit == b.fn || lit.Parent() == nil || len(s.up) > 0 {
				continue
			}
			for _, c := range CallsIn(b.fn, true) {
				if c.Callee() != lit || c.Fn == lit {
					continue
				}
				ci := c.Instr.(ssa.Instruction)
				vs := vsAt[ci]
				if vs == nil {
					vs = &c01Send{in: ci, body: b, virtual: true}
					vsAt[ci] = vs
					byBody[b] = append(byBody[b], vs)
					virt = append(virt, vs)
				}
				s.up = append(s.up, vs)
			}
		}
	}
	for i := len(in.bodies) - 1; i >= 0; i-- {
		b := in.bodies[i]
		litCalls(b)
		if b.parent == nil || len(byBody[b]) == 0 {
			continue
		}
		var ups []*c01Send
		for _, st := range sites[b] {
			vs := &c01Send{in: st.c.Instr.(ssa.Instruction), body: st.parent, virtual: true}
			ups = append(ups, vs)
			byBody[st.parent] = append(byBody[st.parent], vs)
			virt = append(virt, vs)
		}
		for _, s := range byBody[b] {
			if len(s.up) == 0 { // sends of a called literal are reached through the literal's calls
				s.up = ups
			}
		}
	}
	for _, s := range real {
		in.sends = append(in.sends, *s)
	}
	for _, s := range virt {
		in.vsends = append(in.vsends, *s)
	}
	switch {
	case len(in.sends) == 0 && len(in.destDelegs) > 0:
		in.class = "forwarder"
	case len(in.sends) > 0 && len(in.subEnums) > 0:
		in.class = "merge"
	case len(in.sends) > 0:
		in.class = "leaf"
	default:
		in.class = "silent"
	}
	return in, und
}

// allSends: real and virtual sends.
func (in *c01Inst) allSends() []c01Send {
	return append(append([]c01Send(nil), in.sends...), in.vsends...)
}

// c01AtSomeLevel applies check to a send and, where it fails there, to the
// calls through which the send's helper is reached: the property holds for the
// send when it is established around the send itself or at every call site of
// the helper that contains it.
func c01AtSomeLevel(s *c01Send, check func(*c01Send) (ok, undecided bool, detail string)) (bool, bool, string) {
	ok, und, d := check(s)
	if ok || len(s.up) == 0 {
		return ok, und && !ok, d
	}
	allOK, anyUnd := true, und
	var ds []string
	for _, u := range s.up {
		o, un, dd := c01AtSomeLevel(u, check)
		if !o {
			allOK = false
			anyUnd = anyUnd || un
		}
		ds = append(ds, dd)
	}
	if allOK {
		return true, false, strings.Join(ds, "; ")
	}
	return false, anyUnd, d + "; at the call of the helper: " + strings.Join(ds, "; ")
}

// c01ScopeInstances: in-scope EnumerateBlobs methods plus, transitively, the
// static module callees of EnumerateBlobs shape they hand dest to.
func c01ScopeInstances(p *Program) []*c01Inst {
	return c01Instances(p, func(rel string) bool { return c01ScopePkgs[rel] })
}

// c01Instances: the EnumerateBlobs methods of the packages selected by inPkg
// plus, transitively, the static module callees of EnumerateBlobs shape they
// hand dest to.
func c01Instances(p *Program, inPkg func(rel string) bool) []*c01Inst {
	var out []*c01Inst
	seen := map[*ssa.Function]bool{}
	var add func(fn *ssa.Function, dest, after, limit *ssa.Parameter)
	add = func(fn *ssa.Function, dest, after, limit *ssa.Parameter) {
		if seen[fn] {
			return
		}
		seen[fn] = true
		in, und := c01BuildInst(fn, dest, after, limit)
		if len(und) > 0 {
			in.class = "undecided: " + strings.Join(und, "; ")
		}
		out = append(out, in)
		for _, d := range in.destDelegs {
			g := d.c.Callee()
			if g == nil || g.Blocks == nil || g.Parent() != nil || !InModule(g) {
				continue
			}
			ci, ai, li, ok := c01FamilyIdx(g.Signature)
			if !ok {
				continue
			}
			ge, known := c01EffOf(g), false
			for _, rc := range ge.rootCalls {
				if rc.c.Instr == d.c.Instr {
					known = true
				}
			}
			if !known {
				ge.rootCalls = append(ge.rootCalls, c01RootCall{d.c, c01EffOf(fn)})
			}
			off := len(g.Params) - g.Signature.Params().Len()
			add(g, g.Params[ci+off], g.Params[ai+off], g.Params[li+off])
		}
	}
	for _, e := range c01Enumerators(p) {
		if e.Kind != "EnumerateBlobs" || !inPkg(RelPkg(e.Fn.Pkg.Pkg)) {
			continue
		}
		add(e.Fn, e.Dest, e.After, e.Limit)
	}
	return out
}

// c01Reach: blocks reachable through edge from->to; with cutBack, back edges
// (target dominates source) are not followed, i.e. "within the same iteration".
func c01Reach(from, to *ssa.BasicBlock, cutBack bool) map[*ssa.BasicBlock]bool {
	out := map[*ssa.BasicBlock]bool{}
	var walk func(u, v *ssa.BasicBlock)
	walk = func(u, v *ssa.BasicBlock) {
		if cutBack && v.Dominates(u) {
			return
		}
		if out[v] {
			return
		}
		out[v] = true
		for _, w := range v.Succs {
			walk(v, w)
		}
	}
	walk(from, to)
	return out
}

// c01CondCmp normalises a branch condition to (op, x, y) such that the branch's
// edge trueIdx is taken when "x op y" holds. Recognised: comparisons, !cond,
// bytes.Equal(x,y), bytes.Compare/strings.Compare(x,y) op 0.
func c01CondCmp(cond ssa.Value) (op token.Token, x, y ssa.Value, trueIdx int, ok bool) {
	trueIdx = 0
	for {
		u, isNot := cond.(*ssa.UnOp)
		if !isNot || u.Op != token.NOT {
			break
		}
		cond, trueIdx = u.X, 1-trueIdx
	}
	switch c := cond.(type) {
	case *ssa.BinOp:
		switch c.Op {
		case token.LSS, token.LEQ, token.GTR, token.GEQ, token.EQL, token.NEQ:
		default:
			return 0, nil, nil, 0, false
		}
		if call, isCall := c.X.(*ssa.Call); isCall {
			cs := CallSite{call.Parent(), call}
			if (cs.IsStatic("bytes", "", "Compare") || cs.IsStatic("strings", "", "Compare")) && len(call.Call.Args) == 2 {
				if k, isK := ConstInt(c.Y); isK && k == 0 {
					return c.Op, call.Call.Args[0], call.Call.Args[1], trueIdx, true
				}
			}
		}
		return c.Op, c.X, c.Y, trueIdx, true
	case *ssa.Call:
		cs := CallSite{c.Parent(), c}
		if cs.IsStatic("bytes", "", "Equal") && len(c.Call.Args) == 2 {
			return token.EQL, c.Call.Args[0], c.Call.Args[1], trueIdx, true
		}
	}
	return 0, nil, nil, 0, false
}

func c01Flip(op token.Token) token.Token {
	switch op {
	case token.LSS:
		return token.GTR
	case token.LEQ:
		return token.GEQ
	case token.GTR:
		return token.LSS
	case token.GEQ:
		return token.LEQ
	}
	return op
}

// c01PureCursor: v is computed from the cursor and constants only
// (concatenation, conversion, slicing): "have:"+after, []byte(after), after[:n].
func c01PureCursor(v ssa.Value, isAfter func(ssa.Value) bool, depth int) bool {
	if depth > 12 || v == nil {
		return false
	}
	if isAfter(v) {
		return true
	}
	o := originValue(v)
	if isAfter(o) {
		return true
	}
	switch x := o.(type) {
	case *ssa.Const:
		return true
	case *ssa.BinOp:
		return x.Op == token.ADD && c01PureCursor(x.X, isAfter, depth+1) && c01PureCursor(x.Y, isAfter, depth+1)
	case *ssa.Convert:
		return c01PureCursor(x.X, isAfter, depth+1)
	case *ssa.Slice:
		return c01PureCursor(x.X, isAfter, depth+1)
	}
	return false
}

func c01IsStringish(t types.Type) bool {
	if c01IsBasic(t, types.String) {
		return true
	}
	if sl, ok := t.Underlying().(*types.Slice); ok {
		return c01IsBasic(sl.Elem(), types.Byte) || c01IsBasic(sl.Elem(), types.Uint8)
	}
	return false
}

func c01SendBlocks(sends []c01Send, fn *ssa.Function) map[*ssa.BasicBlock]bool {
	out := map[*ssa.BasicBlock]bool{}
	for _, s := range sends {
		if s.in.Parent() == fn {
			out[s.in.Block()] = true
		}
	}
	return out
}

// ===========================================================================
// E-cursor

func c01RuleCursor(p *Program, r *Reporter, insts []*c01Inst) {
	const rule = "E-cursor"
	kv := p.Iface("pkg/sorted", "KeyValue")
	for _, in := range insts {
		key := FuncKey(in.Root)
		site := p.Pos(in.Root.Pos())
		e := c01EffOf(in.Root)
		rootAfter := in.bodies[0].isAfter
		switch {
		case strings.HasPrefix(in.class, "undecided"):
			r.Undecided(rule, key+"#cursor", site, in.class)
		case in.class == "silent":
			r.Note("E-cursor: %s neither sends on dest nor hands it on; nothing to decide", key)
		case in.class == "forwarder":
			for _, d := range in.destDelegs {
				ok := c01PureCursor(d.after, d.body.isAfter, 0) && DependsOn(d.after, d.body.isAfter)
				r.Check(ok, rule, key+"#forward-cursor:"+d.c.CalleeKey(), p.Pos(d.c.Pos()),
					"forwarder: the cursor handed to "+d.c.CalleeKey()+" is built from `after` only",
					"forwarder: the cursor argument of "+d.c.CalleeKey()+" is not (only) the enumerator's `after` parameter: pages would restart or skip")
			}
		case in.class == "merge":
			for _, d := range in.subEnums {
				ok := e.depends(d.after, rootAfter)
				r.Check(ok, rule, key+"#sub-cursor:"+d.c.CalleeKey(), p.Pos(d.c.Pos()),
					"merging enumerator: the cursor of the sub-enumeration "+d.c.CalleeKey()+" derives from `after` (exclusiveness is the sub-enumerators' obligation)",
					"merging enumerator: the sub-enumeration "+d.c.CalleeKey()+" is started with a cursor that does not derive from `after`")
			}
		default: // leaf
			all := in.allSends()
			for i := range in.sends {
				s := &in.sends[i]
				ok, und, detail := c01AtSomeLevel(s, func(l *c01Send) (bool, bool, string) {
					ok, d := c01CursorGuard(*l, all, e, kv)
					return ok, !ok && c01CursorHelperTest(*l), d
				})
				construct := key + "#cursor-guard"
				if s.body.how != "direct" {
					construct += ":" + FuncKey(s.body.fn)
				}
				if und {
					r.Undecided(rule, construct, p.Pos(s.in.Pos()), "a branch tests the cursor inside a helper function in a way this rule does not follow: "+detail)
					continue
				}
				r.Check(ok, rule, construct, p.Pos(s.in.Pos()), detail, detail)
			}
		}
	}
	r.Analysed("cursor_instances", len(insts))
	r.Floor(rule, 15) // 17 today
}

// c01CmpSite is one comparison that decides a branch of function g: an If of
// g itself, or a comparison inside a bool helper whose result an If of g
// branches on (a comparison the helper branches on, or one it returns).
type c01CmpSite struct {
	at       *ssa.BasicBlock // the block of g whose If is decided
	op       token.Token
	x, y     ssa.Value
	fn       *ssa.Function // the function x and y belong to
	isAfter  func(ssa.Value) bool
	isLimit  func(ssa.Value) bool
	toG      func(ssa.Value) ssa.Value          // the value of g a value of fn stands for (nil: none)
	succs    func(holds bool) []*ssa.BasicBlock // the successors of at control can continue with when the comparison holds / does not hold
	line     int
	inHelper bool
}

// reach: the blocks of g reachable when the comparison holds / does not hold;
// cutBack: within the same loop iteration; cut: edges not to follow.
func (cs c01CmpSite) reach(holds, cutBack bool, cut map[[2]*ssa.BasicBlock]bool) map[*ssa.BasicBlock]bool {
	out := map[*ssa.BasicBlock]bool{}
	var walk func(u, v *ssa.BasicBlock)
	walk = func(u, v *ssa.BasicBlock) {
		if cutBack && v.Dominates(u) || cut[[2]*ssa.BasicBlock{u, v}] || out[v] {
			return
		}
		out[v] = true
		for _, w := range v.Succs {
			walk(v, w)
		}
	}
	for _, sc := range cs.succs(holds) {
		walk(cs.at, sc)
	}
	return out
}

func c01StripNot(cond ssa.Value) (ssa.Value, bool) {
	neg := false
	for {
		u, isNot := cond.(*ssa.UnOp)
		if !isNot || u.Op != token.NOT {
			return cond, neg
		}
		cond, neg = u.X, !neg
	}
}

// c01CmpSites lists the comparison sites of g for body b.
func c01CmpSites(g *ssa.Function, b *c01Body) []c01CmpSite {
	var out []c01CmpSite
	lineOf := func(v ssa.Value) int { return g.Prog.Fset.Position(v.Pos()).Line }
	for _, blk := range g.Blocks {
		if len(blk.Instrs) == 0 || len(blk.Succs) != 2 {
			continue
		}
		ifi, ok := blk.Instrs[len(blk.Instrs)-1].(*ssa.If)
		if !ok {
			continue
		}
		blk := blk
		if op, x, y, trueIdx, ok := c01CondCmp(ifi.Cond); ok {
			out = append(out, c01CmpSite{at: blk, op: op, x: x, y: y, fn: g, isAfter: b.isAfter, isLimit: b.isLimit,
				toG: func(v ssa.Value) ssa.Value { return v },
				succs: func(holds bool) []*ssa.BasicBlock {
					i := trueIdx
					if !holds {
						i = 1 - trueIdx
					}
					return []*ssa.BasicBlock{blk.Succs[i]}
				},
				line: lineOf(ifi.Cond)})
			continue
		}
		cond, neg := c01StripNot(ifi.Cond)
		call, isCall := originValue(cond).(*ssa.Call)
		if !isCall {
			continue
		}
		h := c01BoolHelper(call)
		if h == nil {
			continue
		}
		args := (CallSite{call.Parent(), call}).Args()
		argOf := func(v ssa.Value) ssa.Value {
			prm, ok := originValue(v).(*ssa.Parameter)
			if !ok || prm.Parent() != h {
				if _, isK := v.(*ssa.Const); isK {
					return v
				}
				return nil
			}
			if i := c01ParamIndex(h, prm); i >= 0 && i < len(args) {
				return args[i]
			}
			return nil
		}
		isAfterH := func(v ssa.Value) bool {
			prm, ok := v.(*ssa.Parameter)
			if !ok || prm.Parent() != h {
				return false
			}
			a := argOf(prm)
			return a != nil && c01PureCursor(a, b.isAfter, 0) && DependsOn(a, b.isAfter)
		}
		isLimitH := func(v ssa.Value) bool {
			prm, ok := v.(*ssa.Parameter)
			if !ok || prm.Parent() != h {
				return false
			}
			a := argOf(prm)
			return a != nil && DependsOn(a, b.isLimit)
		}
		// successor of blk taken when the helper returns val
		succOf := func(val bool) *ssa.BasicBlock {
			if val != neg {
				return blk.Succs[0]
			}
			return blk.Succs[1]
		}
		callerSuccs := func(vals map[bool]bool) []*ssa.BasicBlock {
			var out []*ssa.BasicBlock
			for _, v := range []bool{true, false} {
				if vals[v] {
					out = append(out, succOf(v))
				}
			}
			return out
		}
		// (i) comparisons the helper returns
		var leaves func(v ssa.Value, depth int)
		leaves = func(v ssa.Value, depth int) {
			if ph, ok := v.(*ssa.Phi); ok && depth < 6 {
				for _, ev := range ph.Edges {
					leaves(ev, depth+1)
				}
				return
			}
			c, n := c01StripNot(v)
			// a comparison as a value: the result is true exactly when it holds
			op, x, y, trueIdx, ok := c01CondCmp(c)
			if !ok {
				return
			}
			holdsMeans := (trueIdx == 0) != n // the result value when "x op y" holds
			out = append(out, c01CmpSite{at: blk, op: op, x: x, y: y, fn: h, isAfter: isAfterH, isLimit: isLimitH, toG: argOf,
				succs: func(holds bool) []*ssa.BasicBlock {
					return callerSuccs(map[bool]bool{holds == holdsMeans: true})
				},
				line: lineOf(c), inHelper: true})
		}
		for _, ri := range Returns(h) {
			if len(ri.Results) == 1 {
				leaves(ri.Results[0], 0)
			}
		}
		// (ii) comparisons the helper branches on
		for _, hb := range h.Blocks {
			if len(hb.Instrs) == 0 || len(hb.Succs) != 2 {
				continue
			}
			hif, ok := hb.Instrs[len(hb.Instrs)-1].(*ssa.If)
			if !ok {
				continue
			}
			op, x, y, trueIdx, ok := c01CondCmp(hif.Cond)
			if !ok {
				continue
			}
			hb := hb
			out = append(out, c01CmpSite{at: blk, op: op, x: x, y: y, fn: h, isAfter: isAfterH, isLimit: isLimitH, toG: argOf,
				succs: func(holds bool) []*ssa.BasicBlock {
					i := trueIdx
					if !holds {
						i = 1 - trueIdx
					}
					return callerSuccs(c01ResultsFrom(h, hb, hb.Succs[i]))
				},
				line: lineOf(hif.Cond), inHelper: true})
		}
	}
	return out
}

// c01ResultsFrom: the values bool helper h can return on paths through the edge from->to.
func c01ResultsFrom(h *ssa.Function, from, to *ssa.BasicBlock) map[bool]bool {
	out := map[bool]bool{}
	reach := c01Reach(from, to, false)
	both := func() { out[true], out[false] = true, true }
	var val func(v ssa.Value, at *ssa.BasicBlock, depth int)
	val = func(v ssa.Value, at *ssa.BasicBlock, depth int) {
		if c, ok := v.(*ssa.Const); ok && c.Value != nil {
			out[c.Value.String() == "true"] = true
			return
		}
		if ph, ok := v.(*ssa.Phi); ok && depth < 6 {
			for i, ev := range ph.Edges {
				pb := ph.Block().Preds[i]
				if reach[pb] || (pb == from && ph.Block() == to) {
					val(ev, pb, depth+1)
				}
			}
			return
		}
		both()
	}
	for _, ri := range Returns(h) {
		if !reach[ri.Ret.Block()] {
			continue
		}
		if len(ri.Results) != 1 {
			both()
			continue
		}
		val(ri.Results[0], ri.Ret.Block(), 0)
	}
	return out
}

// c01CursorEmptyEdge: the successor index of blk on which the cursor is known
// to be empty (a test `after == ""`, `after != ""`, `len(after) ==/!=/> 0`), or -1.
// With an empty cursor no key is <= the cursor.
func c01CursorEmptyEdge(blk *ssa.BasicBlock, isAfter func(ssa.Value) bool) int {
	if len(blk.Instrs) == 0 || len(blk.Succs) != 2 {
		return -1
	}
	ifi, ok := blk.Instrs[len(blk.Instrs)-1].(*ssa.If)
	if !ok {
		return -1
	}
	op, x, y, trueIdx, ok := c01CondCmp(ifi.Cond)
	if !ok {
		return -1
	}
	pure := func(v ssa.Value) bool { return c01PureCursor(v, isAfter, 0) && DependsOn(v, isAfter) }
	isLenOfCursor := func(v ssa.Value) bool {
		call, ok := v.(*ssa.Call)
		if !ok {
			return false
		}
		bi, ok := call.Call.Value.(*ssa.Builtin)
		return ok && bi.Name() == "len" && len(call.Call.Args) == 1 && pure(call.Call.Args[0])
	}
	emptyStr := func(v ssa.Value) bool { s, ok := ConstString(v); return ok && s == "" }
	zero := func(v ssa.Value) bool { k, ok := ConstInt(v); return ok && k == 0 }
	var emptyWhenHolds, known bool
	switch {
	case pure(x) && emptyStr(y), emptyStr(x) && pure(y):
		switch op {
		case token.EQL:
			emptyWhenHolds, known = true, true
		case token.NEQ:
			emptyWhenHolds, known = false, true
		}
	case isLenOfCursor(x) && zero(y):
		switch op {
		case token.EQL, token.LEQ:
			emptyWhenHolds, known = true, true
		case token.NEQ, token.GTR:
			emptyWhenHolds, known = false, true
		}
	case zero(x) && isLenOfCursor(y):
		switch op {
		case token.EQL, token.GEQ:
			emptyWhenHolds, known = true, true
		case token.NEQ, token.LSS:
			emptyWhenHolds, known = false, true
		}
	}
	if !known {
		return -1
	}
	if emptyWhenHolds {
		return trueIdx
	}
	return 1 - trueIdx
}

// c01CursorGuard decides rule (a) for one send: some comparison of a key
// against a value built only from the cursor has a "key <= cursor" (or
// "key == cursor" after an inclusive Find on the cursor) edge from which the
// send cannot be reached within the same loop iteration, while it can from the
// other edge. The comparison may sit in a bool helper the branch calls; edges
// on which the cursor is known to be empty are not followed.
func c01CursorGuard(s c01Send, all []c01Send, e *c01Eff, kv *types.Interface) (bool, string) {
	g := s.in.Parent()
	b := s.body
	sb := s.in.Block()
	var why []string
	// edges on which the cursor is empty: nothing is <= an empty cursor
	emptyCut := map[[2]*ssa.BasicBlock]bool{}
	for _, blk := range g.Blocks {
		if i := c01CursorEmptyEdge(blk, b.isAfter); i >= 0 {
			emptyCut[[2]*ssa.BasicBlock{blk, blk.Succs[i]}] = true
		}
	}
	for _, cs := range c01CmpSites(g, b) {
		op, x, y := cs.op, cs.x, cs.y
		if !c01IsStringish(x.Type()) {
			continue
		}
		dep := func(v ssa.Value) bool { return DependsOn(v, cs.isAfter) }
		curX := c01PureCursor(x, cs.isAfter, 0) && dep(x)
		curY := c01PureCursor(y, cs.isAfter, 0) && dep(y)
		var keyV ssa.Value
		switch {
		case curY && !c01PureCursor(x, cs.isAfter, 0):
			keyV = x
		case curX && !c01PureCursor(y, cs.isAfter, 0):
			keyV, op = y, c01Flip(op)
		default:
			continue
		}
		line := cs.line
		// which side means "key is not after the cursor"
		lowHolds, needFind := false, false
		switch op {
		case token.LEQ:
			lowHolds = true
		case token.GTR:
			lowHolds = false
		case token.EQL:
			lowHolds, needFind = true, true
		case token.NEQ:
			lowHolds, needFind = false, true
		default:
			why = append(why, fmt.Sprintf("the comparison at line %d is key %s cursor: an element equal to the cursor is not skipped (cursor would be inclusive)", line, op))
			continue
		}
		if needFind {
			positioned := false
			for _, c := range e.allCalls() {
				if c.Value() == nil || !c.IsMethod("Find", kv) || len(c.Args()) < 2 {
					continue
				}
				start := c.Args()[1]
				pureStart := e.depends(start, e.rootAfter()) && c01PureCursorEff(e, start, 0)
				if pureStart && e.depends(keyV, func(v ssa.Value) bool { return v == ssa.Value(c.Value()) }) {
					positioned = true
				}
			}
			if !positioned {
				why = append(why, fmt.Sprintf("the equality test at line %d only skips the cursor itself, and the key does not come from an iterator positioned by sorted.KeyValue.Find on the cursor: smaller keys would be emitted", line))
				continue
			}
		}
		low := cs.reach(lowHolds, true, emptyCut)
		high := cs.reach(!lowHolds, true, nil)
		if low[sb] {
			why = append(why, fmt.Sprintf("on the key<=cursor edge of the comparison at line %d the send is still reached in the same iteration", line))
			continue
		}
		if !high[sb] {
			continue // unrelated comparison
		}
		form := "key <= cursor"
		if needFind {
			form = "key == cursor, iterator positioned by Find(cursor)"
		}
		where := ""
		if cs.inHelper {
			where = " (inside helper " + FuncKey(cs.fn) + ")"
		}
		return true, fmt.Sprintf("leaf (%s): the send is skipped within the iteration on the '%s' edge of the comparison at line %d%s against a value built only from `after`", b.how, form, line, where)
	}
	if len(why) == 0 {
		why = append(why, "no comparison of an element key against the cursor guards the send")
	}
	return false, fmt.Sprintf("leaf (%s): send at line %d is not guarded by an exclusive cursor test: %s", b.how, g.Prog.Fset.Position(s.in.Pos()).Line, strings.Join(why, "; "))
}

// rootAfter: "is the root's cursor parameter" for the instance root of this body.
func (e *c01Eff) rootAfter() func(ssa.Value) bool {
	_, ai, _, ok := c01FamilyIdx(e.root.Signature)
	if !ok {
		return func(ssa.Value) bool { return false }
	}
	off := len(e.root.Params) - e.root.Signature.Params().Len()
	prm := e.root.Params[ai+off]
	return func(v ssa.Value) bool { return v == ssa.Value(prm) }
}

// c01PureCursorEff is c01PureCursor across helper boundaries.
func c01PureCursorEff(e *c01Eff, v ssa.Value, depth int) bool {
	if depth > 12 || v == nil {
		return false
	}
	isAfter := e.rootAfter()
	for _, o := range e.origins(v) {
		if isAfter(o) {
			continue
		}
		switch x := o.(type) {
		case *ssa.Const:
		case *ssa.BinOp:
			if x.Op != token.ADD || !c01PureCursorEff(e, x.X, depth+1) || !c01PureCursorEff(e, x.Y, depth+1) {
				return false
			}
		case *ssa.Convert:
			if !c01PureCursorEff(e, x.X, depth+1) {
				return false
			}
		case *ssa.Slice:
			if !c01PureCursorEff(e, x.X, depth+1) {
				return false
			}
		case *ssa.UnOp:
			// a captured/spilled cursor variable that is only ever assigned the cursor
			if x.Op != token.MUL {
				return false
			}
			cell, ok := varOf(x.X)
			if !ok {
				return false
			}
			sts := storesTo(cell)
			if len(sts) == 0 {
				return false
			}
			for _, st := range sts {
				if !c01PureCursorEff(e, st.Val, depth+1) {
					return false
				}
			}
		default:
			return false
		}
	}
	return true
}

// c01CursorHelperTest: some branch of the send's function is decided by a call
// of a module function that receives a value built from the cursor.
func c01CursorHelperTest(s c01Send) bool {
	b := s.body
	for _, blk := range s.in.Parent().Blocks {
		if len(blk.Instrs) == 0 {
			continue
		}
		ifi, ok := blk.Instrs[len(blk.Instrs)-1].(*ssa.If)
		if !ok {
			continue
		}
		cond, _ := c01StripNot(ifi.Cond)
		call, ok := originValue(cond).(*ssa.Call)
		if !ok {
			continue
		}
		f := call.Call.StaticCallee()
		if f == nil || !InModule(f) && f.Parent() == nil {
			continue
		}
		for _, a := range call.Call.Args {
			if c01PureCursor(a, b.isAfter, 0) && DependsOn(a, b.isAfter) {
				return true
			}
		}
	}
	return false
}

// ===========================================================================
// E-limit

func c01RuleLimit(p *Program, r *Reporter, insts []*c01Inst) {
	const rule = "E-limit"
	for _, in := range insts {
		key := FuncKey(in.Root)
		site := p.Pos(in.Root.Pos())
		switch {
		case strings.HasPrefix(in.class, "undecided"):
			r.Undecided(rule, key+"#limit", site, in.class)
		case in.class == "silent":
		case in.class == "forwarder":
			for _, d := range in.destDelegs {
				ok := DependsOn(d.limit, d.body.isLimit)
				r.Check(ok, rule, key+"#forward-limit:"+d.c.CalleeKey(), p.Pos(d.c.Pos()),
					"forwarder: the limit handed to "+d.c.CalleeKey()+" derives from `limit`",
					"forwarder: the limit argument of "+d.c.CalleeKey()+" does not derive from the enumerator's `limit` parameter")
			}
		default: // leaf and merge: the local send loop must be bounded
			all := in.allSends()
			for i := range in.sends {
				s := &in.sends[i]
				ok, undecided, detail := c01AtSomeLevel(s, func(l *c01Send) (bool, bool, string) { return c01LimitBound(*l, all) })
				construct := key + "#limit-bound"
				if s.body.how != "direct" {
					construct += ":" + FuncKey(s.body.fn)
				}
				if undecided {
					r.Undecided(rule, construct, p.Pos(s.in.Pos()), detail)
				} else {
					r.Check(ok, rule, construct, p.Pos(s.in.Pos()), detail, detail)
				}
			}
		}
	}
	r.Floor(rule, 15) // 17 today
}

// c01Counter describes how the compared quantity evolves: its initial
// constant (when known) and the instructions that update it.
type c01Counter struct {
	initKnown bool
	init      int64
	updates   []ssa.Instruction
}

func c01CounterOf(v ssa.Value, g *ssa.Function) (ct c01Counter, ok bool) {
	isStep := func(val ssa.Value, self func(ssa.Value) bool) bool {
		if c01SteppedByHelper(val, self) {
			return true
		}
		bo, ok := val.(*ssa.BinOp)
		if !ok || (bo.Op != token.ADD && bo.Op != token.SUB) {
			return false
		}
		return self(bo.X) || self(bo.Y)
	}
	// a value compared right after its step (`n++; if n >= limit`): the counter is the stepped variable
	if bo, isBo := v.(*ssa.BinOp); isBo && (bo.Op == token.ADD || bo.Op == token.SUB) {
		if _, isK := ConstInt(bo.Y); isK {
			return c01CounterOf(bo.X, g)
		}
		if _, isK := ConstInt(bo.X); isK && bo.Op == token.ADD {
			return c01CounterOf(bo.Y, g)
		}
	}
	switch x := v.(type) {
	case *ssa.Phi:
		// the variable's phi web: a counter carried through nested loops is a phi at each loop
		// head plus merge phis behind conditional steps (`if keep { dest <- x; n++ }`)
		web := map[ssa.Value]bool{}
		self := func(o ssa.Value) bool { return web[o] }
		var grow func(ph *ssa.Phi)
		grow = func(ph *ssa.Phi) {
			if web[ph] || len(web) > 16 {
				return
			}
			web[ph] = true
			for _, e := range ph.Edges {
				switch y := e.(type) {
				case *ssa.Phi:
					grow(y)
				case *ssa.Extract, *ssa.Call:
					// the counter handed to a helper that steps it and hands it back
					var call *ssa.Call
					if ex, isEx := y.(*ssa.Extract); isEx {
						call, _ = ex.Tuple.(*ssa.Call)
					} else {
						call = y.(*ssa.Call)
					}
					if call != nil && c01BoolHelperLike(call) != nil {
						for _, a := range call.Call.Args {
							if q, isPhi := a.(*ssa.Phi); isPhi && c01IsBasic(q.Type(), types.Int) {
								grow(q)
							}
						}
					}
				case *ssa.BinOp:
					if y.Op != token.ADD && y.Op != token.SUB {
						continue
					}
					if q, isPhi := y.X.(*ssa.Phi); isPhi {
						if _, isK := ConstInt(y.Y); isK {
							grow(q)
						}
					} else if q, isPhi := y.Y.(*ssa.Phi); isPhi && y.Op == token.ADD {
						if _, isK := ConstInt(y.X); isK {
							grow(q)
						}
					}
				}
			}
		}
		grow(x)
		inits := map[int64]bool{}
		seenStep := map[ssa.Value]bool{}
		for m := range web {
			for _, e := range m.(*ssa.Phi).Edges {
				switch {
				case web[e]:
				case isStep(e, self):
					if in, isIn := e.(ssa.Instruction); isIn && !seenStep[e] {
						seenStep[e] = true
						ct.updates = append(ct.updates, in)
					}
				default:
					if k, isK := ConstInt(e); isK {
						inits[k] = true
						ct.initKnown, ct.init = true, k
					} else {
						inits[-1<<62] = true
					}
				}
			}
		}
		if len(inits) != 1 {
			ct.initKnown = false
		}
		sort.Slice(ct.updates, func(i, j int) bool { return ct.updates[i].Pos() < ct.updates[j].Pos() })
		return ct, len(ct.updates) > 0
	case *ssa.UnOp:
		if x.Op != token.MUL {
			return ct, false
		}
		if cell, isVar := varOf(x.X); isVar {
			if al, isAl := cell.(*ssa.Alloc); isAl {
				self := func(o ssa.Value) bool {
					u, ok := o.(*ssa.UnOp)
					if !ok || u.Op != token.MUL {
						return false
					}
					c2, ok := varOf(u.X)
					return ok && c2 == cell
				}
				inits := 0
				for _, st := range storesTo(al) {
					if isStep(st.Val, self) {
						ct.updates = append(ct.updates, st)
					} else if k, isK := ConstInt(st.Val); isK {
						ct.initKnown, ct.init = true, k
						inits++
					} else {
						inits++
					}
				}
				if inits != 1 {
					ct.initKnown = false
				}
				return ct, len(ct.updates) > 0
			}
		}
		// a quantity held behind a pointer (e.g. *req.remain): updates are stores through the same access path
		path := AccessPath(x.X)
		if strings.HasPrefix(path, "?") {
			return ct, false
		}
		self := func(o ssa.Value) bool {
			u, ok := o.(*ssa.UnOp)
			return ok && u.Op == token.MUL && AccessPath(u.X) == path
		}
		for _, f := range c01DeepFuncs(g) {
			for _, blk := range f.Blocks {
				for _, in := range blk.Instrs {
					if st, ok := in.(*ssa.Store); ok && AccessPath(st.Addr) == path && isStep(st.Val, self) {
						ct.updates = append(ct.updates, st)
					}
				}
			}
		}
		return ct, len(ct.updates) > 0
	}
	return ct, false
}

// c01BoolHelperLike: the in-package helper (or literal) with source that call invokes.
func c01BoolHelperLike(call *ssa.Call) *ssa.Function {
	h := (CallSite{call.Parent(), call}).Callee()
	if h == nil || h.Blocks == nil || !c01IsHelperOf(TopFunc(call.Parent()), h) {
		return nil
	}
	return h
}

// c01SteppedByHelper: val is the result of a helper call that received the
// counter (self) as an argument and returns it stepped: inside the helper the
// returned value is a counter that starts at that parameter.
var c01StepDepth int

func c01SteppedByHelper(val ssa.Value, self func(ssa.Value) bool) bool {
	if c01StepDepth > 3 {
		return false // a helper that recurses into itself: not followed
	}
	c01StepDepth++
	defer func() { c01StepDepth-- }()
	var call *ssa.Call
	idx := 0
	switch x := val.(type) {
	case *ssa.Extract:
		call, _ = x.Tuple.(*ssa.Call)
		idx = x.Index
	case *ssa.Call:
		call = x
	}
	if call == nil {
		return false
	}
	h := c01BoolHelperLike(call)
	if h == nil {
		return false
	}
	for ai, a := range call.Call.Args {
		if !self(a) || ai >= len(h.Params) {
			continue
		}
		prm := h.Params[ai]
		okAll, n := true, 0
		for _, ri := range Returns(h) {
			if idx >= len(ri.Results) {
				return false
			}
			rv := ri.Results[idx]
			n++
			if originValue(rv) == ssa.Value(prm) {
				continue // returned unchanged on this path
			}
			if _, isCounter := c01CounterOf(rv, h); !isCounter || !DependsOn(rv, func(o ssa.Value) bool { return o == ssa.Value(prm) }) {
				okAll = false
			}
		}
		if okAll && n > 0 {
			return true
		}
	}
	return false
}

// c01LimitBound decides E-limit for one send (or, for a virtual send, for the
// call of the helper that sends). Candidate comparisons: every comparison site
// of the function (its own Ifs and the comparisons inside bool helpers its Ifs
// call) and, for an If with a stop edge, the comparisons known to hold on
// entry of that If (`n == limit && limit > 0`).
func c01LimitBound(s c01Send, all []c01Send) (ok, undecided bool, detail string) {
	g := s.in.Parent()
	b := s.body
	sb := s.in.Block()
	sendBlocks := c01SendBlocks(all, g)
	var why []string
	hitsSend := func(reach map[*ssa.BasicBlock]bool) bool {
		for sblk := range sendBlocks {
			if reach[sblk] {
				return true
			}
		}
		return false
	}
	// accept decides one comparison `x heldOp y` known to hold on a stop edge; inLoopAt is the block where it is evaluated
	accept := func(heldOp token.Token, x, y ssa.Value, cs c01CmpSite, inLoopAt *ssa.BasicBlock, line int) (ok, undecided, cont bool, detail string) {
		if !c01IsBasic(x.Type(), types.Int) {
			return false, false, true, ""
		}
		dep := func(v ssa.Value) bool { return DependsOn(v, cs.isLimit) }
		dx, dy := dep(x), dep(y)
		if dx == dy {
			return false, false, true, ""
		}
		// normalise to  q op other  with q the side that moves: the counter (up form) or the remaining budget (down form)
		lim, other, op := x, y, heldOp
		if dy {
			lim, other, op = y, x, c01Flip(heldOp)
		}
		var counter ssa.Value
		var stopSet []token.Token
		form := ""
		if k, isK := ConstInt(other); isK {
			// down form: lim is a budget derived from limit, compared with a constant
			counter, form = lim, "remaining budget vs constant"
			switch k {
			case 0:
				stopSet = []token.Token{token.LEQ, token.EQL}
			case 1:
				stopSet = []token.Token{token.LSS}
			default:
				return false, false, true, ""
			}
		} else {
			// up form: other is a counter, lim the limit:  counter flip(op) lim
			counter, op, form = other, c01Flip(op), "send counter vs limit"
			stopSet = []token.Token{token.GEQ, token.EQL}
		}
		if !c01ReachesFrom(sb, inLoopAt) {
			why = append(why, fmt.Sprintf("the comparison at line %d is evaluated once, not in the loop of the send", line))
			return false, false, true, ""
		}
		cg := cs.toG(counter)
		if cg == nil {
			why = append(why, fmt.Sprintf("the quantity compared at line %d inside helper %s is not one of the helper's arguments", line, FuncKey(cs.fn)))
			return false, false, true, ""
		}
		ct, isCounter := c01CounterOf(cg, g)
		if !isCounter {
			why = append(why, fmt.Sprintf("the quantity compared at line %d is never stepped (no counter update found)", line))
			return false, false, true, ""
		}
		onPath := false
		for _, u := range ct.updates {
			if u.Parent() == g && (u.Block().Dominates(sb) || sb.Dominates(u.Block())) {
				onPath = true
			}
		}
		if !onPath {
			why = append(why, fmt.Sprintf("the counter compared at line %d is not stepped on the path of the send (its updates neither dominate the send nor are dominated by it)", line))
			return false, false, true, ""
		}
		// polarity: stop at count >= limit (budget <= 0), not one later
		if form == "send counter vs limit" {
			if !ct.initKnown {
				return false, true, false, fmt.Sprintf("cannot determine the initial value of the counter compared with limit at line %d", line)
			}
			switch ct.init {
			case 0:
			case 1:
				stopSet = []token.Token{token.GTR}
			default:
				return false, true, false, fmt.Sprintf("counter compared with limit at line %d starts at %d; polarity not modelled", line, ct.init)
			}
		}
		okPol := false
		for _, t := range stopSet {
			if t == op {
				okPol = true
			}
		}
		if !okPol {
			why = append(why, fmt.Sprintf("the comparison at line %d (%s: %v holds on the stop edge) lets one element more than limit through (or never stops at limit)", line, form, op))
			return false, false, true, ""
		}
		where := ""
		if cs.inHelper {
			where = " (inside helper " + FuncKey(cs.fn) + ")"
		}
		return true, false, false, fmt.Sprintf("%s (%s): comparison at line %d%s in the send's loop has a stop edge that reaches no send, stops at count >= limit, and its counter is stepped on the send path", b.how, form, line, where)
	}
	sites := c01CmpSites(g, b)
	for _, cs := range sites {
		// candidate stop side: a side from which no send on dest is reachable at all
		stopKnown, stopHolds := false, false
		for _, holds := range []bool{true, false} {
			if !hitsSend(cs.reach(holds, false, nil)) {
				stopKnown, stopHolds = true, holds
			}
		}
		if !stopKnown {
			continue // both sides reach a send (a guard such as `limit != 0 &&`)
		}
		if !cs.reach(!stopHolds, false, nil)[sb] {
			continue
		}
		heldOp := cs.op
		if !stopHolds {
			heldOp = c01SubNegate(cs.op)
		}
		ok, und, cont, d := accept(heldOp, cs.x, cs.y, cs, cs.at, cs.line)
		if !cont {
			return ok, und, d
		}
	}
	// an If one of whose edges stops the sends: what is known to hold when it is evaluated holds on the stop edge too
	for _, blk := range g.Blocks {
		if len(blk.Instrs) == 0 || len(blk.Succs) != 2 {
			continue
		}
		if _, isIf := blk.Instrs[len(blk.Instrs)-1].(*ssa.If); !isIf {
			continue
		}
		stopIdx := -1
		for i := 0; i < 2; i++ {
			if !hitsSend(c01Reach(blk, blk.Succs[i], false)) {
				stopIdx = i
			}
		}
		if stopIdx < 0 || !c01Reach(blk, blk.Succs[1-stopIdx], false)[sb] {
			continue
		}
		for _, f := range FactsAt(blk) {
			op, x, y, trueIdx, isCmp := c01CondCmp(f.Cond)
			if !isCmp {
				continue
			}
			if (trueIdx == 0) != f.Val {
				op = c01SubNegate(op)
			}
			cs := c01CmpSite{at: f.At, fn: g, isAfter: b.isAfter, isLimit: b.isLimit, toG: func(v ssa.Value) ssa.Value { return v }}
			ok, und, cont, d := accept(op, x, y, cs, f.At, g.Prog.Fset.Position(f.Cond.Pos()).Line)
			if !cont {
				return ok, und, d
			}
		}
	}
	if len(why) == 0 {
		why = append(why, "no comparison involving `limit` has an edge that stops the sends")
	}
	return false, false, fmt.Sprintf("%s: send at line %d is not bounded by limit: %s", b.how, g.Prog.Fset.Position(s.in.Pos()).Line, strings.Join(why, "; "))
}

// c01ReachesFrom: is `to` reachable from `from` (following successors, at least one edge)?
func c01ReachesFrom(from, to *ssa.BasicBlock) bool {
	for _, s := range from.Succs {
		if c01Reach(from, s, false)[to] {
			return true
		}
	}
	return false
}

// ===========================================================================
// Small shared helpers for S-route / O-tomb / M-dedup

// c01Base strips loads, field and index selections: the variable or value a
// place expression is rooted at.
func c01Base(v ssa.Value) ssa.Value {
	for i := 0; i < 16; i++ {
		switch x := v.(type) {
		case *ssa.UnOp:
			if x.Op != token.MUL {
				return v
			}
			v = x.X
		case *ssa.FieldAddr:
			v = x.X
		case *ssa.Field:
			v = x.X
		case *ssa.IndexAddr:
			v = x.X
		case *ssa.ChangeType:
			v = x.X
		default:
			return v
		}
	}
	return v
}

// c01Depends is DependsOn extended through variadic/array temporaries: a slice
// of a local array depends on every value stored into that array's elements
// (go/ssa builds `append(s, x)` that way).
func c01Depends(v ssa.Value, target func(ssa.Value) bool) bool {
	seen := map[ssa.Value]bool{}
	var walk func(v ssa.Value, depth int) bool
	walk = func(v ssa.Value, depth int) bool {
		if v == nil || seen[v] || depth > 60 {
			return false
		}
		seen[v] = true
		if target(v) {
			return true
		}
		switch x := v.(type) {
		case *ssa.UnOp:
			if x.Op == token.MUL {
				if cell, ok := varOf(x.X); ok {
					if cell != x.X && target(cell) {
						return true
					}
					for _, st := range storesTo(cell) {
						if walk(st.Val, depth+1) {
							return true
						}
					}
					// a local aggregate built field by field (composite literal)
					if al, isAl := cell.(*ssa.Alloc); isAl && al.Referrers() != nil {
						for _, ref := range *al.Referrers() {
							fa, ok := ref.(*ssa.FieldAddr)
							if !ok || fa.Referrers() == nil {
								continue
							}
							for _, r2 := range *fa.Referrers() {
								if st, ok := r2.(*ssa.Store); ok && st.Addr == ssa.Value(fa) && walk(st.Val, depth+1) {
									return true
								}
							}
						}
					}
				}
			}
		case *ssa.Slice:
			if arr, ok := x.X.(*ssa.Alloc); ok && arr.Referrers() != nil {
				for _, ref := range *arr.Referrers() {
					ia, ok := ref.(*ssa.IndexAddr)
					if !ok || ia.Referrers() == nil {
						continue
					}
					for _, r2 := range *ia.Referrers() {
						if st, ok := r2.(*ssa.Store); ok && st.Addr == ssa.Value(ia) && walk(st.Val, depth+1) {
							return true
						}
					}
				}
			}
		}
		if in, ok := v.(ssa.Instruction); ok {
			for _, op := range in.Operands(nil) {
				if *op != nil && walk(*op, depth+1) {
					return true
				}
			}
		}
		return false
	}
	return walk(v, 0)
}

// c01AppendedElems returns the element values of `append(s, e1, e2...)` (go/ssa
// stores them into a fresh array and passes a slice of it); nil for append(s, t...).
func c01AppendedElems(call *ssa.Call) []ssa.Value {
	b, ok := call.Call.Value.(*ssa.Builtin)
	if !ok || b.Name() != "append" || len(call.Call.Args) != 2 {
		return nil
	}
	sl, ok := call.Call.Args[1].(*ssa.Slice)
	if !ok {
		return nil
	}
	arr, ok := sl.X.(*ssa.Alloc)
	if !ok || arr.Referrers() == nil {
		return nil
	}
	var out []ssa.Value
	for _, ref := range *arr.Referrers() {
		ia, ok := ref.(*ssa.IndexAddr)
		if !ok || ia.Referrers() == nil {
			continue
		}
		for _, r2 := range *ia.Referrers() {
			if st, ok := r2.(*ssa.Store); ok && st.Addr == ssa.Value(ia) {
				out = append(out, st.Val)
			}
		}
	}
	return out
}

// c01SameThing: two expressions denote (parts of) the same run-time value.
func c01SameThing(a, b ssa.Value) bool {
	if sameOrigin(a, b) {
		return true
	}
	ba, bb := c01Base(a), c01Base(b)
	return ba == bb || originValue(ba) == originValue(bb)
}

func c01IsRef(t types.Type) bool { return IsNamed(t, "perkeep.org/pkg/blob", "Ref") && !c01IsPtr(t) }
func c01IsPtr(t types.Type) bool { _, ok := t.(*types.Pointer); return ok }
func c01IsRefOrRefs(t types.Type) bool {
	if c01IsRef(t) {
		return true
	}
	sl, ok := t.Underlying().(*types.Slice)
	return ok && c01IsRef(sl.Elem())
}

// c01RefString: v is (blob.Ref).String() of a ref for which is(ref) holds.
func c01RefString(v ssa.Value, is func(ssa.Value) bool) bool {
	call, ok := originValue(v).(*ssa.Call)
	if !ok {
		return false
	}
	f := call.Call.StaticCallee()
	return f != nil && funcIs(f, "perkeep.org/pkg/blob", "Ref", "String") && len(call.Call.Args) == 1 && is(call.Call.Args[0])
}

// c01FieldIdx resolves a struct field by name (anchor: brokenf when missing).
func c01FieldIdx(p *Program, rel, typ, field string) (*types.Named, int) {
	n := p.NamedType(rel, typ)
	st, ok := n.Underlying().(*types.Struct)
	if ok {
		for i := 0; i < st.NumFields(); i++ {
			if st.Field(i).Name() == field {
				return n, i
			}
		}
	}
	brokenf("anchor unresolved: field %s.%s.%s", rel, typ, field)
	return nil, -1
}

// c01FieldLoad: v is a load of field idx of a value of named struct type n.
func c01FieldLoad(v ssa.Value, n *types.Named, idx int) bool {
	ld, ok := originValue(v).(*ssa.UnOp)
	if !ok || ld.Op != token.MUL {
		return false
	}
	fa, ok := ld.X.(*ssa.FieldAddr)
	if !ok || fa.Field != idx {
		return false
	}
	nn := NamedOf(fa.X.Type())
	return nn != nil && nn.Obj() == n.Obj()
}

// c01EdgeFacts: branch facts known when control flows along from->to (facts
// at entry of from, plus the branch taken at the end of from). from == nil:
// facts at entry of to.
func c01EdgeFacts(from, to *ssa.BasicBlock) []CondFact {
	if from == nil {
		return FactsAt(to)
	}
	out := append([]CondFact(nil), FactsAt(from)...)
	if len(from.Instrs) > 0 {
		if ifi, ok := from.Instrs[len(from.Instrs)-1].(*ssa.If); ok && len(from.Succs) == 2 && from.Succs[0] != from.Succs[1] {
			if from.Succs[0] == to {
				out = append(out, CondFact{ifi.Cond, true, from})
			} else if from.Succs[1] == to {
				out = append(out, CondFact{ifi.Cond, false, from})
			}
		}
	}
	return out
}

func c01NilOnEdge(from, to *ssa.BasicBlock, match func(ssa.Value) bool) (known, isNil bool) {
	for _, f := range c01EdgeFacts(from, to) {
		cond, val := f.Cond, f.Val
		for {
			u, ok := cond.(*ssa.UnOp)
			if !ok || u.Op != token.NOT {
				break
			}
			cond, val = u.X, !val
		}
		bo, ok := cond.(*ssa.BinOp)
		if !ok || (bo.Op != token.EQL && bo.Op != token.NEQ) {
			continue
		}
		var other ssa.Value
		if IsNilConst(bo.Y) {
			other = bo.X
		} else if IsNilConst(bo.X) {
			other = bo.Y
		} else {
			continue
		}
		if match(other) {
			return true, (bo.Op == token.EQL) == val
		}
	}
	return false, false
}

// c01NilRet is one way a function can return a possibly-nil error: value val
// arrives at the return along edge from->to (from == nil: directly).
type c01NilRet struct {
	ret      *ssa.Return
	val      ssa.Value
	from, to *ssa.BasicBlock
}

func c01MaybeNilReturns(fn *ssa.Function) []c01NilRet {
	idx := ErrResultIndex(fn)
	if idx < 0 {
		return nil
	}
	var out []c01NilRet
	var expand func(ret *ssa.Return, v ssa.Value, from, to *ssa.BasicBlock, depth int)
	expand = func(ret *ssa.Return, v ssa.Value, from, to *ssa.BasicBlock, depth int) {
		if IsNilConst(v) {
			out = append(out, c01NilRet{ret, v, from, to})
			return
		}
		if k, isNil := c01NilOnEdge(from, to, func(o ssa.Value) bool { return sameOrigin(o, v) }); k && !isNil {
			return
		}
		if isNonNilErrorExpr(v) {
			return
		}
		if ph, ok := v.(*ssa.Phi); ok && depth < 6 {
			for i, e := range ph.Edges {
				expand(ret, e, ph.Block().Preds[i], ph.Block(), depth+1)
			}
			return
		}
		out = append(out, c01NilRet{ret, v, from, to})
	}
	for _, ri := range Returns(fn) {
		expand(ri.Ret, ri.Results[idx], nil, ri.Ret.Block(), 0)
	}
	return out
}

// c01SuccessOnEdge: call executed before the edge and its error is known nil on it.
func c01SuccessOnEdge(call *ssa.Call, e c01NilRet) (bool, string) {
	at := e.to
	if e.from != nil {
		at = e.from
	}
	if !(call.Block() == at || call.Block().Dominates(at)) {
		return false, "the call does not lie on every path to this return"
	}
	ev, hasErr, discarded := ErrValue(call)
	if !hasErr {
		return true, ""
	}
	if discarded {
		return false, "the call's error is discarded"
	}
	if k, isNil := c01NilOnEdge(e.from, e.to, func(o ssa.Value) bool { return sameOrigin(o, ev) }); k && isNil {
		return true, ""
	}
	return false, "the return is not on the err == nil edge of the call"
}

func c01EdgeName(p *Program, e c01NilRet) string {
	if e.from == nil {
		return fmt.Sprintf("return at line %d", p.Fset.Position(e.ret.Pos()).Line)
	}
	return fmt.Sprintf("return at line %d reached through block %d", p.Fset.Position(e.ret.Pos()).Line, e.from.Index)
}

// ===========================================================================
// S-route
//
// Anchors by role: the shard type is the blob-receiving struct type of the
// shard package, its shard list the field that is a slice of blob receivers.
// The routing function is not looked up by name: the index expression of every
// routing read of that slice is rendered symbolically - through the helpers of
// the package it calls, with their parameters replaced by the arguments - as a
// term over REF (one blob.Ref value) and N (len of the shard list). Every
// routing read must render, and all must render to the same term.

type c01RouteFrame struct {
	env map[*ssa.Parameter]ssa.Value
	up  *c01RouteFrame
}

type c01Route struct {
	pkg      *ssa.Package
	isShards func(ssa.Value) bool
	// per render:
	refs    []ssa.Value              // the blob.Ref values the term is computed from (in the outermost frame)
	helpers map[*ssa.Function]string // helpers rendered through -> "" or the reason the term is not pure there
	badIn   *ssa.Function            // where rendering failed
}

func (rt *c01Route) fail(at ssa.Value, why string) (string, string) {
	if in, ok := at.(ssa.Instruction); ok && in.Parent() != nil {
		rt.badIn = in.Parent()
	} else if prm, ok := at.(*ssa.Parameter); ok {
		rt.badIn = prm.Parent()
	}
	if rt.badIn != nil && rt.helpers != nil {
		if _, isHelper := rt.helpers[rt.badIn]; isHelper {
			rt.helpers[rt.badIn] = why
		}
	}
	return "", why
}

func (rt *c01Route) render(v ssa.Value, fr *c01RouteFrame, depth int) (term, bad string) {
	if depth > 40 {
		return rt.fail(v, "an expression too deep to follow")
	}
	for i := 0; i < 8; i++ {
		switch x := v.(type) {
		case *ssa.Convert:
			v = x.X
			continue
		case *ssa.ChangeType:
			v = x.X
			continue
		}
		break
	}
	v = originValue(v)
	if prm, ok := v.(*ssa.Parameter); ok {
		for f := fr; f != nil; f = f.up {
			if a, bound := f.env[prm]; bound {
				return rt.render(a, f.up, depth+1)
			}
		}
	}
	if c01IsRef(v.Type()) {
		rt.refs = append(rt.refs, v)
		return "REF", ""
	}
	switch x := v.(type) {
	case *ssa.Parameter:
		return rt.fail(x, "parameter "+x.Name())
	case *ssa.Const:
		if x.Value == nil {
			return "nil", ""
		}
		return x.Value.ExactString(), ""
	case *ssa.Convert:
		return rt.render(x.X, fr, depth+1)
	case *ssa.BinOp:
		a, bad := rt.render(x.X, fr, depth+1)
		if bad != "" {
			return "", bad
		}
		b, bad := rt.render(x.Y, fr, depth+1)
		if bad != "" {
			return "", bad
		}
		return "(" + a + x.Op.String() + b + ")", ""
	case *ssa.UnOp:
		if x.Op == token.MUL {
			return rt.fail(x, "a load of something other than the shard list ("+AccessPath(x)+")")
		}
		a, bad := rt.render(x.X, fr, depth+1)
		if bad != "" {
			return "", bad
		}
		return x.Op.String() + a, ""
	case *ssa.Call:
		if b, ok := x.Call.Value.(*ssa.Builtin); ok {
			if b.Name() == "len" && len(x.Call.Args) == 1 && rt.isShards(x.Call.Args[0]) {
				return "N", ""
			}
			return rt.fail(x, "the builtin "+b.Name()+" of something other than the shard list")
		}
		f := x.Call.StaticCallee()
		if f == nil {
			return rt.fail(x, "a dynamic call")
		}
		if f.Signature.Recv() != nil && c01IsRef(f.Signature.Recv().Type()) {
			out := "Ref." + f.Name() + "("
			for i, a := range x.Call.Args {
				t, bad := rt.render(a, fr, depth+1)
				if bad != "" {
					return "", bad
				}
				if i > 0 {
					out += ","
				}
				out += t
			}
			return out + ")", ""
		}
		if f.Pkg == rt.pkg && f.Blocks != nil && f.Signature.Results().Len() == 1 {
			rets := Returns(f)
			if len(rets) != 1 {
				return rt.fail(x, "the call "+FuncKey(f)+", which has several returns")
			}
			if _, seen := rt.helpers[f]; !seen {
				rt.helpers[f] = ""
			}
			env := map[*ssa.Parameter]ssa.Value{}
			for i, prm := range f.Params {
				if i < len(x.Call.Args) {
					env[prm] = x.Call.Args[i]
				}
			}
			return rt.render(rets[0].Results[0], &c01RouteFrame{env, fr}, depth+1)
		}
		return rt.fail(x, "the call "+(CallSite{x.Parent(), x}).CalleeKey())
	}
	return rt.fail(v, "a value the rule does not model ("+v.String()+")")
}

func c01StripConv(v ssa.Value) ssa.Value {
	for i := 0; i < 8; i++ {
		switch x := v.(type) {
		case *ssa.Convert:
			v = x.X
			continue
		case *ssa.ChangeType:
			v = x.X
			continue
		}
		break
	}
	return originValue(v)
}

// c01OnlyReturned: every use of the values is a return (or a debug reference).
func c01OnlyReturned(vals []ssa.Value) bool {
	for _, v := range vals {
		if v.Referrers() == nil {
			return false
		}
		for _, u := range *v.Referrers() {
			switch u.(type) {
			case *ssa.Return, *ssa.DebugRef:
			default:
				return false
			}
		}
	}
	return len(vals) > 0
}

// c01ShardRoles: the shard type and its shard-list field, by role.
func c01ShardRoles(p *Program) (*types.Named, int) {
	const rel = "pkg/blobserver/shard"
	recv := p.Iface("pkg/blobserver", "BlobReceiver")
	var named *types.Named
	for _, n := range p.Implementers(recv, false) {
		if n.Obj().Pkg() == nil || RelPkg(n.Obj().Pkg()) != rel {
			continue
		}
		if _, isStruct := n.Underlying().(*types.Struct); !isStruct {
			continue
		}
		if named != nil {
			brokenf("anchor unresolved: more than one blob-receiving struct type in %s", rel)
		}
		named = n
	}
	if named == nil {
		brokenf("anchor unresolved: no blob-receiving struct type in %s", rel)
	}
	st := named.Underlying().(*types.Struct)
	idx := -1
	for i := 0; i < st.NumFields(); i++ {
		sl, ok := st.Field(i).Type().Underlying().(*types.Slice)
		if !ok || !types.IsInterface(sl.Elem()) || !types.Implements(sl.Elem(), recv) {
			continue
		}
		if idx >= 0 {
			brokenf("anchor unresolved: %s has more than one slice of blob receivers", named.Obj().Name())
		}
		idx = i
	}
	if idx < 0 {
		brokenf("anchor unresolved: %s has no slice-of-blob-receivers field", named.Obj().Name())
	}
	return named, idx
}

type c01RouteRead struct {
	fn     *ssa.Function
	index  ssa.Value // the index the shard is picked with (for an accessor helper: the argument at its call)
	pos    token.Pos
	elems  []ssa.Value
	terms  []string    // one per key (a map-routed read has one per MapUpdate)
	refs   []ssa.Value // the ref each key was computed from
	viaMap ssa.Value
	bad    string
	badIn  *ssa.Function
}

func c01RuleSRoute(p *Program, r *Reporter) {
	const rule, rel = "S-route", "pkg/blobserver/shard"
	named, shardsIdx := c01ShardRoles(p)
	isShards := func(v ssa.Value) bool { return c01FieldLoad(v, named, shardsIdx) }
	helpers := map[*ssa.Function]string{}
	pkg := p.SSAPkg(rel)

	// routeKey: the term(s) that determine index value v (directly, or as the key of a map filled under routed keys)
	var routeKey func(rd *c01RouteRead, v ssa.Value, depth int) bool
	routeKey = func(rd *c01RouteRead, v ssa.Value, depth int) bool {
		for i := 0; i < 8; i++ {
			switch x := v.(type) {
			case *ssa.Convert:
				v = x.X
				continue
			case *ssa.ChangeType:
				v = x.X
				continue
			}
			break
		}
		if x, isEx := originValue(v).(*ssa.Extract); isEx {
			if nx, isNext := x.Tuple.(*ssa.Next); isNext {
				rg, isRange := nx.Iter.(*ssa.Range)
				if x.Index != 1 || depth > 2 || !isRange {
					rd.bad = "a range value that is not a map key"
					return false
				}
				m := rg.X
				if _, isMap := m.Type().Underlying().(*types.Map); !isMap || m.Referrers() == nil {
					rd.bad = "a range over something other than a map"
					return false
				}
				n := 0
				for _, ref := range *m.Referrers() {
					mu, isUpd := ref.(*ssa.MapUpdate)
					if !isUpd || mu.Map != m {
						continue
					}
					n++
					if !routeKey(rd, mu.Key, depth+1) {
						return false
					}
				}
				rd.viaMap = m
				if n == 0 {
					rd.bad = "the key of a map that is never filled"
				}
				return n > 0
			}
		}
		rt := &c01Route{pkg: pkg, isShards: isShards, helpers: helpers}
		term, bad := rt.render(v, nil, 0)
		if bad != "" {
			rd.bad, rd.badIn = bad, rt.badIn
			return false
		}
		if len(rt.refs) == 0 {
			rd.bad = "nothing derived from a ref"
			return false
		}
		for _, o := range rt.refs[1:] {
			if !sameOrigin(o, rt.refs[0]) {
				rd.bad = "more than one ref"
				return false
			}
		}
		rd.terms = append(rd.terms, term)
		rd.refs = append(rd.refs, rt.refs[0])
		return true
	}

	var reads []*c01RouteRead
	for _, fn := range p.FuncsIn(rel) {
		for _, blk := range fn.Blocks {
			for _, in := range blk.Instrs {
				ia, ok := in.(*ssa.IndexAddr)
				if !ok || !isShards(ia.X) || ia.Referrers() == nil {
					continue
				}
				var elems []ssa.Value
				for _, ref := range *ia.Referrers() {
					if ld, ok := ref.(*ssa.UnOp); ok && ld.Op == token.MUL {
						elems = append(elems, ld)
					}
				}
				if len(elems) == 0 {
					continue // populated here (constructor), not read
				}
				// a read that only calls ref-less methods on the element (Close ...) does not route
				routes := false
				for _, e := range elems {
					for _, u := range *e.Referrers() {
						ci, isCall := u.(ssa.CallInstruction)
						if !isCall || !ci.Common().IsInvoke() || ci.Common().Value != e {
							routes = true
							continue
						}
						ps := ci.Common().Signature().Params()
						for i := 0; i < ps.Len(); i++ {
							if c01IsRefOrRefs(ps.At(i).Type()) {
								routes = true
							}
						}
					}
				}
				if !routes {
					continue
				}
				// an accessor helper (`func (s) shardAt(n) Storage { return s.shards[n] }`): the routing read happens at
				// each call of the helper, with the argument as index and the call's result as the routed shard
				if prm, isPrm := c01StripConv(ia.Index).(*ssa.Parameter); isPrm && c01OnlyReturned(elems) {
					pi := c01ParamIndex(fn, prm)
					callers := p.StaticCallers(fn)
					if pi >= 0 && len(callers) > 0 && len(p.FuncValueUses(fn)) == 0 {
						okAll := true
						for _, cs := range callers {
							if cs.Value() == nil || pi >= len(cs.Args()) {
								okAll = false
							}
						}
						if okAll {
							for _, cs := range callers {
								rd := &c01RouteRead{fn: cs.Fn, index: cs.Args()[pi], pos: cs.Pos(), elems: []ssa.Value{cs.Value()}}
								routeKey(rd, rd.index, 0)
								reads = append(reads, rd)
							}
							continue
						}
					}
				}
				rd := &c01RouteRead{fn: fn, index: ia.Index, pos: ia.Pos(), elems: elems}
				routeKey(rd, ia.Index, 0)
				reads = append(reads, rd)
			}
		}
	}
	// the term most routing reads agree on
	count := map[string]int{}
	for _, rd := range reads {
		for _, t := range rd.terms {
			count[t]++
		}
	}
	common, best := "", 0
	for t, n := range count {
		if n > best || n == best && t < common {
			common, best = t, n
		}
	}
	unanimous := len(count) <= 1
	// (1) the routing function is a function of the ref and the shard count only
	var hs []*ssa.Function
	for h := range helpers {
		hs = append(hs, h)
	}
	sort.Slice(hs, func(i, j int) bool { return FuncKey(hs[i]) < FuncKey(hs[j]) })
	for _, h := range hs {
		r.Check(helpers[h] == "", rule, FuncKey(h)+"#pure-function-of-ref", p.Pos(h.Pos()),
			"the routing helper's result is computed only from the ref (through blob.Ref methods) and len(shards): receive, fetch, stat and remove all route identically",
			"the routing helper depends on "+helpers[h]+": the shard chosen for one ref can differ between calls, so a stored blob may not be found again")
	}
	for _, rd := range reads {
		key := FuncKey(rd.fn)
		if rd.bad != "" {
			if rd.badIn != nil {
				if _, isHelper := helpers[rd.badIn]; isHelper && rd.badIn != rd.fn {
					continue // reported on the helper
				}
			}
			r.Violation(rule, key+"#shards-index", p.Pos(rd.pos), "a shard is picked by an index that is not a function of one ref and the number of shards only ("+rd.bad+"): blobs would be stored and looked up in different shards")
			continue
		}
		agree := true
		for _, t := range rd.terms {
			if t != common {
				agree = false
			}
		}
		how := "directly"
		if rd.viaMap != nil {
			how = "as the key of a map filled only under such keys"
		}
		if !agree || !unanimous && best*2 <= len(reads) {
			r.Violation(rule, key+"#shards-index", p.Pos(rd.pos), fmt.Sprintf("this routing read computes the shard as %s while other routing reads compute %s: the same ref is stored in one shard and looked up in another", strings.Join(rd.terms, " / "), common))
			continue
		}
		r.OK(rule, key+"#shards-index", p.Pos(rd.pos), "the index into shards is the routing term "+common+" of the ref, "+how+"; every routing read uses the same term")
		if rd.viaMap != nil {
			c01RouteViaMap(p, r, rd)
			continue
		}
		c01RouteDirect(p, r, rd.fn, rd.elems, rd.refs[0])
	}
	r.Analysed("shard_routing_reads", len(reads))
	r.Floor(rule, 5) // 7 today; 6 with the routing helper inlined
}

// c01RouteDirect: shards[shardNum(x)]: the element is used with the same ref x,
// here or - when x is a parameter and the element is returned - at each caller.
func c01RouteDirect(p *Program, r *Reporter, fn *ssa.Function, elems []ssa.Value, refArg ssa.Value) {
	const rule = "S-route"
	checkUses := func(holder *ssa.Function, elem, ref ssa.Value, pos token.Pos) {
		construct := FuncKey(holder) + "#route-same-ref"
		if elem.Referrers() == nil {
			return
		}
		n := 0
		for _, u := range *elem.Referrers() {
			ci, isCall := u.(ssa.CallInstruction)
			if !isCall {
				if _, isDbg := u.(*ssa.DebugRef); isDbg {
					continue
				}
				if _, isRet := u.(*ssa.Return); isRet && holder == fn {
					continue // returned: checked at the callers
				}
				r.Undecided(rule, construct, p.Pos(pos), "the routed shard is used other than as the receiver of a call; the ref it is used with cannot be followed")
				return
			}
			cc := ci.Common()
			if !cc.IsInvoke() || cc.Value != elem {
				r.Undecided(rule, construct, p.Pos(pos), "the routed shard is passed on to "+(CallSite{holder, ci}).CalleeKey()+"; the ref it is used with cannot be followed")
				return
			}
			for _, a := range cc.Args {
				if !c01IsRef(a.Type()) {
					continue
				}
				n++
				if !sameOrigin(a, ref) {
					r.Violation(rule, construct, p.Pos(ci.Pos()), fmt.Sprintf("%s is called on the shard chosen for one ref but with a different ref: the blob would be stored/looked up in the wrong shard", cc.Method.Name()))
					return
				}
			}
		}
		if n > 0 {
			r.OK(rule, construct, p.Pos(pos), "the shard chosen by shardNum(ref) is used with that same ref")
		}
	}
	returned := false
	for _, ri := range Returns(fn) {
		for _, rv := range ri.Results {
			for _, e := range elems {
				if originValue(rv) == e || rv == e {
					returned = true
				}
			}
		}
	}
	for _, e := range elems {
		checkUses(fn, e, refArg, e.Pos())
	}
	if !returned {
		return
	}
	prm, isPrm := originValue(refArg).(*ssa.Parameter)
	if !isPrm {
		r.Undecided(rule, FuncKey(fn)+"#route-same-ref", p.Pos(fn.Pos()), "returns a shard chosen for a ref that is not one of its parameters")
		return
	}
	pi := -1
	for i, q := range fn.Params {
		if q == prm {
			pi = i
		}
	}
	for _, cs := range p.StaticCallers(fn) {
		if cs.Value() == nil || pi >= len(cs.Args()) {
			r.Undecided(rule, FuncKey(cs.Fn)+"#route-same-ref", p.Pos(cs.Pos()), "routing wrapper started with go/defer")
			continue
		}
		checkUses(cs.Fn, cs.Value(), cs.Args()[pi], cs.Pos())
	}
	if len(p.FuncValueUses(fn)) > 0 {
		r.Undecided(rule, FuncKey(fn)+"#route-same-ref", p.Pos(fn.Pos()), "routing wrapper is used as a function value")
	}
}

// c01RouteViaMap: m[shardNum(b)] = append(m[..], b); for k := range m { use(shards[k], m[k]) }
func c01RouteViaMap(p *Program, r *Reporter, rd *c01RouteRead) {
	const rule = "S-route"
	fn, elems, m := rd.fn, rd.elems, rd.viaMap
	key := FuncKey(fn)
	// every ref is filed under its own shard number
	ki := 0
	for _, ref := range *m.Referrers() {
		mu, ok := ref.(*ssa.MapUpdate)
		if !ok || mu.Map != m {
			continue
		}
		okFiled := false
		if ki < len(rd.refs) {
			b := rd.refs[ki]
			if ap, isCall := originValue(mu.Value).(*ssa.Call); isCall && c01AppendedElems(ap) != nil {
				// m[k] = append(m[k], x): what is added under the shard number of b must be b itself
				okFiled = true
				for _, e := range c01AppendedElems(ap) {
					if !sameOrigin(e, b) {
						okFiled = false
					}
				}
			} else {
				okFiled = sameOrigin(mu.Value, b)
			}
		}
		ki++
		r.Check(okFiled, rule, key+"#filed-under-own-shard", p.Pos(mu.Pos()),
			"the value filed under the shard number of b contains that same b",
			"a ref is filed under the shard number of a different ref")
	}
	// the shard picked with key k is handed the list stored under the same k
	var lists []ssa.Value
	for _, ref := range *m.Referrers() {
		if lk, ok := ref.(*ssa.Lookup); ok && lk.X == m && (lk.Index == rd.index || sameOrigin(lk.Index, rd.index)) {
			lists = append(lists, lk)
		}
	}
	paired := false
	var pos token.Pos = rd.pos
	for _, f := range c01DeepFuncs(fn) {
		for _, c := range CallsIn(f, false) {
			hasShard, hasList := false, false
			for _, a := range c.Args() {
				o := originValue(a)
				for _, e := range elems {
					if o == e {
						hasShard = true
					}
				}
				for _, l := range lists {
					if o == l {
						hasList = true
					}
				}
			}
			if hasShard && hasList {
				paired, pos = true, c.Pos()
			}
		}
	}
	r.Check(paired, rule, key+"#shard-gets-own-list", p.Pos(pos),
		"shards[k] and the ref list m[k] of the same map key k are handed to the same call",
		"no call receives both shards[k] and the list filed under the same key k: a shard would be asked for refs that were routed elsewhere")
}

// ===========================================================================
// Effects across helper boundaries

// c01Estab decides "effect P has been performed successfully" where P may sit
// in a helper: a call of helper H counts as performing P successfully on the
// edge where H's error result is nil (or, when H has no error result, after
// the call) if inside H every return that may report success is reached only
// after P succeeded there (or returns P's own error).
type c01Estab struct {
	e      *c01Eff
	isP    func(c CallSite) bool               // the call is (one of) the effect(s)
	exempt func(from, to *ssa.BasicBlock) bool // the effect is not required on this edge (may be nil)
	memo   map[*ssa.Function]int               // 1 in progress, 2 yes, 3 no
}

func c01NewEstab(e *c01Eff, isP func(c CallSite) bool, exempt func(from, to *ssa.BasicBlock) bool) *c01Estab {
	return &c01Estab{e: e, isP: isP, exempt: exempt, memo: map[*ssa.Function]int{}}
}

// performers: the calls of f that are P, or call a helper that establishes P.
func (x *c01Estab) performers(f *ssa.Function) []*ssa.Call {
	var out []*ssa.Call
	for _, c := range CallsIn(f, false) {
		cv := c.Value()
		if cv == nil {
			continue
		}
		if x.isP(c) {
			out = append(out, cv)
			continue
		}
		if h := x.e.helperCallee(cv); h != nil && h.Parent() == nil && x.establishes(h) {
			out = append(out, cv)
		}
	}
	return out
}

func (x *c01Estab) establishes(h *ssa.Function) bool {
	switch x.memo[h] {
	case 1, 3:
		return false
	case 2:
		return true
	}
	x.memo[h] = 1
	ok := true
	if ErrResultIndex(h) < 0 {
		perf := x.performers(h)
		rets := Returns(h)
		if len(rets) == 0 {
			ok = false
		}
		for _, ri := range rets {
			if x.exempt != nil && x.exempt(nil, ri.Ret.Block()) {
				continue
			}
			found := false
			for _, pc := range perf {
				if d, _ := SuccessDominates(pc, ri.Ret); d {
					found = true
				}
			}
			if !found {
				ok = false
			}
		}
	} else {
		edges := c01MaybeNilReturns(h)
		for _, ed := range edges {
			if good, _ := x.onEdge(h, ed); !good {
				ok = false
			}
		}
	}
	if ok {
		x.memo[h] = 2
	} else {
		x.memo[h] = 3
	}
	return ok
}

// onEdge: on this maybe-nil return edge of f the effect is known to have
// succeeded (the edge returns the effect's own error, or lies behind the
// effect's err == nil edge), or the effect is exempt there.
func (x *c01Estab) onEdge(f *ssa.Function, ed c01NilRet) (bool, string) {
	if x.exempt != nil && x.exempt(ed.from, ed.to) {
		return true, ""
	}
	why := "no such call lies on the path"
	for _, pc := range x.performers(f) {
		ev, hasErr, discarded := ErrValue(pc)
		if hasErr && !discarded && sameOrigin(ed.val, ev) {
			return true, ""
		}
		ok, w := c01SuccessOnEdge(pc, ed)
		if ok {
			return true, ""
		}
		why = w
	}
	return false, why
}

// before: the effect succeeded on every path to site (site anywhere in the
// body: the facts at the calls leading to site's function count too).
func (x *c01Estab) before(site ssa.Instruction) (bool, string) {
	why := "no such call precedes the site"
	for _, at := range x.e.chain(site) {
		for _, pc := range x.performers(at.Parent()) {
			ok, w := SuccessDominates(pc, at)
			if ok {
				return true, ""
			}
			why = w
		}
	}
	return false, why
}

// ===========================================================================
// O-tomb
//
// Anchors by role, not by name: the overlay type is the implementer of
// blobserver.BlobReceiver declared in the overlay package; its tombstone store
// is the field of type sorted.KeyValue, its upper layer the field whose type
// can receive blobs, its lower layer the other field that can be fetched from;
// the tombstone predicates are the unexported bool functions of the package
// with a blob.Ref parameter that Get from the tombstone store. The entry
// points are the interface methods; every site is looked for in their
// effective bodies.

type c01Overlay struct {
	named                      *types.Named
	upperIdx, lowerIdx, delIdx int
	isDel                      map[*ssa.Function]bool
}

func c01OverlayRoles(p *Program) *c01Overlay {
	const rel = "pkg/blobserver/overlay"
	recv := p.Iface("pkg/blobserver", "BlobReceiver")
	fetcher := p.Iface("pkg/blob", "Fetcher")
	kv := p.NamedType("pkg/sorted", "KeyValue")
	ov := &c01Overlay{upperIdx: -1, lowerIdx: -1, delIdx: -1, isDel: map[*ssa.Function]bool{}}
	for _, n := range p.Implementers(recv, false) {
		if n.Obj().Pkg() == nil || RelPkg(n.Obj().Pkg()) != rel {
			continue
		}
		if _, isStruct := n.Underlying().(*types.Struct); !isStruct {
			continue
		}
		if ov.named != nil {
			brokenf("anchor unresolved: more than one blob-receiving struct type in %s", rel)
		}
		ov.named = n
	}
	if ov.named == nil {
		brokenf("anchor unresolved: no blob-receiving struct type in %s", rel)
	}
	st := ov.named.Underlying().(*types.Struct)
	set := func(dst *int, i int, what string) {
		if *dst >= 0 {
			brokenf("anchor unresolved: %s has more than one field that can be the %s", ov.named.Obj().Name(), what)
		}
		*dst = i
	}
	for i := 0; i < st.NumFields(); i++ {
		t := st.Field(i).Type()
		switch {
		case types.Identical(t, kv):
			set(&ov.delIdx, i, "tombstone store (sorted.KeyValue)")
		case types.IsInterface(t) && types.Implements(t, recv):
			set(&ov.upperIdx, i, "upper layer (can receive blobs)")
		case types.IsInterface(t) && types.Implements(t, fetcher):
			set(&ov.lowerIdx, i, "lower layer (read-only)")
		}
	}
	if ov.delIdx < 0 || ov.upperIdx < 0 || ov.lowerIdx < 0 {
		brokenf("anchor unresolved: %s.%s does not have a sorted.KeyValue tombstone field, a receiving upper layer and a read-only lower layer", rel, ov.named.Obj().Name())
	}
	// tombstone predicates
	for _, fn := range p.FuncsIn(rel) {
		if fn.Parent() != nil || fn.Blocks == nil || token.IsExported(fn.Name()) {
			continue
		}
		res := fn.Signature.Results()
		if res.Len() != 1 || !c01IsBasic(res.At(0).Type(), types.Bool) {
			continue
		}
		hasRef := false
		for _, prm := range fn.Params {
			if c01IsRef(prm.Type()) {
				hasRef = true
			}
		}
		if !hasRef {
			continue
		}
		for _, c := range c01EffOf(fn).allCalls() {
			if ov.onField(c, ov.delIdx, "Get") {
				ov.isDel[fn] = true
			}
		}
	}
	return ov
}

func (ov *c01Overlay) onField(c CallSite, idx int, method string) bool {
	cc := c.Common()
	return cc.IsInvoke() && cc.Method.Name() == method && c01FieldLoad(cc.Value, ov.named, idx)
}

func (ov *c01Overlay) method(p *Program, name string) *ssa.Function {
	fn := c01DeclaredMethod(p, ov.named, name)
	if fn == nil || fn.Blocks == nil {
		brokenf("anchor unresolved: %s has no declared method %s", ov.named.Obj().Name(), name)
	}
	return fn
}

func c01RuleOTomb(p *Program, r *Reporter, insts []*c01Inst) {
	const rule = "O-tomb"
	ov := c01OverlayRoles(p)
	named, upperIdx, lowerIdx, delIdx := ov.named, ov.upperIdx, ov.lowerIdx, ov.delIdx
	onField := ov.onField
	refParam := func(fn *ssa.Function) *ssa.Parameter {
		for _, prm := range fn.Params[1:] {
			if c01IsRef(prm.Type()) {
				return prm
			}
		}
		brokenf("anchor unresolved: %s has no blob.Ref parameter", FuncKey(fn))
		return nil
	}
	refsParam := func(fn *ssa.Function) *ssa.Parameter {
		for _, prm := range fn.Params[1:] {
			if !c01IsRef(prm.Type()) && c01IsRefOrRefs(prm.Type()) {
				return prm
			}
		}
		brokenf("anchor unresolved: %s has no []blob.Ref parameter", FuncKey(fn))
		return nil
	}
	isElemOf := func(e *c01Eff, prm *ssa.Parameter) func(ssa.Value) bool {
		return func(v ssa.Value) bool {
			for _, o := range e.origins(v) {
				ld, ok := o.(*ssa.UnOp)
				if !ok || ld.Op != token.MUL {
					return false
				}
				ia, ok := ld.X.(*ssa.IndexAddr)
				if !ok || e.origin(ia.X) != ssa.Value(prm) {
					return false
				}
			}
			return true
		}
	}
	// notDeletedAt: the block is entered only after a tombstone predicate returned false for an x that is the same thing as `what`
	notDeletedAt := func(e *c01Eff, blk *ssa.BasicBlock, what ssa.Value) bool {
		for _, f := range e.factsAt(blk) {
			cond, neg := c01StripNot(f.Cond)
			val := f.Val != neg
			call, ok := originValue(cond).(*ssa.Call)
			if !ok || val || !ov.isDel[call.Call.StaticCallee()] {
				continue
			}
			for _, a := range call.Call.Args {
				if c01IsRef(a.Type()) && e.sameThing(a, what) {
					return true
				}
			}
		}
		return false
	}
	delNilOn := func(from, to *ssa.BasicBlock) bool {
		k, isNil := c01NilOnEdge(from, to, func(o ssa.Value) bool { return c01FieldLoad(o, named, delIdx) })
		return k && isNil
	}

	// ---- ReceiveBlob
	{
		fn := ov.method(p, "ReceiveBlob")
		key := FuncKey(fn)
		e := c01EffOf(fn)
		br := refParam(fn)
		isBr := func(v ssa.Value) bool { return e.same(v, br) }
		var ups, dels []*ssa.Call
		for _, c := range e.allCalls() {
			if c.Value() == nil {
				continue
			}
			if onField(c, upperIdx, "ReceiveBlob") {
				ups = append(ups, c.Value())
			}
			if onField(c, delIdx, "Delete") {
				dels = append(dels, c.Value())
			}
		}
		isUp := func(c CallSite) bool { return onField(c, upperIdx, "ReceiveBlob") }
		isDelete := func(c CallSite) bool { return onField(c, delIdx, "Delete") }
		stored := c01NewEstab(e, isUp, nil)
		cleared := c01NewEstab(e, isDelete, delNilOn)
		if len(ups) == 0 {
			r.Violation(rule, key+"#upper-receive", p.Pos(fn.Pos()), "ReceiveBlob no longer stores the blob into the upper layer")
		}
		for _, up := range ups {
			same := false
			for _, a := range up.Call.Args {
				if c01IsRef(a.Type()) && isBr(a) {
					same = true
				}
			}
			r.Check(same, rule, key+"#upper-receive", p.Pos(up.Pos()), "the upper layer receives the blob under the caller's ref", "the upper layer is given a different ref than the one received")
		}
		if len(dels) == 0 {
			r.Violation(rule, key+"#tombstone-clear", p.Pos(fn.Pos()), "ReceiveBlob never deletes the tombstone: a blob removed once stays invisible after it is received again")
		}
		for _, d := range dels {
			okKey := c01RefString(d.Call.Args[0], isBr)
			r.Check(okKey, rule, key+"#tombstone-clear-key", p.Pos(d.Pos()), "the tombstone deleted is keyed by Ref.String() of the received ref", "the tombstone deleted is not keyed by Ref.String() of the received ref (RemoveBlobs/isDeleted use that key)")
			if len(ups) > 0 {
				ok, why := stored.before(d)
				r.Check(ok, rule, key+"#clear-after-store", p.Pos(d.Pos()), "the tombstone is cleared only after upper.ReceiveBlob succeeded", "the tombstone is cleared where upper.ReceiveBlob has not (yet) succeeded ("+why+"): a rejected upload would resurrect the lower layer's copy")
			}
		}
		if len(ups) > 0 && len(dels) > 0 {
			for _, ed := range c01MaybeNilReturns(fn) {
				construct := key + "#nil-return"
				bad := ""
				if ok, why := stored.onEdge(fn, ed); !ok {
					bad = "upper.ReceiveBlob is not known to have succeeded (" + why + ")"
				} else if ok, _ := cleared.onEdge(fn, ed); !ok {
					bad = "with a tombstone store configured, deleted.Delete(ref) is not known to have succeeded (skipped, or its error dropped)"
				}
				r.Check(bad == "", rule, construct, p.Pos(ed.ret.Pos()),
					c01EdgeName(p, ed)+": a nil error implies upper.ReceiveBlob succeeded and (deleted == nil or the tombstone was deleted successfully)",
					c01EdgeName(p, ed)+" may report success although "+bad)
			}
		}
	}

	// ---- RemoveBlobs
	{
		fn := ov.method(p, "RemoveBlobs")
		key := FuncKey(fn)
		e := c01EffOf(fn)
		blobs := refsParam(fn)
		var commit, begin *ssa.Call
		for _, c := range e.allCalls() {
			if c.Value() == nil {
				continue
			}
			if onField(c, delIdx, "CommitBatch") {
				commit = c.Value()
			}
			if onField(c, delIdx, "BeginBatch") {
				begin = c.Value()
			}
		}
		if commit == nil || begin == nil || !e.same(commit.Call.Args[0], begin) {
			r.Violation(rule, key+"#tombstone-commit", p.Pos(fn.Pos()), "RemoveBlobs does not commit a batch begun on the tombstone store")
		} else {
			nSet := 0
			for _, c := range e.allCalls() {
				cc := c.Common()
				if !cc.IsInvoke() || cc.Method.Name() != "Set" || !e.same(cc.Value, begin) {
					continue
				}
				nSet++
				okKey := c01RefString(cc.Args[0], isElemOf(e, blobs))
				okOrder := false
				if a, b, lifted := e.liftPair(c.Instr.(ssa.Instruction), commit); lifted {
					okOrder = c01ReachesFrom(a.Block(), b.Block()) || a.Block() == b.Block() && instrIndex(a) < instrIndex(b)
				}
				r.Check(okKey && okOrder && inLoop(c.Block()), rule, key+"#tombstone-set", p.Pos(c.Pos()),
					"each element of blobs is Set in the committed batch under Ref.String(), in a loop before the commit",
					"the tombstone Set is not keyed by Ref.String() of an element of blobs, is not in a loop, or does not precede the commit")
			}
			if nSet == 0 {
				r.Violation(rule, key+"#tombstone-set", p.Pos(commit.Pos()), "the committed batch never Sets a tombstone")
			}
			committed := c01NewEstab(e, func(c CallSite) bool { return onField(c, delIdx, "CommitBatch") }, nil)
			for _, ed := range c01MaybeNilReturns(fn) {
				ok, why := committed.onEdge(fn, ed)
				r.Check(ok, rule, key+"#nil-return", p.Pos(ed.ret.Pos()),
					c01EdgeName(p, ed)+": a nil error implies the tombstone batch was committed",
					c01EdgeName(p, ed)+" may report success without a committed tombstone batch ("+why+"): the lower layer's copy stays visible after removal")
			}
		}
	}

	// ---- the tombstone predicates (isDeleted)
	{
		var preds []*ssa.Function
		for fn := range ov.isDel {
			preds = append(preds, fn)
		}
		sort.Slice(preds, func(i, j int) bool { return FuncKey(preds[i]) < FuncKey(preds[j]) })
		if len(preds) == 0 {
			r.Violation(rule, "pkg/blobserver/overlay#lookup", p.Pos(ov.method(p, "Fetch").Pos()), "no function of the overlay package answers 'is this ref deleted' by looking the ref up in the tombstone store")
		}
		for _, fn := range preds {
			key := FuncKey(fn)
			e := c01EffOf(fn)
			var br *ssa.Parameter
			for _, prm := range fn.Params {
				if c01IsRef(prm.Type()) {
					br = prm
				}
			}
			var get *ssa.Call
			for _, c := range e.allCalls() {
				if c.Value() != nil && onField(c, delIdx, "Get") {
					get = c.Value()
				}
			}
			r.Check(c01RefString(get.Call.Args[0], func(v ssa.Value) bool { return e.same(v, br) }), rule, key+"#lookup-key", p.Pos(get.Pos()),
				"the tombstone looked up is keyed by Ref.String() of the ref asked about", "the tombstone looked up is not keyed by Ref.String() of the ref asked about")
			found := c01NewEstab(e, func(c CallSite) bool { return onField(c, delIdx, "Get") }, nil)
			for _, ri := range Returns(fn) {
				v := ri.Results[0]
				if c, isConst := v.(*ssa.Const); isConst && c.Value != nil && c.Value.String() == "false" {
					continue
				}
				ok, why := found.before(ri.Ret)
				if _, isConst := v.(*ssa.Const); !isConst {
					gErr, _, _ := ErrValue(get)
					ok = ok || e.depends(v, func(o ssa.Value) bool { return o == gErr })
				}
				r.Check(ok, rule, key+"#true-only-if-found", p.Pos(ri.Ret.Pos()),
					"isDeleted answers true only where the tombstone Get succeeded", "isDeleted can answer true where the tombstone Get did not succeed ("+why+"): present blobs would be hidden")
			}
		}
	}

	// ---- Fetch
	{
		fn := ov.method(p, "Fetch")
		key := FuncKey(fn)
		e := c01EffOf(fn)
		br := refParam(fn)
		n := 0
		for _, c := range e.allCalls() {
			if !(onField(c, upperIdx, "Fetch") || onField(c, lowerIdx, "Fetch") || onField(c, upperIdx, "SubFetch") || onField(c, lowerIdx, "SubFetch")) {
				continue
			}
			n++
			var arg ssa.Value
			for _, a := range c.Common().Args {
				if c01IsRef(a.Type()) {
					arg = a
				}
			}
			ok := arg != nil && e.same(arg, br) && notDeletedAt(e, c.Block(), arg)
			r.Check(ok, rule, key+"#fetch-gated", p.Pos(c.Pos()),
				"the layer is read only under isDeleted(ref) == false for the same ref", "a layer is read without isDeleted(ref) == false being established for that ref: a removed blob can still be fetched")
		}
		if n == 0 {
			r.Violation(rule, key+"#fetch-gated", p.Pos(fn.Pos()), "Fetch reads neither layer")
		}
	}

	// ---- StatBlobs
	{
		fn := ov.method(p, "StatBlobs")
		key := FuncKey(fn)
		e := c01EffOf(fn)
		blobs := refsParam(fn)
		fromBlobs := isElemOf(e, blobs)
		guarded := map[ssa.Value]bool{}
		for _, c := range e.allCalls() {
			b, ok := c.Common().Value.(*ssa.Builtin)
			if !ok || b.Name() != "append" || c.Value() == nil || len(c.Common().Args) != 2 {
				continue
			}
			for _, el := range c01AppendedElems(c.Value()) {
				if !fromBlobs(el) {
					continue
				}
				ok2 := notDeletedAt(e, c.Block(), el)
				if ok2 {
					guarded[c.Value()] = true
				}
				r.Check(ok2, rule, key+"#stat-filter", p.Pos(c.Pos()),
					"a requested ref is kept for the layers only under isDeleted(ref) == false", "a requested ref is passed on to the layers without isDeleted(ref) == false: a removed blob is still reported by stat")
			}
		}
		n := 0
		for _, c := range e.allCalls() {
			if !(onField(c, upperIdx, "StatBlobs") || onField(c, lowerIdx, "StatBlobs")) {
				continue
			}
			n++
			var arg ssa.Value
			for _, a := range c.Common().Args {
				if !c01IsRef(a.Type()) && c01IsRefOrRefs(a.Type()) {
					arg = a
				}
			}
			ok := arg != nil && !e.same(arg, blobs) && e.depends(arg, func(v ssa.Value) bool { return guarded[v] })
			r.Check(ok, rule, key+"#stat-gated", p.Pos(c.Pos()),
				"the layer is asked only about refs that passed the isDeleted filter", "a layer is asked about the caller's refs without the isDeleted filter")
		}
		if n == 0 {
			r.Violation(rule, key+"#stat-gated", p.Pos(fn.Pos()), "StatBlobs asks neither layer")
		}
	}

	// ---- EnumerateBlobs
	{
		fn := ov.method(p, "EnumerateBlobs")
		key := FuncKey(fn)
		e := c01EffOf(fn)
		var sends []c01Send
		for _, in := range insts {
			if in.Root == fn {
				sends = in.sends
			}
		}
		for _, s := range sends {
			r.Check(notDeletedAt(e, s.in.Block(), s.x), rule, key+"#enumerate-gated", p.Pos(s.in.Pos()),
				"a blob is yielded only under isDeleted(its ref) == false", "a blob is yielded without isDeleted(its ref) == false: removed blobs are still listed")
		}
		if len(sends) == 0 {
			r.Violation(rule, key+"#enumerate-gated", p.Pos(fn.Pos()), "overlay EnumerateBlobs no longer yields blobs itself; the tombstone filter cannot be located")
		}
	}
	r.Floor(rule, 13) // 15 today
}

// ===========================================================================
// M-dedup / M-lowest: merging enumerators built on blob.ChanPeeker
//
// Instance set, by role: every enumerator instance (an EnumerateBlobs method of
// a C01 back end, or a function of EnumerateBlobs shape one of them hands dest
// to) that sends on dest itself and whose effective body drives
// blob.ChanPeekers (today: blobserver.mergedEnumerate). All sites are looked
// for in the effective body, values are related across helper boundaries.

func c01IsPeekerMethod(f *ssa.Function, names ...string) bool {
	if f == nil {
		return false
	}
	for _, n := range names {
		if funcIs(f, "perkeep.org/pkg/blob", "ChanPeeker", n) {
			return true
		}
	}
	return false
}

// c01MergeInstances: the instances that merge through ChanPeekers.
func c01MergeInstances(insts []*c01Inst) []*c01Inst {
	var out []*c01Inst
	for _, in := range insts {
		if len(in.sends) == 0 {
			continue
		}
		uses := false
		for _, c := range c01EffOf(in.Root).allCalls() {
			if c01IsPeekerMethod(c.Common().StaticCallee(), "Peek", "MustPeek", "Take", "MustTake", "Closed") {
				uses = true
			}
		}
		if uses {
			out = append(out, in)
		}
	}
	return out
}

type c01Filter struct {
	pred   *ssa.Call     // the predicate call
	fn     *ssa.Function // the predicate: a literal, or a helper function/method
	argIdx int           // which argument of pred is the peeked ref
	peeker ssa.Value
}

func c01RuleMDedup(p *Program, r *Reporter, insts []*c01Inst) {
	const rule = "M-dedup"
	merges := c01MergeInstances(insts)
	if len(merges) == 0 {
		fn := p.Func("pkg/blobserver", "", "MergedEnumerate")
		r.Undecided(rule, FuncKey(fn)+"#merge", p.Pos(fn.Pos()), "no enumerator reached from the C01 back ends merges its sources through blob.ChanPeeker any more; the merge's duplicate suppression cannot be located")
	}
	for _, in := range merges {
		c01MDedupOne(p, r, in)
	}
	r.Floor(rule, 4)
}

func c01MDedupOne(p *Program, r *Reporter, in *c01Inst) {
	const rule = "M-dedup"
	fn := in.Root
	key := FuncKey(fn)
	e := c01EffOf(fn)
	sends := in.sends
	isPeek := func(c *ssa.Call) bool { return c01IsPeekerMethod(c.Call.StaticCallee(), "Peek", "MustPeek") }
	// (1) every Take is gated by a predicate evaluated on the peeked ref of the same peeker
	var filters []c01Filter
	nTake := 0
	for _, c := range e.allCalls() {
		if !c01IsPeekerMethod(c.Common().StaticCallee(), "Take", "MustTake") {
			continue
		}
		nTake++
		peeker := c.Args()[0]
		var got *c01Filter
		for _, f := range e.factsAt(c.Block()) {
			cond, neg := c01StripNot(f.Cond)
			if f.Val == neg {
				continue
			}
			pc, ok := originValue(cond).(*ssa.Call)
			if !ok || pc.Call.IsInvoke() {
				continue
			}
			pf := e.predicateFn(pc)
			if pf == nil {
				continue
			}
			for i, a := range pc.Call.Args {
				if !c01IsRef(a.Type()) || i >= len(pf.Params) {
					continue
				}
				if e.depends(a, func(v ssa.Value) bool {
					pk, ok := v.(*ssa.Call)
					return ok && isPeek(pk) && e.same(pk.Call.Args[0], peeker)
				}) {
					got = &c01Filter{pc, pf, i, peeker}
				}
			}
		}
		if got != nil {
			filters = append(filters, *got)
		}
		r.Check(got != nil, rule, key+"#take-gated", p.Pos(c.Pos()),
			"an element is discarded (Take) only where the discard predicate returned true for the ref peeked from the same source",
			"Take is not controlled by a predicate on the ref peeked from the same source: elements are dropped or duplicates kept")
	}
	if nTake == 0 {
		r.Violation(rule, key+"#take-gated", p.Pos(fn.Pos()), "no element is ever discarded: a blob present in two sources is emitted twice")
	}
	// (2) the predicate means  valid(last) && ref <= last
	var lasts []c01Last
	donePred := map[*ssa.Function]bool{}
	for _, f := range filters {
		if donePred[f.fn] {
			continue
		}
		donePred[f.fn] = true
		last, ok, detail := c01PredicateSemantics(e, f)
		if last != nil {
			dup := false
			for _, l := range lasts {
				if l == *last {
					dup = true
				}
			}
			if !dup {
				lasts = append(lasts, *last)
			}
		}
		if detail == "undecided" {
			r.Undecided(rule, key+"#predicate", p.Pos(f.fn.Pos()), "the discard predicate could not be evaluated symbolically")
			continue
		}
		r.Check(ok, rule, key+"#predicate", p.Pos(f.fn.Pos()),
			"the discard predicate is true exactly for refs <= the last sent ref (and false before anything was sent)",
			"the discard predicate is not 'ref <= last sent ref': "+detail)
	}
	// (3) the remembered ref is assigned the sent ref in the iteration of the send (on the send edge, or just before the offer)
	all := in.allSends()
	sentAt := func(at ssa.Instruction, val ssa.Value) (bool, string) {
		ok, why := false, "the assignment is neither on the send edge nor in the sending iteration before the send"
		for _, s := range all {
			a, sx, lifted := e.liftPair(at, s.in)
			if !lifted {
				continue
			}
			onEdge := false
			switch x := sx.(type) {
			case *ssa.Send:
				onEdge = Precedes(x, a)
			case *ssa.Select:
				for _, f := range FactsAt(a.Block()) {
					bo, isBo := f.Cond.(*ssa.BinOp)
					if !isBo || bo.Op != token.EQL || !f.Val {
						continue
					}
					ex, isEx := bo.X.(*ssa.Extract)
					k, isK := ConstInt(bo.Y)
					if isEx && isK && ex.Tuple == ssa.Value(x) && ex.Index == 0 && int(k) < len(x.States) &&
						x.States[k].Dir == types.SendOnly && s.body.isDest(x.States[k].Chan) {
						onEdge = true
					}
				}
			default:
				// the call of a helper that offers the element: the bookkeeping follows the call
				onEdge = Precedes(sx, a)
			}
			// equally good: the candidate's ref is recorded in the same iteration just before it is offered
			// (every other outcome of the offer leaves the function)
			sb, ab := sx.Block(), a.Block()
			if !onEdge && c01ReachesFrom(sb, ab) && (ab == sb && instrIndex(a) < instrIndex(sx) || ab != sb && ab.Dominates(sb)) {
				onEdge = true
			}
			if !onEdge {
				continue
			}
			if c01SentThing(e, val, s) {
				ok = true
			} else {
				why = "the value assigned is not the ref of the blob just sent"
			}
		}
		return ok, why
	}
	for _, last := range lasts {
		switch {
		case last.phi != nil:
			web := map[*ssa.Phi]bool{}
			var grow func(ph *ssa.Phi)
			grow = func(ph *ssa.Phi) {
				if web[ph] || len(web) > 16 {
					return
				}
				web[ph] = true
				for _, ev := range ph.Edges {
					if q, ok := ev.(*ssa.Phi); ok {
						grow(q)
					}
				}
			}
			grow(last.phi)
			nUpd := 0
			for ph := range web {
				for i, ev := range ph.Edges {
					if q, isPhi := ev.(*ssa.Phi); isPhi && web[q] {
						continue
					}
					if _, isConst := ev.(*ssa.Const); isConst {
						continue // the zero ref before anything was sent
					}
					nUpd++
					pred := ph.Block().Preds[i]
					ok, why := sentAt(pred.Instrs[len(pred.Instrs)-1], ev)
					r.Check(ok, rule, key+"#last-sent-update", p.Pos(ev.Pos()),
						"the last-sent ref is assigned the ref of the blob just sent, on the send edge", "last-sent bookkeeping is wrong: "+why)
				}
			}
			if nUpd == 0 {
				r.Violation(rule, key+"#last-sent-update", p.Pos(last.phi.Pos()), "the last-sent ref is never updated: duplicates are not suppressed")
			}
		case last.hasPlace:
			var sts []*ssa.Store
			for _, st := range e.storesToPlace(last.place) {
				if ld, ok := originValue(st.Val).(*ssa.UnOp); ok && ld.Op == token.MUL {
					if q, ok := e.placeOf(ld.X); ok && q == last.place {
						continue // x = x
					}
				}
				sts = append(sts, st)
			}
			if len(sts) == 0 {
				r.Violation(rule, key+"#last-sent-update", p.Pos(last.place.base.Pos()), "the last-sent ref is never updated: duplicates are not suppressed")
			}
			for _, st := range sts {
				ok, why := sentAt(st, st.Val)
				r.Check(ok, rule, key+"#last-sent-update", p.Pos(st.Pos()),
					"the last-sent ref is assigned the ref of the blob just sent, on the send edge", "last-sent bookkeeping is wrong: "+why)
			}
		default:
			r.Undecided(rule, key+"#last-sent-update", p.Pos(fn.Pos()), "the value the discard predicate compares against is neither a variable, a field nor a loop-carried value; its updates cannot be followed")
		}
	}
	// (4) in every iteration the filter on a source runs before that source's head is taken as candidate
	for _, s := range sends {
		nCand := 0
		for _, c := range e.allCalls() {
			pk := c.Value()
			if pk == nil || !isPeek(pk) || !e.depends(s.x, func(v ssa.Value) bool { return v == ssa.Value(pk) }) {
				continue
			}
			nCand++
			ok := false
			for _, f := range filters {
				if !e.same(f.peeker, pk.Call.Args[0]) {
					continue
				}
				fi, ci, lifted := e.liftPair(f.pred, pk)
				if !lifted {
					continue
				}
				fb, cb := fi.Block(), ci.Block()
				if fb == cb {
					if instrIndex(fi) < instrIndex(ci) {
						ok = true
					}
					continue
				}
				fwd, bwd := false, false
				for _, sc := range fb.Succs {
					if c01Reach(fb, sc, true)[cb] {
						fwd = true
					}
				}
				for _, sc := range cb.Succs {
					if c01Reach(cb, sc, true)[fb] {
						bwd = true
					}
				}
				if fwd && !bwd {
					ok = true
				}
			}
			r.Check(ok, rule, key+"#filter-before-candidate", p.Pos(pk.Pos()),
				"the candidate that can be sent is peeked from a source after that source's too-low elements were discarded in the same iteration",
				"a candidate is taken from a source whose head was not filtered against the last sent ref first")
		}
		if nCand == 0 {
			r.Undecided(rule, key+"#filter-before-candidate", p.Pos(s.in.Pos()), "the sent value is not derived from a ChanPeeker peek")
		}
	}
}

// c01SentThing: val is (a part of) the value send s sends; for a virtual send,
// of the argument from which the helper's sent value is built.
func c01SentThing(e *c01Eff, val ssa.Value, s c01Send) bool {
	if s.x != nil {
		return e.sameThing(val, s.x)
	}
	ci, ok := s.in.(ssa.CallInstruction)
	if !ok {
		return false
	}
	for _, a := range ci.Common().Args {
		if e.sameThing(val, a) {
			return true
		}
	}
	return false
}

// predicateFn: the function a predicate call runs - a literal bound in the
// calling function or reaching it as an argument, or a helper of the body.
func (e *c01Eff) predicateFn(pc *ssa.Call) *ssa.Function {
	if f := (CallSite{pc.Parent(), pc}).Callee(); f != nil {
		if f.Blocks != nil && (f.Parent() != nil || c01IsHelperOf(TopFunc(e.root), f)) {
			return f
		}
		return nil
	}
	var found *ssa.Function
	for _, o := range e.origins(pc.Call.Value) {
		var f *ssa.Function
		switch x := o.(type) {
		case *ssa.MakeClosure:
			f = x.Fn.(*ssa.Function)
		case *ssa.Function:
			f = x
		}
		if f == nil || f.Blocks == nil || found != nil && found != f {
			return nil
		}
		found = f
	}
	return found
}

// c01Last describes what the discard predicate compares the peeked ref with:
// a place (a variable, captured or not, or a field) or a loop-carried value.
type c01Last struct {
	place    c01Place
	hasPlace bool
	phi      *ssa.Phi
}

// c01PredicateSemantics evaluates the discard predicate of filter f: a function
// that compares one blob.Ref argument (the peeked ref) with a remembered
// blob.Ref - a captured variable, a field of its receiver or of a captured
// struct, or another parameter - for the cases arg < last, arg == last,
// arg > last (last valid) and last invalid. Expected: true, true, false, false.
func c01PredicateSemantics(e *c01Eff, f c01Filter) (last *c01Last, ok bool, detail string) {
	lit := f.fn
	if f.argIdx >= len(lit.Params) || !c01IsRef(lit.Params[f.argIdx].Type()) {
		return nil, false, "undecided"
	}
	arg := lit.Params[f.argIdx]
	isArg := func(v ssa.Value) bool { return originValue(v) == ssa.Value(arg) || v == ssa.Value(arg) }
	same := func(a, b c01Last) bool { return a == b }
	lastOf := func(v ssa.Value) (c01Last, bool) {
		if !c01IsRef(v.Type()) || isArg(v) {
			return c01Last{}, false
		}
		switch x := v.(type) {
		case *ssa.UnOp:
			if x.Op != token.MUL {
				return c01Last{}, false
			}
			if o, isPrm := originValue(x).(*ssa.Parameter); isPrm && o != arg {
				v = o // a spilled parameter
				break
			}
			if pl, ok := e.placeOf(x.X); ok {
				return c01Last{place: pl, hasPlace: true}, true
			}
			return c01Last{}, false
		}
		prm, isPrm := originValue(v).(*ssa.Parameter)
		if !isPrm || prm == arg || prm.Parent() != lit {
			return c01Last{}, false
		}
		i := c01ParamIndex(lit, prm)
		if i < 0 || i >= len(f.pred.Call.Args) {
			return c01Last{}, false
		}
		act := f.pred.Call.Args[i]
		for _, o := range e.origins(act) {
			switch y := o.(type) {
			case *ssa.UnOp:
				if y.Op == token.MUL {
					if pl, ok := e.placeOf(y.X); ok {
						return c01Last{place: pl, hasPlace: true}, true
					}
				}
			case *ssa.Phi:
				return c01Last{phi: y}, true
			}
		}
		return c01Last{}, false
	}
	isLast := func(v ssa.Value) bool {
		l, ok := lastOf(v)
		if !ok {
			return false
		}
		if last == nil {
			last = &l
		}
		return same(*last, l)
	}
	want := []struct {
		cmp   int // -1 arg<last, 0 equal, +1 arg>last
		valid bool
		res   bool
		name  string
	}{
		{-1, true, true, "a ref smaller than the last sent one is not discarded"},
		{0, true, true, "a ref equal to the last sent one is not discarded: a blob held by two sources is listed twice"},
		{1, true, false, "a ref greater than the last sent one is discarded: blobs are lost"},
		{1, false, false, "refs are discarded before anything was sent"},
	}
	for _, c := range want {
		got, decided := c01RunPredicate(lit, isArg, isLast, c.cmp, c.valid)
		if !decided {
			return last, false, "undecided"
		}
		if got != c.res {
			return last, false, c.name
		}
	}
	return last, true, ""
}

// c01RunPredicate interprets the predicate's CFG concretely for one world,
// remembering which phi edge was taken.
func c01RunPredicate(lit *ssa.Function, isArg, isLast func(ssa.Value) bool, cmp int, valid bool) (res, decided bool) {
	env := map[ssa.Value]bool{}
	var val func(v ssa.Value, depth int) (bool, bool)
	val = func(v ssa.Value, depth int) (bool, bool) {
		if depth > 20 {
			return false, false
		}
		if b, ok := env[v]; ok {
			return b, true
		}
		switch x := v.(type) {
		case *ssa.Const:
			if x.Value != nil && (x.Value.String() == "true" || x.Value.String() == "false") {
				return x.Value.String() == "true", true
			}
		case *ssa.UnOp:
			if x.Op == token.NOT {
				b, ok := val(x.X, depth+1)
				return !b, ok
			}
		case *ssa.BinOp:
			if (x.Op == token.EQL || x.Op == token.NEQ) && (isArg(x.X) && isLast(x.Y) || isArg(x.Y) && isLast(x.X)) {
				return (cmp == 0) == (x.Op == token.EQL), true
			}
		case *ssa.Call:
			f := x.Call.StaticCallee()
			if f == nil {
				return false, false
			}
			if funcIs(f, "perkeep.org/pkg/blob", "Ref", "Valid") && len(x.Call.Args) == 1 {
				if isLast(x.Call.Args[0]) {
					return valid, true
				}
				if isArg(x.Call.Args[0]) {
					return true, true
				}
			}
			if funcIs(f, "perkeep.org/pkg/blob", "Ref", "Less") && len(x.Call.Args) == 2 {
				a, b := x.Call.Args[0], x.Call.Args[1]
				if isArg(a) && isLast(b) {
					return cmp < 0, true
				}
				if isLast(a) && isArg(b) {
					return cmp > 0, true
				}
			}
		}
		return false, false
	}
	var prev *ssa.BasicBlock
	blk := lit.Blocks[0]
	for steps := 0; steps < 64; steps++ {
		// bind this block's phis according to the edge taken
		for _, in := range blk.Instrs {
			ph, ok := in.(*ssa.Phi)
			if !ok {
				break
			}
			for i, pb := range blk.Preds {
				if pb == prev {
					if b, ok := val(ph.Edges[i], 0); ok {
						env[ph] = b
					} else {
						delete(env, ph)
					}
				}
			}
		}
		switch t := blk.Instrs[len(blk.Instrs)-1].(type) {
		case *ssa.Return:
			if len(t.Results) != 1 {
				return false, false
			}
			return val(t.Results[0], 0)
		case *ssa.If:
			b, ok := val(t.Cond, 0)
			if !ok {
				return false, false
			}
			prev = blk
			if b {
				blk = blk.Succs[0]
			} else {
				blk = blk.Succs[1]
			}
		case *ssa.Jump:
			prev, blk = blk, blk.Succs[0]
		default:
			return false, false
		}
	}
	return false, false
}

// ===========================================================================
// E-sorted (added beyond the design): leaves that read an unordered source sort it

func c01IsSortCall(c CallSite) bool {
	f := c.Callee()
	if f == nil || f.Pkg == nil && f.Object() == nil {
		return false
	}
	if o := f.Origin(); o != nil {
		f = o
	}
	pkg := ""
	if f.Pkg != nil {
		pkg = f.Pkg.Pkg.Path()
	} else if f.Object() != nil && f.Object().Pkg() != nil {
		pkg = f.Object().Pkg().Path()
	}
	switch pkg {
	case "sort":
		switch f.Name() {
		case "Sort", "Stable", "Strings", "Slice", "SliceStable":
			return true
		}
	case "slices":
		return strings.HasPrefix(f.Name(), "Sort")
	}
	return false
}

// c01SameVarLoad: both values are reads of one and the same variable (a slice
// variable captured by a comparator literal lives in a cell and is re-read).
func c01SameVarLoad(a, b ssa.Value) bool {
	cellOf := func(v ssa.Value) ssa.Value {
		ld, ok := originValue(v).(*ssa.UnOp)
		if !ok || ld.Op != token.MUL {
			return nil
		}
		c, ok := varOf(ld.X)
		if !ok {
			return nil
		}
		return c
	}
	ca, cb := cellOf(a), cellOf(b)
	return ca != nil && ca == cb
}

// c01SortArgMatches: a is the slice sl (same value, or a read of the same variable).
func c01SortArgMatches(a, sl ssa.Value) bool {
	return sameOrigin(a, sl) || c01SameVarLoad(a, sl)
}

// c01MustSortParam: helper h sorts its parameter i on every path to every
// return (a sorting call, or a call of a helper that does, on the parameter
// itself, dominating all returns).
func c01MustSortParam(e *c01Eff, h *ssa.Function, i, depth int) bool {
	if depth > c01EffDepth || i >= len(h.Params) || h.Blocks == nil {
		return false
	}
	prm := h.Params[i]
	rets := Returns(h)
	if len(rets) == 0 {
		return false
	}
	for _, c := range CallsIn(h, false) {
		if c.Value() == nil {
			continue
		}
		dom := true
		for _, ri := range rets {
			if !(c.Block() == ri.Ret.Block() || c.Block().Dominates(ri.Ret.Block())) {
				dom = false
			}
		}
		if !dom {
			continue
		}
		for ai, a := range c.Args() {
			if !c01SortArgMatches(a, prm) {
				continue
			}
			if c01IsSortCall(c) {
				return true
			}
			if g := c.Callee(); g != nil && c01IsHelperOf(TopFunc(e.root), g) && c01MustSortParam(e, g, ai, depth+1) {
				return true
			}
		}
	}
	return false
}

// sortedAt: slice value v is known sorted when control reaches instruction at
// (of v's function): a sorting call (or a helper that always sorts its
// parameter) on v executes before at on every path; or v is the result of a
// helper every return of which returns a slice sorted there; or v is a helper's
// parameter and the argument is sorted at every call of the helper.
func (e *c01Eff) sortedAt(v ssa.Value, at ssa.Instruction, depth int) bool {
	if depth > 2*c01EffDepth || v == nil || at == nil {
		return false
	}
	if c, isConst := originValue(v).(*ssa.Const); isConst && c.Value == nil {
		return true // a nil slice (returned next to an error) is trivially sorted
	}
	g := at.Parent()
	for _, c := range CallsIn(g, false) {
		if c.Value() == nil {
			continue
		}
		cb, ab := c.Block(), at.Block()
		if !(cb == ab && instrIndex(c.Value()) < instrIndex(at) || cb != ab && cb.Dominates(ab)) {
			continue
		}
		for ai, a := range c.Args() {
			if !c01SortArgMatches(a, v) {
				continue
			}
			if c01IsSortCall(c) {
				return true
			}
			if h := c.Callee(); h != nil && c01IsHelperOf(TopFunc(e.root), h) && c01MustSortParam(e, h, ai, 0) {
				return true
			}
		}
	}
	switch x := originValue(v).(type) {
	case *ssa.Call:
		if h := e.helperCallee(x); h != nil && h.Signature.Results().Len() == 1 {
			return e.returnsSorted(h, 0, depth)
		}
	case *ssa.Extract:
		if call, ok := x.Tuple.(*ssa.Call); ok {
			if h := e.helperCallee(call); h != nil {
				return e.returnsSorted(h, x.Index, depth)
			}
		}
	case *ssa.Parameter:
		h := x.Parent()
		i := c01ParamIndex(h, x)
		if h == e.root && i >= 0 && len(e.rootCalls) > 0 {
			// the root is itself handed dest (and this slice) by an enumerator
			for _, rc := range e.rootCalls {
				if rc.c.IsGo() || i >= len(rc.c.Args()) || !rc.in.sortedAt(rc.c.Args()[i], rc.c.Instr.(ssa.Instruction), depth+1) {
					return false
				}
			}
			return true
		}
		if h == e.root || !e.in[h] || i < 0 || len(e.calls[h]) == 0 {
			return false
		}
		for _, c := range e.calls[h] {
			if c.IsGo() || i >= len(c.Args()) || !e.sortedAt(c.Args()[i], c.Instr.(ssa.Instruction), depth+1) {
				return false
			}
		}
		return true
	}
	return false
}

func (e *c01Eff) returnsSorted(h *ssa.Function, idx, depth int) bool {
	n := 0
	for _, b := range h.Blocks {
		if b == h.Recover || len(b.Instrs) == 0 {
			continue
		}
		ret, ok := b.Instrs[len(b.Instrs)-1].(*ssa.Return)
		if !ok {
			continue
		}
		n++
		if idx >= len(ret.Results) {
			return false
		}
		rv := resolveReturnValue(ret.Results[idx], ret)
		if !e.sortedAt(rv, ret, depth+1) && !e.sortedAt(ret.Results[idx], ret, depth+1) {
			return false
		}
	}
	return n > 0
}

func c01RuleSorted(p *Program, r *Reporter, insts []*c01Inst) {
	const rule = "E-sorted"
	kv := p.Iface("pkg/sorted", "KeyValue")
	for _, in := range insts {
		if in.class != "leaf" {
			continue
		}
		e := c01EffOf(in.Root)
		for _, s := range in.sends {
			fromKV := e.depends(s.x, func(v ssa.Value) bool {
				call, ok := v.(*ssa.Call)
				return ok && (CallSite{call.Parent(), call}).IsMethod("Find", kv)
			})
			if fromKV {
				continue // ordered by the sorted.KeyValue contract (C10), nothing to sort here
			}
			// the slices whose elements flow into the sent value (in the send's function or, where the element reaches
			// a helper as an argument, in the calling function)
			var ranged []*ssa.IndexAddr
			e.depends(s.x, func(v ssa.Value) bool {
				if ia, ok := v.(*ssa.IndexAddr); ok {
					if _, isSlice := ia.X.Type().Underlying().(*types.Slice); isSlice {
						ranged = append(ranged, ia)
					}
				}
				return false
			})
			construct := FuncKey(in.Root) + "#sorted-before-send"
			if s.body.how != "direct" {
				construct += ":" + FuncKey(s.body.fn)
			}
			if len(ranged) == 0 {
				r.Undecided(rule, construct, p.Pos(s.in.Pos()), "the sent value comes neither from a sorted.KeyValue iterator nor from a ranged slice; its order cannot be related to a sort")
				continue
			}
			ok := false
			for _, ia := range ranged {
				// the point of the slice's function at which the send (or the call leading to it) happens
				var at ssa.Instruction
				for _, x := range e.chain(s.in) {
					if x.Parent() == ia.Parent() {
						at = x
					}
				}
				if at != nil && e.sortedAt(ia.X, at, 0) {
					ok = true
				}
			}
			r.Check(ok, rule, construct, p.Pos(s.in.Pos()),
				"the slice ranged over for the sends is sorted before the sends: it is passed to a sorting call (directly, or in a helper that returns it or is handed it) that precedes the send on every path",
				"the elements sent come from a slice that is not sorted before the sends (source is not a sorted.KeyValue iterator): enumeration order would be map/directory order, and merged enumeration and paging rely on ascending order")
		}
	}
	r.Floor(rule, 2)
}

// ===========================================================================
// M-lowest (added beyond the design)

func c01RuleMLowest(p *Program, r *Reporter, insts []*c01Inst) {
	const rule = "M-lowest"
	for _, in := range c01MergeInstances(insts) {
		fn := in.Root
		key := FuncKey(fn)
		e := c01EffOf(fn)
		for _, s := range in.sends {
			// the candidate variables: the variable the sent value is read from and, where that variable is
			// assigned a helper's result, the variable the helper returns
			type repl struct {
				st   *ssa.Store
				cell *ssa.Alloc
			}
			var repls []repl
			seenCell := map[*ssa.Alloc]bool{}
			undecided := ""
			var follow func(v ssa.Value, depth int)
			follow = func(v ssa.Value, depth int) {
				if depth > 2*c01EffDepth {
					undecided = "the candidate is handed through too many helpers"
					return
				}
				os := e.origins(v)
				if len(os) == 0 {
					undecided = "the value sent cannot be resolved"
				}
				for _, o := range os {
					cell, ok := c01Base(o).(*ssa.Alloc)
					if !ok {
						undecided = "the value sent is not held in a local candidate variable"
						continue
					}
					if seenCell[cell] {
						continue
					}
					seenCell[cell] = true
					for _, st := range storesTo(cell) {
						if !e.in[st.Parent()] {
							continue
						}
						if c01Base(originValue(st.Val)) == ssa.Value(cell) {
							continue // x = x (named result copied on return)
						}
						crosses := false
						switch y := originValue(st.Val).(type) {
						case *ssa.Call:
							crosses = e.helperCallee(y) != nil
						case *ssa.Extract:
							if call, ok := y.Tuple.(*ssa.Call); ok {
								crosses = e.helperCallee(call) != nil
							}
						case *ssa.Parameter:
							crosses = y.Parent() != e.root && e.in[y.Parent()] && len(e.calls[y.Parent()]) > 0
						}
						if crosses {
							follow(st.Val, depth+1)
							continue
						}
						repls = append(repls, repl{st, cell})
					}
				}
			}
			follow(s.x, 0)
			if undecided != "" || len(repls) == 0 {
				if undecided == "" {
					undecided = "the candidate variable is never assigned a peeked head"
				}
				r.Undecided(rule, key+"#candidate", p.Pos(s.in.Pos()), undecided)
				continue
			}
			for _, rp := range repls {
				st, cell := rp.st, rp.cell
				blk := st.Block()
				good, bad := 0, ""
				for _, pred := range blk.Preds {
					if len(pred.Instrs) == 0 {
						continue
					}
					ifi, isIf := pred.Instrs[len(pred.Instrs)-1].(*ssa.If)
					if !isIf || len(pred.Succs) != 2 || pred.Succs[0] == pred.Succs[1] {
						continue
					}
					cond, neg := c01StripNot(ifi.Cond)
					val := (pred.Succs[0] == blk) != neg
					call, isCall := cond.(*ssa.Call)
					if !isCall {
						continue
					}
					f := call.Call.StaticCallee()
					if f == nil || !funcIs(f, "perkeep.org/pkg/blob", "Ref", "Less") || len(call.Call.Args) != 2 {
						continue
					}
					a, b := call.Call.Args[0], call.Call.Args[1]
					candFirst := e.sameThing(a, st.Val) && c01Base(b) == ssa.Value(cell)
					candSecond := e.sameThing(b, st.Val) && c01Base(a) == ssa.Value(cell)
					switch {
					case candFirst && val:
						good++
					case candFirst || candSecond:
						bad = fmt.Sprintf("the candidate replaces the current lowest on the edge where Less(%s) is %v", map[bool]string{true: "candidate, lowest", false: "lowest, candidate"}[candFirst], val)
					}
				}
				r.Check(bad == "" && good > 0, rule, key+"#candidate", p.Pos(st.Pos()),
					"the merge candidate is replaced only where Less(new candidate, current lowest) is true",
					"the merge does not pick the lowest head: "+map[bool]string{true: "no Less(candidate, lowest) test controls the replacement", false: bad}[bad == ""])
			}
		}
	}
	r.Floor(rule, 1)
}

// ===========================================================================
// E-refill (added beyond the design): enumerators that filter a sub-enumeration
// and loop to refill the page.
//
// Shape (computed, not listed): a function that owns dest (an EnumerateBlobs
// method of any implementer of BlobEnumerator, or a callee it hands dest to)
// with a loop L that (a) starts a sub-enumeration (a call of EnumerateBlobs
// shape on another channel, made directly or by a literal started in L),
// (b) contains a loop I that receives from that channel until it is closed and
// sends on dest only on some of I's iterations, and (c) has a back edge
// reachable after I. One pass of L is a "round".
//
// The rule does not match syntax of the tests; it classifies the integer
// variables of the round by how they evolve (the send counter: 0 before L, +1
// exactly in the send blocks; the per-round receive counter: 0 at the start
// of the round, +1 on every iteration of I) and then *evaluates* the code
// before and after I for every small world
//
//	limit in 1..6, sent before the round C0 in 0..limit, requested R,
//	received S in 0..R (sub-enumerator contract: never more than asked for,
//	fewer only when nothing follows), sent in this round D in 0..S
//
// following both edges of every branch whose condition it cannot evaluate.

type c01Loop struct {
	head    *ssa.BasicBlock
	body    map[*ssa.BasicBlock]bool
	latches []*ssa.BasicBlock
}

func c01NaturalLoops(fn *ssa.Function) []*c01Loop {
	byHead := map[*ssa.BasicBlock]*c01Loop{}
	var out []*c01Loop
	for _, u := range fn.Blocks {
		for _, h := range u.Succs {
			if !h.Dominates(u) {
				continue
			}
			l := byHead[h]
			if l == nil {
				l = &c01Loop{head: h, body: map[*ssa.BasicBlock]bool{h: true}}
				byHead[h] = l
				out = append(out, l)
			}
			l.latches = append(l.latches, u)
			stack := []*ssa.BasicBlock{u}
			for len(stack) > 0 {
				b := stack[len(stack)-1]
				stack = stack[:len(stack)-1]
				if l.body[b] {
					continue
				}
				l.body[b] = true
				stack = append(stack, b.Preds...)
			}
		}
	}
	return out
}

func c01InnermostLoop(loops []*c01Loop, b *ssa.BasicBlock) *c01Loop {
	var best *c01Loop
	for _, l := range loops {
		if l.body[b] && (best == nil || len(l.body) < len(best.body)) {
			best = l
		}
	}
	return best
}

func c01DominatesAll(b *ssa.BasicBlock, bs []*ssa.BasicBlock) bool {
	for _, x := range bs {
		if !b.Dominates(x) {
			return false
		}
	}
	return len(bs) > 0
}

type c01Refill struct {
	inst     *c01Inst
	body     *c01Body
	fn       *ssa.Function
	fc       c01FamCall
	lit      *ssa.Function   // the literal that makes the call; nil when fn calls directly
	start    *ssa.BasicBlock // block of fn in which the round's sub-enumeration is started
	L, I     *c01Loop
	recv     *ssa.UnOp
	elem     ssa.Value                // the element received in one iteration of I
	sendBlk  map[*ssa.BasicBlock]bool // blocks of I entered exactly when an element has been sent on dest
	pre      map[*ssa.BasicBlock]bool // reachable from L's header without entering I
	post     map[*ssa.BasicBlock]bool // reachable from I's exit without re-entering L's header
	exits    []*ssa.BasicBlock        // targets of the edges leaving I
	results  map[*ssa.Return][]ssa.Value
	errIdx   int
	phiRole  map[*ssa.Phi]int
	celRole  map[*ssa.Alloc]int
	round    *c01Round                 // set when the receive loop lives in a helper the refill loop calls
	updStore map[*ssa.Alloc]*ssa.Store // helper form: the store that adds the round's sends to a counter cell
}

const (
	c01RoleUnset = iota
	c01RoleNone
	c01RoleSent0   // send counter as it was when the round started (C0)
	c01RoleSentNow // send counter after the receive loop (C0 + D)
	c01RoleSeen    // elements received in this round (S)
	c01RoleSentCell
	c01RoleSeenCell
	c01RoleLeft0   // remaining budget when the round started (limit - C0)
	c01RoleLeftNow // remaining budget after the receive loop (limit - C0 - D)
	c01RoleLeftCell
)

// c01SendSuccessBlocks: for a plain send the block of the send; for a select
// case the block entered on `index == k`.
func c01SendSuccessBlocks(fn *ssa.Function, sends []c01Send) map[*ssa.BasicBlock]bool {
	out := map[*ssa.BasicBlock]bool{}
	for _, s := range sends {
		if s.in.Parent() != fn {
			continue
		}
		switch x := s.in.(type) {
		case *ssa.Send:
			out[x.Block()] = true
		default:
			if s.virtual {
				out[x.Block()] = true // the call of a helper that sends
			}
		case *ssa.Select:
			for _, blk := range fn.Blocks {
				if len(blk.Instrs) == 0 || len(blk.Succs) != 2 {
					continue
				}
				ifi, ok := blk.Instrs[len(blk.Instrs)-1].(*ssa.If)
				if !ok {
					continue
				}
				bo, ok := ifi.Cond.(*ssa.BinOp)
				if !ok || bo.Op != token.EQL {
					continue
				}
				ex, isEx := bo.X.(*ssa.Extract)
				k, isK := ConstInt(bo.Y)
				if isEx && isK && ex.Tuple == ssa.Value(x) && ex.Index == 0 && int(k) < len(x.States) &&
					x.States[k].Dir == types.SendOnly && s.body.isDest(x.States[k].Chan) {
					out[blk.Succs[0]] = true
				}
			}
		}
	}
	return out
}

// c01TranslateSubEnum: a sub-enumeration call made by helper h (channel, cursor
// and limit being parameters of h) is re-expressed at the single call of h in
// one of the instance's bodies.
func c01TranslateSubEnum(in *c01Inst, fc c01FamCall) (c01FamCall, bool) {
	h := TopFunc(fc.c.Fn) // the call may sit in a literal the helper starts
	sites := c01EffOf(in.Root).calls[h]
	if len(sites) != 1 {
		return fc, false
	}
	site := sites[0]
	var body *c01Body
	for f := site.Fn; f != nil && body == nil; f = f.Parent() {
		for _, b := range in.bodies {
			if b.fn == f {
				body = b
			}
		}
	}
	if body == nil {
		return fc, false
	}
	args := site.Args()
	mapArg := func(v ssa.Value) ssa.Value {
		o := originValue(v)
		if prm, ok := o.(*ssa.Parameter); ok && prm.Parent() == h {
			if i := c01ParamIndex(h, prm); i >= 0 && i < len(args) {
				return args[i]
			}
			return nil
		}
		// a value the helper makes and returns (the round's channel): the corresponding result of the call
		if cv := site.Value(); cv != nil {
			rets := Returns(h)
			for k := 0; k < h.Signature.Results().Len() && len(rets) > 0; k++ {
				all := true
				for _, ri := range rets {
					if k >= len(ri.Results) || originValue(ri.Results[k]) != o {
						all = false
					}
				}
				if all {
					return ResultValue(cv, k)
				}
			}
		}
		return nil
	}
	out := c01FamCall{c: site, ch: mapArg(fc.ch), after: mapArg(fc.after), limit: mapArg(fc.limit), body: body}
	if out.ch == nil || out.after == nil || out.limit == nil {
		return fc, false
	}
	return out, true
}

// c01FindRefills computes the refill loops of one dest-owning function.
func c01FindRefills(in *c01Inst) (found []*c01Refill, undecided, notes []string) {
	loopsOf := map[*ssa.Function][]*c01Loop{}
	for _, fc := range in.subEnums {
		if fc.body == nil {
			// started by a helper of the effective body that does not own dest (the round's goroutine turned into a
			// named function): the call of the helper stands for the sub-enumeration, its arguments for the helper's
			tfc, ok := c01TranslateSubEnum(in, fc)
			if !ok {
				// cannot be re-expressed at the helper's call (the helper makes the channel itself, has several calls, ...):
				// a problem only when the helper is called from a loop that sends on dest
				for _, site := range c01EffOf(in.Root).calls[TopFunc(fc.c.Fn)] {
					if l := c01InnermostLoop(c01NaturalLoops(site.Fn), site.Block()); l != nil {
						for _, s := range in.allSends() {
							if s.in.Parent() == site.Fn && l.body[s.in.Block()] {
								undecided = append(undecided, "sub-enumeration "+fc.c.CalleeKey()+" is started inside helper "+FuncKey(TopFunc(fc.c.Fn))+", which is called from a loop that sends on dest, and its channel, cursor and limit are not plain parameters of that helper: the refill protocol cannot be followed")
							}
						}
					}
				}
				continue
			}
			fc = tfc
		}
		// the body function the call belongs to, and the outermost literal below it
		var body *c01Body
		var lit *ssa.Function
		for f := fc.c.Fn; f != nil && body == nil; f = f.Parent() {
			for _, b := range in.bodies {
				if b.fn == f {
					body = b
				}
			}
			if body == nil {
				lit = f
			}
		}
		if body == nil {
			continue
		}
		fn := body.fn
		what := "sub-enumeration " + fc.c.CalleeKey()
		start := fc.c.Block()
		if lit != nil {
			start = nil
			n := 0
			for _, blk := range fn.Blocks {
				for _, ins := range blk.Instrs {
					mc, ok := ins.(*ssa.MakeClosure)
					if !ok || mc.Fn != ssa.Value(lit) {
						continue
					}
					n++
					for _, ref := range *mc.Referrers() {
						ci, isCall := ref.(ssa.CallInstruction)
						if !isCall {
							continue
						}
						cs := CallSite{fn, ci}
						if _, isDefer := ci.(*ssa.Defer); isDefer {
							continue
						}
						if ci.Common().Value == ssa.Value(mc) || isSpawner(cs) {
							start = ci.Block()
						}
					}
				}
			}
			if n != 1 {
				start = nil
			}
		}
		if _, ok := loopsOf[fn]; !ok {
			loopsOf[fn] = c01NaturalLoops(fn)
		}
		loops := loopsOf[fn]
		var sends []c01Send
		for _, s := range in.allSends() { // a call of a helper that sends counts as a send of fn
			if s.in.Parent() == fn {
				sends = append(sends, s)
			}
		}
		if start == nil {
			// cannot tell where the round starts; only a problem when the literal is created in a loop that also sends
			for _, blk := range fn.Blocks {
				for _, ins := range blk.Instrs {
					if mc, ok := ins.(*ssa.MakeClosure); ok && mc.Fn == ssa.Value(lit) {
						if l := c01InnermostLoop(loops, blk); l != nil {
							for _, s := range sends {
								if l.body[s.in.Block()] {
									undecided = append(undecided, what+" is made by a literal created in a loop that sends on dest, but where that literal runs cannot be determined")
								}
							}
						}
					}
				}
			}
			continue
		}
		L := c01InnermostLoop(loops, start)
		if L == nil {
			continue // started once: a plain merge, no refill
		}
		var inL []c01Send
		for _, s := range sends {
			if L.body[s.in.Block()] {
				inL = append(inL, s)
			}
		}
		if len(inL) == 0 {
			notes = append(notes, fmt.Sprintf("%s: %s is started in a loop that does not send on dest (fan-out over sources, not a refill)", FuncKey(fn), what))
			continue
		}
		rf := &c01Refill{inst: in, body: body, fn: fn, fc: fc, lit: lit, start: start, L: L,
			phiRole: map[*ssa.Phi]int{}, celRole: map[*ssa.Alloc]int{}, results: map[*ssa.Return][]ssa.Value{}, errIdx: ErrResultIndex(fn)}
		if lit != nil && fc.c.Fn != lit {
			undecided = append(undecided, what+" is called from a literal nested in the literal started by the loop")
			continue
		}
		st, msg := rf.setupInner(fc.ch, loops, inL, what, start)
		if st == c01InnerNoRecv {
			// the round's elements are received by a helper the refill loop calls
			st, msg = rf.setupRoundHelper(in, loops, what)
		}
		switch st {
		case c01InnerUndecided:
			undecided = append(undecided, msg)
			continue
		case c01InnerNote:
			notes = append(notes, msg)
			continue
		}
		if rf.round == nil {
			// regions
			rf.pre, rf.post = map[*ssa.BasicBlock]bool{}, map[*ssa.BasicBlock]bool{}
			var grow func(set map[*ssa.BasicBlock]bool, b *ssa.BasicBlock, stop ...*ssa.BasicBlock)
			grow = func(set map[*ssa.BasicBlock]bool, b *ssa.BasicBlock, stop ...*ssa.BasicBlock) {
				if set[b] {
					return
				}
				set[b] = true
				for _, s := range b.Succs {
					skip := false
					for _, st := range stop {
						if s == st {
							skip = true
						}
					}
					if !skip {
						grow(set, s, stop...)
					}
				}
			}
			grow(rf.pre, L.head, rf.I.head, L.head)
			for _, e := range rf.exits {
				grow(rf.post, e, L.head, rf.I.head)
			}
		}
		for _, ri := range Returns(fn) {
			rf.results[ri.Ret] = ri.Results
		}
		found = append(found, rf)
	}
	return found, undecided, notes
}

const (
	c01InnerOK = iota
	c01InnerUndecided
	c01InnerNote
	c01InnerNoRecv
)

// setupInner finds, in the refill loop rf.L of rf.fn, the loop that receives
// the round's elements from channel ch and validates its shape: a `for range
// ch`-style loop nested in the refill loop, left only when the channel is
// closed, with every send on dest inside it, sending on some iterations only.
func (rf *c01Refill) setupInner(ch ssa.Value, loops []*c01Loop, inL []c01Send, what string, start *ssa.BasicBlock) (int, string) {
	fn, L := rf.fn, rf.L
	multi := false
	for _, blk := range fn.Blocks {
		if !L.body[blk] {
			continue
		}
		for _, ins := range blk.Instrs {
			if u, ok := ins.(*ssa.UnOp); ok && u.Op == token.ARROW && originValue(u.X) == originValue(ch) {
				if rf.recv != nil && rf.recv != u {
					multi = true
				}
				rf.recv = u
			}
		}
	}
	if multi {
		return c01InnerUndecided, what + ": its channel is received from at more than one place in the loop"
	}
	if rf.recv == nil {
		return c01InnerNoRecv, what + " is started in a loop that sends on dest, but the loop does not receive from the sub-enumeration's channel directly (helper or peeker): the refill protocol cannot be followed"
	}
	rf.I = c01InnermostLoop(loops, rf.recv.Block())
	if rf.I == nil || rf.I == L || start != nil && rf.I.body[start] || !L.body[rf.I.head] || rf.recv.Block() != rf.I.head {
		return c01InnerUndecided, what + ": the elements of a round are not received by a `for range ch`-style loop nested in the refill loop"
	}
	okShape := rf.recv.CommaOk
	for blk := range rf.I.body {
		for si, s := range blk.Succs {
			if rf.I.body[s] {
				continue
			}
			// the only way out of I is the !ok edge of the receive: the round is drained until the channel is closed
			ifi, isIf := blk.Instrs[len(blk.Instrs)-1].(*ssa.If)
			good := false
			if blk == rf.I.head && isIf && si == 1 {
				if ex, isEx := ifi.Cond.(*ssa.Extract); isEx && ex.Tuple == ssa.Value(rf.recv) && ex.Index == 1 {
					good = true
				}
			}
			if !good && c01AbortOnly(rf, s, map[*ssa.BasicBlock]bool{}) {
				// leaving the function from inside I by panic or with an error is not a refill decision
				continue
			}
			if !good {
				okShape = false
			}
			rf.exits = append(rf.exits, s)
		}
	}
	if !okShape || len(rf.exits) == 0 {
		return c01InnerUndecided, what + ": the receive loop is left other than by the sub-enumeration closing its channel; the number of elements received in a round is not defined"
	}
	if rf.recv.Referrers() != nil {
		for _, ref := range *rf.recv.Referrers() {
			if ex, ok := ref.(*ssa.Extract); ok && ex.Index == 0 {
				rf.elem = ex
			}
		}
	}
	rf.sendBlk = map[*ssa.BasicBlock]bool{}
	outside := false
	for b := range c01SendSuccessBlocks(fn, inL) {
		if rf.I.body[b] {
			rf.sendBlk[b] = true
		} else {
			outside = true
		}
	}
	for _, s := range inL {
		if !rf.I.body[s.in.Block()] {
			outside = true
		}
	}
	if outside || len(rf.sendBlk) == 0 {
		return c01InnerUndecided, what + ": the refill loop sends on dest outside the loop that receives the round's elements"
	}
	filtering := true
	for b := range rf.sendBlk {
		if c01DominatesAll(b, rf.I.latches) {
			filtering = false
		}
	}
	if !filtering {
		return c01InnerNote, fmt.Sprintf("%s: the loop around %s forwards every element it receives (no filter): not a filtering refill", FuncKey(fn), what)
	}
	return c01InnerOK, ""
}

// Roles of the results of a round helper (a helper the refill loop calls with
// the round's channel and dest, which contains the receive loop).
const (
	c01ResNone     = iota
	c01ResSeen     // number of elements received in the round (S)
	c01ResSent     // number of elements sent in the round (D)
	c01ResSentPlus // an integer parameter plus D (the running send counter passed in and handed back)
	c01ResLastRef  // the last ref received
	c01ResLastText // Ref.String() of the last ref received
)

type c01Round struct {
	call    *ssa.Call
	helper  *ssa.Function
	roles   []int // per result
	plusArg []int // for c01ResSentPlus: index of the argument the result adds D to
}

// roleOfResult: the role of value v when it is a result of the round helper's call.
func (rf *c01Refill) roleOfResult(v ssa.Value) (role int, plus ssa.Value) {
	if rf.round == nil {
		return c01ResNone, nil
	}
	idx := -1
	switch x := v.(type) {
	case *ssa.Extract:
		if x.Tuple == ssa.Value(rf.round.call) {
			idx = x.Index
		}
	case *ssa.Call:
		if x == rf.round.call && len(rf.round.roles) == 1 {
			idx = 0
		}
	}
	if idx < 0 || idx >= len(rf.round.roles) {
		return c01ResNone, nil
	}
	role = rf.round.roles[idx]
	if role == c01ResSentPlus {
		args := rf.round.call.Call.Args
		if ai := rf.round.plusArg[idx]; ai >= 0 && ai < len(args) {
			plus = args[ai]
		} else {
			return c01ResNone, nil
		}
	}
	return role, plus
}

// setupRoundHelper handles the refill loop whose receive loop was moved into a
// helper: `seen, n, last := h(ch, dest)` (or with the running counter passed in
// and handed back). The helper is summarised - its own receive loop must have
// the shape setupInner demands, and each result is classified by how it
// evolves in that loop - and the call then stands for the receive loop.
func (rf *c01Refill) setupRoundHelper(in *c01Inst, loops []*c01Loop, what string) (int, string) {
	fn, L := rf.fn, rf.L
	noRecv := what + " is started in a loop that sends on dest, but the loop does not receive from the sub-enumeration's channel directly (helper or peeker): the refill protocol cannot be followed"
	var call *ssa.Call
	var hb *c01Body
	chIdx := -1
	for _, b := range in.bodies {
		if b.parent == nil || b.fn.Parent() != nil {
			continue
		}
		cv, ok := b.via.Instr.(*ssa.Call)
		if !ok || cv.Parent() != fn || !L.body[cv.Block()] {
			continue
		}
		for ai, a := range cv.Call.Args {
			if originValue(a) == originValue(rf.fc.ch) && ai < len(b.fn.Params) {
				if call != nil && call != cv {
					return c01InnerUndecided, noRecv
				}
				call, hb, chIdx = cv, b, ai
			}
		}
	}
	if call == nil || c01InnermostLoop(loops, call.Block()) != L {
		return c01InnerUndecided, noRecv
	}
	h := hb.fn
	if len(c01EffOf(in.Root).calls[h]) != 1 {
		return c01InnerUndecided, what + ": the helper that receives the round's elements is called from several places"
	}
	// summarise the helper
	hloops := c01NaturalLoops(h)
	hrf := &c01Refill{inst: in, body: hb, fn: h, fc: rf.fc, L: &c01Loop{head: h.Blocks[0], body: map[*ssa.BasicBlock]bool{}},
		phiRole: map[*ssa.Phi]int{}, celRole: map[*ssa.Alloc]int{}, results: map[*ssa.Return][]ssa.Value{}, errIdx: ErrResultIndex(h)}
	// for the shape test the whole helper is the region the receive loop must lie in
	whole := &c01Loop{head: h.Blocks[0], body: map[*ssa.BasicBlock]bool{}}
	for _, b := range h.Blocks {
		whole.body[b] = true
	}
	var hsends []c01Send
	for _, s := range in.allSends() {
		if s.in.Parent() == h {
			hsends = append(hsends, s)
		}
	}
	hrf.L = whole
	st, msg := hrf.setupInnerIn(h.Params[chIdx], hloops, hsends, what+" (received in helper "+FuncKey(h)+")")
	if st != c01InnerOK {
		if st == c01InnerNoRecv {
			st = c01InnerUndecided
		}
		return st, msg
	}
	hrf.pre, hrf.post = map[*ssa.BasicBlock]bool{}, map[*ssa.BasicBlock]bool{}
	var grow func(set map[*ssa.BasicBlock]bool, b *ssa.BasicBlock)
	grow = func(set map[*ssa.BasicBlock]bool, b *ssa.BasicBlock) {
		if set[b] || b == hrf.I.head {
			return
		}
		set[b] = true
		for _, s := range b.Succs {
			grow(set, s)
		}
	}
	grow(hrf.pre, h.Blocks[0])
	for _, e := range hrf.exits {
		grow(hrf.post, e)
	}
	nres := h.Signature.Results().Len()
	round := &c01Round{call: call, helper: h, roles: make([]int, nres), plusArg: make([]int, nres)}
	first := true
	for _, ri := range Returns(h) {
		if !hrf.post[ri.Ret.Block()] {
			continue // a return from inside the receive loop: aborts (checked by the shape test)
		}
		for k := 0; k < nres && k < len(ri.Results); k++ {
			role, plus := hrf.classifyResult(ri.Results[k])
			if !first && (round.roles[k] != role || round.plusArg[k] != plus) {
				role = c01ResNone
			}
			round.roles[k], round.plusArg[k] = role, plus
		}
		first = false
	}
	if first {
		return c01InnerUndecided, what + ": helper " + FuncKey(h) + " does not return after its receive loop"
	}
	rf.round = round
	rf.I = &c01Loop{head: call.Block(), body: map[*ssa.BasicBlock]bool{}}
	rf.exits = []*ssa.BasicBlock{call.Block()}
	rf.sendBlk = map[*ssa.BasicBlock]bool{}
	rf.pre, rf.post = map[*ssa.BasicBlock]bool{}, map[*ssa.BasicBlock]bool{}
	var growTo func(set map[*ssa.BasicBlock]bool, b *ssa.BasicBlock, stop ...*ssa.BasicBlock)
	growTo = func(set map[*ssa.BasicBlock]bool, b *ssa.BasicBlock, stop ...*ssa.BasicBlock) {
		if set[b] {
			return
		}
		set[b] = true
		for _, s := range b.Succs {
			skip := false
			for _, st := range stop {
				if s == st {
					skip = true
				}
			}
			if !skip {
				growTo(set, s, stop...)
			}
		}
	}
	if call.Block() != L.head {
		growTo(rf.pre, L.head, call.Block(), L.head)
	}
	growTo(rf.post, call.Block(), L.head)
	return c01InnerOK, ""
}

// setupInnerIn is setupInner for a helper: the channel is a parameter and no
// start block constrains the loop.
func (rf *c01Refill) setupInnerIn(ch ssa.Value, loops []*c01Loop, sends []c01Send, what string) (int, string) {
	st, msg := rf.setupInner(ch, loops, sends, what, nil)
	return st, msg
}

// classifyResult: the role of a value the round helper returns after its
// receive loop (evaluated inside the helper).
func (rf *c01Refill) classifyResult(v ssa.Value) (role, plusArg int) {
	o := originValue(v)
	if c01IsBasic(o.Type(), types.Int) {
		ph, isPhi := o.(*ssa.Phi)
		if !isPhi || ph.Block() != rf.I.head {
			return c01ResNone, -1
		}
		if rf.roleOfPhi(ph) == c01RoleSeen {
			return c01ResSeen, -1
		}
		// a counter stepped exactly in the send blocks, starting at 0 or at an integer parameter
		var outs, ins []ssa.Value
		for i, pred := range ph.Block().Preds {
			if rf.I.body[pred] {
				ins = append(ins, ph.Edges[i])
			} else {
				outs = append(outs, ph.Edges[i])
			}
		}
		if len(outs) == 0 || len(ins) == 0 {
			return c01ResNone, -1
		}
		zero, prm := true, -1
		for _, ov := range outs {
			if !c01IsZeroInt(ov) {
				zero = false
			}
			if q, isPrm := originValue(ov).(*ssa.Parameter); isPrm && q.Parent() == rf.fn {
				pi := c01ParamIndex(rf.fn, q)
				if prm >= 0 && prm != pi {
					return c01ResNone, -1
				}
				prm = pi
			} else if !c01IsZeroInt(ov) {
				return c01ResNone, -1
			}
		}
		if zero == (prm >= 0) {
			return c01ResNone, -1
		}
		steps := map[*ssa.BasicBlock]int{}
		seenPhi := map[ssa.Value]bool{}
		var copyOf func(v ssa.Value, depth int) bool
		copyOf = func(v ssa.Value, depth int) bool {
			if v == ssa.Value(ph) {
				return true
			}
			if depth > 12 {
				return false
			}
			switch x := v.(type) {
			case *ssa.BinOp:
				if c01IsStep(x, func(o ssa.Value) bool { return copyOf(o, depth+1) }, false) && rf.sendBlk[x.Block()] {
					steps[x.Block()]++
					return true
				}
			case *ssa.Phi:
				if !rf.I.body[x.Block()] || x.Block() == rf.I.head {
					return false
				}
				if seenPhi[x] {
					return true
				}
				seenPhi[x] = true
				for _, e := range x.Edges {
					if !copyOf(e, depth+1) {
						return false
					}
				}
				return true
			}
			return false
		}
		for _, iv := range ins {
			if !copyOf(iv, 0) {
				return c01ResNone, -1
			}
		}
		for b := range rf.sendBlk {
			if steps[b] != 1 {
				return c01ResNone, -1
			}
		}
		if len(steps) != len(rf.sendBlk) {
			return c01ResNone, -1
		}
		if zero {
			return c01ResSent, -1
		}
		return c01ResSentPlus, prm
	}
	if c01IsRef(o.Type()) || c01IsRef(v.Type()) {
		if ok, _ := rf.lastAtExit(v, rf.elemProj, false); ok {
			return c01ResLastRef, -1
		}
		return c01ResNone, -1
	}
	if c01IsBasic(o.Type(), types.String) {
		if ok, _ := rf.lastRefText(v); ok {
			return c01ResLastText, -1
		}
	}
	return c01ResNone, -1
}

// c01AbortOnly: every path from b leaves the function by panic or by a return
// that cannot report success, without coming back into the refill loop.
func c01AbortOnly(rf *c01Refill, b *ssa.BasicBlock, seen map[*ssa.BasicBlock]bool) bool {
	if rf.L.body[b] {
		return false
	}
	if seen[b] {
		return true
	}
	seen[b] = true
	switch b.Instrs[len(b.Instrs)-1].(type) {
	case *ssa.Panic:
		return true
	case *ssa.Return:
		return !c01BlockMayReturnNil(rf, b)
	}
	for _, s := range b.Succs {
		if !c01AbortOnly(rf, s, seen) {
			return false
		}
	}
	return len(b.Succs) > 0
}

func c01BlockMayReturnNil(rf *c01Refill, b *ssa.BasicBlock) bool {
	ret, ok := b.Instrs[len(b.Instrs)-1].(*ssa.Return)
	if !ok {
		return false
	}
	idx := ErrResultIndex(rf.fn)
	if idx < 0 || idx >= len(ret.Results) {
		return true
	}
	v := resolveReturnValue(ret.Results[idx], ret)
	if IsNilConst(v) {
		return true
	}
	if isNonNilErrorExpr(v) {
		return false
	}
	if k, isNil := NilFact(b, v); k && !isNil {
		return false
	}
	if c01CtxErrAfterDone(b, v) {
		return false
	}
	return true
}

// c01CtxErrAfterDone: v is ctx.Err() evaluated in a block that is entered only
// through the `case <-ctx.Done():` arm of a select on the same context; by the
// context contract it is non-nil there.
func c01CtxErrAfterDone(b *ssa.BasicBlock, v ssa.Value) bool {
	call, ok := originValue(v).(*ssa.Call)
	if !ok || !call.Call.IsInvoke() || call.Call.Method.Name() != "Err" || !IsNamed(call.Call.Value.Type(), "context", "Context") {
		return false
	}
	for _, f := range FactsAt(b) {
		bo, ok := f.Cond.(*ssa.BinOp)
		if !ok || bo.Op != token.EQL || !f.Val {
			continue
		}
		ex, isEx := bo.X.(*ssa.Extract)
		k, isK := ConstInt(bo.Y)
		if !isEx || !isK || ex.Index != 0 {
			continue
		}
		sel, isSel := ex.Tuple.(*ssa.Select)
		if !isSel || int(k) >= len(sel.States) || sel.States[k].Dir != types.RecvOnly {
			continue
		}
		done, isCall := originValue(sel.States[k].Chan).(*ssa.Call)
		if isCall && done.Call.IsInvoke() && done.Call.Method.Name() == "Done" && sameOrigin(done.Call.Value, call.Call.Value) {
			return true
		}
	}
	return false
}

// loc classifies where an instruction of fn (or of one of its literals) runs
// relative to the round: "outside" (before the refill loop), "pre", "inner",
// "post", "both" (shared by pre and post paths) or "lit".
func (rf *c01Refill) loc(in ssa.Instruction) string {
	if in.Parent() != rf.fn {
		return "lit"
	}
	b := in.Block()
	switch {
	case rf.I.body[b]:
		return "inner"
	case rf.pre[b] && rf.post[b]:
		return "both"
	case rf.pre[b]:
		return "pre"
	case rf.post[b]:
		return "post"
	}
	return "outside"
}

func c01IsPlusOne(v ssa.Value, self func(ssa.Value) bool) bool {
	bo, ok := v.(*ssa.BinOp)
	if !ok || bo.Op != token.ADD {
		return false
	}
	if k, isK := ConstInt(bo.Y); isK && k == 1 && self(bo.X) {
		return true
	}
	if k, isK := ConstInt(bo.X); isK && k == 1 && self(bo.Y) {
		return true
	}
	return false
}

func c01IsMinusOne(v ssa.Value, self func(ssa.Value) bool) bool {
	bo, ok := v.(*ssa.BinOp)
	if !ok {
		return false
	}
	if k, isK := ConstInt(bo.Y); isK && self(bo.X) {
		return bo.Op == token.SUB && k == 1 || bo.Op == token.ADD && k == -1
	}
	return false
}

// c01IsStep: +1 for a counter of sent elements, -1 for a remaining budget.
func c01IsStep(v ssa.Value, self func(ssa.Value) bool, down bool) bool {
	if down {
		return c01IsMinusOne(v, self)
	}
	return c01IsPlusOne(v, self)
}

func c01IsZeroInt(v ssa.Value) bool {
	k, ok := ConstInt(v)
	return ok && k == 0
}

// roleOfPhi classifies an integer phi by how it evolves over the round.
func (rf *c01Refill) roleOfPhi(ph *ssa.Phi) int {
	if r := rf.phiRole[ph]; r != c01RoleUnset {
		return r
	}
	rf.phiRole[ph] = c01RoleNone
	role := c01RoleNone
	if rf.round != nil {
		role = rf.roundRoleOfPhi(ph)
		rf.phiRole[ph] = role
		return role
	}
	switch ph.Block() {
	case rf.I.head:
		var outs, ins []ssa.Value
		for i, pred := range ph.Block().Preds {
			if rf.I.body[pred] {
				ins = append(ins, ph.Edges[i])
			} else {
				outs = append(outs, ph.Edges[i])
			}
		}
		if len(ins) == 0 || len(outs) == 0 {
			break
		}
		// received in this round: 0 on entry, +1 once per iteration
		seen := true
		for _, o := range outs {
			if !c01IsZeroInt(o) {
				seen = false
			}
		}
		for _, v := range ins {
			if v != ins[0] {
				seen = false
			}
		}
		if seen {
			step, isStep := ins[0].(*ssa.BinOp)
			if isStep && c01IsPlusOne(step, func(o ssa.Value) bool { return o == ssa.Value(ph) }) && rf.I.body[step.Block()] && c01DominatesAll(step.Block(), rf.I.latches) {
				role = c01RoleSeen
				break
			}
		}
		// sent so far: enters as the refill loop's own counter, +1 exactly in the send blocks
		outer, isPhi := outs[0].(*ssa.Phi)
		if !isPhi || outer.Block() != rf.L.head {
			break
		}
		okOuter := true
		for _, o := range outs {
			if o != ssa.Value(outer) {
				okOuter = false
			}
		}
		nZero, nLimit := 0, 0
		for i, pred := range outer.Block().Preds {
			if rf.L.body[pred] {
				if outer.Edges[i] != ssa.Value(ph) {
					okOuter = false
				}
			} else if c01IsZeroInt(outer.Edges[i]) {
				nZero++
			} else if rf.isLimit(outer.Edges[i]) {
				nLimit++
			} else {
				okOuter = false
			}
		}
		if !okOuter || (nZero > 0) == (nLimit > 0) {
			break
		}
		down := nLimit > 0
		steps := map[*ssa.BasicBlock]int{}
		var copyOf func(v ssa.Value, depth int) bool
		seenPhi := map[ssa.Value]bool{}
		copyOf = func(v ssa.Value, depth int) bool {
			if v == ssa.Value(ph) {
				return true
			}
			if depth > 12 {
				return false
			}
			switch x := v.(type) {
			case *ssa.BinOp:
				if c01IsStep(x, func(o ssa.Value) bool { return copyOf(o, depth+1) }, down) && rf.sendBlk[x.Block()] {
					steps[x.Block()]++
					return true
				}
			case *ssa.Phi:
				if !rf.I.body[x.Block()] || x.Block() == rf.I.head {
					return false
				}
				if seenPhi[x] {
					return true
				}
				seenPhi[x] = true
				for _, e := range x.Edges {
					if !copyOf(e, depth+1) {
						return false
					}
				}
				return true
			}
			return false
		}
		okSteps := true
		for _, v := range ins {
			if !copyOf(v, 0) {
				okSteps = false
			}
		}
		for b := range rf.sendBlk {
			if steps[b] != 1 {
				okSteps = false
			}
		}
		if okSteps && len(steps) == len(rf.sendBlk) {
			role = c01RoleSentNow
			rf.phiRole[outer] = c01RoleSent0
			if down {
				role = c01RoleLeftNow
				rf.phiRole[outer] = c01RoleLeft0
			}
		}
	case rf.L.head:
		// decided from the inner phi it feeds
		for i, pred := range ph.Block().Preds {
			if rf.L.body[pred] {
				if q, ok := ph.Edges[i].(*ssa.Phi); ok && q.Block() == rf.I.head {
					if rq := rf.roleOfPhi(q); rq == c01RoleSentNow || rq == c01RoleLeftNow {
						if r := rf.phiRole[ph]; r == c01RoleSent0 || r == c01RoleLeft0 {
							role = r
						}
					}
				}
			}
		}
	}
	rf.phiRole[ph] = role
	return role
}

// roundRoleOfPhi: helper form (the receive loop is a call): the send counter is
// the phi at the refill loop's head that starts at 0 (or, as a budget, at limit)
// and to which every way round the loop adds (subtracts) the round's sends.
func (rf *c01Refill) roundRoleOfPhi(ph *ssa.Phi) int {
	if ph.Block() != rf.L.head || !c01IsBasic(ph.Type(), types.Int) {
		return c01RoleNone
	}
	nZero, nLimit := 0, 0
	var ins []ssa.Value
	for i, pred := range ph.Block().Preds {
		switch {
		case rf.L.body[pred]:
			ins = append(ins, ph.Edges[i])
		case c01IsZeroInt(ph.Edges[i]):
			nZero++
		case rf.isLimit(ph.Edges[i]):
			nLimit++
		default:
			return c01RoleNone
		}
	}
	if len(ins) == 0 || (nZero > 0) == (nLimit > 0) {
		return c01RoleNone
	}
	down := nLimit > 0
	seen := map[ssa.Value]bool{}
	var updated func(v ssa.Value, depth int) bool
	updated = func(v ssa.Value, depth int) bool {
		if depth > 8 {
			return false
		}
		if role, plus := rf.roleOfResult(v); role == c01ResSentPlus && !down {
			return originValue(plus) == ssa.Value(ph) || plus == ssa.Value(ph)
		}
		switch x := v.(type) {
		case *ssa.BinOp:
			isD := func(o ssa.Value) bool { r, _ := rf.roleOfResult(o); return r == c01ResSent }
			if !down && x.Op == token.ADD {
				return x.X == ssa.Value(ph) && isD(x.Y) || x.Y == ssa.Value(ph) && isD(x.X)
			}
			if down && x.Op == token.SUB {
				return x.X == ssa.Value(ph) && isD(x.Y)
			}
		case *ssa.Phi:
			if x == ph || !rf.L.body[x.Block()] {
				return false
			}
			if seen[x] {
				return true
			}
			seen[x] = true
			for _, e := range x.Edges {
				if !updated(e, depth+1) {
					return false
				}
			}
			return true
		}
		return false
	}
	for _, v := range ins {
		if !updated(v, 0) {
			return c01RoleNone
		}
	}
	if down {
		return c01RoleLeft0
	}
	return c01RoleSent0
}

// roundRoleOfCell: helper form, for a counter that lives in memory (captured by
// the literal that starts the round): initialised once before the refill loop
// with 0 (or limit), and written exactly once per round, after the call, with
// its own value plus (minus) the round's sends.
func (rf *c01Refill) roundRoleOfCell(al *ssa.Alloc) int {
	self := func(o ssa.Value) bool {
		u, ok := o.(*ssa.UnOp)
		if !ok || u.Op != token.MUL {
			return false
		}
		c, ok := varOf(u.X)
		return ok && c == ssa.Value(al)
	}
	var init, upd []*ssa.Store
	for _, st := range storesTo(al) {
		switch {
		case st.Parent() != rf.fn:
			return c01RoleNone
		case !rf.L.body[st.Block()]:
			init = append(init, st)
		default:
			upd = append(upd, st)
		}
	}
	if al.Parent() != rf.fn || rf.L.body[al.Block()] || len(init) != 1 || len(upd) != 1 || !init[0].Block().Dominates(rf.L.head) {
		return c01RoleNone
	}
	down := false
	switch {
	case c01IsZeroInt(init[0].Val):
	case rf.body.isLimit(init[0].Val):
		down = true
	default:
		return c01RoleNone
	}
	us := upd[0]
	if !Precedes(rf.round.call, us) || !c01DominatesAll(us.Block(), rf.L.latches) {
		return c01RoleNone
	}
	ok := false
	if role, plus := rf.roleOfResult(us.Val); role == c01ResSentPlus && !down {
		ok = self(plus) && Precedes(plus.(ssa.Instruction), rf.round.call)
	} else if bo, isBo := us.Val.(*ssa.BinOp); isBo {
		isD := func(o ssa.Value) bool { r, _ := rf.roleOfResult(o); return r == c01ResSent }
		switch {
		case !down && bo.Op == token.ADD:
			ok = self(bo.X) && isD(bo.Y) || self(bo.Y) && isD(bo.X)
		case down && bo.Op == token.SUB:
			ok = self(bo.X) && isD(bo.Y)
		}
	}
	if !ok {
		return c01RoleNone
	}
	if rf.updStore == nil {
		rf.updStore = map[*ssa.Alloc]*ssa.Store{}
	}
	rf.updStore[al] = us
	if down {
		return c01RoleLeftCell
	}
	return c01RoleSentCell
}

// roleOfCell classifies an integer variable that lives in memory (captured by
// a literal) by the stores to it.
func (rf *c01Refill) roleOfCell(al *ssa.Alloc) int {
	if r := rf.celRole[al]; r != c01RoleUnset {
		return r
	}
	rf.celRole[al] = c01RoleNone
	pt, ok := al.Type().Underlying().(*types.Pointer)
	if !ok || !c01IsBasic(pt.Elem(), types.Int) || !plainVariable(al) {
		return c01RoleNone
	}
	if rf.round != nil {
		role := rf.roundRoleOfCell(al)
		rf.celRole[al] = role
		return role
	}
	self := func(o ssa.Value) bool {
		u, ok := o.(*ssa.UnOp)
		if !ok || u.Op != token.MUL {
			return false
		}
		c, ok := varOf(u.X)
		return ok && c == ssa.Value(al)
	}
	by := map[string][]*ssa.Store{}
	for _, st := range storesTo(al) {
		l := rf.loc(st)
		by[l] = append(by[l], st)
	}
	if len(by["lit"])+len(by["post"])+len(by["both"]) > 0 || len(by["inner"]) == 0 {
		return c01RoleNone
	}
	allocOutside := al.Parent() == rf.fn && rf.loc(al) == "outside"
	// send counter
	if allocOutside && len(by["pre"]) == 0 && len(by["outside"]) == 1 && by["outside"][0].Block().Dominates(rf.L.head) &&
		(c01IsZeroInt(by["outside"][0].Val) || rf.body.isLimit(by["outside"][0].Val)) {
		down := !c01IsZeroInt(by["outside"][0].Val)
		steps := map[*ssa.BasicBlock]int{}
		ok := true
		for _, st := range by["inner"] {
			if !c01IsStep(st.Val, self, down) || !rf.sendBlk[st.Block()] {
				ok = false
			}
			steps[st.Block()]++
		}
		for b := range rf.sendBlk {
			if steps[b] != 1 {
				ok = false
			}
		}
		if ok && len(steps) == len(rf.sendBlk) {
			role := c01RoleSentCell
			if down {
				role = c01RoleLeftCell
			}
			rf.celRole[al] = role
			return role
		}
	}
	// per-round receive counter
	if len(by["pre"]) == 1 && c01IsZeroInt(by["pre"][0].Val) && by["pre"][0].Block().Dominates(rf.I.head) && len(by["inner"]) == 1 {
		st := by["inner"][0]
		if c01IsPlusOne(st.Val, self) && c01DominatesAll(st.Block(), rf.I.latches) {
			rf.celRole[al] = c01RoleSeenCell
			return c01RoleSeenCell
		}
	}
	return c01RoleNone
}

// c01World is one concrete round.
type c01World struct {
	L, C0, R, S, D int64
	post           bool                     // evaluating after the receive loop (false: before it)
	visited        map[*ssa.BasicBlock]bool // blocks on the current walk
	ienv           map[*ssa.Phi]int64
	benv           map[*ssa.Phi]bool
}

func (w *c01World) String() string {
	if !w.post {
		return fmt.Sprintf("limit=%d, %d already sent", w.L, w.C0)
	}
	return fmt.Sprintf("limit=%d, %d sent before the round, round asks for %d, receives %d, sends %d of them", w.L, w.C0, w.R, w.S, w.D)
}

// when tells whether a load of a variable of the round reads its value from
// before the receive loop (0), from after it (1), or at an unknown time (-1).
func (rf *c01Refill) when(ld *ssa.UnOp, w *c01World) int {
	if rf.round != nil && ld.Parent() == rf.fn {
		// the receive loop is a helper call: a counter cell holds its round-start value up to the single store
		// that adds the round's sends, and the updated value after it
		if cell, ok := varOf(ld.X); ok {
			if al, isAl := cell.(*ssa.Alloc); isAl {
				if us := rf.updStore[al]; us != nil {
					switch {
					case Precedes(us, ld):
						return 1
					case !w.post || Precedes(ld, us) || rf.pre[ld.Block()] && !rf.post[ld.Block()]:
						return 0
					}
					return -1
				}
			}
		}
	}
	if rf.lit != nil && ld.Parent() == rf.lit {
		// arguments of the sub-enumeration call are evaluated before it can deliver anything
		ci := fcInstr(rf.fc)
		if ld.Block() == ci.Block() && instrIndex(ld) < instrIndex(ci) || ld.Block() != ci.Block() && ld.Block().Dominates(ci.Block()) {
			return 0
		}
		return -1
	}
	if ld.Parent() != rf.fn {
		return -1
	}
	b := ld.Block()
	switch {
	case w.visited[b]:
		if w.post {
			return 1
		}
		return 0
	case rf.I.body[b]:
		return -1
	case rf.pre[b] && !rf.post[b] && b.Dominates(rf.I.head):
		return 0
	}
	return -1
}

func fcInstr(fc c01FamCall) ssa.Instruction { return fc.c.Instr.(ssa.Instruction) }

func (rf *c01Refill) isLimit(v ssa.Value) bool {
	return rf.body.isLimit(v) || rf.body.isLimit(originValue(v))
}

// limitLike: v is the enumerator's limit, or a value fixed before the refill
// loop from the limit and constants only (a clamp such as `if limit > max {
// limit = max }`), which the round protocol treats as the page size.
func (rf *c01Refill) limitLike(v ssa.Value, depth int) bool {
	if rf.isLimit(v) {
		return true
	}
	if depth > 6 {
		return false
	}
	switch x := v.(type) {
	case *ssa.Phi:
		if rf.loc(x) != "outside" {
			return false
		}
		has := false
		for _, e := range x.Edges {
			if IsConstValue(e) {
				continue
			}
			if !rf.limitLike(e, depth+1) {
				return false
			}
			has = true
		}
		return has
	case *ssa.UnOp:
		if x.Op != token.MUL {
			return false
		}
		cell, ok := varOf(x.X)
		if !ok {
			return false
		}
		al, ok := cell.(*ssa.Alloc)
		if !ok || !plainVariable(al) || al.Parent() != rf.fn {
			return false
		}
		has := false
		for _, st := range storesTo(al) {
			if rf.loc(st) != "outside" {
				return false
			}
			if IsConstValue(st.Val) {
				continue
			}
			if !rf.limitLike(st.Val, depth+1) {
				return false
			}
			has = true
		}
		return has
	}
	return false
}

func (rf *c01Refill) evalInt(v ssa.Value, w *c01World, depth int) (int64, bool) {
	if depth > 24 || v == nil {
		return 0, false
	}
	if rf.limitLike(v, 0) {
		return w.L, true
	}
	if role, plus := rf.roleOfResult(v); role != c01ResNone {
		switch role {
		case c01ResSeen:
			return w.S, w.post
		case c01ResSent:
			return w.D, w.post
		case c01ResSentPlus:
			// the argument is evaluated before the call: the counter as it was when the round started
			pre := *w
			pre.post = false
			n, ok := rf.evalInt(plus, &pre, depth+1)
			return n + w.D, ok && w.post
		}
		return 0, false
	}
	switch x := v.(type) {
	case *ssa.Const:
		return ConstInt(x)
	case *ssa.Phi:
		switch rf.roleOfPhi(x) {
		case c01RoleSent0:
			return w.C0, true
		case c01RoleSentNow:
			return w.C0 + w.D, w.post
		case c01RoleSeen:
			return w.S, w.post
		case c01RoleLeft0:
			return w.L - w.C0, true
		case c01RoleLeftNow:
			return w.L - w.C0 - w.D, w.post
		}
		n, ok := w.ienv[x]
		return n, ok
	case *ssa.UnOp:
		switch x.Op {
		case token.SUB:
			n, ok := rf.evalInt(x.X, w, depth+1)
			return -n, ok
		case token.MUL:
			if cell, ok := varOf(x.X); ok {
				if al, isAl := cell.(*ssa.Alloc); isAl {
					switch rf.roleOfCell(al) {
					case c01RoleSentCell:
						switch rf.when(x, w) {
						case 0:
							return w.C0, true
						case 1:
							return w.C0 + w.D, true
						}
						return 0, false
					case c01RoleLeftCell:
						switch rf.when(x, w) {
						case 0:
							return w.L - w.C0, true
						case 1:
							return w.L - w.C0 - w.D, true
						}
						return 0, false
					case c01RoleSeenCell:
						if rf.when(x, w) == 1 {
							return w.S, true
						}
						return 0, false
					}
				}
			}
			if o := originValue(x); o != ssa.Value(x) {
				return rf.evalInt(o, w, depth+1)
			}
		}
	case *ssa.BinOp:
		a, ok1 := rf.evalInt(x.X, w, depth+1)
		b, ok2 := rf.evalInt(x.Y, w, depth+1)
		if !ok1 || !ok2 {
			return 0, false
		}
		switch x.Op {
		case token.ADD:
			return a + b, true
		case token.SUB:
			return a - b, true
		case token.MUL:
			return a * b, true
		}
	case *ssa.Convert:
		if b, ok := x.Type().Underlying().(*types.Basic); ok && b.Info()&types.IsInteger != 0 {
			if b2, ok := x.X.Type().Underlying().(*types.Basic); ok && b2.Info()&types.IsInteger != 0 {
				return rf.evalInt(x.X, w, depth+1)
			}
		}
	case *ssa.ChangeType:
		return rf.evalInt(x.X, w, depth+1)
	case *ssa.Call:
		if b, ok := x.Call.Value.(*ssa.Builtin); ok && (b.Name() == "min" || b.Name() == "max") && len(x.Call.Args) > 0 {
			best, ok := rf.evalInt(x.Call.Args[0], w, depth+1)
			if !ok {
				return 0, false
			}
			for _, a := range x.Call.Args[1:] {
				n, ok := rf.evalInt(a, w, depth+1)
				if !ok {
					return 0, false
				}
				if b.Name() == "min" && n < best || b.Name() == "max" && n > best {
					best = n
				}
			}
			return best, true
		}
	}
	return 0, false
}

func (rf *c01Refill) evalBool(v ssa.Value, w *c01World, depth int) (val, known bool) {
	if depth > 24 || v == nil {
		return false, false
	}
	switch x := v.(type) {
	case *ssa.Const:
		if x.Value != nil && (x.Value.String() == "true" || x.Value.String() == "false") {
			return x.Value.String() == "true", true
		}
	case *ssa.Phi:
		b, ok := w.benv[x]
		return b, ok
	case *ssa.UnOp:
		if x.Op == token.NOT {
			b, ok := rf.evalBool(x.X, w, depth+1)
			return !b, ok
		}
	case *ssa.BinOp:
		switch x.Op {
		case token.LSS, token.LEQ, token.GTR, token.GEQ, token.EQL, token.NEQ:
		default:
			return false, false
		}
		if !c01IsBasic(x.X.Type(), types.Int) && !c01IsBasic(x.X.Type(), types.Int64) {
			if c01IsBasic(x.X.Type(), types.Bool) && (x.Op == token.EQL || x.Op == token.NEQ) {
				a, ok1 := rf.evalBool(x.X, w, depth+1)
				b, ok2 := rf.evalBool(x.Y, w, depth+1)
				return (a == b) == (x.Op == token.EQL), ok1 && ok2
			}
			return false, false
		}
		a, ok1 := rf.evalInt(x.X, w, depth+1)
		b, ok2 := rf.evalInt(x.Y, w, depth+1)
		if !ok1 || !ok2 {
			return false, false
		}
		switch x.Op {
		case token.LSS:
			return a < b, true
		case token.LEQ:
			return a <= b, true
		case token.GTR:
			return a > b, true
		case token.GEQ:
			return a >= b, true
		case token.EQL:
			return a == b, true
		case token.NEQ:
			return a != b, true
		}
	case *ssa.Call:
		// last.Valid(), last being zero at the start of the round and overwritten by every received ref
		f := x.Call.StaticCallee()
		if w.post && rf.round != nil && f != nil && funcIs(f, "perkeep.org/pkg/blob", "Ref", "Valid") && len(x.Call.Args) == 1 {
			if role, _ := rf.roleOfResult(originValue(x.Call.Args[0])); role == c01ResLastRef {
				return w.S >= 1, true // the helper's own variable starts at its zero value in every call
			}
			return false, false
		}
		if w.post && f != nil && funcIs(f, "perkeep.org/pkg/blob", "Ref", "Valid") && len(x.Call.Args) == 1 {
			if ok, und := rf.lastAtExit(x.Call.Args[0], rf.elemProj, true); ok && !und {
				return w.S >= 1, true
			}
		}
	}
	return false, false
}

// elemProj: e is (a field of) the element received in the current iteration of I.
func (rf *c01Refill) elemProj(e ssa.Value) bool {
	for i := 0; i < 6; i++ {
		o := originValue(e)
		if o == rf.elem || e == rf.elem {
			return true
		}
		if f, ok := o.(*ssa.Field); ok {
			e = f.X
			continue
		}
		break
	}
	for _, b := range []ssa.Value{c01Base(e), c01Base(originValue(e))} {
		al, ok := b.(*ssa.Alloc)
		if !ok {
			continue
		}
		sts := storesTo(al)
		if len(sts) == 0 {
			continue
		}
		all := true
		for _, st := range sts {
			if !(st.Val == rf.elem || originValue(st.Val) == rf.elem) || !rf.I.body[st.Block()] || st.Parent() != rf.fn {
				all = false
			}
		}
		if all {
			return true
		}
	}
	return false
}

// lastAtExit: after the receive loop, v denotes a variable that *every*
// iteration of the loop overwrites with a value satisfying perIter (so it
// holds the last element received, not the last one that passed the filter).
// zeroed additionally demands that the variable is its zero value when the
// round starts. undecided: partial (field-wise) assignments are not followed.
func (rf *c01Refill) lastAtExit(v ssa.Value, perIter func(ssa.Value) bool, zeroed bool) (ok, undecided bool) {
	o := originValue(v)
	for i := 0; i < 6; i++ {
		f, isField := o.(*ssa.Field)
		if !isField {
			break
		}
		o = originValue(f.X)
	}
	if ph, isPhi := o.(*ssa.Phi); isPhi {
		if ph.Block() != rf.I.head {
			return false, false
		}
		n := 0
		for i, pred := range ph.Block().Preds {
			if rf.I.body[pred] {
				if !perIter(ph.Edges[i]) {
					return false, false
				}
				n++
			} else if zeroed {
				c, isConst := ph.Edges[i].(*ssa.Const)
				if !isConst || c.Value != nil {
					return false, false
				}
			}
		}
		return n > 0, false
	}
	var al *ssa.Alloc
	for _, b := range []ssa.Value{c01Base(v), c01Base(o)} {
		if a, isAl := b.(*ssa.Alloc); isAl {
			al = a
		}
	}
	if al == nil || al.Parent() != rf.fn {
		return false, false
	}
	if al.Referrers() != nil {
		for _, ref := range *al.Referrers() {
			switch a := ref.(type) {
			case *ssa.FieldAddr:
				for _, r2 := range *a.Referrers() {
					if st, isSt := r2.(*ssa.Store); isSt && st.Addr == ssa.Value(a) {
						return false, true
					}
				}
			case *ssa.IndexAddr:
				return false, true
			}
		}
	}
	inner, dom := 0, false
	for _, st := range storesTo(al) {
		switch rf.loc(st) {
		case "inner":
			if !perIter(st.Val) {
				return false, false
			}
			inner++
			if c01DominatesAll(st.Block(), rf.I.latches) {
				dom = true
			}
		case "post", "lit", "both":
			return false, false
		case "pre", "outside":
			if zeroed {
				c, isConst := st.Val.(*ssa.Const)
				if !isConst || c.Value != nil || rf.loc(st) != "pre" {
					return false, false
				}
			}
		}
	}
	if zeroed && rf.loc(al) != "pre" {
		// a variable declared outside the refill loop keeps the previous round's value
		hasReset := false
		for _, st := range storesTo(al) {
			if rf.loc(st) == "pre" && st.Block().Dominates(rf.I.head) {
				hasReset = true
			}
		}
		if !hasReset {
			return false, false
		}
	}
	return inner > 0 && dom, false
}

// lastRefText: after the receive loop, v is Ref.String() of the last element received.
func (rf *c01Refill) lastRefText(v ssa.Value) (ok, undecided bool) {
	und := false
	if rf.round != nil {
		if role, _ := rf.roleOfResult(originValue(v)); role == c01ResLastText {
			return true, false
		}
		if c01RefString(v, func(arg ssa.Value) bool {
			role, _ := rf.roleOfResult(originValue(arg))
			return role == c01ResLastRef
		}) {
			return true, false
		}
		return false, false
	}
	// String() of the last received ref
	if c01RefString(v, func(arg ssa.Value) bool {
		ok, u := rf.lastAtExit(arg, rf.elemProj, false)
		und = und || u
		return ok
	}) {
		return true, false
	}
	// a string variable overwritten in every iteration with String() of the received ref
	ok, u := rf.lastAtExit(v, func(e ssa.Value) bool { return c01RefString(e, rf.elemProj) }, false)
	return ok, !ok && (u || und)
}

// checkCursor decides, structurally, that the cursor the next round passes to
// the sub-enumeration is the text of the last element *received* in this round.
func (rf *c01Refill) checkCursor() (ok, undecided bool, detail string) {
	cur := rf.fc.after
	// phi form: the cursor is a loop-carried register
	if ph, isPhi := originValue(cur).(*ssa.Phi); isPhi && ph.Block() == rf.L.head {
		for i, pred := range ph.Block().Preds {
			if !rf.L.body[pred] {
				continue
			}
			ok, und := rf.lastRefText(ph.Edges[i])
			if und {
				return false, true, "the variable holding the last received ref is assigned field by field; not followed"
			}
			if !ok {
				return false, false, fmt.Sprintf("on the back edge from block %d the next round's cursor is not Ref.String() of the last element received in this round (it must be the last one *received*: a cursor taken from the last element that passed the filter makes the next round read the filtered tail again, forever when the whole read is filtered)", pred.Index)
			}
		}
		return true, false, ""
	}
	ld, isLoad := cur.(*ssa.UnOp)
	var al *ssa.Alloc
	if isLoad && ld.Op == token.MUL {
		if cell, ok := varOf(ld.X); ok {
			al, _ = cell.(*ssa.Alloc)
		}
	}
	if al == nil {
		if _, isPrm := originValue(cur).(*ssa.Parameter); isPrm || IsConstValue(originValue(cur)) {
			return false, false, "every round passes the same cursor to the sub-enumeration: the same elements are read again in each round"
		}
		return false, true, "the cursor argument of the sub-enumeration is neither a variable nor a loop-carried value; not followed"
	}
	by := map[string][]*ssa.Store{}
	for _, st := range storesTo(al) {
		l := rf.loc(st)
		by[l] = append(by[l], st)
	}
	if n := len(by["pre"]) + len(by["lit"]) + len(by["both"]); n > 0 {
		return false, true, "the cursor variable is also assigned before the round starts or inside a literal; which assignment the next round sees is not followed"
	}
	switch {
	case len(by["post"]) == 0 && len(by["inner"]) == 0:
		return false, false, "the cursor variable passed to the sub-enumeration is never advanced inside the refill loop: every round reads the same elements again"
	case len(by["post"]) > 0 && len(by["inner"]) > 0, len(by["post"]) > 1:
		return false, true, "the cursor variable is assigned at several places of the round; not followed"
	case len(by["post"]) == 1:
		st := by["post"][0]
		if !c01DominatesAll(st.Block(), rf.L.latches) {
			return false, false, "the cursor is advanced on some paths to the next round only"
		}
		ok, und := rf.lastRefText(st.Val)
		if und {
			return false, true, "the variable holding the last received ref is assigned field by field; not followed"
		}
		if !ok {
			return false, false, "the cursor stored for the next round is not Ref.String() of the last element *received* in this round (a variable that every iteration of the receive loop overwrites with the received ref): with a cursor taken from the last element that passed the filter, or from anything else, the next round reads the filtered tail again (forever when the whole read is filtered) or skips elements"
		}
		return true, false, ""
	default:
		dom := false
		for _, st := range by["inner"] {
			if !c01RefString(st.Val, rf.elemProj) {
				return false, false, "inside the receive loop the cursor is assigned something other than Ref.String() of the received element"
			}
			if c01DominatesAll(st.Block(), rf.I.latches) {
				dom = true
			}
		}
		if !dom {
			return false, false, "the cursor is advanced only for some of the received elements (e.g. only those that pass the filter): the next round reads the filtered tail again"
		}
		return true, false, ""
	}
}

func IsConstValue(v ssa.Value) bool { _, ok := v.(*ssa.Const); return ok }

const c01RefillMaxLimit = 6

type c01RefillVerdict struct {
	reqBad, exitBad, progBad []string
	undecided                []string
	rounds                   int // worlds in which a round was started
	exitsSeen, backSeen      int
}

// walk explores the CFG from blk under world w, following both edges of
// branches it cannot evaluate. stop blocks end a path with onStop.
func (rf *c01Refill) walk(w *c01World, blk, prev *ssa.BasicBlock, facts []CondFact, depth int,
	onReturn func(ret *ssa.Return, facts []CondFact), onStop func(at, from *ssa.BasicBlock, facts []CondFact), stop map[*ssa.BasicBlock]bool) {
	if depth > 64 {
		return
	}
	if prev != nil && stop[blk] {
		onStop(blk, prev, facts)
		return
	}
	if w.visited[blk] {
		return // a loop inside the region: one pass is enough for the facts used here
	}
	w.visited[blk] = true
	defer delete(w.visited, blk)
	// bind phis along the edge taken
	type saved struct {
		ph *ssa.Phi
		iv int64
		bv bool
		hi bool
		hb bool
	}
	var undo []saved
	for _, in := range blk.Instrs {
		ph, ok := in.(*ssa.Phi)
		if !ok {
			break
		}
		iv, hi := w.ienv[ph]
		bv, hb := w.benv[ph]
		undo = append(undo, saved{ph, iv, bv, hi, hb})
		delete(w.ienv, ph)
		delete(w.benv, ph)
		if prev == nil || rf.roleOfPhi(ph) != c01RoleNone {
			continue
		}
		for i, pb := range blk.Preds {
			if pb != prev {
				continue
			}
			if n, ok := rf.evalInt(ph.Edges[i], w, 0); ok && c01IsBasic(ph.Type(), types.Int) {
				w.ienv[ph] = n
			} else if b, ok := rf.evalBool(ph.Edges[i], w, 0); ok {
				w.benv[ph] = b
			}
		}
	}
	defer func() {
		for _, s := range undo {
			delete(w.ienv, s.ph)
			delete(w.benv, s.ph)
			if s.hi {
				w.ienv[s.ph] = s.iv
			}
			if s.hb {
				w.benv[s.ph] = s.bv
			}
		}
	}()
	switch t := blk.Instrs[len(blk.Instrs)-1].(type) {
	case *ssa.Return:
		onReturn(t, facts)
	case *ssa.If:
		val, known := rf.evalBool(t.Cond, w, 0)
		for i, s := range blk.Succs {
			if known && val != (i == 0) {
				continue
			}
			nf := append(append([]CondFact(nil), facts...), CondFact{t.Cond, i == 0, blk})
			rf.walk(w, s, blk, nf, depth+1, onReturn, onStop, stop)
		}
	case *ssa.Jump:
		rf.walk(w, blk.Succs[0], blk, facts, depth+1, onReturn, onStop, stop)
	}
}

// mayReturnNil: along a path with the given branch facts, can this return report success?
func (rf *c01Refill) mayReturnNil(ret *ssa.Return, facts []CondFact) bool {
	if rf.errIdx < 0 {
		return true
	}
	res := rf.results[ret]
	if rf.errIdx >= len(res) {
		return true
	}
	v := res[rf.errIdx]
	if IsNilConst(v) {
		return true
	}
	if isNonNilErrorExpr(v) {
		return false
	}
	for _, f := range facts {
		if k, isNil := condSaysNil(f.Cond, f.Val, v); k {
			return isNil
		}
	}
	return true
}

// sendsBoundedInside: some send of the receive loop is controlled by a branch
// inside that loop whose condition involves the limit.
func (rf *c01Refill) sendsBoundedInside() bool {
	for b := range rf.sendBlk {
		for _, f := range FactsAt(b) {
			if rf.I.body[f.At] && f.At != rf.I.head && DependsOn(f.Cond, func(v ssa.Value) bool { return rf.body.isLimit(v) }) {
				return true
			}
		}
	}
	return false
}

func (rf *c01Refill) line(pos token.Pos) int { return rf.fn.Prog.Fset.Position(pos).Line }

// decide evaluates the round protocol in every small world.
func (rf *c01Refill) decide() *c01RefillVerdict {
	vd := &c01RefillVerdict{}
	add := func(dst *[]string, s string) {
		for _, x := range *dst {
			if x == s {
				return
			}
		}
		*dst = append(*dst, s)
	}
	newWorld := func(L, C0 int64) *c01World {
		return &c01World{L: L, C0: C0, visited: map[*ssa.BasicBlock]bool{}, ienv: map[*ssa.Phi]int64{}, benv: map[*ssa.Phi]bool{}}
	}
	for L := int64(1); L <= c01RefillMaxLimit; L++ {
		for C0 := int64(0); C0 <= L; C0++ {
			w := newWorld(L, C0)
			started := false
			rf.walk(w, rf.L.head, nil, nil, 0,
				func(ret *ssa.Return, facts []CondFact) {
					vd.exitsSeen++
					if rf.mayReturnNil(ret, facts) && C0 < L {
						add(&vd.exitBad, fmt.Sprintf("the return at line %d, taken before a round is started, can report success with room left on the page (%s)", rf.line(ret.Pos()), w))
					}
				},
				func(at, from *ssa.BasicBlock, facts []CondFact) {
					if at == rf.I.head {
						started = true
					}
				}, map[*ssa.BasicBlock]bool{rf.I.head: true, rf.L.head: true})
			if !started {
				continue
			}
			vd.rounds++
			R, ok := rf.evalInt(rf.fc.limit, w, 0)
			if !ok {
				add(&vd.undecided, "the limit the round passes to the sub-enumeration is not an arithmetic expression over `limit`, constants and a counter stepped exactly where an element is sent on dest")
				return vd
			}
			if R > L-C0 && rf.sendsBoundedInside() {
				add(&vd.undecided, "a round asks for more than limit-sent elements, but the sends inside the receive loop are themselves guarded by a test on `limit`; a per-element bound inside the receive loop is not modelled")
				return vd
			}
			if R < 1 || R > L-C0 {
				why := "more than `limit` elements can be sent, because every element that passes the filter is forwarded"
				if R < 1 {
					why = "limits below 1 are outside the sub-enumerator's contract, and a round that can receive nothing looks like the end of the enumeration"
				}
				add(&vd.reqBad, fmt.Sprintf("with %s a round is started that asks the sub-enumeration for %d element(s) while %d are still missing: %s", w, R, L-C0, why))
				continue
			}
			for S := int64(0); S <= R; S++ {
				for D := int64(0); D <= S; D++ {
					w2 := newWorld(L, C0)
					w2.R, w2.S, w2.D, w2.post = R, S, D, true
					for _, e := range rf.exits {
						from := rf.I.head
						if rf.round != nil {
							from = nil // the call's own block: evaluate its terminator with the round's results known
						}
						rf.walk(w2, e, from, nil, 0,
							func(ret *ssa.Return, facts []CondFact) {
								vd.exitsSeen++
								if !rf.mayReturnNil(ret, facts) {
									return
								}
								if C0+D >= L || S < R {
									return
								}
								add(&vd.exitBad, fmt.Sprintf("the return at line %d can report success with a short page although the round gives no evidence that the source is exhausted: %s (the sub-enumeration delivered all %d it was asked for, so more may follow; only %d of %d sent)", rf.line(ret.Pos()), w2, R, C0+D, L))
							},
							func(at, from *ssa.BasicBlock, facts []CondFact) {
								if at == rf.I.head {
									add(&vd.undecided, "the code after the receive loop re-enters it without starting a new round")
									return
								}
								vd.backSeen++
								if S < 1 {
									add(&vd.progBad, fmt.Sprintf("another round is started from block %d although this round received nothing (%s): the cursor cannot advance, so the next round is the same round again (or restarts from an empty cursor)", from.Index, w2))
								}
							}, map[*ssa.BasicBlock]bool{rf.I.head: true, rf.L.head: true})
					}
				}
			}
		}
	}
	return vd
}

func c01RuleRefill(p *Program, r *Reporter) {
	const rule = "E-refill"
	insts := c01Instances(p, func(string) bool { return true })
	n := 0
	for _, in := range insts {
		refills, undecided, notes := c01FindRefills(in)
		for _, s := range notes {
			r.Note("E-refill: %s", s)
		}
		for _, u := range undecided {
			r.Undecided(rule, FuncKey(in.Root)+"#refill-shape", p.Pos(in.Root.Pos()), u)
		}
		for _, rf := range refills {
			n++
			key := FuncKey(rf.fn)
			sub := ":" + rf.fc.c.CalleeKey()
			site := p.Pos(rf.fc.c.Pos())
			vd := rf.decide()
			if len(vd.undecided) > 0 || vd.rounds == 0 {
				d := strings.Join(vd.undecided, "; ")
				if vd.rounds == 0 {
					d = "no world (limit 1..6, 0..limit sent) reaches the start of a round; " + d
				}
				r.Undecided(rule, key+"#refill-request"+sub, site, d)
			} else {
				r.Check(len(vd.reqBad) == 0, rule, key+"#refill-request"+sub, site,
					fmt.Sprintf("in every world (limit 1..6, 0..limit sent before the round; %d start a round) the round asks the sub-enumeration for at least 1 and at most limit-sent elements, sent being a counter that is 0 before the loop and stepped exactly in the blocks that send on dest", vd.rounds),
					strings.Join(c01First(vd.reqBad, 2), "; "))
			}
			if len(vd.undecided) == 0 && vd.rounds > 0 {
				r.Check(len(vd.exitBad) == 0, rule, key+"#refill-exit"+sub, site,
					"every return that can report success is reached only in worlds where the page is full (sent >= limit) or this round received fewer elements than this round asked for (all branch conditions evaluated per world; conditions that cannot be evaluated are taken both ways)",
					strings.Join(c01First(vd.exitBad, 2), "; "))
				if vd.backSeen == 0 {
					r.Undecided(rule, key+"#refill-progress"+sub, site, "no path from the end of the receive loop back to the head of the refill loop was found")
				} else {
					r.Check(len(vd.progBad) == 0, rule, key+"#refill-progress"+sub, site,
						"the refill loop goes round again only in worlds where this round received at least one element",
						strings.Join(c01First(vd.progBad, 2), "; "))
				}
			}
			ok, und, detail := rf.checkCursor()
			switch {
			case und:
				r.Undecided(rule, key+"#refill-cursor"+sub, site, detail)
			default:
				r.Check(ok, rule, key+"#refill-cursor"+sub, site,
					"the cursor the next round hands to the sub-enumeration is Ref.String() of a variable that every iteration of the receive loop overwrites with the received ref (last received, not last sent), assigned on every path to the next round", detail)
			}
		}
	}
	r.Analysed("refill_loops", n)
	r.Floor(rule, 4)
}

// ===========================================================================
// S-sub-bound / S-sub-neg / S-sub-forward: ranged fetch (blob.SubFetcher)
//
// Instance set: every declared SubFetch method of every implementer of
// blob.SubFetcher (test support excluded; promoted methods are the embedded
// implementer's). Each method is explored together with the module functions it
// hands offset/length to ("frames"); values are expressed as linear forms over
// the leaves OFF (offset parameter), LEN (length parameter), SIZE (the blob's
// own size: the index-row field the type's Fetch reports as size, of a row
// looked up by the ref; or the size result of Fetch(ref)) and opaque leaves.
// All arithmetic claims are at leaf-set / sign level: no overflow, no value
// ranges.

const (
	c01TOff = 1 << iota
	c01TLen
	c01TRef
)

const (
	c01LOff  = "offset"
	c01LLen  = "length"
	c01LSize = "size"
)

const (
	c01SubOK = iota
	c01SubViolation
	c01SubUndecided
)

type c01SubFieldKey struct {
	obj *types.TypeName
	idx int
}

type c01SubRoot struct {
	p                *Program
	named            *types.Named
	fn               *ssa.Function
	ref, off, length *ssa.Parameter
	inScope          bool
	sizeFields       map[c01SubFieldKey]bool
	subIface         *types.Interface
	fetchIface       *types.Interface
	negErr           *ssa.Global
	seekStart        int64
}

type c01SubFrame struct {
	root   *c01SubRoot
	fn     *ssa.Function
	parent *c01SubFrame
	call   CallSite
	args   []ssa.Value
	depth  int
	taint  map[*ssa.Parameter]int
}

func (fr *c01SubFrame) child(callee *ssa.Function, c CallSite) *c01SubFrame {
	return &c01SubFrame{root: fr.root, fn: callee, parent: fr, call: c, args: c.Args(), depth: fr.depth + 1, taint: map[*ssa.Parameter]int{}}
}

func (fr *c01SubFrame) onStack(fn *ssa.Function) bool {
	for a := fr; a != nil; a = a.parent {
		if a.fn == fn {
			return true
		}
	}
	return false
}

func (fr *c01SubFrame) argOf(p *ssa.Parameter) ssa.Value {
	if fr.parent == nil {
		return nil
	}
	for i, q := range fr.fn.Params {
		if q == p && i < len(fr.args) {
			return fr.args[i]
		}
	}
	return nil
}

// c01SubDepends is c01Depends extended to aggregates reached through their
// address (a struct variable filled by one store and read field by field, a
// `&T{...}` literal): field-insensitive, an over-approximation of dependence.
func c01SubDepends(v ssa.Value, target func(ssa.Value) bool) bool {
	seen := map[ssa.Value]bool{}
	var walk func(v ssa.Value, depth int) bool
	allocStores := func(al *ssa.Alloc, depth int) bool {
		if al.Referrers() == nil {
			return false
		}
		for _, ref := range *al.Referrers() {
			switch x := ref.(type) {
			case *ssa.Store:
				if x.Addr == ssa.Value(al) && walk(x.Val, depth+1) {
					return true
				}
			case *ssa.FieldAddr:
				if x.Referrers() == nil {
					continue
				}
				for _, r2 := range *x.Referrers() {
					if st, ok := r2.(*ssa.Store); ok && st.Addr == ssa.Value(x) && walk(st.Val, depth+1) {
						return true
					}
				}
			case *ssa.IndexAddr:
				if x.Referrers() == nil {
					continue
				}
				for _, r2 := range *x.Referrers() {
					if st, ok := r2.(*ssa.Store); ok && st.Addr == ssa.Value(x) && walk(st.Val, depth+1) {
						return true
					}
				}
			}
		}
		return false
	}
	walk = func(v ssa.Value, depth int) bool {
		if v == nil || seen[v] || depth > 80 {
			return false
		}
		seen[v] = true
		if target(v) {
			return true
		}
		switch x := v.(type) {
		case *ssa.Alloc:
			if allocStores(x, depth) {
				return true
			}
		case *ssa.UnOp:
			if x.Op == token.MUL {
				if cell, ok := varOf(x.X); ok {
					if cell != x.X && target(cell) {
						return true
					}
					for _, st := range storesTo(cell) {
						if walk(st.Val, depth+1) {
							return true
						}
					}
					if al, isAl := cell.(*ssa.Alloc); isAl && !seen[al] {
						seen[al] = true
						if allocStores(al, depth) {
							return true
						}
					}
				}
			}
		}
		if in, ok := v.(ssa.Instruction); ok {
			for _, op := range in.Operands(nil) {
				if *op != nil && walk(*op, depth+1) {
					return true
				}
			}
		}
		return false
	}
	return walk(v, 0)
}

func (fr *c01SubFrame) paramTaint(p *ssa.Parameter) int {
	if t, ok := fr.taint[p]; ok {
		return t
	}
	fr.taint[p] = 0
	t := 0
	if fr.parent == nil {
		switch p {
		case fr.root.off:
			t = c01TOff
		case fr.root.length:
			t = c01TLen
		case fr.root.ref:
			t = c01TRef
		}
	} else if a := fr.argOf(p); a != nil {
		t = fr.parent.taintOf(a)
	}
	fr.taint[p] = t
	return t
}

// taintOf: which of ref/offset/length the value depends on (dependence level).
func (fr *c01SubFrame) taintOf(v ssa.Value) int {
	t := 0
	c01SubDepends(v, func(x ssa.Value) bool {
		if p, ok := x.(*ssa.Parameter); ok && p.Parent() == fr.fn {
			t |= fr.paramTaint(p)
		}
		return false
	})
	return t
}

// isRef: v is the ref the ranged fetch was asked for (identity, not dependence).
func (fr *c01SubFrame) isRef(v ssa.Value) bool {
	p, ok := originValue(v).(*ssa.Parameter)
	if !ok || p.Parent() != fr.fn {
		return false
	}
	if fr.parent == nil {
		return p == fr.root.ref
	}
	if a := fr.argOf(p); a != nil {
		return fr.parent.isRef(a)
	}
	return false
}

// ---- linear forms ----------------------------------------------------------

type c01Lin struct {
	coef map[string]int64
	k    int64
}

func c01LinLeaf(name string) c01Lin { return c01Lin{coef: map[string]int64{name: 1}} }

func (a c01Lin) plus(b c01Lin, sign int64) c01Lin {
	out := c01Lin{coef: map[string]int64{}, k: a.k + sign*b.k}
	for n, c := range a.coef {
		out.coef[n] = c
	}
	for n, c := range b.coef {
		out.coef[n] += sign * c
		if out.coef[n] == 0 {
			delete(out.coef, n)
		}
	}
	return out
}

func (a c01Lin) get(name string) int64 { return a.coef[name] }

// others: leaves other than offset/length/size, sorted.
func (a c01Lin) others() []string {
	var out []string
	for n := range a.coef {
		if n != c01LOff && n != c01LLen && n != c01LSize {
			out = append(out, n)
		}
	}
	sort.Strings(out)
	return out
}

func (a c01Lin) clean() bool {
	for n := range a.coef {
		if strings.HasPrefix(n, "?") {
			return false
		}
	}
	return true
}

func (a c01Lin) String() string {
	var names []string
	for n := range a.coef {
		names = append(names, n)
	}
	sort.Strings(names)
	var sb strings.Builder
	for _, n := range names {
		c := a.coef[n]
		show := n
		if strings.HasPrefix(n, "?") {
			show = "<opaque>"
		} else if i := strings.Index(n, "~"); i >= 0 {
			show = n[:i]
		}
		switch {
		case c == 1 && sb.Len() == 0:
			sb.WriteString(show)
		case c == 1:
			sb.WriteString(" + " + show)
		case c == -1:
			sb.WriteString(" - " + show)
		default:
			fmt.Fprintf(&sb, " %+d*%s", c, show)
		}
	}
	switch {
	case sb.Len() == 0:
		fmt.Fprintf(&sb, "%d", a.k)
	case a.k > 0:
		fmt.Fprintf(&sb, " + %d", a.k)
	case a.k < 0:
		fmt.Fprintf(&sb, " - %d", -a.k)
	}
	return strings.TrimSpace(sb.String())
}

func c01SubIsInt(t types.Type) bool {
	b, ok := t.Underlying().(*types.Basic)
	return ok && b.Info()&types.IsInteger != 0
}

// c01SubStableStruct: the struct variable behind a field address is written as a
// whole at most once and never field by field, so two loads of one field agree.
func c01SubStableStruct(base ssa.Value) bool {
	al, ok := base.(*ssa.Alloc)
	if !ok || al.Referrers() == nil {
		return false
	}
	whole := 0
	for _, ref := range *al.Referrers() {
		switch x := ref.(type) {
		case *ssa.Store:
			if x.Addr == ssa.Value(al) {
				whole++
			}
		case *ssa.FieldAddr:
			if x.Referrers() == nil {
				continue
			}
			for _, r2 := range *x.Referrers() {
				if st, ok := r2.(*ssa.Store); ok && st.Addr == ssa.Value(x) {
					return false
				}
			}
		}
	}
	return whole <= 1
}

func (fr *c01SubFrame) refTarget() func(ssa.Value) bool {
	return func(x ssa.Value) bool {
		p, ok := x.(*ssa.Parameter)
		return ok && p.Parent() == fr.fn && fr.paramTaint(p)&c01TRef != 0
	}
}

// isSizeField: field idx of base is the field the type's Fetch reports as the
// blob's size, and the row it belongs to was looked up with the ref.
func (fr *c01SubFrame) isSizeField(base ssa.Value, idx int) bool {
	n := NamedOf(base.Type())
	if n == nil || !fr.root.sizeFields[c01SubFieldKey{n.Obj(), idx}] {
		return false
	}
	return c01SubDepends(base, fr.refTarget())
}

func (fr *c01SubFrame) opaque(v ssa.Value) c01Lin { return c01LinLeaf(uniquePath(v)) }

func (fr *c01SubFrame) named(path string) c01Lin {
	if strings.HasPrefix(path, "?") {
		return c01LinLeaf(path)
	}
	return c01LinLeaf(path + "~" + FuncKey(fr.fn))
}

// lin renders an integer value as a linear form over offset, length, size and
// opaque leaves (conversions between integer types are transparent).
func (fr *c01SubFrame) lin(v ssa.Value, depth int) c01Lin {
	if depth > 32 || v == nil {
		return fr.opaque(v)
	}
	switch x := v.(type) {
	case *ssa.Const:
		if k, ok := ConstInt(x); ok {
			return c01Lin{coef: map[string]int64{}, k: k}
		}
	case *ssa.Convert:
		if c01SubIsInt(x.Type()) && c01SubIsInt(x.X.Type()) {
			return fr.lin(x.X, depth+1)
		}
	case *ssa.ChangeType:
		return fr.lin(x.X, depth+1)
	case *ssa.Parameter:
		if x.Parent() != fr.fn {
			break
		}
		if fr.parent == nil {
			switch x {
			case fr.root.off:
				return c01LinLeaf(c01LOff)
			case fr.root.length:
				return c01LinLeaf(c01LLen)
			}
			return fr.named(x.Name())
		}
		if a := fr.argOf(x); a != nil {
			return fr.parent.lin(a, depth+1)
		}
	case *ssa.BinOp:
		switch x.Op {
		case token.ADD:
			return fr.lin(x.X, depth+1).plus(fr.lin(x.Y, depth+1), 1)
		case token.SUB:
			return fr.lin(x.X, depth+1).plus(fr.lin(x.Y, depth+1), -1)
		}
	case *ssa.UnOp:
		switch x.Op {
		case token.SUB:
			return c01Lin{coef: map[string]int64{}}.plus(fr.lin(x.X, depth+1), -1)
		case token.MUL:
			if r := resolveLoad(x); r != nil {
				return fr.lin(r, depth+1)
			}
			if fa, ok := x.X.(*ssa.FieldAddr); ok {
				if fr.isSizeField(fa.X, fa.Field) {
					return c01LinLeaf(c01LSize)
				}
				if c01SubStableStruct(fa.X) {
					return fr.named(AccessPath(x))
				}
			}
		}
	case *ssa.Field:
		if fr.isSizeField(x.X, x.Field) {
			return c01LinLeaf(c01LSize)
		}
	case *ssa.Extract:
		if call, ok := x.Tuple.(*ssa.Call); ok && c01IsBasic(x.Type(), types.Uint32) && fr.isFetchOfRef(call) {
			return c01LinLeaf(c01LSize)
		}
	case *ssa.Phi:
		if o := originValue(x); o != ssa.Value(x) {
			return fr.lin(o, depth+1)
		}
	case *ssa.Call:
		if b, ok := x.Call.Value.(*ssa.Builtin); ok && b.Name() == "len" && len(x.Call.Args) == 1 {
			return fr.named("len(" + AccessPath(originValue(x.Call.Args[0])) + ")")
		}
	}
	return fr.opaque(v)
}

// isFetchOfRef: call is Fetch(ctx, ref) on some blob.Fetcher for the ref asked for.
func (fr *c01SubFrame) isFetchOfRef(call *ssa.Call) bool {
	c := CallSite{call.Parent(), call}
	if !c.IsMethod("Fetch", fr.root.fetchIface) {
		return false
	}
	for _, a := range c.Args() {
		if fr.isRef(a) {
			return true
		}
	}
	return false
}

// ---- facts -----------------------------------------------------------------

type c01SubFact struct {
	fr *c01SubFrame
	f  CondFact
}

// factsOn: branch facts known on the edge from->to of this frame (from == nil:
// at entry of to), plus the facts at every call site up the frame chain.
func (fr *c01SubFrame) factsOn(from, to *ssa.BasicBlock) []c01SubFact {
	var out []c01SubFact
	for _, f := range c01EdgeFacts(from, to) {
		out = append(out, c01SubFact{fr, f})
	}
	for a := fr; a.parent != nil; a = a.parent {
		for _, f := range FactsAt(a.call.Block()) {
			out = append(out, c01SubFact{a.parent, f})
		}
	}
	return out
}

func c01SubNegate(op token.Token) token.Token {
	switch op {
	case token.LSS:
		return token.GEQ
	case token.LEQ:
		return token.GTR
	case token.GTR:
		return token.LEQ
	case token.GEQ:
		return token.LSS
	case token.EQL:
		return token.NEQ
	case token.NEQ:
		return token.EQL
	}
	return op
}

// rel: the fact as "D op 0" over linear forms (integer comparisons only).
func (sf c01SubFact) rel() (c01Lin, token.Token, bool) {
	op, x, y, trueIdx, ok := c01CondCmp(sf.f.Cond)
	if !ok || !c01SubIsInt(x.Type()) || !c01SubIsInt(y.Type()) {
		return c01Lin{}, 0, false
	}
	if sf.f.Val != (trueIdx == 0) {
		op = c01SubNegate(op)
	}
	return sf.fr.lin(x, 0).plus(sf.fr.lin(y, 0), -1), op, true
}

func (sf c01SubFact) render() string {
	d, op, ok := sf.rel()
	if !ok {
		return "?"
	}
	return d.String() + " " + op.String() + " 0"
}

// okCall: the fact says that the error result of this call is nil.
func (sf c01SubFact) okCall() *ssa.Call {
	cond, val := sf.f.Cond, sf.f.Val
	for {
		u, ok := cond.(*ssa.UnOp)
		if !ok || u.Op != token.NOT {
			break
		}
		cond, val = u.X, !val
	}
	bo, ok := cond.(*ssa.BinOp)
	if !ok || (bo.Op != token.EQL && bo.Op != token.NEQ) {
		return nil
	}
	var other ssa.Value
	switch {
	case IsNilConst(bo.Y):
		other = bo.X
	case IsNilConst(bo.X):
		other = bo.Y
	default:
		return nil
	}
	if (bo.Op == token.EQL) != val || !isErrorType(other.Type()) {
		return nil
	}
	switch x := other.(type) {
	case *ssa.Extract:
		call, _ := x.Tuple.(*ssa.Call)
		return call
	case *ssa.Call:
		return x
	}
	return nil
}

// single: D is c*leaf + k with c = +-1 and nothing else.
func c01SubSingle(d c01Lin, leaf string) (c, k int64, ok bool) {
	if len(d.coef) != 1 {
		return 0, 0, false
	}
	c = d.coef[leaf]
	return c, d.k, c == 1 || c == -1
}

func c01SubImpliesNonNeg(d c01Lin, op token.Token, leaf string) bool {
	c, k, ok := c01SubSingle(d, leaf)
	if !ok {
		return false
	}
	if c == 1 {
		switch op {
		case token.GEQ, token.EQL:
			return k <= 0
		case token.GTR:
			return k <= 1
		}
		return false
	}
	switch op {
	case token.LEQ, token.EQL:
		return k >= 0
	case token.LSS:
		return k >= -1
	}
	return false
}

func c01SubImpliesNegative(d c01Lin, op token.Token, leaf string) bool {
	c, k, ok := c01SubSingle(d, leaf)
	if !ok {
		return false
	}
	if c == 1 {
		switch op {
		case token.LSS:
			return k >= 0
		case token.LEQ, token.EQL:
			return k >= 1
		}
		return false
	}
	switch op {
	case token.GTR:
		return k <= 0
	case token.GEQ, token.EQL:
		return k <= -1
	}
	return false
}

type c01SubRet struct {
	ret     *ssa.Return
	results []ssa.Value
}

// c01SubSuccessReturns: the returns of fn whose error result may be nil (all
// returns when fn has no error result), results resolved through defer spills.
func c01SubSuccessReturns(fn *ssa.Function) []c01SubRet {
	keep := map[*ssa.Return]bool{}
	hasErr := ErrResultIndex(fn) >= 0
	if hasErr {
		for _, nr := range c01MaybeNilReturns(fn) {
			keep[nr.ret] = true
		}
	}
	var out []c01SubRet
	for _, ri := range Returns(fn) {
		if !hasErr || keep[ri.Ret] {
			out = append(out, c01SubRet{ri.Ret, ri.Results})
		}
	}
	return out
}

type c01SubGuard struct {
	sf c01SubFact
}

// nonNeg: on the edge from->to (and in every caller up the chain) the leaf is
// known >= 0: by a dominating comparison with a constant, or because a helper
// returned a nil error and every success return of that helper lies behind such
// a comparison of the corresponding parameter.
func (fr *c01SubFrame) nonNeg(from, to *ssa.BasicBlock, leaf string, depth int) (bool, []c01SubGuard) {
	facts := fr.factsOn(from, to)
	for _, sf := range facts {
		if d, op, ok := sf.rel(); ok && c01SubImpliesNonNeg(d, op, leaf) {
			return true, []c01SubGuard{{sf}}
		}
	}
	if depth >= 3 {
		return false, nil
	}
	for _, sf := range facts {
		call := sf.okCall()
		if call == nil {
			continue
		}
		callee := call.Call.StaticCallee()
		if callee == nil || callee.Blocks == nil || !InModule(callee) || sf.fr.onStack(callee) {
			continue
		}
		cf := sf.fr.child(callee, CallSite{call.Parent(), call})
		rets := c01SubSuccessReturns(callee)
		if len(rets) == 0 {
			continue
		}
		all := true
		var gs []c01SubGuard
		for _, rt := range rets {
			// only facts established inside the helper count here
			found := false
			for _, f := range FactsAt(rt.ret.Block()) {
				hf := c01SubFact{cf, f}
				if d, op, ok := hf.rel(); ok && c01SubImpliesNonNeg(d, op, leaf) {
					found = true
					gs = append(gs, c01SubGuard{hf})
					break
				}
			}
			if !found {
				all = false
				break
			}
		}
		if all {
			return true, gs
		}
	}
	return false, nil
}

// negOnly: a fact in the frame chain says offset or length is negative here.
func (fr *c01SubFrame) negOnly(from, to *ssa.BasicBlock) (bool, string) {
	for _, sf := range fr.factsOn(from, to) {
		d, op, ok := sf.rel()
		if !ok {
			continue
		}
		for _, leaf := range []string{c01LLen, c01LOff} {
			if c01SubImpliesNegative(d, op, leaf) {
				return true, sf.render()
			}
		}
	}
	return false, ""
}

// rejectsWithNegErr: the other edge of the guard leads to a return of
// blob.ErrNegativeSubFetch.
func (g c01SubGuard) rejectsWithNegErr(root *c01SubRoot) bool {
	at := g.sf.f.At
	if at == nil || len(at.Succs) != 2 {
		return false
	}
	neg := at.Succs[0]
	if g.sf.f.Val {
		neg = at.Succs[1]
	}
	fn := at.Parent()
	idx := ErrResultIndex(fn)
	if idx < 0 {
		return false
	}
	reach := BlocksFrom(neg)
	for _, ri := range Returns(fn) {
		if !(ri.Ret.Block() == neg || reach[ri.Ret.Block()]) {
			continue
		}
		if c01SubDepends(ri.Results[idx], func(v ssa.Value) bool { return v == ssa.Value(root.negErr) }) {
			return true
		}
	}
	return false
}

// ---- proving that a length operand is bounded -------------------------------

// guard3: some fact on the path relates offset+length to size.
func (fr *c01SubFrame) guard3(facts []c01SubFact) (int, string) {
	partial, wrong, unknown := "", "", ""
	for _, sf := range facts {
		d, op, ok := sf.rel()
		if !ok || !d.clean() {
			if sf.fr.taintOf(sf.f.Cond)&c01TLen != 0 {
				unknown = "a branch condition on this path depends on length in a form the rule cannot read"
			}
			continue
		}
		a, b, c := d.get(c01LOff), d.get(c01LLen), d.get(c01LSize)
		switch {
		case a != 0 && b != 0 && c != 0:
			if len(d.others()) == 0 && (a == 1 || a == -1) && a == b && a == -c {
				if c01SubInRange(a, d.k, op) {
					return c01SubOK, "length itself, on a path where `" + sf.render() + "` holds (leaf set offset, length, size; sign checked, overflow not modelled)"
				}
				wrong = "the only guard relating offset, length and size on this path is `" + sf.render() + "`, which holds when the range overshoots the blob: the cap is applied on the wrong edge"
				continue
			}
			return c01SubOK, "length itself, on a path guarded by `" + sf.render() + "` (leaf set offset, length, size; leaf-set level only)"
		case b != 0 && c != 0 && a == 0:
			partial = sf.render()
		}
	}
	switch {
	case wrong != "":
		return c01SubViolation, wrong
	case partial != "":
		return c01SubViolation, "range cap ignores the offset: on the path where length reaches the reader unchanged the only guard relating length to the blob's size is `" + partial + "`, which does not contain the offset; a range with offset > 0, length <= size and offset+length > size reads past the blob's end into the container"
	case unknown != "":
		return c01SubUndecided, unknown
	}
	return c01SubViolation, "length reaches the reader unchanged on a path where no guard relates offset+length to the blob's size, although the reader is positioned inside a container larger than the blob"
}

// c01SubInRange: a*(offset+length-size) + k op 0 implies offset+length <= size.
func c01SubInRange(a, k int64, op token.Token) bool {
	if a == 1 {
		switch op {
		case token.LEQ, token.EQL:
			return k >= 0
		case token.LSS:
			return k >= -1
		}
		return false
	}
	switch op {
	case token.GEQ, token.EQL:
		return k <= 0
	case token.GTR:
		return k <= 1
	}
	return false
}

// prove decides whether the length operand v, as it arrives along from->to, is
// bounded by the blob. container: the reader is positioned inside something
// larger than the blob, so the bound must come from the program; otherwise the
// object is the blob and EOF bounds the read, only "limited by length" is asked.
func (fr *c01SubFrame) prove(v ssa.Value, from, to *ssa.BasicBlock, container bool, depth int) (int, string) {
	if depth > 10 {
		return c01SubUndecided, "length operand is computed too deeply to follow"
	}
	for {
		if x, ok := v.(*ssa.Convert); ok && c01SubIsInt(x.Type()) && c01SubIsInt(x.X.Type()) {
			v = x.X
			continue
		}
		if x, ok := v.(*ssa.ChangeType); ok {
			v = x.X
			continue
		}
		break
	}
	if ph, ok := v.(*ssa.Phi); ok {
		if o := originValue(ph); o != ssa.Value(ph) {
			return fr.prove(o, from, to, container, depth+1)
		}
		var oks []string
		for i, e := range ph.Edges {
			st, d := fr.prove(e, ph.Block().Preds[i], ph.Block(), container, depth+1)
			if st != c01SubOK {
				return st, d
			}
			dup := false
			for _, o := range oks {
				dup = dup || o == d
			}
			if !dup {
				oks = append(oks, d)
			}
		}
		return c01SubOK, strings.Join(oks, " | ")
	}
	if prm, ok := v.(*ssa.Parameter); ok && prm.Parent() == fr.fn && fr.parent != nil {
		if !fr.lin(v, 0).clean() {
			if a := fr.argOf(prm); a != nil {
				return fr.parent.prove(a, nil, fr.call.Block(), container, depth+1)
			}
		}
	}
	var helper *ssa.Call
	idx := 0
	switch x := v.(type) {
	case *ssa.Extract:
		helper, _ = x.Tuple.(*ssa.Call)
		idx = x.Index
	case *ssa.Call:
		if b, ok := x.Call.Value.(*ssa.Builtin); ok {
			if b.Name() == "min" {
				last := "min() of operands none of which is bounded"
				for _, a := range x.Call.Args {
					st, d := fr.prove(a, from, to, container, depth+1)
					if st == c01SubOK {
						return st, "min(...) with " + d
					}
					last = d
				}
				return c01SubUndecided, last
			}
		} else {
			helper = x
		}
	}
	if helper != nil && !fr.isFetchOfRef(helper) {
		callee := helper.Call.StaticCallee()
		if callee != nil && callee.Blocks != nil && InModule(callee) && !fr.onStack(callee) {
			cf := fr.child(callee, CallSite{helper.Parent(), helper})
			rets := c01SubSuccessReturns(callee)
			if len(rets) == 0 {
				return c01SubUndecided, "helper " + FuncKey(callee) + " has no success return"
			}
			var oks []string
			for _, rt := range rets {
				if idx >= len(rt.results) {
					return c01SubUndecided, "helper result not found"
				}
				st, d := cf.prove(rt.results[idx], nil, rt.ret.Block(), container, depth+1)
				if st != c01SubOK {
					return st, "in " + FuncKey(callee) + ": " + d
				}
				oks = append(oks, d)
			}
			return c01SubOK, "computed by " + FuncKey(callee) + ": " + strings.Join(oks, " | ")
		}
	}
	l := fr.lin(v, 0)
	facts := fr.factsOn(from, to)
	lenC, offC, sizeC, others := l.get(c01LLen), l.get(c01LOff), l.get(c01LSize), l.others()
	if sizeC == 1 && offC == -1 && lenC == 0 && len(others) == 0 && l.k <= 0 {
		return c01SubOK, "`" + l.String() + "` (what is left of the blob after offset)"
	}
	if lenC == 1 && offC == 0 && sizeC == 0 && len(others) == 0 && l.k <= 0 {
		if !container {
			return c01SubOK, "length itself (the object read is the blob: its end bounds the read)"
		}
		return fr.guard3(facts)
	}
	if container {
		if sizeC > 0 && offC == 0 && lenC == 0 {
			return c01SubViolation, "capped length `" + l.String() + "` depends on the blob's size but not on the offset: the read overshoots the blob's end by offset bytes"
		}
		return c01SubUndecided, "length operand `" + l.String() + "` is neither length under a guard nor size-offset"
	}
	for _, sf := range facts {
		if d, _, ok := sf.rel(); ok && d.get(c01LLen) != 0 && len(d.coef) > 1 {
			return c01SubOK, "`" + l.String() + "`, assigned under the guard `" + sf.render() + "` on length (the object read is the blob: its end bounds the read)"
		}
	}
	if lenC == 0 && fr.taintOf(v)&c01TLen == 0 {
		return c01SubViolation, "the reader's limit `" + l.String() + "` does not depend on length: the ranged fetch returns everything from offset to the end of the blob"
	}
	return c01SubUndecided, "the reader's limit `" + l.String() + "` depends on length in a form the rule cannot read"
}

// ---- sites -----------------------------------------------------------------

type c01SubSite struct {
	fr   *c01SubFrame
	c    CallSite
	kind string // "section", "limit", "subfetch"
}

type c01SubState struct {
	root      *c01SubRoot
	frames    []*c01SubFrame
	sites     []c01SubSite
	fetches   []c01SubSite // Fetch(ctx, ref) calls on a store
	externals []c01SubSite // non-module calls that receive offset/length
	extTaint  int
	undecided []string
}

func (st *c01SubState) collect(fr *c01SubFrame) {
	st.frames = append(st.frames, fr)
	root := fr.root
	for _, c := range CallsIn(fr.fn, false) {
		if c.IsGo() || c.IsDefer() {
			continue
		}
		args := c.Args()
		switch {
		case c.IsStatic("io", "", "NewSectionReader") && len(args) == 3:
			st.sites = append(st.sites, c01SubSite{fr, c, "section"})
		case c.IsStatic("io", "", "LimitReader") && len(args) == 2:
			st.sites = append(st.sites, c01SubSite{fr, c, "limit"})
		case c.IsMethod("SubFetch", root.subIface) && len(args) == 5:
			st.sites = append(st.sites, c01SubSite{fr, c, "subfetch"})
		case c.IsMethod("Fetch", root.fetchIface) && len(args) == 3:
			st.fetches = append(st.fetches, c01SubSite{fr, c, "fetch"})
		default:
			t := 0
			for _, a := range args {
				t |= fr.taintOf(a)
			}
			if t&(c01TOff|c01TLen) == 0 {
				continue
			}
			if _, isBuiltin := c.Common().Value.(*ssa.Builtin); isBuiltin {
				continue
			}
			callee := c.Callee()
			if callee != nil && callee.Blocks != nil && InModule(callee) {
				if callee.Parent() != nil {
					st.undecided = append(st.undecided, fmt.Sprintf("%s passes offset/length to the function literal %s", FuncKey(fr.fn), FuncKey(callee)))
					continue
				}
				if fr.onStack(callee) {
					continue
				}
				if fr.depth >= 4 {
					st.undecided = append(st.undecided, fmt.Sprintf("offset/length handed down more than 4 calls deep (%s)", FuncKey(callee)))
					continue
				}
				st.collect(fr.child(callee, c))
				continue
			}
			st.externals = append(st.externals, c01SubSite{fr, c, "external"})
			st.extTaint |= t
		}
	}
	for _, b := range fr.fn.Blocks {
		for _, in := range b.Instrs {
			mc, ok := in.(*ssa.MakeClosure)
			if !ok {
				continue
			}
			for _, bnd := range mc.Bindings {
				if fr.taintOf(bnd)&(c01TOff|c01TLen) != 0 {
					st.undecided = append(st.undecided, fmt.Sprintf("%s: offset/length captured by the function literal %s", FuncKey(fr.fn), FuncKey(mc.Fn.(*ssa.Function))))
					break
				}
			}
		}
	}
}

func (s c01SubSite) name() string {
	n := s.c.CalleeKey()
	if s.fr.parent != nil {
		n += " in " + FuncKey(s.fr.fn)
	}
	return n
}

// c01SubSameObj: two reader expressions denote the same opened object.
func c01SubSameObj(a, b ssa.Value) bool {
	oa, ob := originValue(a), originValue(b)
	return oa == ob
}

type c01SubPos struct {
	c      CallSite
	amount ssa.Value
}

// positioners: calls in the frame's function that move the read position of obj
// forward from the start: Seek(amount, io.SeekStart) on it, io.CopyN(_, obj, amount).
func (fr *c01SubFrame) positioners(obj ssa.Value) []c01SubPos {
	var out []c01SubPos
	for _, c := range CallsIn(fr.fn, false) {
		args := c.Args()
		switch {
		case c.IsStatic("io", "", "CopyN") && len(args) == 3 && c01SubSameObj(args[1], obj):
			out = append(out, c01SubPos{c, args[2]})
		case c.MethodName() == "Seek" && len(args) == 3 && c01SubSameObj(args[0], obj):
			if k, ok := ConstInt(args[2]); ok && k == fr.root.seekStart {
				out = append(out, c01SubPos{c, args[1]})
			}
		}
	}
	return out
}

// offsetTouches: some other call of the frame's function receives both the
// object (directly or wrapped) and a value that depends on offset.
func (fr *c01SubFrame) offsetTouches(obj ssa.Value, except CallSite) bool {
	o := originValue(obj)
	for _, c := range CallsIn(fr.fn, false) {
		if c.Instr == except.Instr {
			continue
		}
		hasObj, hasOff := false, false
		for _, a := range c.Args() {
			if originValue(a) == o || c01SubDepends(a, func(v ssa.Value) bool { return v == o }) {
				hasObj = true
			}
			if fr.taintOf(a)&c01TOff != 0 {
				hasOff = true
			}
		}
		if hasObj && hasOff {
			return true
		}
	}
	return false
}

// flowsToReturn: the reader built at the site is (part of) a reader the frame's
// function returns on a success path. Functions without a reader result keep
// every site (conservative).
func (s c01SubSite) flowsToReturn() bool {
	v := s.c.Value()
	if v == nil {
		return false
	}
	res := s.fr.fn.Signature.Results()
	rdIdx := -1
	for i := 0; i < res.Len(); i++ {
		if c01SubIsReader(res.At(i).Type()) {
			rdIdx = i
			break
		}
	}
	if rdIdx < 0 {
		return true
	}
	for _, rt := range c01SubSuccessReturns(s.fr.fn) {
		if c01SubDepends(rt.results[rdIdx], func(x ssa.Value) bool { return x == ssa.Value(v) }) {
			return true
		}
	}
	return false
}

// unpositionedPath: a path from the function's entry to the sink that neither
// runs a positioning call nor takes an `offset == 0` edge.
func (fr *c01SubFrame) unpositionedPath(sink ssa.Instruction, pos []c01SubPos) bool {
	posBlock := map[*ssa.BasicBlock]ssa.Instruction{}
	for _, p := range pos {
		posBlock[p.c.Block()] = p.c.Instr.(ssa.Instruction)
	}
	seen := map[*ssa.BasicBlock]bool{}
	var walk func(b *ssa.BasicBlock) bool
	walk = func(b *ssa.BasicBlock) bool {
		if seen[b] {
			return false
		}
		seen[b] = true
		if pi, ok := posBlock[b]; ok {
			if b == sink.Block() && instrIndex(sink) < instrIndex(pi) {
				return true
			}
			return false
		}
		if b == sink.Block() {
			return true
		}
		for i, s := range b.Succs {
			if ifi, ok := b.Instrs[len(b.Instrs)-1].(*ssa.If); ok && len(b.Succs) == 2 && b.Succs[0] != b.Succs[1] {
				sf := c01SubFact{fr, CondFact{Cond: ifi.Cond, Val: i == 0, At: b}}
				if d, op, ok := sf.rel(); ok && op == token.EQL && d.k == 0 {
					if c, _, single := c01SubSingle(d, c01LOff); single && c != 0 {
						continue // offset == 0 on this edge: nothing to skip
					}
				}
			}
			if walk(s) {
				return true
			}
		}
		return false
	}
	return walk(fr.fn.Blocks[0])
}

type c01SubResult struct {
	status int
	detail string
	table  bool // discharged without path reasoning
}

func (st *c01SubState) line(pos token.Pos) int { return st.root.p.Fset.Position(pos).Line }

// boundSite decides S-sub-bound for a reader-building site; forward is set
// when a SubFetch call is a plain forward and belongs to S-sub-forward instead.
func (st *c01SubState) boundSite(s c01SubSite) (res c01SubResult, forward bool) {
	fr := s.fr
	args := s.c.Args()
	at := s.c.Block()
	fullFetch := func(what string) (c01SubResult, bool) {
		if neg, why := fr.negOnly(nil, at); neg {
			return c01SubResult{c01SubOK, "whole-blob mode: this site is reached only where `" + why + "` holds, i.e. with a negative offset/length, which S-sub-neg shows is rejected before", true}, false
		}
		return c01SubResult{c01SubViolation, what, false}, false
	}
	var reader, n ssa.Value
	var posL c01Lin
	switch s.kind {
	case "section":
		reader, n = args[0], args[2]
		posL = fr.lin(args[1], 0)
	case "subfetch":
		reader, n = args[0], args[4]
		posL = fr.lin(args[3], 0)
	case "limit":
		reader, n = args[0], args[1]
		pos := fr.positioners(reader)
		if len(pos) == 0 {
			if neg, _ := fr.negOnly(nil, at); !neg && fr.offsetTouches(reader, s.c) {
				return c01SubResult{c01SubUndecided, "offset reaches a call on the object the limited reader reads, but not as Seek(offset, io.SeekStart) or io.CopyN(_, r, offset): positioning cannot be followed", false}, false
			}
			return fullFetch("the reader is limited but never positioned: no Seek(offset, io.SeekStart) / io.CopyN(_, r, offset) on the object it reads, so the range starts at byte 0 whatever the offset")
		}
		for i, p := range pos {
			l := fr.lin(p.amount, 0)
			if i > 0 && l.String() != posL.String() {
				return c01SubResult{c01SubUndecided, "the object is positioned by several calls with different amounts", false}, false
			}
			posL = l
		}
		if posL.get(c01LOff) == 1 && posL.get(c01LLen) == 0 && fr.unpositionedPath(s.c.Instr.(ssa.Instruction), pos) {
			return c01SubResult{c01SubViolation, "a path reaches the limited reader without positioning the object at offset and without passing an `offset == 0` edge", false}, false
		}
	}
	if posL.get(c01LOff) != 1 || posL.get(c01LLen) != 0 {
		if s.kind == "subfetch" {
			return c01SubResult{}, true // judged by S-sub-forward
		}
		return fullFetch("the reader is positioned at `" + posL.String() + "`, which is not the requested offset")
	}
	container := len(posL.others()) > 0 || posL.get(c01LSize) != 0
	if s.kind == "subfetch" && !container {
		return c01SubResult{}, true
	}
	where := ""
	if container {
		where = "positioned at `" + posL.String() + "` inside a container larger than the blob"
	} else {
		if posL.k != 0 {
			return c01SubResult{c01SubViolation, "the reader is positioned at `" + posL.String() + "`, not at offset", false}, false
		}
		if !c01SubDepends(reader, fr.refTarget()) {
			return c01SubResult{c01SubViolation, "the object read does not depend on the ref asked for", false}, false
		}
		where = "positioned at offset on an object opened/looked up by the ref"
	}
	status, d := fr.prove(n, nil, at, container, 0)
	switch status {
	case c01SubOK:
		return c01SubResult{c01SubOK, where + "; limit: " + d, false}, false
	default:
		return c01SubResult{status, where + "; " + d, false}, false
	}
}

// c01SubIsReader: an interface type with a Read method.
func c01SubIsReader(t types.Type) bool {
	it, ok := t.Underlying().(*types.Interface)
	if !ok {
		return false
	}
	for i := 0; i < it.NumMethods(); i++ {
		if it.Method(i).Name() == "Read" {
			return true
		}
	}
	return false
}

// c01SubStoreField names the receiver field a store expression is read from
// (through type assertions and interface conversions), "" when it is not a field
// of the method's receiver.
func c01SubStoreField(fn *ssa.Function, v ssa.Value) string {
	for i := 0; i < 12; i++ {
		switch x := v.(type) {
		case *ssa.Extract:
			if ta, ok := x.Tuple.(*ssa.TypeAssert); ok && x.Index == 0 {
				v = ta.X
				continue
			}
		case *ssa.TypeAssert:
			v = x.X
			continue
		case *ssa.ChangeInterface:
			v = x.X
			continue
		case *ssa.MakeInterface:
			v = x.X
			continue
		case *ssa.ChangeType:
			v = x.X
			continue
		case *ssa.UnOp:
			if x.Op == token.MUL {
				if fa, ok := x.X.(*ssa.FieldAddr); ok && len(fn.Params) > 0 && originValue(fa.X) == ssa.Value(fn.Params[0]) {
					return fieldName(fa.X.Type(), fa.Field)
				}
				if r := resolveLoad(x); r != nil {
					v = r
					continue
				}
			}
		case *ssa.FieldAddr:
			if len(fn.Params) > 0 && originValue(x.X) == ssa.Value(fn.Params[0]) {
				return fieldName(x.X.Type(), x.Field)
			}
		}
		break
	}
	return ""
}

// c01SubSizeFields: the struct fields the type's Fetch method returns as the
// blob's size (followed through static module callees).
func c01SubSizeFields(fetch *ssa.Function) map[c01SubFieldKey]bool {
	out := map[c01SubFieldKey]bool{}
	seen := map[*ssa.Function]bool{}
	var fromFn func(fn *ssa.Function, idx, depth int)
	var fromVal func(v ssa.Value, depth int)
	fromVal = func(v ssa.Value, depth int) {
		if depth > 8 || v == nil {
			return
		}
		switch x := v.(type) {
		case *ssa.Convert:
			fromVal(x.X, depth+1)
		case *ssa.ChangeType:
			fromVal(x.X, depth+1)
		case *ssa.Phi:
			for _, e := range x.Edges {
				fromVal(e, depth+1)
			}
		case *ssa.UnOp:
			if x.Op != token.MUL {
				return
			}
			if fa, ok := x.X.(*ssa.FieldAddr); ok {
				if n := NamedOf(fa.X.Type()); n != nil {
					out[c01SubFieldKey{n.Obj(), fa.Field}] = true
				}
				return
			}
			if r := resolveLoad(x); r != nil {
				fromVal(r, depth+1)
			}
		case *ssa.Field:
			if n := NamedOf(x.X.Type()); n != nil {
				out[c01SubFieldKey{n.Obj(), x.Field}] = true
			}
		case *ssa.Extract:
			if call, ok := x.Tuple.(*ssa.Call); ok {
				if callee := call.Call.StaticCallee(); callee != nil && callee.Blocks != nil && InModule(callee) {
					fromFn(callee, x.Index, depth+1)
				}
			}
		}
	}
	fromFn = func(fn *ssa.Function, idx, depth int) {
		if seen[fn] || depth > 8 {
			return
		}
		seen[fn] = true
		for _, ri := range Returns(fn) {
			if idx < len(ri.Results) {
				fromVal(ri.Results[idx], depth)
			}
		}
	}
	res := fetch.Signature.Results()
	for i := 0; i < res.Len(); i++ {
		if c01IsBasic(res.At(i).Type(), types.Uint32) {
			fromFn(fetch, i, 0)
			break
		}
	}
	return out
}

func c01RuleSubFetch(p *Program, r *Reporter) {
	const ruleB, ruleN, ruleF = "S-sub-bound", "S-sub-neg", "S-sub-forward"
	subIface := p.Iface("pkg/blob", "SubFetcher")
	fetchIface := p.Iface("pkg/blob", "Fetcher")
	var negErr *ssa.Global
	if m, ok := p.SSAPkg("pkg/blob").Members["ErrNegativeSubFetch"].(*ssa.Global); ok {
		negErr = m
	} else {
		brokenf("anchor unresolved: pkg/blob.ErrNegativeSubFetch")
	}
	seekStart := int64(0)
	for _, sp := range p.SSA.AllPackages() {
		if sp.Pkg.Path() == "io" {
			if nc, ok := sp.Members["SeekStart"].(*ssa.NamedConst); ok {
				seekStart = nc.Value.Int64()
			}
		}
	}
	impls := 0
	for _, n := range p.Implementers(subIface, false) {
		fn := c01DeclaredMethod(p, n, "SubFetch")
		if fn == nil || fn.Blocks == nil {
			continue // promoted from an embedded implementer, which is itself enumerated
		}
		impls++
		root := &c01SubRoot{p: p, named: n, fn: fn, subIface: subIface, fetchIface: fetchIface, negErr: negErr, seekStart: seekStart,
			inScope: c01ScopePkgs[RelPkg(fn.Pkg.Pkg)], sizeFields: map[c01SubFieldKey]bool{}}
		off := len(fn.Params) - fn.Signature.Params().Len()
		for _, prm := range fn.Params[off:] {
			switch {
			case root.ref == nil && c01IsRef(prm.Type()):
				root.ref = prm
			case c01IsBasic(prm.Type(), types.Int64) && root.off == nil:
				root.off = prm
			case c01IsBasic(prm.Type(), types.Int64) && root.length == nil:
				root.length = prm
			}
		}
		if root.ref == nil || root.off == nil || root.length == nil {
			brokenf("anchor unresolved: %s does not have the (ctx, ref, offset, length) shape", FuncKey(fn))
		}
		fetchFn := c01DeclaredMethod(p, n, "Fetch")
		if fetchFn == nil {
			fetchFn, _ = p.MethodOf(n, "Fetch")
		}
		if fetchFn != nil && fetchFn.Blocks != nil {
			root.sizeFields = c01SubSizeFields(fetchFn)
		}
		key := FuncKey(fn)
		site := p.Pos(fn.Pos())
		st := &c01SubState{root: root}
		rootFrame := &c01SubFrame{root: root, fn: fn, taint: map[*ssa.Parameter]int{}}
		st.collect(rootFrame)
		r.Analysed("subfetch_frames", len(st.frames))
		r.Analysed("subfetch_sites", len(st.sites)+len(st.externals))

		if !root.inScope {
			c01SubCloud(r, st, key, site)
			continue
		}
		for _, u := range st.undecided {
			r.Undecided(ruleB, key+"#shape", site, u)
		}

		// ---- S-sub-bound per reader-building site; S-sub-forward per forward
		type negSite struct {
			fr    *c01SubFrame
			at    *ssa.BasicBlock
			what  string
			where token.Pos
		}
		var negSites []negSite
		var forwards []c01SubSite
		siteCall := map[ssa.Value]bool{}
		for _, s := range st.sites {
			if (s.kind == "section" || s.kind == "limit") && !s.flowsToReturn() {
				r.Note("S-sub-bound: %s: %s (line %d) builds a reader that no success return hands out; not a range sink", key, s.name(), st.line(s.c.Pos()))
				continue
			}
			if v := s.c.Value(); v != nil {
				siteCall[v] = true
			}
			res, forward := st.boundSite(s)
			if forward {
				forwards = append(forwards, s)
				continue
			}
			negSites = append(negSites, negSite{s.fr, s.c.Block(), s.name(), s.c.Pos()})
			ck := key + "#" + s.name()
			switch {
			case res.status == c01SubOK && res.table:
				r.OKTable(ruleB, ck, p.Pos(s.c.Pos()), res.detail)
			case res.status == c01SubOK:
				r.OK(ruleB, ck, p.Pos(s.c.Pos()), res.detail)
			case res.status == c01SubViolation:
				r.Violation(ruleB, ck, p.Pos(s.c.Pos()), res.detail)
			default:
				r.Undecided(ruleB, ck, p.Pos(s.c.Pos()), res.detail)
			}
		}
		// success returns that hand out a reader not built by any site
		for _, fr := range st.frames {
			rdIdx := -1
			res := fr.fn.Signature.Results()
			for i := 0; i < res.Len(); i++ {
				if c01SubIsReader(res.At(i).Type()) {
					rdIdx = i
					break
				}
			}
			if rdIdx < 0 {
				continue
			}
			childCall := map[ssa.Value]bool{}
			for _, cf := range st.frames {
				if cf.parent == fr {
					if v := cf.call.Value(); v != nil {
						childCall[v] = true
					}
				}
			}
			for _, rt := range c01SubSuccessReturns(fr.fn) {
				rv := rt.results[rdIdx]
				if IsNilConst(rv) {
					continue
				}
				if c01SubDepends(rv, func(v ssa.Value) bool { return siteCall[v] || childCall[v] }) {
					continue
				}
				ck := key + "#return in " + FuncKey(fr.fn)
				pos := p.Pos(rt.ret.Pos())
				negSites = append(negSites, negSite{fr, rt.ret.Block(), "return in " + FuncKey(fr.fn), rt.ret.Pos()})
				if neg, why := fr.negOnly(nil, rt.ret.Block()); neg {
					r.OKTable(ruleB, ck, pos, "whole-blob mode: this success return hands out the unlimited object only where `"+why+"` holds, i.e. with a negative offset/length, which S-sub-neg shows is rejected before")
				} else if fr.taintOf(rv)&(c01TOff|c01TLen) == 0 {
					r.Violation(ruleB, ck, pos, "a success return of the ranged fetch hands out a reader that depends on neither offset nor length and passes through no range limiter: the whole object is returned")
				} else {
					r.Undecided(ruleB, ck, pos, "a success return hands out a reader that depends on offset/length but is not built by io.NewSectionReader, io.LimitReader, a SubFetch call or a checked helper")
				}
			}
		}

		// ---- S-sub-forward
		fetchStores := map[string]bool{}
		if fetchFn != nil {
			for _, c := range CallsIn(fetchFn, false) {
				if (c.IsMethod("Fetch", fetchIface) || c.IsMethod("SubFetch", subIface)) && len(c.Args()) > 0 {
					if f := c01SubStoreField(fetchFn, c.Args()[0]); f != "" {
						fetchStores[f] = true
					}
				}
			}
		}
		for _, s := range forwards {
			fr := s.fr
			args := s.c.Args()
			ck := key + "#" + AccessPath(originValue(args[0])) + ".SubFetch"
			if f := c01SubStoreField(fr.fn, args[0]); f != "" {
				ck = key + "#" + f + ".SubFetch"
			}
			posL, nL := fr.lin(args[3], 0), fr.lin(args[4], 0)
			pos := p.Pos(s.c.Pos())
			exactOff := posL.String() == c01LOff
			exactLen := nL.String() == c01LLen
			switch {
			case fr.isRef(args[2]) && exactOff && exactLen:
				r.OK(ruleF, ck, pos, "ref, offset and length are passed on unchanged (the callee is an implementer of blob.SubFetcher and is checked itself)")
			case fr.isRef(args[2]) && exactOff:
				status, d := fr.prove(args[4], nil, s.c.Block(), false, 0)
				switch status {
				case c01SubOK:
					r.OK(ruleF, ck, pos, "ref and offset are passed on unchanged; length: "+d)
				case c01SubViolation:
					r.Violation(ruleF, ck, pos, "offset is passed on unchanged but the length argument is `"+nL.String()+"`: "+d)
				default:
					r.Undecided(ruleF, ck, pos, "offset is passed on unchanged but the length argument is `"+nL.String()+"`: "+d)
				}
			default:
				what := fmt.Sprintf("the forwarded range is (offset argument `%s`, length argument `%s`)", posL.String(), nL.String())
				if !fr.isRef(args[2]) {
					what += ", for a ref other than the one asked for, without re-basing offset into a container"
				}
				r.Violation(ruleF, ck, pos, what+": a forwarding SubFetch must pass ref, offset and length through unchanged")
			}
		}
		var used, foreign []string
		for _, s := range append(append([]c01SubSite(nil), st.sites...), st.fetches...) {
			if s.kind != "subfetch" && s.kind != "fetch" {
				continue
			}
			f := c01SubStoreField(s.fr.fn, s.c.Args()[0])
			switch {
			case f == "" || s.fr.parent != nil:
				foreign = append(foreign, "?"+s.name())
			case !fetchStores[f]:
				foreign = append(foreign, f)
				used = append(used, f)
			default:
				used = append(used, f)
			}
		}
		if len(used)+len(foreign) > 0 {
			sort.Strings(used)
			ck := key + "#stores"
			var fs []string
			for f := range fetchStores {
				fs = append(fs, f)
			}
			sort.Strings(fs)
			switch {
			case fetchFn == nil || len(fetchStores) == 0:
				r.Undecided(ruleF, ck, site, "the type's Fetch method reads from no store field the rule can name")
			case len(foreign) > 0 && strings.HasPrefix(foreign[0], "?"):
				r.Undecided(ruleF, ck, site, "SubFetch reads from a store that is not a field of the receiver: "+strings.Join(foreign, ", "))
			case len(foreign) > 0:
				r.Violation(ruleF, ck, site, fmt.Sprintf("SubFetch reads from %s, which Fetch never reads from (Fetch reads %s)", strings.Join(foreign, ", "), strings.Join(fs, ", ")))
			default:
				r.OKTable(ruleF, ck, site, fmt.Sprintf("every store SubFetch reads from (%s) is one Fetch reads from (%s); order and conditions of the selection are not compared", strings.Join(c01SubUniq(used), ", "), strings.Join(fs, ", ")))
			}
		}

		// ---- S-sub-neg: every reader-building site lies behind offset >= 0 and length >= 0
		var bad []string
		var guards []c01SubGuard
		for _, ns := range negSites {
			for _, leaf := range []string{c01LOff, c01LLen} {
				ok, gs := ns.fr.nonNeg(nil, ns.at, leaf, 0)
				if !ok {
					bad = append(bad, fmt.Sprintf("%s (line %d) can be reached with a negative %s", ns.what, st.line(ns.where), leaf))
					continue
				}
				guards = append(guards, gs...)
			}
		}
		wrongErr := ""
		for _, g := range guards {
			if !g.rejectsWithNegErr(root) {
				wrongErr = fmt.Sprintf("the rejecting edge of `%s` in %s does not lead to a return of blob.ErrNegativeSubFetch", g.sf.render(), FuncKey(g.sf.f.At.Parent()))
			}
		}
		switch {
		case len(negSites) == 0 && len(forwards) > 0:
			r.OKTable(ruleN, key, site, fmt.Sprintf("pure forwarder: offset and length are only handed to SubFetch of other implementers (%d calls), each of which is checked", len(forwards)))
		case len(negSites) == 0:
			r.Undecided(ruleN, key, site, "no reader-building site found in this implementer")
		case len(bad) > 0:
			r.Violation(ruleN, key, site, "negative offset/length is not rejected before the read: "+strings.Join(c01First(bad, 3), "; "))
		case wrongErr != "":
			r.Violation(ruleN, key, site, wrongErr)
		default:
			r.OK(ruleN, key, site, fmt.Sprintf("all %d reader-building sites (and whole-object returns) are dominated, in their own function, in a caller on the chain from SubFetch, or through the nil error of a helper, by offset >= 0 and length >= 0; every rejecting edge leads to a return of blob.ErrNegativeSubFetch", len(negSites)))
		}
	}
	r.Analysed("subfetch_implementers", impls)
	r.Floor(ruleB, 8) // 10 today: two reader-building sites merged into one (diskpacked.fetch's two modes) is a legal refactoring
	r.Floor(ruleN, 6) // 7 today
	r.Floor(ruleF, 4) // 5 today
}

func c01SubUniq(s []string) []string {
	var out []string
	for i, x := range s {
		if i == 0 || x != s[i-1] {
			out = append(out, x)
		}
	}
	return out
}

// c01SubCloud: implementers outside the C01 quantifier (s3, gcs, azure): the
// range is served by a remote API; only dependence is decided, and a failure is
// noted, not reported (the property does not quantify over these back ends).
func c01SubCloud(r *Reporter, st *c01SubState, key, site string) {
	const ruleB, ruleN = "S-sub-bound", "S-sub-neg"
	want := c01TOff | c01TLen | c01TRef
	if st.extTaint&want == want {
		r.OKTable(ruleB, key+"#range-request", site, fmt.Sprintf("outside the C01 quantifier (remote API): ref, offset and length all reach calls that leave the module (%d calls); dependence only, what the remote end returns is not decided", len(st.externals)))
	} else {
		r.Note("S-sub-bound: %s (outside the C01 quantifier, not enforced): offset, length and ref do not all reach a call that leaves the module", key)
	}
	var bad []string
	n := 0
	for _, s := range append(append([]c01SubSite(nil), st.externals...), st.sites...) {
		n++
		for _, leaf := range []string{c01LOff, c01LLen} {
			if ok, _ := s.fr.nonNeg(nil, s.c.Block(), leaf, 0); !ok {
				bad = append(bad, fmt.Sprintf("%s (line %d) can be reached with a negative %s", s.name(), st.line(s.c.Pos()), leaf))
			}
		}
	}
	if len(bad) == 0 && n > 0 {
		r.OK(ruleN, key, site, fmt.Sprintf("outside the C01 quantifier (remote API): all %d calls that receive offset/length are dominated by offset >= 0 and length >= 0", n))
	} else {
		r.Note("S-sub-neg: %s (outside the C01 quantifier, not enforced): %s", key, strings.Join(c01First(bad, 4), "; "))
	}
}

// ===========================================================================
// R-refs-intact / R-refs-cover: the ref list of a multi-ref operation
//
// RemoveBlobs(ctx, []blob.Ref) and StatBlobs(ctx, []blob.Ref, fn) receive a list
// that belongs to the caller. Wrappers hand the very same slice to several
// sub-stores, one after the other (overlay: upper.RemoveBlobs(blobs), then a
// tombstone for every element of blobs) or concurrently (proxycache: cache and
// origin; replica: every replica). A store that writes the backing array of the
// list it was given therefore changes which refs its caller, or a sibling store,
// operates on: a ref can be removed twice while another is never removed,
// although every call reports success.
//
// R-refs-intact follows every value that may share the backing array of the list
// parameter (re-slices, conversions, phis, variables and captured variables,
// append results that may have grown in place, results of helpers that return
// such a value) through the method, its function literals and every module
// function it hands such a value to (summarised per (function, parameter)), and
// requires that nothing can write through them.
//
// R-refs-cover requires, for the C01 back ends, that the whole list is looked at:
// loops over the list run over all of it and cannot step to the next element
// without having used the current one, no part of the list is singled out, and
// success is not reported before the list was handed on or walked.

const (
	c01RwExtend    = 1 // append onto a value that ends where the list ends: writes only beyond len(list)
	c01RwPermute   = 2 // reorders the elements in place
	c01RwOverwrite = 3 // may replace elements of the list
)

var c01RwNames = map[int]string{c01RwExtend: "writes behind the end of the list", c01RwPermute: "reorders the list in place", c01RwOverwrite: "overwrites elements of the list"}

type c01RefsKey struct {
	fn  *ssa.Function
	idx int // index into fn.Params
}

type c01RefsAttr struct {
	whole  bool // certainly the entire list (same start, same length)
	tail   bool // ends where the list ends (append onto it writes only beyond the list)
	capped bool // cap == len by a full slice expression: append onto it cannot grow in place
	narrow bool // may be a part of the list, or a list that went through append / a helper
	copy   bool // a fresh copy of the list made here (slices.Clone, append(nil, list...)): same refs, own array
}

type c01RefsEvent struct {
	kind int
	in   ssa.Instruction
	what string
}

type c01RefsFwd struct {
	c     CallSite
	whole bool
	copy  bool
	sub   *c01RefsSum // nil: interface RemoveBlobs/StatBlobs call (every implementer is an instance)
}

type c01RefsIndexing struct {
	ia *ssa.IndexAddr
	fn *ssa.Function
}

type c01RefsSum struct {
	key       c01RefsKey
	prm       *ssa.Parameter
	funcs     []*ssa.Function
	inFuncs   map[*ssa.Function]bool
	done      bool
	alias     map[ssa.Value]*c01RefsAttr
	cells     map[*ssa.Alloc]*c01RefsAttr
	mixed     map[*ssa.Alloc]bool // the variable also holds values that are not the list
	carriers  map[ssa.Value]bool  // variadic []any temporaries that hold the list
	events    []c01RefsEvent
	copyEvs   []c01RefsEvent // writes to a copy of the list made in this function (the caller's array is untouched)
	aliased   bool           // reached with the caller's own array (not only with copies)
	undecided []string
	retAlias  bool
	forwards  []c01RefsFwd
	indexings []c01RefsIndexing
	partUses  []string // uses of values that may be only a part of the list
	calls     int
	entry     string // method name when this is an interface entry point
}

type c01Refs struct {
	p       *Program
	memo    map[c01RefsKey]*c01RefsSum
	order   []*c01RefsSum
	statter *types.Interface
	remover *types.Interface
	cover   map[*c01RefsSum]*c01RefsCover
	loops   map[*ssa.Function][]*c01Loop
}

func c01RefsIsList(t types.Type) bool {
	sl, ok := t.Underlying().(*types.Slice)
	return ok && c01IsRef(sl.Elem())
}

func (a *c01Refs) line(pos token.Pos) int { return a.p.Fset.Position(pos).Line }

func (a *c01Refs) loopsOf(fn *ssa.Function) []*c01Loop {
	if l, ok := a.loops[fn]; ok {
		return l
	}
	l := c01NaturalLoops(fn)
	sort.SliceStable(l, func(i, j int) bool { return len(l[i].body) < len(l[j].body) })
	a.loops[fn] = l
	return l
}

// c01RefsExternal: what a function outside the module does to a slice argument.
// One line of reason per entry: these are documented semantics of the standard library.
func c01RefsExternal(pkg, name string) (kind int, retAlias, known bool) {
	switch pkg {
	case "fmt", "log":
		return 0, false, true // formatting reads its operands
	case "sort":
		switch name {
		case "Slice", "SliceStable", "Sort", "Stable":
			return c01RwPermute, false, true // sorts in place
		case "SliceIsSorted", "IsSorted", "Search":
			return 0, false, true // read only
		}
	case "slices":
		switch name {
		case "Sort", "SortFunc", "SortStableFunc", "Reverse":
			return c01RwPermute, false, true // in place
		case "Delete", "DeleteFunc", "Compact", "CompactFunc", "Insert", "Replace":
			return c01RwOverwrite, true, true // shift elements in place and return the shortened/grown slice
		case "Grow", "Clip":
			return 0, true, true // no element written; result shares the array
		case "Clone", "Concat", "Contains", "ContainsFunc", "Index", "IndexFunc", "Equal", "EqualFunc",
			"Compare", "CompareFunc", "BinarySearch", "BinarySearchFunc", "IsSorted", "IsSortedFunc",
			"Max", "MaxFunc", "Min", "MinFunc", "Values", "All", "Backward", "Sorted", "SortedFunc":
			return 0, false, true // read only; results are fresh
		}
	case "reflect":
		if name == "DeepEqual" {
			return 0, false, true
		}
	case "encoding/json":
		if name == "Marshal" || name == "MarshalIndent" {
			return 0, false, true
		}
	}
	return 0, false, false
}

func c01RefsExtName(f *ssa.Function) (pkg, name string) {
	if o := f.Origin(); o != nil {
		f = o
	}
	name = f.Name()
	if obj := f.Object(); obj != nil && obj.Pkg() != nil {
		return obj.Pkg().Path(), name
	}
	if f.Pkg != nil {
		return f.Pkg.Pkg.Path(), name
	}
	return "", name
}

func c01RefsBuiltin(c CallSite) string {
	if b, ok := c.Common().Value.(*ssa.Builtin); ok {
		return b.Name()
	}
	return ""
}

// isStoreCall: an interface call of RemoveBlobs/StatBlobs (the callee is some
// implementer of blobserver.BlobRemover / BlobStatter, all of which are instances).
func (a *c01Refs) isStoreCall(c CallSite) bool {
	cc := c.Common()
	if !cc.IsInvoke() {
		return false
	}
	switch cc.Method.Name() {
	case "RemoveBlobs":
		return types.Implements(cc.Value.Type(), a.remover)
	case "StatBlobs":
		return types.Implements(cc.Value.Type(), a.statter)
	}
	return false
}

func (a *c01Refs) moduleCallee(c CallSite) *ssa.Function {
	if c.Common().IsInvoke() {
		return nil
	}
	g := c.Callee()
	if g == nil || g.Blocks == nil {
		return nil
	}
	if g.Parent() != nil || InModule(g) {
		return g
	}
	if o := g.Origin(); o != nil && InModule(o) {
		return g
	}
	return nil
}

func (a *c01Refs) summarise(fn *ssa.Function, idx int) *c01RefsSum {
	key := c01RefsKey{fn, idx}
	if s, ok := a.memo[key]; ok {
		return s
	}
	s := &c01RefsSum{key: key, prm: fn.Params[idx], funcs: c01DeepFuncs(fn), inFuncs: map[*ssa.Function]bool{},
		alias: map[ssa.Value]*c01RefsAttr{}, cells: map[*ssa.Alloc]*c01RefsAttr{}, mixed: map[*ssa.Alloc]bool{}, carriers: map[ssa.Value]bool{}}
	for _, f := range s.funcs {
		s.inFuncs[f] = true
	}
	a.memo[key] = s
	a.propagate(s)
	a.collect(s)
	s.done = true
	a.order = append(a.order, s)
	return s
}

// merge joins attribute n into the attribute recorded for v: whole/tail/capped
// can only be lost, narrow can only be gained. Reports a change.
func c01RefsMerge(m *c01RefsAttr, n c01RefsAttr) (*c01RefsAttr, bool) {
	if m == nil {
		c := n
		return &c, true
	}
	o := *m
	m.whole = m.whole && n.whole
	m.tail = m.tail && n.tail
	m.capped = m.capped && n.capped
	m.copy = m.copy && n.copy
	m.narrow = m.narrow || n.narrow
	return m, o != *m
}

func (s *c01RefsSum) lenOfWhole(v ssa.Value) bool {
	call, ok := v.(*ssa.Call)
	if !ok {
		return false
	}
	b, ok := call.Call.Value.(*ssa.Builtin)
	if !ok || b.Name() != "len" || len(call.Call.Args) != 1 {
		return false
	}
	at := s.alias[call.Call.Args[0]]
	return at != nil && at.whole
}

func c01RefsIsZero(v ssa.Value) bool {
	if v == nil {
		return true
	}
	n, ok := ConstInt(v)
	return ok && n == 0
}

// transfer computes the attribute of value v from its operands (nil: not the list).
func (a *c01Refs) transfer(s *c01RefsSum, v ssa.Value, strict bool) *c01RefsAttr {
	switch x := v.(type) {
	case *ssa.Slice:
		ax := s.alias[x.X]
		if ax == nil {
			if s.carriers[x.X] {
				s.carriers[x] = true
			}
			return nil
		}
		lowZero := c01RefsIsZero(x.Low)
		highFull := x.High == nil || s.lenOfWhole(x.High)
		at := &c01RefsAttr{whole: ax.whole && lowZero && highFull, tail: (ax.tail && x.High == nil) || s.lenOfWhole(x.High), narrow: ax.narrow || !(lowZero && highFull), copy: ax.copy}
		if x.Max != nil && x.High != nil {
			mh, ok1 := ConstInt(x.Max)
			hh, ok2 := ConstInt(x.High)
			at.capped = x.Max == x.High || (ok1 && ok2 && mh == hh)
		}
		return at
	case *ssa.Phi:
		var at *c01RefsAttr
		other := false
		for _, e := range x.Edges {
			if ae := s.alias[e]; ae != nil {
				at, _ = c01RefsMerge(at, *ae)
			} else if e != ssa.Value(x) {
				other = true
			}
		}
		if at != nil && other && strict {
			at.whole = false
		}
		return at
	case *ssa.ChangeType:
		return c01RefsCopy(s.alias[x.X])
	case *ssa.Convert:
		return c01RefsCopy(s.alias[x.X])
	case *ssa.MakeInterface:
		return c01RefsCopy(s.alias[x.X])
	case *ssa.ChangeInterface:
		return c01RefsCopy(s.alias[x.X])
	case *ssa.TypeAssert:
		return c01RefsCopy(s.alias[x.X])
	case *ssa.Extract:
		if at := s.alias[x.Tuple]; at != nil {
			if _, isSlice := x.Type().Underlying().(*types.Slice); isSlice || types.IsInterface(x.Type()) {
				return c01RefsCopy(at)
			}
		}
		return nil
	case *ssa.UnOp:
		if x.Op != token.MUL {
			return nil
		}
		cell, ok := varOf(x.X)
		if !ok {
			return nil
		}
		al, ok := cell.(*ssa.Alloc)
		if !ok || s.cells[al] == nil {
			return nil
		}
		if r := resolveLoad(x); r != nil {
			return c01RefsCopy(s.alias[r])
		}
		at := c01RefsCopy(s.cells[al])
		if s.mixed[al] {
			at.whole = false
		}
		return at
	case *ssa.Call:
		c := CallSite{x.Parent(), x}
		args := c.Args()
		if name := c01RefsBuiltin(c); name != "" {
			if name == "append" && len(args) > 0 {
				if a0 := s.alias[args[0]]; a0 != nil && !a0.capped {
					return &c01RefsAttr{tail: a0.tail, narrow: true, copy: a0.copy}
				}
				if len(args) == 2 && s.alias[args[0]] == nil && c01RefsEmptyFresh(args[0]) {
					if a1 := s.alias[args[1]]; a1 != nil && a1.whole {
						return &c01RefsAttr{whole: true, tail: true, copy: true} // append([]T(nil), list...)
					}
				}
			}
			return nil
		}
		any, allCopy := false, true
		for j, arg := range args {
			if s.alias[arg] == nil {
				continue
			}
			allCopy = allCopy && s.alias[arg].copy
			if g := a.moduleCallee(c); g != nil {
				if j < len(g.Params) {
					if sub := a.summarise(g, j); sub.retAlias {
						any = true
					}
				}
			} else if g := c.Callee(); g != nil && !c.Common().IsInvoke() {
				pkg, name := c01RefsExtName(g)
				if _, ret, known := c01RefsExternal(pkg, name); known && ret {
					any = true
				}
				if pkg == "slices" && name == "Clone" && s.alias[arg].whole {
					return &c01RefsAttr{whole: true, tail: true, copy: true}
				}
			}
		}
		if any {
			return &c01RefsAttr{narrow: true, copy: allCopy}
		}
	}
	return nil
}

// c01RefsEmptyFresh: nil, or make([]T, 0, n).
func c01RefsEmptyFresh(v ssa.Value) bool {
	if IsNilConst(v) {
		return true
	}
	if ms, ok := v.(*ssa.MakeSlice); ok {
		n, isC := ConstInt(ms.Len)
		return isC && n == 0
	}
	return false
}

func c01RefsCopy(at *c01RefsAttr) *c01RefsAttr {
	if at == nil {
		return nil
	}
	c := *at
	return &c
}

// propagate computes the set of values that may share the backing array of the list.
func (a *c01Refs) propagate(s *c01RefsSum) {
	s.alias[s.prm] = &c01RefsAttr{whole: true, tail: true}
	pass := func(strict bool) bool {
		changed := false
		set := func(v ssa.Value, at *c01RefsAttr) {
			if at == nil {
				return
			}
			m, ch := c01RefsMerge(s.alias[v], *at)
			s.alias[v] = m
			changed = changed || ch
		}
		for _, f := range s.funcs {
			for _, fv := range f.FreeVars {
				if b := bindingOf(fv); b != nil {
					set(fv, c01RefsCopy(s.alias[b]))
				}
			}
			for _, blk := range f.Blocks {
				for _, in := range blk.Instrs {
					if st, ok := in.(*ssa.Store); ok {
						at := s.alias[st.Val]
						if at == nil {
							if s.carriers[st.Val] {
								// a variadic temporary stored into a variable: not followed further
							}
							continue
						}
						if cell, ok := varOf(st.Addr); ok {
							if al, ok := cell.(*ssa.Alloc); ok && plainVariable(al) {
								m, ch := c01RefsMerge(s.cells[al], *at)
								s.cells[al] = m
								changed = changed || ch
								if strict && !s.mixed[al] {
									for _, o := range storesTo(al) {
										if s.alias[o.Val] == nil {
											s.mixed[al] = true
											changed = true
										}
									}
								}
								continue
							}
						}
						if ia, ok := st.Addr.(*ssa.IndexAddr); ok {
							if arr, ok := ia.X.(*ssa.Alloc); ok && !s.carriers[arr] {
								if _, isArr := arr.Type().Underlying().(*types.Pointer).Elem().Underlying().(*types.Array); isArr {
									s.carriers[arr] = true
									changed = true
								}
							}
						}
						continue
					}
					if v, ok := in.(ssa.Value); ok {
						set(v, a.transfer(s, v, strict))
					}
				}
			}
		}
		return changed
	}
	for i := 0; i < 64 && pass(false); i++ {
	}
	for i := 0; i < 64 && pass(true); i++ {
	}
}

// event records a write; writes to a copy made in this function do not touch the caller's array.
func (s *c01RefsSum) event(target ssa.Value, e c01RefsEvent) {
	if at := s.alias[target]; at != nil && at.copy {
		s.copyEvs = append(s.copyEvs, e)
		return
	}
	s.events = append(s.events, e)
}

func (s *c01RefsSum) copyOverwritten() bool {
	for _, e := range s.copyEvs {
		if e.kind == c01RwOverwrite {
			return true
		}
	}
	return false
}

func (s *c01RefsSum) und(format string, args ...any) {
	s.undecided = append(s.undecided, fmt.Sprintf(format, args...))
}

// collect classifies every use of a value that may be the list.
func (a *c01Refs) collect(s *c01RefsSum) {
	partUse := func(v ssa.Value, what string, in ssa.Instruction) {
		if at := s.alias[v]; at != nil && at.narrow && !at.copy {
			s.partUses = append(s.partUses, fmt.Sprintf("%s at line %d", what, a.line(in.Pos())))
		}
	}
	for _, f := range s.funcs {
		for _, blk := range f.Blocks {
			for _, in := range blk.Instrs {
				switch x := in.(type) {
				case *ssa.DebugRef:
					continue
				case *ssa.IndexAddr:
					if s.alias[x.X] != nil {
						a.indexing(s, x, x, f)
						partUse(x.X, "an element of a part of the list is accessed", x)
					}
				case *ssa.Store:
					if s.alias[x.Val] == nil {
						continue
					}
					if cell, ok := varOf(x.Addr); ok {
						if al, ok := cell.(*ssa.Alloc); ok && s.cells[al] != nil {
							continue
						}
					}
					if ia, ok := x.Addr.(*ssa.IndexAddr); ok && s.carriers[ia.X] {
						continue
					}
					s.und("the list is stored into %s at line %d (a field, global, element or variable whose address is taken): later writes through it are not followed", x.Addr.Name(), a.line(x.Pos()))
				case ssa.CallInstruction:
					a.callEvent(s, CallSite{f, x})
				case *ssa.Return:
					for _, rv := range x.Results {
						if s.alias[rv] == nil || s.alias[rv].copy {
							continue // a copy made here is a fresh array: nothing of the caller's is handed back
						}
						if f == s.key.fn {
							s.retAlias = true
						} else {
							s.und("function literal %s returns the list to a caller that is not followed", FuncKey(f))
						}
						if at := s.alias[rv]; at != nil && at.narrow && !at.copy {
							s.partUses = append(s.partUses, "a part of the list (or a list filtered in place) is returned")
						}
					}
				case *ssa.Send:
					if s.alias[x.X] != nil {
						s.und("the list is sent over a channel at line %d", a.line(x.Pos()))
					}
				case *ssa.MapUpdate:
					if s.alias[x.Value] != nil || s.alias[x.Key] != nil {
						s.und("the list is stored into a map at line %d", a.line(x.Pos()))
					}
				case *ssa.Slice, *ssa.Phi, *ssa.ChangeType, *ssa.Convert, *ssa.MakeInterface, *ssa.ChangeInterface,
					*ssa.TypeAssert, *ssa.Extract, *ssa.UnOp, *ssa.BinOp, *ssa.MakeClosure, *ssa.If:
					// derivations (followed by propagate), loads, nil comparisons
				default:
					for _, op := range in.Operands(nil) {
						if *op != nil && s.alias[*op] != nil {
							s.und("use of the list by an instruction that is not modelled (%T at line %d)", in, a.line(in.Pos()))
						}
					}
				}
			}
		}
	}
}

// indexing classifies what is done with the address of an element of the list.
func (a *c01Refs) indexing(s *c01RefsSum, ia *ssa.IndexAddr, addr ssa.Value, f *ssa.Function) {
	if addr == ssa.Value(ia) {
		s.indexings = append(s.indexings, c01RefsIndexing{ia, f})
	}
	refs := addr.Referrers()
	if refs == nil {
		return
	}
	for _, ref := range *refs {
		switch x := ref.(type) {
		case *ssa.DebugRef:
		case *ssa.UnOp:
			if x.Op != token.MUL {
				s.und("address of a list element used by %s at line %d", x.Op, a.line(x.Pos()))
			}
		case *ssa.Store:
			if x.Addr == addr {
				s.event(ia.X, c01RefsEvent{c01RwOverwrite, x, fmt.Sprintf("assignment to an element of the list at line %d", a.line(x.Pos()))})
			} else {
				s.und("address of a list element is stored at line %d", a.line(x.Pos()))
			}
		case *ssa.FieldAddr:
			a.indexing(s, ia, x, f)
		default:
			s.und("address of a list element escapes (%T at line %d): writes through it are not followed", ref, a.line(ref.Pos()))
		}
	}
}

// funcParamTargets resolves a call of a function-typed parameter (batchedShards'
// fn) to the literals or functions every static caller passes for it.
func (a *c01Refs) funcParamTargets(c CallSite) ([]*ssa.Function, string) {
	prm, ok := originValue(c.Common().Value).(*ssa.Parameter)
	if !ok {
		return nil, "not a parameter of the enclosing function"
	}
	f := prm.Parent()
	idx := -1
	for i, q := range f.Params {
		if q == prm {
			idx = i
		}
	}
	callers := a.p.StaticCallers(f)
	if idx < 0 || len(callers) == 0 || f.Parent() != nil {
		return nil, "no static caller of " + FuncKey(f) + " found"
	}
	if len(a.p.FuncValueUses(f)) > 0 {
		return nil, FuncKey(f) + " is also used as a function value"
	}
	var out []*ssa.Function
	for _, cs := range callers {
		args := cs.Args()
		if idx >= len(args) {
			return nil, "caller passes it variadically"
		}
		switch v := originValue(args[idx]).(type) {
		case *ssa.MakeClosure:
			out = append(out, v.Fn.(*ssa.Function))
		case *ssa.Function:
			if v.Blocks == nil {
				return nil, "a caller passes a function without source"
			}
			out = append(out, v)
		default:
			return nil, "a caller of " + FuncKey(f) + " passes a function that cannot be named statically"
		}
	}
	return out, ""
}

func (a *c01Refs) callEvent(s *c01RefsSum, c CallSite) {
	args := c.Args()
	var idxs []int
	carrier := false
	for j, arg := range args {
		if s.alias[arg] != nil {
			idxs = append(idxs, j)
		} else if s.carriers[arg] {
			carrier = true
		}
	}
	if len(idxs) == 0 && !carrier {
		return
	}
	s.calls++
	ln := a.line(c.Pos())
	partUse := func(j int, what string) {
		if at := s.alias[args[j]]; at != nil && at.narrow && !at.copy {
			s.partUses = append(s.partUses, fmt.Sprintf("a part of the list (or a list filtered in place) is %s at line %d", what, ln))
		}
	}
	if name := c01RefsBuiltin(c); name != "" {
		switch name {
		case "len", "cap", "print", "println":
		case "append":
			if at := s.alias[args[0]]; at != nil && !at.capped {
				kind, how := c01RwOverwrite, "append onto a re-slice of the list, which grows in place over the following elements"
				if at.tail {
					kind, how = c01RwExtend, "append onto the list itself (in place when the caller's slice has spare capacity)"
				}
				s.event(args[0], c01RefsEvent{kind, c.Instr, fmt.Sprintf("%s, at line %d", how, ln)})
			}
			if len(args) > 1 && s.alias[args[1]] != nil {
				partUse(1, "appended to another list")
			}
		case "copy":
			if s.alias[args[0]] != nil {
				s.event(args[0], c01RefsEvent{c01RwOverwrite, c.Instr, fmt.Sprintf("copy into the list at line %d", ln)})
			}
			if len(args) > 1 && s.alias[args[1]] != nil {
				partUse(1, "copied")
			}
		case "clear":
			if len(idxs) > 0 {
				s.event(args[idxs[0]], c01RefsEvent{c01RwOverwrite, c.Instr, fmt.Sprintf("clear of the list at line %d", ln)})
			}
		default:
			s.und("the list is passed to builtin %s at line %d", name, ln)
		}
		return
	}
	if a.isStoreCall(c) {
		for _, j := range idxs {
			at := s.alias[args[j]]
			s.forwards = append(s.forwards, c01RefsFwd{c, at.whole, at.copy, nil})
			partUse(j, "handed to "+c.CalleeKey())
		}
		if carrier {
			s.und("the list is passed to %s inside a variadic argument at line %d", c.CalleeKey(), ln)
		}
		return
	}
	if c.Common().IsInvoke() {
		s.und("the list is passed to interface method %s at line %d, whose implementations are not in the instance set", c.CalleeKey(), ln)
		return
	}
	handOver := func(g *ssa.Function) {
		if carrier {
			s.und("the list is passed to %s inside a variadic argument at line %d", FuncKey(g), ln)
		}
		for _, j := range idxs {
			if j >= len(g.Params) {
				s.und("the list is passed to %s as a variadic argument at line %d", FuncKey(g), ln)
				continue
			}
			sub := a.summarise(g, j)
			if !sub.done {
				continue // recursion: the callee's effects are those of the cycle, collected where it is entered
			}
			at := s.alias[args[j]]
			s.forwards = append(s.forwards, c01RefsFwd{c, at.whole, at.copy, sub})
			partUse(j, "handed to "+FuncKey(g))
			kind, what := 0, ""
			for _, e := range sub.events {
				if e.kind > kind {
					kind, what = e.kind, e.what
				}
			}
			if kind > 0 {
				if kind == c01RwExtend && !at.tail {
					kind = c01RwOverwrite
				}
				s.event(args[j], c01RefsEvent{kind, c.Instr, fmt.Sprintf("call of %s at line %d, which may write the array of its parameter %s (%s)", FuncKey(g), ln, sub.prm.Name(), what)})
			}
			for _, u := range sub.undecided {
				s.und("in %s: %s", FuncKey(g), u)
			}
		}
	}
	if g := a.moduleCallee(c); g != nil {
		handOver(g)
		return
	}
	g := c.Callee()
	if g == nil {
		lits, why := a.funcParamTargets(c)
		if why != "" {
			s.und("the list is passed to a function value at line %d (%s): what the callee does with it is not known", ln, why)
			return
		}
		for _, l := range lits {
			handOver(l)
		}
		return
	}
	pkg, name := c01RefsExtName(g)
	kind, _, known := c01RefsExternal(pkg, name)
	if !known {
		s.und("the list is passed to %s.%s at line %d, which is not known to leave it unwritten", pkg, name, ln)
		return
	}
	if kind > 0 && len(idxs) > 0 {
		s.event(args[idxs[0]], c01RefsEvent{kind, c.Instr, fmt.Sprintf("%s.%s on the list at line %d", pkg, name, ln)})
	}
}

// useOfWhole: instruction in reads the list as the caller passed it (a value that
// is certainly the entire list), other than to take its length.
func (a *c01Refs) useOfWhole(s *c01RefsSum, in ssa.Instruction, depth int) string {
	isWhole := func(v ssa.Value) bool { at := s.alias[v]; return at != nil && at.whole && !at.copy }
	switch x := in.(type) {
	case *ssa.IndexAddr:
		if isWhole(x.X) {
			return fmt.Sprintf("its elements are read at line %d", a.line(x.Pos()))
		}
	case *ssa.Return:
		for _, rv := range x.Results {
			if isWhole(rv) {
				return "it is returned"
			}
		}
	case ssa.CallInstruction:
		c := CallSite{in.Parent(), x}
		if n := c01RefsBuiltin(c); n == "len" || n == "cap" {
			return ""
		}
		for _, arg := range c.Args() {
			if isWhole(arg) {
				return fmt.Sprintf("it is handed to %s at line %d", c.CalleeKey(), a.line(c.Pos()))
			}
		}
	case *ssa.MakeClosure:
		if g, ok := x.Fn.(*ssa.Function); ok && depth < 4 {
			for _, h := range c01DeepFuncs(g) {
				for _, blk := range h.Blocks {
					for _, in2 := range blk.Instrs {
						if _, isMC := in2.(*ssa.MakeClosure); isMC {
							continue
						}
						if d := a.useOfWhole(s, in2, depth+1); d != "" {
							return d + " (in " + FuncKey(h) + ")"
						}
					}
				}
			}
		}
	}
	return ""
}

// laterUse: after the write e, going forward (not round a loop), the function
// itself still uses the list as it was passed in.
func (a *c01Refs) laterUse(s *c01RefsSum, e c01RefsEvent) string {
	blk := e.in.Block()
	if blk == nil {
		return ""
	}
	after := false
	for _, in := range blk.Instrs {
		if in == e.in {
			after = true
			continue
		}
		if after {
			if d := a.useOfWhole(s, in, 0); d != "" {
				return d
			}
		}
	}
	reach := map[*ssa.BasicBlock]bool{}
	var order []*ssa.BasicBlock
	var walk func(b *ssa.BasicBlock)
	walk = func(b *ssa.BasicBlock) {
		for _, sc := range b.Succs {
			if sc.Dominates(b) || reach[sc] {
				continue
			}
			reach[sc] = true
			order = append(order, sc)
			walk(sc)
		}
	}
	walk(blk)
	sort.Slice(order, func(i, j int) bool { return order[i].Index < order[j].Index })
	for _, b := range order {
		for _, in := range b.Instrs {
			if d := a.useOfWhole(s, in, 0); d != "" {
				return d
			}
		}
	}
	return ""
}

// ---------------------------------------------------------------------------
// Who relies on the list staying intact (computed, not assumed)

type c01RefsWitnesses struct {
	concurrent map[string][]string // method name -> callers that run several store calls on one list at once
	reuse      map[string][]string // method name -> callers that read the list again after the call
	prefix     map[string][]string // method name -> callers that pass a prefix x[:n] of a longer list
}

func (a *c01Refs) witnesses() *c01RefsWitnesses {
	w := &c01RefsWitnesses{map[string][]string{}, map[string][]string{}, map[string][]string{}}
	usesIn := func(g *ssa.Function, v ssa.Value) bool {
		for _, blk := range g.Blocks {
			for _, in := range blk.Instrs {
				if _, dbg := in.(*ssa.DebugRef); dbg {
					continue
				}
				for _, op := range in.Operands(nil) {
					if *op != nil && (*op == v || originValue(*op) == v) {
						if ci, ok := in.(ssa.CallInstruction); ok {
							if n := c01RefsBuiltin(CallSite{g, ci}); n == "len" || n == "cap" {
								continue
							}
						}
						return true
					}
				}
			}
		}
		return false
	}
	for _, f := range a.p.AllFuncs {
		top := TopFunc(f)
		if top.Pkg == nil || IsTestSupportPkg(RelPkg(top.Pkg.Pkg)) {
			continue
		}
		for _, c := range CallsIn(f, false) {
			if !a.isStoreCall(c) {
				continue
			}
			var list ssa.Value
			for _, arg := range c.Args()[1:] {
				if c01RefsIsList(arg.Type()) {
					list = arg
					break
				}
			}
			if list == nil {
				continue
			}
			m := c.Common().Method.Name()
			v := originValue(list)
			if sl, ok := v.(*ssa.Slice); ok && sl.High != nil && sl.Max == nil {
				w.prefix[m] = append(w.prefix[m], FuncKey(f)+" (passes a prefix of a longer list)")
			}
			// read again after the call, in the same function
			after := false
			seen := map[*ssa.BasicBlock]bool{}
			var walk func(b *ssa.BasicBlock, from int)
			walk = func(b *ssa.BasicBlock, from int) {
				for _, in := range b.Instrs[from:] {
					if in == c.Instr.(ssa.Instruction) {
						continue
					}
					if _, dbg := in.(*ssa.DebugRef); dbg {
						continue
					}
					if ci, ok := in.(ssa.CallInstruction); ok {
						if n := c01RefsBuiltin(CallSite{f, ci}); n == "len" || n == "cap" {
							continue
						}
					}
					for _, op := range in.Operands(nil) {
						if *op != nil && (*op == v || originValue(*op) == v) {
							after = true
						}
					}
				}
				for _, sc := range b.Succs {
					if !seen[sc] {
						seen[sc] = true
						walk(sc, 0)
					}
				}
			}
			walk(c.Block(), instrIndex(c.Instr.(ssa.Instruction))+1)
			if after {
				w.reuse[m] = append(w.reuse[m], FuncKey(f)+" (reads the list again after the call)")
			}
			// several store calls on one list at the same time
			if par := f.Parent(); par != nil {
				isAncestor := func(g *ssa.Function) bool {
					for x := f.Parent(); x != nil; x = x.Parent() {
						if x == g {
							return true
						}
					}
					return false
				}
				if pv, ok := v.(interface{ Parent() *ssa.Function }); ok && isAncestor(pv.Parent()) {
					spawns, inLoopSpawn := 0, false
					for _, cs := range CallsIn(par, false) {
						if !(cs.IsGo() || isSpawner(cs)) {
							continue
						}
						lits := FuncArgClosures(cs)
						if l := ClosureOf(cs); l != nil {
							lits = append(lits, l)
						}
						for _, l := range lits {
							if l == f {
								if inLoop(cs.Block()) {
									inLoopSpawn = true
								}
								spawns++
							} else if usesIn(l, v) {
								spawns++
							}
						}
					}
					if inLoopSpawn {
						w.concurrent[m] = append(w.concurrent[m], FuncKey(par)+" (starts one goroutine per sub-store, all on the same list)")
					} else if spawns >= 2 {
						w.concurrent[m] = append(w.concurrent[m], FuncKey(par)+" (runs its sub-stores concurrently on the same list)")
					}
				}
			}
		}
	}
	for _, mm := range []map[string][]string{w.concurrent, w.reuse, w.prefix} {
		for k, v := range mm {
			sort.Strings(v)
			mm[k] = c01SubUniq(v)
		}
	}
	return w
}

// ---------------------------------------------------------------------------
// R-refs-cover

type c01RefsCover struct {
	done      bool
	bad       []string
	undecided []string
	loops     int
	forwards  int
	anchors   int
	returns   int
}

func (cv *c01RefsCover) ok() bool { return len(cv.bad) == 0 && len(cv.undecided) == 0 }

// listLoop recognises `for i/_, x := range list` / `for i := 0; i < len(list); i++`
// around an indexing of the list: the loop that visits index 0, 1, ... len-1.
func (a *c01Refs) listLoop(s *c01RefsSum, ix c01RefsIndexing) (*c01Loop, string) {
	ia := ix.ia
	if _, isConst := ia.Index.(*ssa.Const); isConst {
		return nil, ""
	}
	at := s.alias[ia.X]
	if at == nil || !at.whole || at.copy && s.copyOverwritten() {
		return nil, "" // a part of the list: reported as such; a copy that was edited does not stand for the list
	}
	for _, l := range a.loopsOf(ix.fn) {
		if !l.body[ia.Block()] || len(l.head.Instrs) == 0 {
			continue
		}
		ifi, ok := l.head.Instrs[len(l.head.Instrs)-1].(*ssa.If)
		if !ok || len(l.head.Succs) != 2 || !l.body[l.head.Succs[0]] || l.body[l.head.Succs[1]] {
			continue
		}
		cmp, ok := ifi.Cond.(*ssa.BinOp)
		if !ok || cmp.Op != token.LSS || cmp.X != ia.Index || !s.lenOfWhole(cmp.Y) {
			continue
		}
		isStep := func(v ssa.Value, of ssa.Value) bool {
			bo, ok := v.(*ssa.BinOp)
			if !ok || bo.Op != token.ADD || bo.X != of {
				return false
			}
			n, ok := ConstInt(bo.Y)
			return ok && n == 1
		}
		check := func(ph *ssa.Phi, start int64, next func(ssa.Value) bool) bool {
			if ph.Block() != l.head {
				return false
			}
			for i, e := range ph.Edges {
				if l.body[l.head.Preds[i]] {
					if !next(e) {
						return false
					}
				} else if n, ok := ConstInt(e); !ok || n != start {
					return false
				}
			}
			return true
		}
		switch idx := ia.Index.(type) {
		case *ssa.BinOp: // range form: i = phi(-1, i) + 1
			if ph, ok := idx.X.(*ssa.Phi); ok && isStep(idx, ph) && check(ph, -1, func(e ssa.Value) bool { return e == ssa.Value(idx) }) {
				return l, ""
			}
		case *ssa.Phi: // three-clause form: i = phi(0, i+1)
			if check(idx, 0, func(e ssa.Value) bool { return isStep(e, idx) }) {
				return l, ""
			}
		}
	}
	if c01InnermostLoop(a.loopsOf(ix.fn), ia.Block()) == nil {
		return nil, "" // a single access (a comparator, a peek at one element), not a walk over the list
	}
	return nil, fmt.Sprintf("the list is indexed inside a loop, at line %d, by something that is not the counter of a loop from 0 to len(list)-1", a.line(ia.Pos()))
}

// elemUses: blocks of fn in which the element loaded from the given indexings is
// used (passed to a call, captured by a literal, used as a map key, stored, sent),
// and blocks that branch on a value computed from it.
func c01RefsElemUses(fn *ssa.Function, ias []*ssa.IndexAddr) (uses, branches map[*ssa.BasicBlock]bool) {
	uses, branches = map[*ssa.BasicBlock]bool{}, map[*ssa.BasicBlock]bool{}
	taint := map[ssa.Value]bool{}
	var work []ssa.Value
	add := func(v ssa.Value) {
		if v != nil && !taint[v] {
			taint[v] = true
			work = append(work, v)
		}
	}
	for _, ia := range ias {
		add(ia)
	}
	for len(work) > 0 {
		v := work[len(work)-1]
		work = work[:len(work)-1]
		refs := v.Referrers()
		if refs == nil {
			continue
		}
		for _, ref := range *refs {
			if ref.Parent() != fn {
				continue
			}
			switch x := ref.(type) {
			case *ssa.DebugRef:
			case ssa.CallInstruction:
				if n := c01RefsBuiltin(CallSite{fn, x}); n == "len" || n == "cap" {
					continue
				}
				uses[x.Block()] = true
				if val, ok := x.(ssa.Value); ok {
					add(val)
				}
			case *ssa.Store:
				if x.Val != v {
					continue // the element's own address being written is not a use
				}
				if al, ok := x.Addr.(*ssa.Alloc); ok {
					add(al) // a local variable: its loads and captures carry the element
				} else {
					uses[x.Block()] = true
				}
			case *ssa.MakeClosure:
				uses[x.Block()] = true
				add(x)
			case *ssa.MapUpdate, *ssa.Send, *ssa.Lookup, *ssa.Return, *ssa.Panic:
				uses[ref.Block()] = true
				if val, ok := ref.(ssa.Value); ok {
					add(val)
				}
			case *ssa.If:
				branches[x.Block()] = true
			default:
				if val, ok := ref.(ssa.Value); ok {
					add(val)
				}
			}
		}
	}
	return uses, branches
}

func c01RefsIterPath(l *c01Loop, avoid ...map[*ssa.BasicBlock]bool) bool {
	blocked := func(b *ssa.BasicBlock) bool {
		for _, m := range avoid {
			if m[b] {
				return true
			}
		}
		return false
	}
	start := l.head.Succs[0]
	if blocked(start) {
		return false
	}
	seen := map[*ssa.BasicBlock]bool{start: true}
	stack := []*ssa.BasicBlock{start}
	for len(stack) > 0 {
		b := stack[len(stack)-1]
		stack = stack[:len(stack)-1]
		for _, sc := range b.Succs {
			if sc == l.head {
				return true
			}
			if !l.body[sc] || seen[sc] || blocked(sc) {
				continue
			}
			seen[sc] = true
			stack = append(stack, sc)
		}
	}
	return false
}

// lenZeroOn: the edge is taken only when len(list) == 0.
func (s *c01RefsSum) lenZeroOn(from, to *ssa.BasicBlock) bool {
	for _, f := range c01EdgeFacts(from, to) {
		op, x, y, trueIdx, ok := c01CondCmp(f.Cond)
		if !ok {
			continue
		}
		val := f.Val
		if trueIdx == 1 {
			val = !val
		}
		if !s.lenOfWhole(x) {
			if !s.lenOfWhole(y) {
				continue
			}
			x, y, op = y, x, c01Flip(op)
		}
		n, isC := ConstInt(y)
		if !isC {
			continue
		}
		if !val {
			op = c01SubNegate(op)
		}
		switch {
		case op == token.EQL && n == 0, op == token.LSS && n == 1, op == token.LEQ && n == 0:
			return true
		}
	}
	return false
}

// coverOf decides R-refs-cover for one (function, list parameter).
func (a *c01Refs) coverOf(s *c01RefsSum) *c01RefsCover {
	if cv, ok := a.cover[s]; ok {
		return cv
	}
	cv := &c01RefsCover{}
	a.cover[s] = cv
	for _, u := range c01SubUniq(s.partUses) {
		if !s.aliased {
			break // only ever handed copies: filtering such a copy in place is filtering into a fresh list
		}
		cv.undecided = append(cv.undecided, u+": whether the rest of the list is handled elsewhere is not decided")
	}
	// loops over the list
	type loopInfo struct {
		l   *c01Loop
		fn  *ssa.Function
		ias []*ssa.IndexAddr
	}
	var loops []*loopInfo
	byLoop := map[*c01Loop]*loopInfo{}
	for _, ix := range s.indexings {
		l, why := a.listLoop(s, ix)
		if why != "" {
			cv.undecided = append(cv.undecided, why)
		}
		if l == nil {
			continue
		}
		li := byLoop[l]
		if li == nil {
			li = &loopInfo{l: l, fn: ix.fn}
			byLoop[l] = li
			loops = append(loops, li)
		}
		li.ias = append(li.ias, ix.ia)
	}
	anchors := map[*ssa.Function][]ssa.Instruction{}
	for _, li := range loops {
		cv.loops++
		uses, branches := c01RefsElemUses(li.fn, li.ias)
		ln := a.line(li.ias[0].Pos())
		if c01RefsIterPath(li.l, uses) {
			if c01RefsIterPath(li.l, uses, branches) {
				cv.bad = append(cv.bad, fmt.Sprintf("the loop over the list (element read at line %d) can go on to the next element without having used the current one, under a condition that does not depend on the element: that ref is neither handed on nor looked up", ln))
			} else {
				cv.undecided = append(cv.undecided, fmt.Sprintf("the loop over the list (element read at line %d) skips elements under a condition on the element that involves no call or lookup: whether the skipped refs need no handling is not decided", ln))
			}
		}
		anchors[li.fn] = append(anchors[li.fn], li.l.head.Instrs[0])
		// success reported from inside the loop
		for _, nr := range c01MaybeNilReturns(li.fn) {
			at := nr.to
			if nr.from != nil {
				at = nr.from
			}
			if entry := li.l.head.Succs[0]; entry == at || entry.Dominates(at) {
				cv.undecided = append(cv.undecided, fmt.Sprintf("%s lies inside the loop over the list and may report success before the remaining refs were visited", c01EdgeName(a.p, nr)))
			}
		}
	}
	// hand-overs of the whole list
	for _, fw := range s.forwards {
		if !fw.whole || fw.copy && s.copyOverwritten() {
			continue
		}
		if fw.sub != nil {
			if sc := a.coverOf(fw.sub); sc.done && !sc.ok() {
				continue // reported at the helper
			}
		}
		cv.forwards++
		anchors[fw.c.Fn] = append(anchors[fw.c.Fn], fw.c.Instr.(ssa.Instruction))
	}
	// a literal all of whose returns lie behind such a point counts where it is run
	var leaks func(g *ssa.Function) []string
	covered := map[*ssa.Function]bool{}
	var litCovered func(g *ssa.Function) bool
	litCovered = func(g *ssa.Function) bool {
		if v, ok := covered[g]; ok {
			return v
		}
		covered[g] = false
		for _, h := range g.AnonFuncs {
			if litCovered(h) {
				for _, cs := range CallsIn(g, false) {
					runs := ClosureOf(cs) == h
					for _, l := range FuncArgClosures(cs) {
						runs = runs || l == h
					}
					if runs {
						anchors[g] = append(anchors[g], cs.Instr.(ssa.Instruction))
					}
				}
			}
		}
		res := len(anchors[g]) > 0 && len(leaks(g)) == 0
		covered[g] = res
		return res
	}
	leaks = func(g *ssa.Function) []string {
		stop := map[*ssa.BasicBlock]bool{}
		for _, in := range anchors[g] {
			b := in.Block()
			for _, l := range a.loopsOf(g) { // sorted small to large: the last match is the outermost
				if l.body[b] {
					stop[l.head] = true
				}
			}
			stop[b] = true
		}
		reach := map[*ssa.BasicBlock]bool{}
		if len(g.Blocks) > 0 && !stop[g.Blocks[0]] {
			reach[g.Blocks[0]] = true
			stack := []*ssa.BasicBlock{g.Blocks[0]}
			for len(stack) > 0 {
				b := stack[len(stack)-1]
				stack = stack[:len(stack)-1]
				for _, sc := range b.Succs {
					if !reach[sc] && !stop[sc] {
						reach[sc] = true
						stack = append(stack, sc)
					}
				}
			}
		}
		var out []string
		if ErrResultIndex(g) < 0 {
			for _, ri := range Returns(g) {
				if reach[ri.Ret.Block()] {
					out = append(out, fmt.Sprintf("return at line %d", a.line(ri.Ret.Pos())))
				}
			}
			return out
		}
		for _, nr := range c01MaybeNilReturns(g) {
			at := nr.to
			if nr.from != nil {
				at = nr.from
			}
			if !reach[at] || s.lenZeroOn(nr.from, nr.to) {
				continue
			}
			if g == s.key.fn {
				cv.returns++
			}
			out = append(out, c01EdgeName(a.p, nr))
		}
		return out
	}
	top := s.key.fn
	litCovered(top)
	for _, in := range anchors[top] {
		_ = in
		cv.anchors++
	}
	for _, lk := range leaks(top) {
		cv.bad = append(cv.bad, fmt.Sprintf("%s can report success although the list was neither handed to a sub-store or helper as a whole nor walked by a loop over all of it on the way there", lk))
	}
	cv.done = true
	return cv
}

// ---------------------------------------------------------------------------

func c01RuleRefs(p *Program, r *Reporter) {
	const ruleI, ruleC = "R-refs-intact", "R-refs-cover"
	a := &c01Refs{p: p, memo: map[c01RefsKey]*c01RefsSum{}, cover: map[*c01RefsSum]*c01RefsCover{}, loops: map[*ssa.Function][]*c01Loop{},
		statter: p.Iface("pkg/blobserver", "BlobStatter"), remover: p.Iface("pkg/blobserver", "BlobRemover")}
	type entry struct {
		s       *c01RefsSum
		inScope bool
	}
	var entries []entry
	seen := map[*ssa.Function]bool{}
	for _, spec := range []struct {
		it   *types.Interface
		name string
	}{{a.remover, "RemoveBlobs"}, {a.statter, "StatBlobs"}} {
		for _, n := range p.Implementers(spec.it, false) {
			fn := c01DeclaredMethod(p, n, spec.name)
			if fn == nil || fn.Blocks == nil || seen[fn] {
				continue // promoted from an embedded implementer, which is itself enumerated
			}
			seen[fn] = true
			found := false
			for i, prm := range fn.Params {
				if c01RefsIsList(prm.Type()) {
					s := a.summarise(fn, i)
					s.entry = spec.name
					entries = append(entries, entry{s, c01ScopePkgs[RelPkg(fn.Pkg.Pkg)]})
					found = true
				}
			}
			if !found {
				brokenf("anchor unresolved: %s has no []blob.Ref parameter", FuncKey(fn))
			}
		}
	}
	w := a.witnesses()
	isEntry := map[*c01RefsSum]bool{}
	scope := map[*c01RefsSum]bool{}
	for _, e := range entries {
		isEntry[e.s] = true
		if e.inScope {
			scope[e.s] = true
		}
	}
	// helpers reached from an in-scope entry are in scope; helpers reached with the
	// caller's own array (not just a copy made on the way) answer for that array
	for _, e := range entries {
		e.s.aliased = true
	}
	for changed := true; changed; {
		changed = false
		for _, s := range a.order {
			for _, fw := range s.forwards {
				if fw.sub == nil {
					continue
				}
				if scope[s] && !scope[fw.sub] {
					scope[fw.sub] = true
					changed = true
				}
				if s.aliased && !fw.copy && !fw.sub.aliased {
					fw.sub.aliased = true
					changed = true
				}
			}
		}
	}
	sums := append([]*c01RefsSum(nil), a.order...)
	sort.Slice(sums, func(i, j int) bool {
		ki, kj := FuncKey(sums[i].key.fn), FuncKey(sums[j].key.fn)
		if ki != kj {
			return ki < kj
		}
		return sums[i].key.idx < sums[j].key.idx
	})
	nI, nC, calls := 0, 0, 0
	for _, s := range sums {
		key := FuncKey(s.key.fn) + "#" + s.prm.Name()
		site := p.Pos(s.key.fn.Pos())
		calls += s.calls
		role := "helper that is handed the list"
		if isEntry[s] {
			role = s.entry + " method"
		}
		// ---- R-refs-intact
		if !s.aliased {
			r.Note("%s: %s is only ever handed copies of the list made by its callers; what it does to them is not an obligation", ruleI, key)
		}
		var strong, weak []string
		for _, e := range s.events {
			if e.kind == c01RwExtend {
				weak = append(weak, e.what)
			} else {
				strong = append(strong, fmt.Sprintf("%s (%s)", e.what, c01RwNames[e.kind]))
			}
		}
		var who []string
		onlyPermute := true
		for _, e := range s.events {
			if e.kind == c01RwOverwrite {
				onlyPermute = false
			}
		}
		for _, m := range []string{"RemoveBlobs", "StatBlobs"} {
			if s.entry != "" && s.entry != m {
				continue
			}
			who = append(who, w.concurrent[m]...)
			if !onlyPermute {
				who = append(who, w.reuse[m]...)
			}
		}
		for _, e := range s.events {
			if e.kind != c01RwOverwrite {
				continue
			}
			if d := a.laterUse(s, e); d != "" {
				who = append([]string{fmt.Sprintf("%s itself, after the write: %s", FuncKey(s.key.fn), d)}, who...)
				break
			}
		}
		var prefixWho []string
		for _, m := range []string{"RemoveBlobs", "StatBlobs"} {
			if s.entry == "" || s.entry == m {
				prefixWho = append(prefixWho, w.prefix[m]...)
			}
		}
		report := func(f func(rule, construct, site, detail string), detail string) {
			if !s.aliased {
				return
			}
			if scope[s] || isEntry[s] && c01ScopePkgs[RelPkg(s.key.fn.Pkg.Pkg)] {
				f(ruleI, key, site, detail)
				nI++
			} else if len(strong) > 0 || len(s.undecided) > 0 || len(weak) > 0 && len(prefixWho) > 0 {
				r.Note("%s: %s (outside the C01 quantifier, not enforced): %s", ruleI, key, detail)
			} else {
				r.OKTable(ruleI, key, site, "outside the C01 quantifier, checked all the same: "+detail)
				nI++
			}
		}
		switch {
		case len(strong) > 0 && len(who) > 0:
			report(r.Violation, fmt.Sprintf("%s: the caller's ref list is written: %s. The list belongs to the caller, which goes on using it: %s. A ref can thus be acted on twice and another not at all although every call reports success",
				role, strings.Join(c01First(strong, 3), "; "), strings.Join(c01First(who, 4), "; ")))
		case len(strong) > 0:
			report(r.Undecided, fmt.Sprintf("%s: the caller's ref list is written (%s) and no caller inside the module that still uses the list was found; callers outside cannot be seen", role, strings.Join(c01First(strong, 3), "; ")))
		case len(weak) > 0 && len(prefixWho) > 0:
			report(r.Violation, fmt.Sprintf("%s: %s; callers that pass a prefix of a longer list: %s", role, strings.Join(c01First(weak, 3), "; "), strings.Join(c01First(prefixWho, 3), "; ")))
		case len(s.undecided) > 0:
			report(r.Undecided, fmt.Sprintf("%s: %s", role, strings.Join(c01First(c01SubUniq(s.undecided), 4), "; ")))
		default:
			extra := ""
			if len(weak) > 0 {
				extra = fmt.Sprintf("; %d append(s) onto the list itself write only behind its end and no caller in the module passes a prefix of a longer list", len(weak))
			}
			report(r.OK, fmt.Sprintf("%s: %d values may share the array of %s (re-slices, variables, captures); followed through %d calls (%d hand-overs to sub-stores/helpers); none of them is written: no element store, append in place, copy, sort or slices.* edit%s",
				role, len(s.alias), s.prm.Name(), s.calls, len(s.forwards), extra))
		}
		// ---- R-refs-cover
		if !scope[s] {
			continue
		}
		cv := a.coverOf(s)
		nC++
		switch {
		case len(cv.bad) > 0:
			r.Violation(ruleC, key, site, fmt.Sprintf("%s: %s", role, strings.Join(c01First(cv.bad, 3), "; ")))
		case len(cv.undecided) > 0:
			r.Undecided(ruleC, key, site, fmt.Sprintf("%s: %s", role, strings.Join(c01First(cv.undecided, 3), "; ")))
		case cv.loops == 0 && cv.forwards == 0 && cv.anchors == 0:
			r.OK(ruleC, key, site, fmt.Sprintf("%s: never reports success (every return carries a non-nil error or lies behind len(list) == 0); the list is not used", role))
		default:
			r.OK(ruleC, key, site, fmt.Sprintf("%s: %d loop(s) over the whole list (index 0..len-1, every path to the next element uses the current one), %d hand-over(s) of the whole list; no part of the list is singled out; every return that may report success lies behind one of them",
				role, cv.loops, cv.forwards))
		}
	}
	r.Analysed("ref_list_call_sites", calls)
	for _, m := range []string{"RemoveBlobs", "StatBlobs"} {
		r.Note("R-refs-intact: callers of %s that rely on the list staying intact: concurrently %v; afterwards %v; passing a prefix of a longer list %v", m, w.concurrent[m], w.reuse[m], w.prefix[m])
	}
	r.Analysed("ref_list_obligations", nI+nC)
	r.Floor(ruleI, 45) // 51 today: 23 RemoveBlobs + 26 StatBlobs methods, StatBlobsParallelHelper, batchedShards
	r.Floor(ruleC, 24) // 27 today: 12 + 13 methods of the C01 back ends (+ index), and the two helpers
}

// ===========================================================================
// Effective bodies (robustness to helper extraction, function splitting and
// closure -> named function / method).
//
// A rule that looks for a site (call, store, send, comparison) "in function F"
// looks in F's effective body: F, its function literals and, transitively
// (c01EffDepth levels), the unexported functions and methods of F's package
// and the literals that F calls statically. Values are related across the
// boundary: a parameter of a helper stands for the argument at the helper's
// call sites inside the body, a helper call's result for the operands of the
// helper's returns.

const c01EffDepth = 4

type c01Eff struct {
	root  *ssa.Function
	fns   []*ssa.Function
	in    map[*ssa.Function]bool
	calls map[*ssa.Function][]CallSite // call/go/defer sites inside the body, per helper callee
	// rootCalls: for the body of a function of EnumerateBlobs shape that enumerators hand dest to (an instance of its
	// own): the calls that do so, each with the body it lies in. Set by c01Instances.
	rootCalls []c01RootCall
}

type c01RootCall struct {
	c  CallSite
	in *c01Eff
}

var c01EffCache = map[*ssa.Function]*c01Eff{}

// c01IsHelperOf: g is a function literal, or an unexported function/method of
// root's package, with source.
func c01IsHelperOf(root, g *ssa.Function) bool {
	if g == nil || g.Blocks == nil || g == root {
		return false
	}
	if g.Parent() != nil {
		return true
	}
	if g.Pkg == nil || root.Pkg == nil || g.Pkg != root.Pkg {
		return false
	}
	return !token.IsExported(g.Name())
}

func c01EffOf(root *ssa.Function) *c01Eff {
	if e, ok := c01EffCache[root]; ok {
		return e
	}
	e := &c01Eff{root: root, in: map[*ssa.Function]bool{}, calls: map[*ssa.Function][]CallSite{}}
	var add func(f *ssa.Function, d int)
	add = func(f *ssa.Function, d int) {
		if e.in[f] {
			return
		}
		e.in[f] = true
		e.fns = append(e.fns, f)
		for _, a := range f.AnonFuncs {
			add(a, d)
		}
		for _, c := range CallsIn(f, false) {
			g := c.Callee()
			if !c01IsHelperOf(TopFunc(root), g) {
				continue
			}
			e.calls[g] = append(e.calls[g], c)
			if d < c01EffDepth {
				add(g, d+1)
			}
		}
	}
	add(root, 0)
	c01EffCache[root] = e
	return e
}

func c01ParamIndex(g *ssa.Function, prm *ssa.Parameter) int {
	for i, q := range g.Params {
		if q == prm {
			return i
		}
	}
	return -1
}

// helperCallee: the callee of call when it is a helper inside the body.
func (e *c01Eff) helperCallee(call ssa.CallInstruction) *ssa.Function {
	g := (CallSite{call.Parent(), call}).Callee()
	if g == nil || g == e.root || !e.in[g] || g.Blocks == nil {
		return nil
	}
	return g
}

// allCalls lists every call/go/defer of the body.
func (e *c01Eff) allCalls() []CallSite {
	var out []CallSite
	for _, f := range e.fns {
		out = append(out, CallsIn(f, false)...)
	}
	return out
}

// origins resolves v to the values it stands for in the body.
func (e *c01Eff) origins(v ssa.Value) []ssa.Value {
	var out []ssa.Value
	seen := map[ssa.Value]bool{}
	var walk func(v ssa.Value, d int)
	walk = func(v ssa.Value, d int) {
		o := originValue(v)
		if o == nil || seen[o] {
			return
		}
		seen[o] = true
		if d < 10 {
			switch x := o.(type) {
			case *ssa.Parameter:
				g := x.Parent()
				i := c01ParamIndex(g, x)
				if g != e.root && e.in[g] && len(e.calls[g]) > 0 && i >= 0 {
					ok := true
					for _, c := range e.calls[g] {
						if i >= len(c.Args()) {
							ok = false
						}
					}
					if ok {
						for _, c := range e.calls[g] {
							walk(c.Args()[i], d+1)
						}
						return
					}
				}
			case *ssa.Extract:
				if call, ok := x.Tuple.(*ssa.Call); ok {
					if g := e.helperCallee(call); g != nil {
						rets := Returns(g)
						if len(rets) > 0 {
							for _, ri := range rets {
								if x.Index < len(ri.Results) {
									walk(ri.Results[x.Index], d+1)
								}
							}
							return
						}
					}
				}
			case *ssa.Call:
				if g := e.helperCallee(x); g != nil && g.Signature.Results().Len() == 1 {
					rets := Returns(g)
					if len(rets) > 0 {
						for _, ri := range rets {
							walk(ri.Results[0], d+1)
						}
						return
					}
				}
			}
		}
		out = append(out, o)
	}
	walk(v, 0)
	return out
}

// origin: the unique value v stands for, nil when ambiguous.
func (e *c01Eff) origin(v ssa.Value) ssa.Value {
	os := e.origins(v)
	if len(os) == 1 {
		return os[0]
	}
	return nil
}

// same: a and b denote the same run-time value, across helper boundaries.
func (e *c01Eff) same(a, b ssa.Value) bool {
	if a == nil || b == nil {
		return false
	}
	if sameOrigin(a, b) {
		return true
	}
	oa, ob := e.origin(a), e.origin(b)
	return oa != nil && ob != nil && sameOrigin(oa, ob)
}

// sameThing: a and b denote (parts of) the same value, across helper boundaries.
func (e *c01Eff) sameThing(a, b ssa.Value) bool {
	if c01SameThing(a, b) {
		return true
	}
	root := func(v ssa.Value) ssa.Value {
		for i := 0; i < 6; i++ {
			o := e.origin(v)
			if o == nil {
				return nil
			}
			b := c01Base(o)
			if b == o {
				if al, ok := o.(*ssa.Alloc); ok {
					// a variable assigned once: the thing it holds
					if sts := storesTo(al); len(sts) == 1 {
						v = sts[0].Val
						continue
					}
				}
				return o
			}
			v = b
		}
		return nil
	}
	ra, rb := root(a), root(b)
	return ra != nil && ra == rb
}

// depends is DependsOn/c01Depends across helper boundaries: a helper's
// parameter depends on the arguments of the helper's calls inside the body, a
// helper call's result on the operands of the helper's returns (not on the
// call's arguments as such).
func (e *c01Eff) depends(v ssa.Value, target func(ssa.Value) bool) bool {
	seen := map[ssa.Value]bool{}
	var walk func(v ssa.Value, depth int) bool
	walk = func(v ssa.Value, depth int) bool {
		if v == nil || seen[v] || depth > 90 {
			return false
		}
		seen[v] = true
		if target(v) {
			return true
		}
		switch x := v.(type) {
		case *ssa.Parameter:
			g := x.Parent()
			if g != e.root && e.in[g] {
				i := c01ParamIndex(g, x)
				for _, c := range e.calls[g] {
					if a := c.Args(); i >= 0 && i < len(a) && walk(a[i], depth+1) {
						return true
					}
				}
			}
			return false
		case *ssa.Call:
			if g := e.helperCallee(x); g != nil {
				for _, ri := range Returns(g) {
					for _, rv := range ri.Results {
						if walk(rv, depth+1) {
							return true
						}
					}
				}
				// the literal's captured variables are reached through its loads
				return false
			}
		case *ssa.Extract:
			if call, ok := x.Tuple.(*ssa.Call); ok {
				if g := e.helperCallee(call); g != nil {
					if target(call) {
						return true
					}
					for _, ri := range Returns(g) {
						if x.Index < len(ri.Results) && walk(ri.Results[x.Index], depth+1) {
							return true
						}
					}
					return false
				}
			}
		case *ssa.UnOp:
			if x.Op == token.MUL {
				// a field read of a local aggregate (`head := f(); head.Ref`): what was stored into the aggregate as a whole
				if fa, isFA := x.X.(*ssa.FieldAddr); isFA {
					base := ssa.Value(fa)
					for i := 0; i < 6; i++ {
						f2, ok := base.(*ssa.FieldAddr)
						if !ok {
							break
						}
						base = f2.X
					}
					if cell, ok := varOf(base); ok {
						for _, st := range storesTo(cell) {
							if walk(st.Val, depth+1) {
								return true
							}
						}
					}
				}
				if cell, ok := varOf(x.X); ok {
					if cell != x.X && target(cell) {
						return true
					}
					for _, st := range storesTo(cell) {
						if walk(st.Val, depth+1) {
							return true
						}
					}
					if al, isAl := cell.(*ssa.Alloc); isAl && al.Referrers() != nil {
						for _, ref := range *al.Referrers() {
							fa, ok := ref.(*ssa.FieldAddr)
							if !ok || fa.Referrers() == nil {
								continue
							}
							for _, r2 := range *fa.Referrers() {
								if st, ok := r2.(*ssa.Store); ok && st.Addr == ssa.Value(fa) && walk(st.Val, depth+1) {
									return true
								}
							}
						}
					}
				}
			}
		case *ssa.Slice:
			if arr, ok := x.X.(*ssa.Alloc); ok && arr.Referrers() != nil {
				for _, ref := range *arr.Referrers() {
					ia, ok := ref.(*ssa.IndexAddr)
					if !ok || ia.Referrers() == nil {
						continue
					}
					for _, r2 := range *ia.Referrers() {
						if st, ok := r2.(*ssa.Store); ok && st.Addr == ssa.Value(ia) && walk(st.Val, depth+1) {
							return true
						}
					}
				}
			}
		}
		if in, ok := v.(ssa.Instruction); ok {
			for _, op := range in.Operands(nil) {
				if *op != nil && walk(*op, depth+1) {
					return true
				}
			}
		}
		return false
	}
	return walk(v, 0)
}

// chain: in, the call of in's function, the call of that call's function, ...
// as long as the enclosing helper has exactly one (non-go) call site in the body.
func (e *c01Eff) chain(in ssa.Instruction) []ssa.Instruction {
	out := []ssa.Instruction{in}
	for i := 0; i < c01EffDepth+2; i++ {
		g := in.Parent()
		if g == e.root {
			break
		}
		cs := e.calls[g]
		if len(cs) != 1 || cs[0].IsGo() {
			break
		}
		in = cs[0].Instr.(ssa.Instruction)
		out = append(out, in)
	}
	return out
}

// liftPair lifts a and b along their call chains to two instructions of one function.
func (e *c01Eff) liftPair(a, b ssa.Instruction) (ssa.Instruction, ssa.Instruction, bool) {
	ca, cb := e.chain(a), e.chain(b)
	for _, x := range ca {
		for _, y := range cb {
			if x.Parent() == y.Parent() {
				return x, y, true
			}
		}
	}
	return nil, nil, false
}

// c01BoolHelper: the in-module helper (unexported function/method of the same
// package, or a literal) with a single bool result that call invokes, or nil.
func c01BoolHelper(call *ssa.Call) *ssa.Function {
	h := (CallSite{call.Parent(), call}).Callee()
	if h == nil || h.Blocks == nil || !c01IsHelperOf(TopFunc(call.Parent()), h) {
		return nil
	}
	res := h.Signature.Results()
	if res.Len() != 1 || !c01IsBasic(res.At(0).Type(), types.Bool) {
		return nil
	}
	return h
}

// c01ReturnWays: the ways in which bool helper h can return want, each as the
// list of branch facts (and the returned condition itself) that hold then.
func c01ReturnWays(h *ssa.Function, want bool) [][]CondFact {
	var ways [][]CondFact
	var expand func(v ssa.Value, from, to *ssa.BasicBlock, depth int)
	expand = func(v ssa.Value, from, to *ssa.BasicBlock, depth int) {
		if c, ok := v.(*ssa.Const); ok && c.Value != nil {
			if (c.Value.String() == "true") == want {
				ways = append(ways, c01EdgeFacts(from, to))
			}
			return
		}
		if ph, ok := v.(*ssa.Phi); ok && depth < 6 {
			for i, ev := range ph.Edges {
				expand(ev, ph.Block().Preds[i], ph.Block(), depth+1)
			}
			return
		}
		val := want
		for {
			u, isNot := v.(*ssa.UnOp)
			if !isNot || u.Op != token.NOT {
				break
			}
			v, val = u.X, !val
		}
		fs := append([]CondFact(nil), c01EdgeFacts(from, to)...)
		fs = append(fs, CondFact{v, val, to})
		ways = append(ways, fs)
	}
	for _, ri := range Returns(h) {
		if len(ri.Results) == 1 {
			expand(ri.Results[0], nil, ri.Ret.Block(), 0)
		}
	}
	return ways
}

// c01ReturnFacts: the facts common to every way in which h returns want.
func c01ReturnFacts(h *ssa.Function, want bool) []CondFact {
	ways := c01ReturnWays(h, want)
	if len(ways) == 0 {
		return nil
	}
	var out []CondFact
	for _, f := range ways[0] {
		all := true
		for _, w := range ways[1:] {
			found := false
			for _, g := range w {
				if g.Cond == f.Cond && g.Val == f.Val {
					found = true
				}
			}
			if !found {
				all = false
			}
		}
		if all {
			out = append(out, f)
		}
	}
	return out
}

// factsAt: the branch facts known at entry of blk - those of its own function,
// those at the (single) call site of a helper, and the facts implied by a
// bool helper having returned the value the branch was taken on.
func (e *c01Eff) factsAt(blk *ssa.BasicBlock) []CondFact {
	var out []CondFact
	seenFn := map[*ssa.Function]bool{}
	for b := blk; b != nil; {
		out = append(out, FactsAt(b)...)
		g := b.Parent()
		seenFn[g] = true
		cs := e.calls[g]
		if g == e.root || len(cs) != 1 || cs[0].IsGo() || cs[0].IsDefer() {
			break
		}
		b = cs[0].Block()
		if seenFn[b.Parent()] {
			break
		}
	}
	for i := 0; i < len(out) && i < 64; i++ {
		cond, val := out[i].Cond, out[i].Val
		for {
			u, isNot := cond.(*ssa.UnOp)
			if !isNot || u.Op != token.NOT {
				break
			}
			cond, val = u.X, !val
		}
		if call, ok := originValue(cond).(*ssa.Call); ok {
			if h := c01BoolHelper(call); h != nil {
				out = append(out, c01ReturnFacts(h, val)...)
			}
		}
	}
	return out
}

// c01Place names a storage location across helper boundaries: a variable, or
// a field path below a variable / allocation.
type c01Place struct {
	base ssa.Value
	path string
}

func (e *c01Eff) placeOf(addr ssa.Value) (c01Place, bool) {
	path := ""
	for i := 0; i < 8; i++ {
		fa, ok := addr.(*ssa.FieldAddr)
		if !ok {
			break
		}
		path = fmt.Sprintf(".%d", fa.Field) + path
		addr = fa.X
	}
	if cell, ok := varOf(addr); ok {
		if _, isFV := cell.(*ssa.FreeVar); !isFV {
			return c01Place{cell, path}, true
		}
	}
	if o := e.origin(addr); o != nil {
		switch o.(type) {
		case *ssa.Alloc, *ssa.Global:
			return c01Place{o, path}, true
		}
	}
	return c01Place{}, false
}

// storesToPlace lists the stores of the body that write the place.
func (e *c01Eff) storesToPlace(pl c01Place) []*ssa.Store {
	var out []*ssa.Store
	for _, f := range e.fns {
		for _, b := range f.Blocks {
			for _, in := range b.Instrs {
				if st, ok := in.(*ssa.Store); ok {
					if q, ok := e.placeOf(st.Addr); ok && q == pl {
						out = append(out, st)
					}
				}
			}
		}
	}
	return out
}
