package main

import (
	"fmt"
	"go/token"
	"go/types"
	"sort"
	"strings"
	"time"

	"golang.org/x/tools/go/ssa"
)

func init() {
	register(&PropSpec{
		ID:    "C14",
		Title: "Concurrent clients see linearizable, race-free stores and index",
		Explanation: "Decided (lock discipline only, a necessary condition for race freedom): " +
			"L-guard — for every (struct type, mutex, field) of the frozen guard table, every read of the field (load, map lookup/range, slice index/len, passing the container to a call) executes with that object's mutex held for R or W and every write (store, map update/delete, slice element store, append-and-store) with it held for W, on every CFG path (must-hold lockset); the lockset at function entry is empty except for unexported functions all of whose static call sites hold the lock (meet over callers, least fixpoint) and functions declared lock-requiring (L-locked); objects allocated in the same function and not yet published are exempt (a callee that only uses the object in literals it calls or defers itself does not publish it); a field nobody writes after construction needs no lock for reads. Installed fresh objects (decided by role, no function or constructor names): after a store that installs an object created in the same function (composite literal, new, or the result of a function whose every return yields an object it allocated) into a field of an EXCLUSIVELY OWNED object, the new object's own mutexes count as held for writing — in the rest of the function, in literals it runs synchronously (not go), and, through the entry-lockset inference, in unexported helpers it hands the owner or the new object to. Exclusively owned = allocated here and unpublished at the access, or a parameter of an unexported function never used as a value/through an interface whose every static call passes an unpublished object, lies in a function of the frozen start-up table (today index.(*Index).Reindex: run by serverinit before the index is installed), or passes on a parameter with the same property (depth 4); in the parameter case the store must run with a mutex of the owner held for writing and every store to that field in the function must install a fresh object. This replaces the former per-function exception for initDeletesCacheLocked. A guarded field's address handed to a function is a write unless the callee's body only reads through that parameter. For a guarded field that holds a pointer to a struct, every statically resolved call that passes the loaded pointer (method calls on the field) is classified from the callee's body by a receiver-access summary: does it store / update a map / call a mutator through memory reachable from that parameter, transitively (depth 7), outside an exclusive lock the callee takes itself? Such a call is a write of the guarded state (W lock needed at the call, also after the pointer was copied to a local); a call that only reads is a read once some mutating call exists. Branches on construction-only bool fields of the pointee (lru.Cache.nolock) and on constant bool arguments are pruned using the configuration the stored object was constructed with. Callees that hand the state to atomics, sync.Once/Cond/WaitGroup, channels, interface or dynamic calls are NOT classified (no obligation). " +
			"L-locked — every call site of a function that requires a lock by contract (name ends in 'Locked', doc comment says the lock must be held — a documented helper that no longer exists is skipped: its former body is then checked with the entry lockset inferred from the callers —, or a heap.Interface callback of a mutex-embedding heap) holds that lock in the mode the callee's body needs, or operates on a not-yet-published object. Inside a contract function the contract lock is assumed and, when the function is unexported and only called statically, also whatever every static caller holds. " +
			"L-unsync — enumerated: every struct field, in non-test module code, that holds a pointer to a lock-configurable type (a struct with its own sync.Mutex/RWMutex some method of which skips the acquisition depending on a bool field that is only ever stored on objects under construction — today internal/lru.Cache with nolock); the configuration of every value stored into the field is derived from its construction (composite literal / new = zero, constant stores dominating the use, through constructor calls to depth 4; by what the constructors do, not by their names). If every stored object locks itself nothing is required of the owner. Otherwise every call on the field whose body (under that configuration) mutates the object must run with a mutex of the owning object held exclusively — sync.Mutex.Lock or RWMutex.Lock; RLock does not count because two read-lock holders run concurrently — every call that only reads it with that mutex held in any mode, on every CFG path (owner not yet published: exempt), and one mutex must be common to all mutating sites. The pointer leaving the owner's methods (stored, returned, passed on, captured) or a construction that cannot be followed is Undecided. " +
			"L-rlock — table-free contradiction check: enumerated are the accesses to every non-table, non-sync field of every module struct that has a sync.RWMutex field, and to package-level variables of packages that declare a package-level sync.RWMutex. An access that is a definite write (store, map update/delete, clear, copy-into, in-place element write, address passed to a callee whose body writes through it, or a call on the pointed-to object whose body mutates it outside a lock of its own) and executes with that owner's RWMutex held for reading while no lock at all is held exclusively (must-hold lockset incl. inferred entry locksets) is a violation: the read side admits several holders, so the section can run twice at once. Reads, atomics and not-classified callees under RLock are accepted. " +
			"L-corpus — the in-memory corpus has no mutex of its own; the lock is abstracted to one token INDEX (Lock/RLock on *index.Index, on its mu field, or through an interface with Lock/Unlock/RLock/RUnlock such as index.Interface). Contract functions (callers must hold INDEX): every *index.Corpus method, every *index.LocationHelper method, the *index.Index methods of index.Interface, and search.Handler methods named *Locked. Enumerated: every site in non-contract module code that calls, goes, defers, invokes through an interface, or takes the function value of a contract function that (transitively) touches Corpus fields. Decided: INDEX is held at the site on every CFG path, or the enclosing function is only ever entered with INDEX held — every static call, function-value reference and possible interface dispatch of it in the module is itself under INDEX or in a function with that property (greatest fixpoint; a function nothing in the module refers to is an entry point and is not assumed locked). One frozen exception, keyed by the contract function and a root, not by the site: index.(*Index).GetBlobMeta called from code only index.newFromConfig can reach (the root, its literals, unexported functions all of whose static calls and value references lie in such code, depth 4) — the start-up integrity check on an index nobody else has yet. Stated assumptions: a function literal or goroutine created while INDEX is held runs while it is held (the join before the unlock is not decided); a function value is entered where it is created. " +
			"L-excl — an RWMutex that protects the directory tree of a storage rather than a struct field. Enumerated: every sync.RWMutex field (by value or by pointer) of a struct type declared under pkg/blobserver that is not the mutex of a guard-table entry; it is a directory lock when some directory-structure operation of its owner executes with it held (today files.Storage.dirLockMu). Filesystem calls are classified by a frozen table over the methods of files.VFS (checked against the interface's method set on every run; calls matched by type: invokes through VFS or an interface including it, static calls on implementers) and the os/robustio functions with the same effect: makes a directory (MkdirAll/Mkdir), creates an entry in a directory (TempFile/CreateTemp, Create/OpenFile/WriteFile/Rename-target of a path computed from it), removes a directory (RemoveDir always; Remove/RemoveAll/Rename-source when the path VALUE is a directory path: the same value is a directory argument elsewhere in the function, comes from a function whose results are used as directories, or is a parameter callers fill that way). A call is attributed to the storage object whose field holds the VFS, else to the receiver of the enclosing method; a helper that gets the VFS as a plain parameter is lifted to its call sites (depth 3); bodies of VFS implementers are the layer below the lock and not examined. Decided: (1) for every make-directory call and every call in the same function that creates an entry in that directory (same value, or a module callee that uses the parameter that way), the directory lock is in the must-hold lockset (R or W; entry locksets inferred through unexported wrappers) at both calls and no CFG path from the first to the second passes a release of it (drop-and-retake is a violation); (2) every directory-removing call holds the lock for WRITING at the call (a go statement starts with an empty lockset, the lock taken inside the spawned function counts). A removal under the read side only, or under no lock, is a violation: two read holders run concurrently, the rmdir can land between a receiver's MkdirAll and TempFile and the receive fails with ENOENT on a healthy store, which no sequential order of the calls produces. When the make-directory call sits in an unexported, only statically called helper that leaves creating the entry to its callers (function splitting), the sequence is decided in every caller instead, from the call of the helper on: the directory value is the helper's argument or the result that carries the path, the helper must run with the lock held (inferred entry lockset) and must not lock/unlock it itself (depth 3). A make-directory call whose dependent call cannot be found in the function or its callers, a dependent call inside a function literal, or an owner that cannot be named, is Undecided. " +
			"NOT decided: for L-excl — that VFS implementers behave as the table says (rmdir semantics of RemoveDir, Remove never handed a directory by code the value criterion does not see); sequences that span functions other than a make-directory helper called by the function that creates the entry (e.g. directory made by the caller, entry created in a function literal, helper that takes the lock itself and returns with it held); directory locks outside pkg/blobserver or that also guard tabled fields; whether the lock is the right object when several storages share one tree; liveness (writer starvation). Absence of races on state that is neither in the guard table nor a field of an RWMutex-carrying struct / a lock-configurable object; unsynchronised containers that never had a lock of their own and sit in unguarded fields (container/list, bytes.Buffer, plain maps in structs without a table entry) when accessed with NO lock at all; mutation reached only through interface/dynamic calls or through callees using atomics/sync primitives (not classified); lock-configurable objects held by value, in locals, globals, maps or slices rather than in a struct field; path feasibility beyond constant bool flags (a mutating branch that cannot execute still counts); direct reads of Corpus fields from Index methods outside index.Interface (HasLegacySHA1, signerRefs); the R/W mode of the index lock around corpus mutation reached through L-corpus (L-rlock sees only statically resolved Corpus calls on Index.corpus); that goroutines started under the index lock are joined before it is released; VTA confirmation of dynamic call edges (not used); atomicity of check-then-act sequences, lost updates, deadlock freedom, linearizability against the reference map, any concrete schedule.",
		RuleDocs: map[string]string{
			"L-guard":   "every access (per function × guarded field) of the guard table's fields in module code, incl. statically resolved calls on the object a guarded pointer field points to (mode from the callee's body: writes through its receiver outside its own exclusive lock ⇒ write): must-hold lockset contains the owning object's mutex (R for reads, W for writes), or the object is fresh, or it was created and installed by this call tree into an exclusively owned object (installed-fresh grant, decided by role), or the field has no post-construction writer",
			"L-locked":  "every static call site (and heap.* call for heap callbacks) of a lock-requiring function holds the named lock in the mode the callee needs, or the receiver is fresh",
			"L-unsync":  "every struct field holding a pointer to a lock-configurable object (own mutex skipped under a construction-only bool flag; configuration derived from the reaching constructors' bodies): one obligation per field (self-locking in every construction, or all sites locked by one common owner mutex) and, when some stored object does not lock itself, one per call site on the field: mutating calls (by body) hold a mutex of the owner exclusively — RLock is not enough — reading calls hold it in any mode",
			"L-rlock":   "every function × field of an RWMutex-carrying module struct (non-table fields) or package-level variable next to a package-level RWMutex, with accesses that run under only the read side of that RWMutex and no exclusive lock: none of them is a definite write (store, map update/delete, in-place write, callee/method whose body writes through the field or the object it points to)",
			"L-excl":    "every RWMutex field of a pkg/blobserver struct type that guards no tabled struct field but is held around directory-structure calls (files.Storage.dirLockMu): one obligation for the classification table (all files.VFS methods classified), one per lock, one per (make-directory call, dependent create-in-that-directory call) pair — the lock is held (R or W) at both and not released on any path between them; a make-directory helper is followed into its callers — and one per directory-removing call (VFS.RemoveDir; Remove/Rename/os.Remove* of a directory-valued path; through wrappers) — the lock is held for WRITING at the call; read side or no lock = 'directory removed while receivers may be between MkdirAll and TempFile'",
			"L-pending": "C05's I-recent reported for C14: noteBlobIndexedLocked records every indexed blob in recentDone and queues every released dependant, MarkDone re-notes recently done dependencies before clearing recentDone, getNewPendingBlobIndex registers what it returns - the coordination that makes concurrent receives of a blob and its dependency converge to a sequentially explainable state",
			"L-corpus":  "every call / go / defer / interface invoke / function-value site, in non-contract code, of a corpus-touching contract function (*Corpus and *LocationHelper methods, index.Interface methods of *Index, search.Handler *Locked methods): the index lock is held at the site or the enclosing function is only ever entered with it held (all entry sites in the module, greatest fixpoint); one exception keyed by callee + root function (GetBlobMeta under index.newFromConfig)",
		},
		Run:       runC14,
		DesignRef: "DESIGN.md §4 C14",
		Technique: "static analysis: must-hold lockset dataflow over go/ssa with inter-procedural entry locksets (meet over static callers, entry-site fixpoint for the index lock), type-resolved guard table, freshness (escape) exemption incl. synchronously run literals, installed-fresh-object lock grants with an exclusive-ownership who-may-call check (recursive over helpers), body-derived receiver-access summaries (transitive writes through a parameter outside the callee's own exclusive lock, on a CFG pruned by construction-time configuration flags and constant bool arguments), constructor-reaching configuration of lock-configurable objects; for resource locks: type-resolved classification of filesystem calls (files.VFS method table checked against the interface), value-based directory-path classification, lock-mode check at directory-removing calls and a release-free-path exploration between a make-directory call and its dependent create call",
		LevelText: "Decides lock discipline only: listed guarded fields are accessed, lock-requiring functions are called, and corpus-reading methods are reached only with the owning mutex held on every CFG path; objects configured not to lock themselves are mutated only under an exclusive lock of their owner; nothing is definitely written while only the read side of its struct's (or package's) RWMutex is held; the index's pending-blob bookkeeping (recentDone/readyReindex) releases a dependant whose dependency was indexed concurrently; the files storage's directory lock is held without a gap from making a shard directory to creating the temp file in it and exclusively around every directory removal (so a removal cannot make a concurrent receive fail). Does not decide races on other state, unclassified (dynamic / atomics-based) callees, atomicity, lost updates or linearizability.",
	})
}

// ---------------------------------------------------------------------------
// Guard table (frozen; each entry confirmed against the struct definition and
// its `// guards ...` comment in /repo).

type c14Guard struct {
	pkg, typ, mu string
	fields       []string
	reason       string
	// writeOnly: fields whose reads are exempt (documented write-once), field -> reason.
	writeOnly map[string]string
}

var c14Guards = []c14Guard{
	{pkg: "pkg/blobserver/memory", typ: "Storage", mu: "mu", fields: []string{"m", "size"},
		reason: "mem.go: `mu sync.RWMutex // guards following 2 fields`"},
	{pkg: "pkg/blobserver/diskpacked", typ: "storage", mu: "mu", fields: []string{"closed", "writer", "fds", "size", "writeLock"},
		reason: "diskpacked.go: `mu sync.Mutex // Guards all I/O state.` (closed, writer, fds, size); writeLock is replaced by openForWrite/closePack together with writer"},
	{pkg: "pkg/blobserver/proxycache", typ: "Storage", mu: "mu", fields: []string{"lru", "cacheBytes"},
		reason: "proxycache.go: `mu sync.Mutex // guards following`"},
	{pkg: "pkg/index", typ: "Index", mu: "mu", fields: []string{"pending", "recentDone", "needs", "neededBy", "readyReindex", "blobSource"},
		reason:    "index.go: `mu sync.RWMutex // guards following`",
		writeOnly: map[string]string{"blobSource": "index.go: `The only write access to blobSource should be its initialization (transition from nil to non-nil), once, and protected by mu` — reads are deliberately lock-free (DESIGN §5)"}},
	{pkg: "pkg/index", typ: "deletionCache", mu: "RWMutex", fields: []string{"m"},
		reason: "index.go: deletionCache embeds sync.RWMutex for its only field m (`The caller must hold x.deletes.mu for read`)"},
	{pkg: "pkg/index", typ: "lazySortedPermanodes", mu: "mu", fields: []string{"sortedCache", "sortedCacheReversed", "ofGen"},
		reason: "corpus.go: `mu sync.Mutex // guards sortedCache and ofGen`"},
	{pkg: "pkg/index", typ: "missTrackFetcher", mu: "mu", fields: []string{"missing"},
		reason: "receive.go: `mu sync.Mutex // guards missing`"},
	{pkg: "pkg/index", typ: "trackErrorsFetcher", mu: "mu", fields: []string{"errs"},
		reason: "receive.go: mu is taken around every use of errs (Fetch appends from concurrent goroutines)"},
	{pkg: "pkg/server", typ: "SyncHandler", mu: "mu", fields: []string{"status", "copying", "needCopy", "lastFail", "bytesRemain", "recentErrors", "recentCopyTime", "totalCopies", "totalCopyBytes", "totalErrors", "vshards", "vshardDone", "vshardErrs", "vmissing", "vdestCount", "vdestBytes", "vsrcCount", "vsrcBytes", "comparedBlobs", "comparedBytes", "comparedRounds", "compareErrors", "compLastBlob"},
		reason: "sync.go: `mu sync.Mutex // protects following` (status … compLastBlob)"},
	{pkg: "pkg/sorted", typ: "memKeys", mu: "mu", fields: []string{"db"},
		reason: "mem.go: `mu sync.Mutex // guards db`"},
	{pkg: "pkg/blobserver/encrypt", typ: "metaBlobHeap", mu: "Mutex", fields: []string{"s"},
		reason: "meta.go: metaBlobHeap embeds sync.Mutex for its only field s"},
	{pkg: "pkg/sorted/buffer", typ: "KeyValue", mu: "bufMu", fields: []string{"buffered"},
		reason: "buffer.go: bufMu sits directly above buffered and is taken around every update"},
	{pkg: "pkg/schema", typ: "FileReader", mu: "blobmu", fields: []string{"lastBlob"},
		reason: "filereader.go: `blobmu sync.Mutex // guards lastBlob`"},
	{pkg: "pkg/schema", typ: "FileReader", mu: "ssmmu", fields: []string{"ssm"},
		reason: "filereader.go: `ssmmu sync.Mutex // guards ssm`"},
}

type c14FieldSpec struct {
	g     *c14Guard
	named *types.Named
	field string
	idx   int
}

// c14ResolveGuards type-resolves the table (missing type/field ⇒ exit 2).
func c14ResolveGuards(p *Program) map[*types.Named]map[int]*c14FieldSpec {
	out := map[*types.Named]map[int]*c14FieldSpec{}
	for i := range c14Guards {
		g := &c14Guards[i]
		n := p.NamedType(g.pkg, g.typ)
		st, ok := n.Underlying().(*types.Struct)
		if !ok {
			brokenf("anchor unresolved: %s.%s is not a struct", g.pkg, g.typ)
		}
		find := func(name string) int {
			for j := 0; j < st.NumFields(); j++ {
				if st.Field(j).Name() == name {
					return j
				}
			}
			brokenf("anchor unresolved: field %s.%s.%s", g.pkg, g.typ, name)
			return -1
		}
		mi := find(g.mu)
		if !IsNamed(st.Field(mi).Type(), "sync", "Mutex") && !IsNamed(st.Field(mi).Type(), "sync", "RWMutex") {
			brokenf("anchor unresolved: %s.%s.%s is not a sync.Mutex/RWMutex", g.pkg, g.typ, g.mu)
		}
		if out[n] == nil {
			out[n] = map[int]*c14FieldSpec{}
		}
		for _, f := range g.fields {
			j := find(f)
			out[n][j] = &c14FieldSpec{g: g, named: n, field: f, idx: j}
		}
	}
	return out
}

// ---------------------------------------------------------------------------
// Access events

// A c14Event is one access to guarded state.
//
//	mode 'R' / 'W'  — read / write of the field itself, of a map it holds, or an
//	                  in-place write to the backing array of a slice it holds;
//	mode 'e'        — read of slice elements through a copy of the slice header.
//	                  It conflicts only with in-place element writes (a writer
//	                  that replaces the slice or appends beyond the copied length
//	                  never touches what the copy can see), so it needs the lock
//	                  only when the field has an in-place writer somewhere;
//	mode 'x'        — the map/slice reference leaves the function (returned,
//	                  stored, sent, boxed): later uses are not followed.
type c14Event struct {
	at      ssa.Instruction
	mode    byte
	what    string
	inplace bool // a 'W' that mutates a slice's backing array in place
	// soft: a 'W' by default only — the address is handed to code whose effect is
	// not established (atomics, synchronisation primitives, dynamic calls). L-guard
	// keeps demanding the write lock; L-rlock claims definite mutations only.
	soft bool
	// pointee: an access to the object a guarded pointer field points to (a call
	// of a method whose body reads/writes through its receiver), not to the field.
	pointee bool
}

func c14Ev(at ssa.Instruction, mode byte, what string, inplace bool) c14Event {
	return c14Event{at: at, mode: mode, what: what, inplace: inplace}
}

// Hooks set per run (they need the program-wide summaries):
// c14PointeeHook adds the accesses made to the object a loaded pointer field
// points to; c14AddrCallHook refines the default "callee may write" of a field
// address handed to a call using the callee's body.
var (
	c14PointeeHook  func(fa *ssa.FieldAddr, ld *ssa.UnOp, out *[]c14Event)
	c14AddrCallHook func(c CallSite, addr ssa.Value, ev *c14Event)
)

func c14IsContainer(t types.Type) bool {
	switch t.Underlying().(type) {
	case *types.Map, *types.Slice:
		return true
	}
	return false
}

func c14IsSlice(t types.Type) bool {
	_, ok := t.Underlying().(*types.Slice)
	return ok
}

// c14AddrEvents lists the reads/writes performed through address addr (the
// address of a guarded field or of a part of it). elem: addr points into the
// backing array of a slice held by the field.
func c14AddrEvents(addr ssa.Value, elem bool, out *[]c14Event, seen map[ssa.Value]bool) {
	if seen[addr] {
		return
	}
	seen[addr] = true
	refs := addr.Referrers()
	if refs == nil {
		return
	}
	rd := byte('R')
	if elem {
		rd = 'e'
	}
	for _, u := range *refs {
		switch x := u.(type) {
		case *ssa.Store:
			if x.Addr == addr {
				*out = append(*out, c14Ev(x, 'W', map[bool]string{false: "store", true: "element store"}[elem], elem))
			} else {
				*out = append(*out, c14Event{at: x, mode: 'W', what: "address stored elsewhere", inplace: elem, soft: true})
			}
		case *ssa.UnOp:
			if x.Op == token.MUL {
				*out = append(*out, c14Ev(x, rd, map[bool]string{false: "load", true: "element load"}[elem], false))
				if !elem && c14IsContainer(x.Type()) {
					c14ValueEvents(x, out, seen)
				}
				if fa, ok := addr.(*ssa.FieldAddr); ok && !elem && c14PointeeHook != nil {
					c14PointeeHook(fa, x, out)
				}
			}
		case *ssa.FieldAddr:
			c14AddrEvents(x, elem, out, seen) // part of a guarded struct-typed field / element
		case *ssa.IndexAddr:
			c14AddrEvents(x, elem, out, seen) // element of a guarded array-typed field
		case *ssa.Slice:
			*out = append(*out, c14Ev(x, rd, "slice of array", false))
		case ssa.CallInstruction:
			// &field handed to a call: the callee may write through it, unless its body shows otherwise
			ev := c14Event{at: x, mode: 'W', what: "address passed to " + (CallSite{x.Parent(), x}).CalleeKey(), inplace: elem, soft: true}
			if c14AddrCallHook != nil {
				c14AddrCallHook(CallSite{x.Parent(), x}, addr, &ev)
			}
			*out = append(*out, ev)
		case *ssa.DebugRef:
		default:
			*out = append(*out, c14Event{at: u, mode: 'W', what: fmt.Sprintf("address used by %T", u), inplace: elem, soft: true})
		}
	}
}

// c14ValueEvents lists the accesses made through a loaded map/slice value v:
// the container's storage is shared with the guarded field.
func c14ValueEvents(v ssa.Value, out *[]c14Event, seen map[ssa.Value]bool) {
	if seen[v] {
		return
	}
	seen[v] = true
	refs := v.Referrers()
	if refs == nil {
		return
	}
	slice := c14IsSlice(v.Type())
	rd := byte('R')
	if slice {
		rd = 'e'
	}
	for _, u := range *refs {
		switch x := u.(type) {
		case *ssa.MapUpdate:
			if x.Map == v {
				*out = append(*out, c14Ev(x, 'W', "map update", false))
			}
		case *ssa.Lookup:
			if x.X == v {
				*out = append(*out, c14Ev(x, 'R', "map lookup", false))
			}
		case *ssa.Range:
			*out = append(*out, c14Ev(x, rd, "range", false))
			if rr := x.Referrers(); rr != nil {
				for _, n := range *rr {
					if nx, ok := n.(*ssa.Next); ok {
						*out = append(*out, c14Ev(nx, rd, "range step", false))
					}
				}
			}
		case *ssa.IndexAddr:
			if x.X == v {
				c14AddrEvents(x, true, out, seen)
			}
		case *ssa.Slice:
			if x.X == v {
				*out = append(*out, c14Ev(x, rd, "reslice", false))
				if x.High != nil && slice {
					// `f = f[:n]` kept in a field: a later append overwrites elements an older header copy still sees
					if rr := x.Referrers(); rr != nil {
						for _, ru := range *rr {
							if st, ok := ru.(*ssa.Store); ok && st.Val == ssa.Value(x) {
								if _, isField := st.Addr.(*ssa.FieldAddr); isField {
									*out = append(*out, c14Ev(st, 'W', "truncating reslice stored back (later appends overwrite in place)", true))
								}
							}
						}
					}
				}
				c14ValueEvents(x, out, seen)
			}
		case *ssa.Phi:
			c14ValueEvents(x, out, seen)
		case *ssa.ChangeType:
			c14ValueEvents(x, out, seen)
		case *ssa.Store:
			if x.Val != v {
				continue
			}
			// copied into a plain local: follow it; anywhere else the reference escapes
			if cell, ok := varOf(x.Addr); ok {
				if al, ok := cell.(*ssa.Alloc); ok && plainVariable(al) {
					followVar(al, func(ld *ssa.UnOp) { c14ValueEvents(ld, out, seen) })
					continue
				}
			}
			if _, isField := x.Addr.(*ssa.FieldAddr); isField && c14StoreIsGuardedWrite != nil && c14StoreIsGuardedWrite(x) {
				continue // stored (back) into a guarded field: that store is itself a checked write
			}
			*out = append(*out, c14Ev(x, 'x', "reference stored elsewhere", false))
		case ssa.CallInstruction:
			c := CallSite{x.Parent(), x}
			cc := x.Common()
			if b, ok := cc.Value.(*ssa.Builtin); ok {
				switch b.Name() {
				case "len", "cap":
					// reads the (already loaded) header only
				case "delete":
					*out = append(*out, c14Ev(x, 'W', "map delete", false))
				case "append":
					*out = append(*out, c14Ev(x, rd, "append (may copy the elements)", false))
				case "copy":
					if len(cc.Args) > 0 && cc.Args[0] == v {
						*out = append(*out, c14Ev(x, 'W', "copy into", true))
					} else {
						*out = append(*out, c14Ev(x, rd, "copy from", false))
					}
				case "clear":
					*out = append(*out, c14Ev(x, 'W', "clear", slice))
				default:
					*out = append(*out, c14Ev(x, rd, "builtin "+b.Name(), false))
				}
				continue
			}
			// handed to a callee: it reads the container while we hold (or do not hold) the lock;
			// for a slice the callee may also reorder/overwrite elements in place
			*out = append(*out, c14Ev(x, 'R', "container passed to "+c.CalleeKey(), false))
			if slice && !c14ReadOnlySliceCallee(c, v) {
				*out = append(*out, c14Event{at: x, mode: 'W', what: "slice passed to " + c.CalleeKey() + " (may write elements in place)", inplace: true, soft: true})
			}
		case *ssa.Return:
			*out = append(*out, c14Ev(x, 'x', "reference returned", false))
		case *ssa.MakeInterface:
			*out = append(*out, c14Ev(x, 'x', "reference boxed in an interface", false))
		case *ssa.Send:
			*out = append(*out, c14Ev(x, 'x', "reference sent on a channel", false))
		case *ssa.MakeClosure:
			*out = append(*out, c14Ev(x, 'x', "reference captured by a literal", false))
		case *ssa.DebugRef:
		}
	}
}

// c14StoreIsGuardedWrite reports whether a store targets a guard-table field
// (set by the rule once the table is resolved).
var c14StoreIsGuardedWrite func(*ssa.Store) bool

var c14ROMemo = map[c14LeakKey]int{}

// c14ReadOnlySliceCallee: the callee does not write the elements of slice
// argument v: a few library functions, or a module function whose parameter is
// only read (decided on its body, bounded depth).
func c14ReadOnlySliceCallee(c CallSite, v ssa.Value) bool {
	if c.IsStatic("strings", "", "Join") || c.IsStatic("fmt", "", "Sprintf") || c.IsStatic("fmt", "", "Sprint") ||
		c.IsStatic("fmt", "", "Fprintf") || c.IsStatic("fmt", "", "Errorf") || c.IsStatic("log", "", "Printf") ||
		c.IsStatic("slices", "", "Contains") || c.IsStatic("slices", "", "Clone") {
		return true
	}
	callee := c.Callee()
	if callee == nil || len(callee.Blocks) == 0 || c.IsGo() {
		return false
	}
	for j, arg := range c.Args() {
		if arg != v {
			continue
		}
		if j >= len(callee.Params) || !c14ParamReadOnly(callee, j, 0) {
			return false
		}
	}
	return true
}

func c14ParamReadOnly(fn *ssa.Function, idx, depth int) bool {
	k := c14LeakKey{fn, idx}
	switch c14ROMemo[k] {
	case 1, 2:
		return true
	case 3:
		return false
	}
	if depth > 3 {
		return false
	}
	c14ROMemo[k] = 1
	var evs []c14Event
	c14ValueEvents(fn.Params[idx], &evs, map[ssa.Value]bool{})
	ro := true
	for _, ev := range evs {
		if ev.mode == 'W' || ev.mode == 'x' {
			ro = false
		}
	}
	if ro {
		c14ROMemo[k] = 2
	} else {
		c14ROMemo[k] = 3
	}
	return ro
}

// ---------------------------------------------------------------------------
// Freshness: an object allocated in this function that has not been published.

type c14FreshInfo struct {
	published map[ssa.Value]map[ssa.Instruction]bool // instructions that run after some publication
	leakMemo  map[c14LeakKey]int                     // 0 unknown, 1 in progress, 2 no leak, 3 leaks
}

type c14LeakKey struct {
	fn  *ssa.Function
	idx int
}

// leaks reports whether fn may make its idx-th parameter reachable by another
// goroutine or retain it: store it anywhere but a plain local, pass it to go,
// to an interface/dynamic/external call or to a callee that leaks it, convert
// it to an interface, capture it in a literal, or return it. Uses through
// fields and lock operations are not leaks. Bounded depth; recursion is assumed
// not to leak.
func (fi *c14FreshInfo) leaks(fn *ssa.Function, idx int, depth int) bool {
	if fn == nil || len(fn.Blocks) == 0 || idx >= len(fn.Params) {
		return true
	}
	if isLockWrapper(fn) {
		return false
	}
	k := c14LeakKey{fn, idx}
	switch fi.leakMemo[k] {
	case 1, 2:
		return false
	case 3:
		return true
	}
	if depth > 5 {
		return true
	}
	fi.leakMemo[k] = 1
	leak := false
	seen := map[ssa.Value]bool{}
	var walk func(v ssa.Value)
	walk = func(v ssa.Value) {
		if seen[v] || leak {
			return
		}
		seen[v] = true
		refs := v.Referrers()
		if refs == nil {
			return
		}
		for _, u := range *refs {
			switch x := u.(type) {
			case *ssa.FieldAddr, *ssa.Field, *ssa.DebugRef, *ssa.UnOp, *ssa.BinOp, *ssa.If:
			case *ssa.Phi:
				walk(x)
			case *ssa.ChangeType:
				walk(x)
			case *ssa.Store:
				if x.Val != v {
					continue
				}
				al, ok := x.Addr.(*ssa.Alloc)
				if !ok || !plainVariable(al) {
					leak = true
					continue
				}
				followVar(al, func(ld *ssa.UnOp) {
					if ld.Parent() != fn && !c14LitRunsWithin(ld.Parent(), fn) {
						leak = true // captured by a literal that may outlive or run beside fn
						return
					}
					walk(ld) // in fn, or in a literal fn only calls / defers itself: its uses are fn's uses
				})
			case *ssa.Go:
				leak = true
			case ssa.CallInstruction:
				c := CallSite{x.Parent(), x}
				if _, _, ok := mutexOp(c); ok {
					continue
				}
				callee := c.Callee()
				if callee == nil {
					leak = true
					continue
				}
				for j, arg := range c.Args() {
					if arg == v && fi.leaks(callee, j, depth+1) {
						leak = true
					}
				}
			default:
				leak = true
			}
		}
	}
	walk(fn.Params[idx])
	if leak {
		fi.leakMemo[k] = 3
	} else {
		fi.leakMemo[k] = 2
	}
	return leak
}

// c14LitRunsWithin: lit is a function literal nested in outer that only ever runs
// synchronously inside it — at every level the literal's value is called or
// deferred directly (possibly after being kept in a plain local variable), never
// started with go, stored elsewhere, returned or passed on.
func c14LitRunsWithin(lit, outer *ssa.Function) bool {
	for lit != outer {
		parent := lit.Parent()
		if parent == nil {
			return false
		}
		okAll := true
		found := false
		var check func(v ssa.Value, seen map[ssa.Value]bool)
		check = func(v ssa.Value, seen map[ssa.Value]bool) {
			if seen[v] || !okAll {
				return
			}
			seen[v] = true
			refs := v.Referrers()
			if refs == nil {
				return
			}
			for _, u := range *refs {
				switch x := u.(type) {
				case *ssa.DebugRef:
				case *ssa.Call:
					if x.Call.Value != v {
						okAll = false
					}
				case *ssa.Defer:
					if x.Call.Value != v {
						okAll = false
					}
				case *ssa.Store:
					al, isAl := x.Addr.(*ssa.Alloc)
					if x.Val != v || !isAl || !plainVariable(al) {
						okAll = false
						continue
					}
					followVar(al, func(ld *ssa.UnOp) {
						if ld.Parent() != parent {
							okAll = false
							return
						}
						check(ld, seen)
					})
				default:
					okAll = false
				}
			}
		}
		for _, b := range parent.Blocks {
			for _, in := range b.Instrs {
				if mc, ok := in.(*ssa.MakeClosure); ok && mc.Fn == ssa.Value(lit) {
					found = true
					check(mc, map[ssa.Value]bool{})
				}
			}
		}
		if !found || !okAll {
			return false
		}
		lit = parent
	}
	return true
}

func (fi *c14FreshInfo) afterPublish(a ssa.Value) map[ssa.Instruction]bool {
	if m, ok := fi.published[a]; ok {
		return m
	}
	m := map[ssa.Instruction]bool{}
	fi.published[a] = m
	var pubs []ssa.Instruction
	seen := map[ssa.Value]bool{}
	var walk func(v ssa.Value)
	walk = func(v ssa.Value) {
		if seen[v] {
			return
		}
		seen[v] = true
		refs := v.Referrers()
		if refs == nil {
			return
		}
		for _, u := range *refs {
			switch x := u.(type) {
			case *ssa.FieldAddr, *ssa.DebugRef:
			case *ssa.UnOp: // load of the struct value itself: not a publication
			case *ssa.Store:
				if x.Val != v {
					continue
				}
				if cell, ok := varOf(x.Addr); ok {
					if al, ok := cell.(*ssa.Alloc); ok && ssa.Value(al) != a && plainVariable(al) && al.Parent() == a.Parent() {
						captured := false
						followVar(al, func(ld *ssa.UnOp) {
							if ld.Parent() != a.Parent() {
								captured = true
							}
							walk(ld)
						})
						if captured {
							// used from a literal: the literal's creation publishes it
							pubs = append(pubs, x)
						}
						continue
					}
				}
				pubs = append(pubs, x)
			case *ssa.Phi:
				walk(x)
			case *ssa.ChangeType:
				walk(x)
			case ssa.CallInstruction:
				c := CallSite{x.Parent(), x}
				if _, isGo := x.(*ssa.Go); !isGo {
					if callee := c.Callee(); callee != nil {
						leak := false
						for j, arg := range c.Args() {
							if arg == v && fi.leaks(callee, j, 0) {
								leak = true
							}
						}
						if !leak {
							continue // the callee only uses the object (fields, non-leaking methods): not a publication
						}
					}
				}
				pubs = append(pubs, x)
			default:
				if in, ok := u.(ssa.Instruction); ok {
					pubs = append(pubs, in)
				}
			}
		}
	}
	walk(a)
	for _, e := range pubs {
		if e.Parent() != a.Parent() {
			continue
		}
		for in := range ReachableFrom(e, nil) {
			m[in] = true
		}
	}
	return m
}

// freshAt reports whether base (the pointer an access goes through) is an
// object allocated in the access's own function and not yet published at `at`.
// A publishing call instruction itself still counts as pre-publication for the
// *arguments* evaluation but not for the callee, so callers pass the access
// instruction, never the call.
func (fi *c14FreshInfo) freshAt(base ssa.Value, at ssa.Instruction) bool {
	var root ssa.Value
	switch o := originValue(base).(type) {
	case *ssa.Alloc:
		if o.Parent() != at.Parent() {
			return false
		}
		root = o
	case *ssa.Call:
		// result of a constructor: a function all of whose returns yield an object it allocated
		if o.Parent() != at.Parent() || !c14ReturnsFresh(o.Call.StaticCallee()) {
			return false
		}
		root = o
	default:
		return false
	}
	return !fi.afterPublish(root)[at]
}

// ---------------------------------------------------------------------------
// Inter-procedural entry locksets

type c14Ctx struct {
	p      *Program
	fresh  *c14FreshInfo
	entry  map[*ssa.Function]LockSet   // top-level function -> inferred/declared entry lockset
	li     map[*ssa.Function]*LockInfo // per round
	decl   map[*ssa.Function]*c14Req   // lock-requiring functions (L-locked)
	inv    map[string]bool             // method names invoked through some interface in module code
	guards map[*types.Named]map[int]*c14FieldSpec
	elig   map[*ssa.Function]bool
	eligOK map[*ssa.Function]bool
	// extraRoots: functions touching state checked by L-unsync / L-rlock (their entry locksets are inferred too)
	extraRoots []*ssa.Function
	// grants: per top-level function, the "installed fresh object" lock grants (see c14Grant)
	grants    map[*ssa.Function][]*c14Grant
	grantWhy  map[*ssa.Function]map[string]string // top -> granted lock path -> why (for the evidence text)
	ownedMemo map[c14LeakKey]int                  // 0 unknown, 1 in progress, 2 owned, 3 not owned
}

func c14NewCtx(p *Program) *c14Ctx {
	cx := &c14Ctx{p: p, fresh: &c14FreshInfo{published: map[ssa.Value]map[ssa.Instruction]bool{}, leakMemo: map[c14LeakKey]int{}},
		entry: map[*ssa.Function]LockSet{}, li: map[*ssa.Function]*LockInfo{}, decl: map[*ssa.Function]*c14Req{},
		inv: map[string]bool{}, elig: map[*ssa.Function]bool{}, eligOK: map[*ssa.Function]bool{},
		grants: map[*ssa.Function][]*c14Grant{}, grantWhy: map[*ssa.Function]map[string]string{}, ownedMemo: map[c14LeakKey]int{}}
	for _, f := range p.AllFuncs {
		for _, c := range CallsIn(f, false) {
			if cc := c.Common(); cc.IsInvoke() {
				cx.inv[cc.Method.Name()] = true
			}
		}
	}
	return cx
}

func (cx *c14Ctx) lockInfo(top *ssa.Function) *LockInfo {
	if li, ok := cx.li[top]; ok {
		return li
	}
	e := cx.entry[top]
	if e == nil {
		e = LockSet{}
	}
	li := AnalyzeLocks(top, e)
	cx.li[top] = li
	if gs := cx.grants[top]; len(gs) > 0 {
		cx.applyGrants(li, top, e, gs)
	}
	return li
}

// eligible: the entry lockset of fn may be inferred from its callers — an
// unexported, declared, module function that is only ever called statically.
func (cx *c14Ctx) eligible(fn *ssa.Function) bool {
	if v, ok := cx.eligOK[fn]; ok && v {
		return cx.elig[fn]
	}
	cx.eligOK[fn] = true
	ok := fn.Parent() == nil && InModule(fn) && fn.Synthetic == "" && !token.IsExported(fn.Name()) && fn.Name() != "init" && fn.Name() != "main" &&
		len(cx.p.StaticCallers(fn)) > 0 && len(cx.p.FuncValueUses(fn)) == 0
	if ok && fn.Signature.Recv() != nil && cx.inv[fn.Name()] && len(cx.p.InvokeSites(fn)) > 0 {
		ok = false
	}
	cx.elig[fn] = ok
	return ok
}

// toCallee rewrites the caller-side lockset held at call site c into the
// callee's terms (parameter-rooted paths; package-level mutexes unchanged).
func (cx *c14Ctx) toCallee(c CallSite, callee *ssa.Function, held LockSet) LockSet {
	out := LockSet{}
	args := c.Args()
	// an argument that is a not-yet-published object of a guarded type: nobody can
	// contend for its mutexes, so they count as held for the callee
	for i, prm := range callee.Params {
		if i >= len(args) {
			break
		}
		n := NamedOf(prm.Type())
		if n == nil || cx.guards[n] == nil || !cx.fresh.freshAt(args[i], c.Instr) {
			continue
		}
		for _, fs := range cx.guards[n] {
			out["&"+prm.Name()+"."+fs.g.mu] = 'W'
		}
	}
	for hp, mode := range held {
		if strings.HasPrefix(hp, "&global:") {
			out[hp] = mode
			continue
		}
		for i, prm := range callee.Params {
			if i >= len(args) {
				break
			}
			ap := AccessPath(args[i])
			if ap == "" || strings.HasPrefix(ap, "&") || strings.HasPrefix(ap, "*") {
				continue
			}
			if strings.HasPrefix(hp, "&"+ap+".") {
				out["&"+prm.Name()+hp[len("&"+ap):]] = mode
			} else if strings.HasPrefix(hp, ap+".") {
				// a mutex held through a pointer field (`x.mu *sync.RWMutex`): value path "x.mu"
				out[prm.Name()+hp[len(ap):]] = mode
			}
		}
	}
	return out
}

// heldAtSite: the lockset a callee starts with when called from site c.
func (cx *c14Ctx) heldAtSite(c CallSite) LockSet {
	if c.IsGo() {
		return LockSet{}
	}
	top := TopFunc(c.Fn)
	li := cx.lockInfo(top)
	if d, ok := c.Instr.(*ssa.Defer); ok {
		return li.atExits(c.Fn, d)
	}
	return li.HeldAt(c.Instr)
}

// inferEntries computes the least fixpoint of
//
//	entry(f) = declared(f)                         if f is lock-requiring by contract
//	         = ⊓ { toCallee(held at c) | c calls f } if f is eligible (self-recursive sites ignored, then verified)
//	         = {}                                    otherwise
//
// over the static-caller closure of roots.
func (cx *c14Ctx) inferEntries(roots []*ssa.Function) {
	rel := map[*ssa.Function]bool{}
	var order []*ssa.Function
	var add func(f *ssa.Function)
	add = func(f *ssa.Function) {
		f = TopFunc(f)
		if rel[f] {
			return
		}
		rel[f] = true
		order = append(order, f)
		if !cx.eligible(f) {
			return
		}
		for _, c := range cx.p.StaticCallers(f) {
			add(c.Fn)
		}
	}
	for _, f := range roots {
		add(f)
	}
	for f, rq := range cx.decl {
		if rq.path != "" {
			cx.entry[f] = LockSet{rq.path: 'W'} // optimistic inside; the mode each call site must hold is the mode the body needs
		}
	}
	for round := 0; round < 12; round++ {
		changed := false
		next := map[*ssa.Function]LockSet{}
		for _, f := range order {
			if !cx.eligible(f) {
				continue
			}
			var e LockSet
			first := true
			for _, c := range cx.p.StaticCallers(f) {
				if TopFunc(c.Fn) == f {
					continue // self-recursion: verified below
				}
				h := cx.toCallee(c, f, cx.heldAtSite(c))
				if first {
					e, first = h, false
				} else {
					e = meet(e, h)
				}
			}
			if e == nil {
				e = LockSet{}
			}
			if rq := cx.decl[f]; rq != nil && rq.path != "" {
				// lock-requiring by contract: the contract lock is assumed inside (each call site is an
				// L-locked obligation); whatever else every static caller holds is a fact like for any helper
				e = e.clone()
				e[rq.path] = 'W'
			}
			next[f] = e
		}
		for f, e := range next {
			old := cx.entry[f]
			if old == nil {
				old = LockSet{}
			}
			if !equalLS(old, e) {
				cx.entry[f] = e
				changed = true
			}
		}
		cx.li = map[*ssa.Function]*LockInfo{}
		if !changed {
			break
		}
	}
	// self-recursive call sites must re-establish the entry lockset
	for _, f := range order {
		e := cx.entry[f]
		if len(e) == 0 || !cx.eligible(f) {
			continue
		}
		for _, c := range cx.p.StaticCallers(f) {
			if TopFunc(c.Fn) != f {
				continue
			}
			h := cx.toCallee(c, f, cx.heldAtSite(c))
			if rq := cx.decl[f]; rq != nil && rq.path != "" {
				h[rq.path] = 'W'
			}
			if !equalLS(meet(e, h), e) {
				cx.entry[f] = meet(e, h)
				cx.li = map[*ssa.Function]*LockInfo{}
			}
		}
	}
}

// ---------------------------------------------------------------------------
// Installed fresh objects: lock grants
//
// A function that builds a NEW object of a guard-table type and installs it in a
// field of an object it owns exclusively (`x.deletes = &deletionCache{...}` /
// `= newDeletionCache()`, then fills x.deletes.m) cannot contend with anybody for
// the new object's mutex: the only way to the new object is through the owner,
// and nobody else has the owner. From the installing store on, the new object's
// own mutexes therefore count as held for writing — in the function itself, in
// the literals it runs synchronously and (through the ordinary entry-lockset
// inference) in the unexported helpers it hands the owner or the new object to.
//
// Everything is decided by role, nothing by the name of the installing function
// or of a constructor:
//   - the stored value is an object allocated in this function (composite
//     literal, new) or the result of a function all of whose returns yield an
//     object it allocated, and the store is its first publication;
//   - every store to that field in the function (literals included) is such a
//     store, so a later load of the field yields the new object;
//   - the owner is exclusively owned: it is itself allocated here and still
//     unpublished at the access, or it is a parameter of an unexported function
//     that is never used as a value / through an interface and every static
//     call of which passes an unpublished object, lies in a start-up function
//     of c14StartupOwners, or passes on a parameter with the same property
//     (helpers of accepted callers, depth 4); in the parameter case the store
//     must also execute with a mutex of the owner held for writing.

// c14StartupOwners: functions that own their receiver exclusively although it is
// published (frozen: symbol, reason).
var c14StartupOwners = map[string]string{
	"pkg/index.(*Index).Reindex": "start-up only: its single non-test caller is serverinit's handler loader, which runs the reindex before serverinit installs the index and before serving starts (same reason the previous per-function exception gave)",
}

type c14Grant struct {
	st         *ssa.Store
	owner      ssa.Value // the object whose field receives the new object
	ownerParam int       // index of the parameter of st.Parent() the owner is, or -1: the owner must be unpublished at the access
	ownerPath  string
	locks      []string // caller-side paths of the installed object's mutexes, e.g. "&x.deletes.RWMutex"
	what       string
}

// c14CollectGrants enumerates the candidate grants of the module.
func c14CollectGrants(p *Program, cx *c14Ctx, guards map[*types.Named]map[int]*c14FieldSpec) {
	type fk struct {
		top *ssa.Function
		n   *types.Named
		i   int
	}
	bad := map[fk]bool{}
	cand := map[fk][]*c14Grant{}
	var order []fk
	for _, fn := range p.AllFuncs {
		for _, b := range fn.Blocks {
			for _, in := range b.Instrs {
				st, ok := in.(*ssa.Store)
				if !ok {
					continue
				}
				fa, ok := st.Addr.(*ssa.FieldAddr)
				if !ok {
					continue
				}
				pt, ok := st.Val.Type().Underlying().(*types.Pointer)
				if !ok {
					continue
				}
				tn := NamedOf(pt.Elem())
				if tn == nil || guards[tn] == nil {
					continue
				}
				on := NamedOf(fa.X.Type())
				if on == nil {
					continue
				}
				k := fk{TopFunc(fn), on, fa.Field}
				if _, seen := cand[k]; !seen && !bad[k] {
					order = append(order, k)
				}
				if !cx.fresh.freshAt(st.Val, st) {
					bad[k] = true
					continue
				}
				g := &c14Grant{st: st, owner: fa.X, ownerParam: -1, ownerPath: AccessPath(fa.X)}
				if prm, isP := originValue(fa.X).(*ssa.Parameter); isP && fn.Parent() == nil {
					for i, q := range fn.Params {
						if q == prm {
							g.ownerParam = i
						}
					}
				}
				if g.ownerParam < 0 && !cx.fresh.freshAt(fa.X, st) {
					bad[k] = true
					continue
				}
				ap := AccessPath(fa)
				if !strings.HasPrefix(ap, "&") {
					bad[k] = true
					continue
				}
				var mus []string
				for _, fs := range guards[tn] {
					mus = append(mus, fs.g.mu)
				}
				for _, mu := range dedupe(mus) {
					g.locks = append(g.locks, ap+"."+mu)
				}
				sort.Strings(g.locks)
				g.what = fmt.Sprintf("new %s installed in %s.%s", tn.Obj().Name(), on.Obj().Name(), fieldName(fa.X.Type(), fa.Field))
				cand[k] = append(cand[k], g)
			}
		}
	}
	for _, k := range order {
		if bad[k] {
			continue
		}
		cx.grants[k.top] = append(cx.grants[k.top], cand[k]...)
	}
}

// owned: parameter idx of fn always denotes an object no other goroutine uses
// while fn runs (see the section comment).
func (cx *c14Ctx) owned(fn *ssa.Function, idx, depth int) bool {
	if fn == nil || fn.Parent() != nil || idx >= len(fn.Params) {
		return false
	}
	k := c14LeakKey{fn, idx}
	switch cx.ownedMemo[k] {
	case 1, 2:
		return true // in progress: recursion re-establishes what the outer call needs
	case 3:
		return false
	}
	if depth > 4 || !cx.eligible(fn) {
		cx.ownedMemo[k] = 3
		return false
	}
	cx.ownedMemo[k] = 1
	ok := true
	for _, c := range cx.p.StaticCallers(fn) {
		args := c.Args()
		if c.IsGo() || idx >= len(args) {
			ok = false
			break
		}
		if cx.fresh.freshAt(args[idx], c.Instr) {
			continue
		}
		if _, startup := c14StartupOwners[FuncKey(TopFunc(c.Fn))]; startup {
			continue
		}
		passed := false
		if prm, isP := originValue(args[idx]).(*ssa.Parameter); isP && c.Fn.Parent() == nil {
			for i, q := range c.Fn.Params {
				if q == prm && cx.owned(c.Fn, i, depth+1) {
					passed = true
				}
			}
		}
		if !passed {
			ok = false
			break
		}
	}
	if ok {
		cx.ownedMemo[k] = 2
	} else {
		cx.ownedMemo[k] = 3
	}
	return ok
}

const c14ProbeLock = "&<c14-probe>"

// applyGrants adds the granted locks to the must-hold locksets of top (and of
// the literals that inherit their creator's lockset) after the installing store.
func (cx *c14Ctx) applyGrants(li *LockInfo, top *ssa.Function, entry LockSet, gs []*c14Grant) {
	var probe *LockInfo
	add := func(in ssa.Instruction, g *c14Grant) {
		ls := li.before[in]
		if ls == nil {
			ls = LockSet{}
			li.before[in] = ls
		}
		for _, l := range g.locks {
			ls[l] = 'W'
		}
	}
	var whole func(f *ssa.Function, g *c14Grant)
	inherits := func(lit *ssa.Function) bool {
		if probe == nil {
			e := entry.clone()
			if e == nil {
				e = LockSet{}
			}
			e[c14ProbeLock] = 'W'
			probe = AnalyzeLocks(top, e)
		}
		_, ok := probe.entry[lit][c14ProbeLock]
		return ok
	}
	whole = func(f *ssa.Function, g *c14Grant) {
		for _, b := range f.Blocks {
			for _, in := range b.Instrs {
				add(in, g)
			}
		}
		for _, a := range f.AnonFuncs {
			if inherits(a) {
				whole(a, g)
			}
		}
	}
	for _, g := range gs {
		f := g.st.Parent()
		why := ""
		if g.ownerParam >= 0 {
			if !cx.owned(f, g.ownerParam, 0) {
				continue
			}
			heldW := false
			for l, m := range li.HeldAt(g.st) {
				if m == 'W' && strings.HasPrefix(l, "&"+g.ownerPath+".") {
					heldW = true
				}
			}
			if !heldW {
				continue
			}
			why = fmt.Sprintf("%s at %s with a mutex of %s held for writing; every static call of %s passes an unpublished %s or lies in a start-up function, so nobody can contend for the new object", g.what, cx.p.Pos(g.st.Pos()), g.ownerPath, FuncKey(f), g.ownerPath)
		} else {
			why = fmt.Sprintf("%s at %s; the owner is allocated in %s and not yet published", g.what, cx.p.Pos(g.st.Pos()), FuncKey(f))
		}
		n := 0
		sb := g.st.Block()
		si := instrIndex(g.st)
		for _, b := range f.Blocks {
			var ins []ssa.Instruction
			switch {
			case b == sb:
				ins = b.Instrs[si+1:]
			case sb.Dominates(b):
				ins = b.Instrs
			}
			for _, in := range ins {
				if g.ownerParam < 0 && !cx.fresh.freshAt(g.owner, in) {
					continue
				}
				add(in, g)
				n++
				if mc, ok := in.(*ssa.MakeClosure); ok && g.ownerParam >= 0 {
					// a literal created after the store that runs under its creator's lockset
					lit := mc.Fn.(*ssa.Function)
					all := true
					for _, b2 := range f.Blocks {
						for _, in2 := range b2.Instrs {
							if mc2, ok := in2.(*ssa.MakeClosure); ok && mc2.Fn == mc.Fn && !Precedes(g.st, in2) {
								all = false
							}
						}
					}
					if all && inherits(lit) {
						whole(lit, g)
					}
				}
			}
		}
		if n > 0 {
			if cx.grantWhy[top] == nil {
				cx.grantWhy[top] = map[string]string{}
			}
			for _, l := range g.locks {
				cx.grantWhy[top][l] = why
			}
		}
	}
}

// ---------------------------------------------------------------------------
// L-locked: lock-requiring functions

type c14Req struct {
	fn      *ssa.Function
	path    string // callee-side lock path, e.g. "&x.mu"
	why     string
	need    byte // mode the body needs: 'R' or 'W' (computed)
	viaHeap bool
}

// c14DocLocked: functions whose doc comment states the requirement (frozen:
// symbol, mutex field of the receiver, the comment's wording).
var c14DocLocked = []struct{ pkg, recv, name, mu, why string }{
	{"pkg/blobserver/proxycache", "Storage", "removeOldest", "mu", "doc: `must hold sto.mu.`"},
	{"pkg/index", "Index", "initDeletesCacheLocked", "mu", "doc: `x.mu must be held by the caller.`"},
	{"pkg/index", "Index", "initNeededMapsLocked", "mu", "doc: `x.mu must be held.`"},
	{"pkg/index", "Index", "noteBlobIndexedLocked", "mu", "doc: `ix.mu must be held.`"},
}

func runC14(p *Program, r *Reporter) {
	guards := c14ResolveGuards(p)
	cx := c14NewCtx(p)
	cx.guards = guards
	c14ROMemo = map[c14LeakKey]int{} // per program: selftest loads many
	c14StoreIsGuardedWrite = func(st *ssa.Store) bool {
		fa, ok := st.Addr.(*ssa.FieldAddr)
		if !ok {
			return false
		}
		n := NamedOf(fa.X.Type())
		return n != nil && guards[n][fa.Field] != nil
	}
	t0 := time.Now()
	sm := c14NewSumm(p, cx)
	c14InstallHooks(sm)
	unsyncAccs, rlAccs, extraRoots := c14ScanOwned(p, sm, guards)
	excl, exclRoots := c14ExclScan(p, guards)
	cx.extraRoots = append(extraRoots, exclRoots...)
	c14RuleGuardAndLocked(p, r, cx, guards)
	t1 := time.Now()
	c14RuleUnsync(p, r, cx, sm, unsyncAccs)
	c14RuleRLock(p, r, cx, rlAccs)
	c14RuleExcl(p, r, cx, excl)
	t2 := time.Now()
	c14RuleCorpus(p, r, cx)
	c14RulePendingShared(p, r)
	r.Note("rule time after loading: L-guard+L-locked %.2fs, L-unsync+L-rlock+L-excl %.2fs, L-corpus %.2fs", t1.Sub(t0).Seconds(), t2.Sub(t1).Seconds(), time.Since(t2).Seconds())
}

// c14RulePendingShared is C05's I-recent reported under C14 as L-pending (like
// E-close/G-enum): the recentDone / readyReindex / pending-map discipline is
// the mechanism that makes CONCURRENT receives of a blob and of its
// dependency end in the state some sequential order would give - a receive
// that looked its dependency up just before another client's receive indexed
// it is released by recentDone at MarkDone. Without it all three receives are
// acknowledged but the dependant stays unindexed, which no sequential order
// of the same calls produces.
func c14RulePendingShared(p *Program, r *Reporter) {
	sub := NewReporter("C05", p)
	c05RuleRecent(p, sub)
	for _, o := range sub.Obls {
		if o.Rule != "I-recent" {
			continue
		}
		r.add("L-pending", o.Construct, o.Site, o.Status, o.Nontrivial, o.Detail)
	}
	r.Floor("L-pending", sub.floors["I-recent"])
}

type c14Access struct {
	fn   *ssa.Function
	fa   *ssa.FieldAddr
	spec *c14FieldSpec
	evs  []c14Event
}

func c14RuleGuardAndLocked(p *Program, r *Reporter, cx *c14Ctx, guards map[*types.Named]map[int]*c14FieldSpec) {
	// 1. enumerate accesses
	var accs []*c14Access
	fnHas := map[*ssa.Function]bool{}
	for _, fn := range p.AllFuncs {
		for _, b := range fn.Blocks {
			for _, in := range b.Instrs {
				switch x := in.(type) {
				case *ssa.FieldAddr:
					n := NamedOf(x.X.Type())
					if n == nil {
						continue
					}
					spec := guards[n][x.Field]
					if spec == nil {
						continue
					}
					a := &c14Access{fn: fn, fa: x, spec: spec}
					c14AddrEvents(x, false, &a.evs, map[ssa.Value]bool{})
					accs = append(accs, a)
					fnHas[TopFunc(fn)] = true
				case *ssa.Field:
					if n := NamedOf(x.X.Type()); n != nil && guards[n][x.Field] != nil {
						r.Undecided("L-guard", FuncKey(fn)+"#"+guards[n][x.Field].field, p.Pos(x.Pos()), "guarded struct is accessed by value (copy of a struct containing a mutex): not modelled")
					}
				}
			}
		}
	}
	// 2. lock-requiring functions by contract
	c14CollectDeclared(p, cx, guards)
	c14CollectGrants(p, cx, guards)
	var roots []*ssa.Function
	for f := range fnHas {
		roots = append(roots, f)
	}
	for f := range cx.decl {
		for _, c := range p.StaticCallers(f) {
			roots = append(roots, TopFunc(c.Fn))
		}
	}
	roots = append(roots, cx.extraRoots...)
	sort.Slice(roots, func(i, j int) bool { return FuncKey(roots[i]) < FuncKey(roots[j]) })
	cx.inferEntries(roots)

	// 3. which fields are written after construction?
	type fkey struct {
		n *types.Named
		i int
	}
	postWrite := map[fkey]string{}
	inPlace := map[fkey]string{}
	pointeeWrite := map[fkey]string{} // fields whose pointed-to object has an unsynchronised mutator called on it
	for _, a := range accs {
		for _, ev := range a.evs {
			if ev.mode == 'W' && !cx.fresh.freshAt(a.fa.X, ev.at) {
				k := fkey{a.spec.named, a.spec.idx}
				where := FuncKey(a.fn) + " (" + p.Pos(c14InstrPos(ev.at)) + ")"
				if ev.pointee {
					// the pointed-to object is mutated, the field itself is not
					if _, ok := pointeeWrite[k]; !ok {
						pointeeWrite[k] = where
					}
					continue
				}
				if _, ok := postWrite[k]; !ok {
					postWrite[k] = where
				}
				if ev.inplace {
					if _, ok := inPlace[k]; !ok {
						inPlace[k] = ev.what + " in " + where
					}
				}
			}
		}
	}

	// 4. decide, grouped per function × field
	type gkey struct {
		fn    *ssa.Function
		field string
	}
	groups := map[gkey][]*c14Access{}
	var gorder []gkey
	for _, a := range accs {
		k := gkey{a.fn, a.spec.g.typ + "." + a.spec.field}
		if _, ok := groups[k]; !ok {
			gorder = append(gorder, k)
		}
		groups[k] = append(groups[k], a)
	}
	nEvents := 0
	for _, k := range gorder {
		as := groups[k]
		spec := as[0].spec
		fk := fkey{spec.named, spec.idx}
		construct := FuncKey(k.fn) + "#" + spec.field
		site := p.Pos(as[0].fa.Pos())
		top := TopFunc(k.fn)
		li := cx.lockInfo(top)
		var bad, undec []string
		nFresh, nHeld, nNoWriter, nWO, nElem, nPtrRead := 0, 0, 0, 0, 0, 0
		var lockNames []string
		for _, a := range as {
			ap := AccessPath(a.fa)
			suffix := "." + spec.field
			lock := ""
			if strings.HasSuffix(ap, suffix) && strings.HasPrefix(ap, "&") {
				lock = ap[:len(ap)-len(suffix)] + "." + spec.g.mu
			}
			for _, ev := range a.evs {
				nEvents++
				if cx.fresh.freshAt(a.fa.X, ev.at) {
					nFresh++
					continue
				}
				mode := ev.mode
				switch mode {
				case 'e':
					if _, ip := inPlace[fk]; !ip {
						nElem++
						continue // header copied under the lock (checked at its load); elements are never written in place
					}
					mode = 'R'
				case 'x':
					if c14IsSlice(a.fa.Type().(*types.Pointer).Elem()) {
						if _, ip := inPlace[fk]; !ip {
							nElem++
							continue
						}
					}
					if _, w := postWrite[fk]; !w {
						nNoWriter++
						continue
					}
					undec = append(undec, fmt.Sprintf("%s at %s: the %s is shared with code this rule does not follow", ev.what, p.Pos(ev.at.Pos()), map[bool]string{true: "slice (written in place by " + inPlace[fk] + ")", false: "map"}[c14IsSlice(a.fa.Type().(*types.Pointer).Elem())]))
					continue
				}
				if ev.pointee && mode == 'R' {
					// a reading method of the pointed-to object conflicts only with its mutators
					if _, w := pointeeWrite[fk]; !w {
						nPtrRead++
						continue
					}
				} else if mode == 'R' {
					if _, ok := spec.g.writeOnly[spec.field]; ok {
						nWO++
						continue
					}
					if _, w := postWrite[fk]; !w {
						nNoWriter++
						continue
					}
				}
				if lock == "" {
					undec = append(undec, fmt.Sprintf("%s at %s: cannot name the owning object (%s)", ev.what, p.Pos(ev.at.Pos()), ap))
					continue
				}
				if li.Holds(ev.at, lock, mode) {
					nHeld++
					lockNames = append(lockNames, lock)
					continue
				}
				held := li.HeldAt(ev.at)
				need := "for reading"
				if mode == 'W' {
					need = "for writing"
				}
				msg := fmt.Sprintf("%s of %s.%s at %s without %s held %s (held: %s; entry lockset of %s: %s)", ev.what, spec.g.typ, spec.field, p.Pos(ev.at.Pos()), lock, need, held, FuncKey(top), c14EntryDesc(cx, top))
				if mode == 'R' && ev.pointee {
					msg += "; races with the mutating call in " + pointeeWrite[fk]
				} else if mode == 'R' {
					msg += "; races with the write in " + postWrite[fk]
					if ev.mode == 'e' {
						msg += " / in-place " + inPlace[fk]
					}
				}
				bad = append(bad, msg)
			}
		}
		switch {
		case len(bad) > 0:
			r.Violation("L-guard", construct, site, strings.Join(bad, " | "))
		case len(undec) > 0:
			r.Undecided("L-guard", construct, site, strings.Join(undec, " | "))
		default:
			d := fmt.Sprintf("%d access event(s): %d with %s held", nFresh+nHeld+nNoWriter+nWO+nElem+nPtrRead, nHeld, strings.Join(dedupe(lockNames), ","))
			if e := cx.entry[top]; len(e) > 0 && nHeld > 0 {
				d += " (entry lockset " + c14EntryDesc(cx, top) + ")"
			}
			for _, l := range dedupe(lockNames) {
				if why, ok := cx.grantWhy[top][l]; ok {
					d += "; " + l + " counts as held: " + why
				}
			}
			if nFresh > 0 {
				d += fmt.Sprintf(", %d on a not-yet-published object", nFresh)
			}
			if nElem > 0 {
				d += fmt.Sprintf(", %d element read(s)/hand-over(s) through a slice header copied under the lock (no in-place element writer exists)", nElem)
			}
			if nNoWriter > 0 {
				d += fmt.Sprintf(", %d read(s) of a field with no post-construction writer", nNoWriter)
			}
			if nWO > 0 {
				d += fmt.Sprintf(", %d read(s) exempt: %s", nWO, spec.g.writeOnly[spec.field])
			}
			if nPtrRead > 0 {
				d += fmt.Sprintf(", %d call(s) that only read the pointed-to object, which no call mutates without a lock of its own", nPtrRead)
			}
			if nHeld == 0 && nFresh == 0 {
				r.OKTable("L-guard", construct, site, d)
			} else {
				r.OK("L-guard", construct, site, d)
			}
		}
	}
	var ips []string
	for k, v := range inPlace {
		ips = append(ips, k.n.Obj().Name()+"."+k.n.Underlying().(*types.Struct).Field(k.i).Name()+": "+v)
	}
	sort.Strings(ips)
	r.Note("slice fields with in-place element writers (element reads need the lock): %s", strings.Join(ips, "; "))
	r.Analysed("guarded_field_access_events", nEvents)
	r.Analysed("guard_table_fields", func() int {
		n := 0
		for _, m := range guards {
			n += len(m)
		}
		return n
	}())
	r.Floor("L-guard", 145)

	c14RuleLocked(p, r, cx)
}

func c14EntryDesc(cx *c14Ctx, top *ssa.Function) string {
	e := cx.entry[top]
	if len(e) == 0 {
		return "{}"
	}
	if rq := cx.decl[top]; rq != nil {
		if len(e) > 1 {
			return e.String() + " (" + rq.path + " by contract, the rest = meet over " + fmt.Sprint(len(cx.p.StaticCallers(top))) + " static call site(s))"
		}
		return e.String() + " by contract"
	}
	return e.String() + " = meet over " + fmt.Sprint(len(cx.p.StaticCallers(top))) + " static call site(s)"
}

// c14ReturnsFresh: every return of fn yields an object allocated in fn.
func c14ReturnsFresh(fn *ssa.Function) bool {
	if fn == nil || len(fn.Blocks) == 0 {
		return false
	}
	rets := Returns(fn)
	if len(rets) == 0 {
		return false
	}
	for _, ri := range rets {
		if len(ri.Results) != 1 {
			return false
		}
		if _, ok := originValue(ri.Results[0]).(*ssa.Alloc); !ok {
			return false
		}
	}
	return true
}

// c14CollectDeclared fills cx.decl.
func c14CollectDeclared(p *Program, cx *c14Ctx, guards map[*types.Named]map[int]*c14FieldSpec) {
	muOf := func(n *types.Named) []string {
		var mus []string
		for _, fs := range guards[n] {
			mus = append(mus, fs.g.mu)
		}
		return dedupe(mus)
	}
	add := func(fn *ssa.Function, mu, why string) {
		if fn.Signature.Recv() == nil || len(fn.Params) == 0 {
			return
		}
		cx.decl[fn] = &c14Req{fn: fn, path: "&" + fn.Params[0].Name() + "." + mu, why: why}
	}
	// (a) name ends in "Locked", receiver type is in the guard table
	for _, fn := range p.AllFuncs {
		if fn.Parent() != nil || !strings.HasSuffix(fn.Name(), "Locked") || fn.Signature.Recv() == nil {
			continue
		}
		n := NamedOf(fn.Signature.Recv().Type())
		if n == nil {
			continue
		}
		if mus := muOf(n); len(mus) == 1 {
			add(fn, mus[0], "name ends in 'Locked'")
		}
	}
	// (b) documented
	for _, d := range c14DocLocked {
		// a documented helper that was renamed, merged or inlined is no loss: without the contract its body is
		// checked with the entry lockset inferred from its static callers (L-guard), which demands the same
		fn := p.LookupFunc(d.pkg, d.recv, d.name)
		if fn == nil {
			continue
		}
		add(fn, d.mu, d.why)
	}
	// (c) heap.Interface callbacks of a guarded type that embeds its mutex
	for n, fm := range guards {
		var g *c14Guard
		for _, fs := range fm {
			g = fs.g
		}
		if g.mu != "Mutex" && g.mu != "RWMutex" {
			continue
		}
		for _, name := range []string{"Len", "Less", "Swap", "Push", "Pop"} {
			if fn, declared := p.MethodOf(n, name); fn != nil && declared {
				add(fn, g.mu, "heap.Interface callback; container/heap calls it on behalf of the caller of heap.Push/Pop/Init/Fix/Remove")
				cx.decl[fn].viaHeap = true
			}
		}
	}
}

func c14RuleLocked(p *Program, r *Reporter, cx *c14Ctx) {
	// mode needed by each body: W if, assuming the lock, some event needs W — approximated by: the body (deep)
	// contains a write event on a field guarded by that lock, or calls a declared function needing W.
	var decls []*c14Req
	for _, rq := range cx.decl {
		decls = append(decls, rq)
	}
	sort.Slice(decls, func(i, j int) bool { return FuncKey(decls[i].fn) < FuncKey(decls[j].fn) })
	for _, rq := range decls {
		rq.need = 'R'
	}
	guards := c14ResolveGuards(p)
	writes := func(fn *ssa.Function) bool {
		w := false
		var walk func(f *ssa.Function)
		walk = func(f *ssa.Function) {
			for _, b := range f.Blocks {
				for _, in := range b.Instrs {
					fa, ok := in.(*ssa.FieldAddr)
					if !ok {
						continue
					}
					n := NamedOf(fa.X.Type())
					if n == nil || guards[n][fa.Field] == nil {
						continue
					}
					var evs []c14Event
					c14AddrEvents(fa, false, &evs, map[ssa.Value]bool{})
					for _, ev := range evs {
						if ev.mode == 'W' {
							w = true
						}
					}
				}
			}
			for _, a := range f.AnonFuncs {
				walk(a)
			}
		}
		walk(fn)
		return w
	}
	for _, rq := range decls {
		if writes(rq.fn) {
			rq.need = 'W'
		}
	}
	for changed := true; changed; {
		changed = false
		for _, rq := range decls {
			if rq.need == 'W' {
				continue
			}
			for _, c := range CallsIn(rq.fn, true) {
				if f := c.Callee(); f != nil && cx.decl[f] != nil && cx.decl[f].need == 'W' {
					rq.need, changed = 'W', true
				}
			}
		}
	}
	n := 0
	for _, rq := range decls {
		fn := rq.fn
		if len(p.FuncValueUses(fn)) > 0 {
			for _, u := range p.FuncValueUses(fn) {
				// a method value / function value of a lock-requiring function: call context unknown
				if rq.viaHeap {
					continue
				}
				r.Undecided("L-locked", FuncKey(u.Parent())+"#"+FuncKey(fn)+"#value", p.Pos(u.Pos()), "lock-requiring function is used as a value; its call context is not tracked")
				n++
			}
		}
		sites := p.StaticCallers(fn)
		if !rq.viaHeap {
			for _, c := range p.InvokeSites(fn) {
				sites = append(sites, c)
			}
		}
		for _, c := range sites {
			n++
			construct := FuncKey(c.Fn) + "#" + FuncKey(fn)
			site := p.Pos(c.Pos())
			c14CheckLockedSite(p, r, cx, c, rq, c.Args()[0], construct, site)
		}
		if rq.viaHeap && fn.Name() == "Len" {
			// calls of container/heap functions on this heap type
			recvT := fn.Signature.Recv().Type()
			for _, f := range p.AllFuncs {
				for _, c := range CallsIn(f, false) {
					callee := c.Callee()
					if callee == nil || callee.Pkg == nil || callee.Pkg.Pkg.Path() != "container/heap" {
						continue
					}
					args := c.Args()
					if len(args) == 0 {
						continue
					}
					hv := originValue(args[0])
					if mi, ok := args[0].(*ssa.MakeInterface); ok {
						hv = mi.X
					}
					if !types.Identical(hv.Type(), recvT) {
						if mi, ok := args[0].(*ssa.MakeInterface); !ok || !types.Identical(mi.X.Type(), recvT) {
							continue
						}
					}
					n++
					rqh := &c14Req{fn: fn, path: rq.path, why: "container/heap." + callee.Name() + " calls the heap's Len/Less/Swap/Push/Pop", need: 'W'}
					if mi, ok := args[0].(*ssa.MakeInterface); ok {
						hv = mi.X
					}
					c14CheckLockedSite(p, r, cx, c, rqh, hv, FuncKey(c.Fn)+"#heap."+callee.Name(), p.Pos(c.Pos()))
				}
			}
		}
	}
	r.Analysed("lock_requiring_functions", len(decls))
	r.Floor("L-locked", 16)
}

// c14CheckLockedSite decides one call site of a lock-requiring function; recv
// is the caller-side value of the object whose mutex is required.
func c14CheckLockedSite(p *Program, r *Reporter, cx *c14Ctx, c CallSite, rq *c14Req, recv ssa.Value, construct, site string) {
	mu := rq.path[strings.LastIndex(rq.path, ".")+1:]
	if cx.fresh.freshAt(recv, c.Instr) {
		r.OK("L-locked", construct, site, "receiver is allocated in this function and not yet published: no other goroutine can reach it ("+rq.why+")")
		return
	}
	ap := AccessPath(recv)
	if strings.HasPrefix(ap, "&") || strings.HasPrefix(ap, "*") || strings.HasPrefix(ap, "?") {
		// lock taken on the same SSA value renders the same unique path
		if !strings.HasPrefix(ap, "?") {
			r.Undecided("L-locked", construct, site, "cannot name the receiver ("+ap+")")
			return
		}
	}
	lock := "&" + ap + "." + mu
	if c.IsGo() {
		r.Violation("L-locked", construct, site, "lock-requiring function started with `go`: the new goroutine does not hold "+lock)
		return
	}
	held := cx.heldAtSite(c)
	m, ok := held[lock]
	good := ok && (rq.need == 'R' || m == 'W')
	needS := map[byte]string{'R': "R or W", 'W': "W"}[rq.need]
	top := TopFunc(c.Fn)
	r.Check(good, "L-locked", construct, site,
		fmt.Sprintf("%s held (%c) at the call; callee needs %s (%s); entry lockset of %s: %s", lock, m, needS, rq.why, FuncKey(top), c14EntryDesc(cx, top)),
		fmt.Sprintf("%s requires %s held (%s: %s) but the call site holds %s (entry lockset of %s: %s)", FuncKey(rq.fn), lock, needS, rq.why, held, FuncKey(top), c14EntryDesc(cx, top)))
}

// ---------------------------------------------------------------------------
// L-corpus: the in-memory corpus is only read with the index lock held.
//
// The corpus has no mutex of its own ("A Corpus is not safe for concurrent use.
// Callers should use Lock or RLock on the parent index instead"), and callers
// reach it through object graphs the access-path locksets cannot follow
// (search.Handler.corpus vs. search.Handler.index), so this rule abstracts the
// lock to one token INDEX: any Lock/RLock on *index.Index, on its mu field or
// through an interface that has Lock/Unlock/RLock/RUnlock (index.Interface).

type c14IdxLocks struct {
	p     *Program
	index *types.Named
	held  map[*ssa.Function]map[ssa.Instruction]bool
}

// effect: +1 acquire, -1 release, 0 none.
func (il *c14IdxLocks) effect(c CallSite) int {
	cc := c.Common()
	name := ""
	if cc.IsInvoke() {
		it, ok := cc.Value.Type().Underlying().(*types.Interface)
		if !ok {
			return 0
		}
		has := map[string]bool{}
		for i := 0; i < it.NumMethods(); i++ {
			has[it.Method(i).Name()] = true
		}
		if !(has["Lock"] && has["Unlock"] && has["RLock"] && has["RUnlock"]) {
			return 0
		}
		name = cc.Method.Name()
	} else if f := c.Callee(); f != nil {
		if f.Signature.Recv() != nil && NamedOf(f.Signature.Recv().Type()) == il.index && isLockWrapper(f) {
			name = f.Name()
		} else if k, _, ok := mutexOp(c); ok {
			if fa, isFA := c.Args()[0].(*ssa.FieldAddr); isFA && NamedOf(fa.X.Type()) == il.index && fieldName(fa.X.Type(), fa.Field) == "mu" {
				name = k
			}
		}
	}
	switch name {
	case "Lock", "RLock":
		return 1
	case "Unlock", "RUnlock":
		return -1
	}
	return 0
}

// analyze computes, for fn and its literals, whether INDEX is held before each
// instruction on every path. Literals (also those started with go: see the
// rule's stated assumption) start with the state at their creation.
func (il *c14IdxLocks) analyze(fn *ssa.Function, entry bool) {
	if len(fn.Blocks) == 0 {
		return
	}
	before := map[ssa.Instruction]bool{}
	il.held[fn] = before
	in := map[*ssa.BasicBlock]bool{}
	seen := map[*ssa.BasicBlock]bool{}
	transfer := func(b *ssa.BasicBlock, record bool) bool {
		cur := in[b]
		for _, ins := range b.Instrs {
			if record {
				before[ins] = cur
			}
			ci, ok := ins.(ssa.CallInstruction)
			if !ok {
				continue
			}
			c := CallSite{fn, ci}
			if c.IsDefer() || c.IsGo() {
				continue
			}
			switch il.effect(c) {
			case 1:
				cur = true
			case -1:
				cur = false
			}
		}
		return cur
	}
	in[fn.Blocks[0]] = entry
	seen[fn.Blocks[0]] = true
	work := []*ssa.BasicBlock{fn.Blocks[0]}
	for len(work) > 0 {
		b := work[0]
		work = work[1:]
		o := transfer(b, false)
		for _, s := range b.Succs {
			if !seen[s] {
				seen[s], in[s] = true, o
				work = append(work, s)
			} else if in[s] && !o {
				in[s] = false
				work = append(work, s)
			}
		}
	}
	for _, b := range fn.Blocks {
		transfer(b, true)
	}
	for _, a := range fn.AnonFuncs {
		e := false
		for _, b := range fn.Blocks {
			for _, ins := range b.Instrs {
				if mc, ok := ins.(*ssa.MakeClosure); ok && mc.Fn == ssa.Value(a) {
					e = before[ins]
				}
			}
		}
		il.analyze(a, e)
	}
}

func (il *c14IdxLocks) heldAt(in ssa.Instruction) bool {
	fn := in.Parent()
	m, ok := il.held[fn]
	if !ok {
		il.analyze(TopFunc(fn), false)
		m = il.held[fn]
	}
	return m[in]
}

// c14Ref is one way control (or a function value) passes from a function to a callee.
type c14Ref struct {
	at     ssa.Instruction
	callee *ssa.Function
	kind   string // "call", "go", "defer", "value", "closure", "invoke"
}

// c14BoundTarget resolves synthetic bound-method / thunk wrappers to the method.
func c14BoundTarget(p *Program, f *ssa.Function) *ssa.Function {
	if f == nil || f.Synthetic == "" {
		return f
	}
	if obj, ok := f.Object().(*types.Func); ok && obj != nil {
		if t := p.SSA.FuncValue(obj); t != nil {
			return t
		}
	}
	// the wrapper's only static call
	for _, b := range f.Blocks {
		for _, in := range b.Instrs {
			if ci, ok := in.(ssa.CallInstruction); ok {
				if t := ci.Common().StaticCallee(); t != nil {
					return t
				}
			}
		}
	}
	return nil
}

func c14RuleCorpus(p *Program, r *Reporter, cx *c14Ctx) {
	corpusT := p.NamedType("pkg/index", "Corpus")
	indexT := p.NamedType("pkg/index", "Index")
	ifaceT := p.Iface("pkg/index", "Interface")
	lhT := p.NamedType("pkg/index", "LocationHelper")
	il := &c14IdxLocks{p: p, index: indexT, held: map[*ssa.Function]map[ssa.Instruction]bool{}}

	// contract set K: functions whose documented contract is "the caller holds the index lock"
	contract := map[*ssa.Function]string{}
	for _, fn := range p.FuncsIn("pkg/index") {
		if fn.Parent() != nil || fn.Signature.Recv() == nil {
			continue
		}
		switch NamedOf(fn.Signature.Recv().Type()) {
		case corpusT:
			contract[fn] = "Corpus method (`A Corpus is not safe for concurrent use. Callers should use Lock or RLock on the parent index`)"
		case lhT:
			contract[fn] = "LocationHelper method (`A LocationHelper is not safe for concurrent use. Callers should use Lock or RLock on the underlying index`)"
		case indexT:
			for i := 0; i < ifaceT.NumMethods(); i++ {
				if ifaceT.Method(i).Name() == fn.Name() {
					contract[fn] = "index.Interface method (the interface embeds Lock/RLock: callers bracket their queries)"
				}
			}
		}
	}
	for _, fn := range p.AllFuncs {
		if fn.Parent() == nil && strings.HasSuffix(fn.Name(), "Locked") && fn.Signature.Recv() != nil {
			if n := NamedOf(fn.Signature.Recv().Type()); n != nil && n.Obj().Name() == "Handler" && RelPkg(n.Obj().Pkg()) == "pkg/search" {
				contract[fn] = "name ends in 'Locked' (search.Handler: the index lock)"
			}
		}
	}

	// reference edges
	refs := map[*ssa.Function][]c14Ref{} // by containing function
	invokes := map[*ssa.Function][]ssa.CallInstruction{}
	for _, fn := range p.AllFuncs {
		for _, b := range fn.Blocks {
			for _, in := range b.Instrs {
				switch x := in.(type) {
				case ssa.CallInstruction:
					c := CallSite{fn, x}
					cc := x.Common()
					if cc.IsInvoke() {
						invokes[fn] = append(invokes[fn], x)
					} else if f := cc.StaticCallee(); f != nil {
						kind := "call"
						if c.IsGo() {
							kind = "go"
						} else if c.IsDefer() {
							kind = "defer"
						}
						if t := c14BoundTarget(p, f); t != nil {
							refs[fn] = append(refs[fn], c14Ref{in, t, kind})
						}
					}
					for _, a := range cc.Args {
						if f, ok := a.(*ssa.Function); ok {
							if t := c14BoundTarget(p, f); t != nil {
								refs[fn] = append(refs[fn], c14Ref{in, t, "value"})
							}
						}
					}
				case *ssa.MakeClosure:
					f := x.Fn.(*ssa.Function)
					if f.Synthetic != "" {
						if t := c14BoundTarget(p, f); t != nil {
							refs[fn] = append(refs[fn], c14Ref{in, t, "value"})
						}
					} else {
						refs[fn] = append(refs[fn], c14Ref{in, f, "closure"})
					}
				default:
					for _, op := range in.Operands(nil) {
						if *op == nil {
							continue
						}
						if f, ok := (*op).(*ssa.Function); ok {
							if t := c14BoundTarget(p, f); t != nil {
								refs[fn] = append(refs[fn], c14Ref{in, t, "value"})
							}
						}
					}
				}
			}
		}
	}
	// possible dispatch targets of an invoke among pkg/index receiver types
	var idxMethods []*ssa.Function
	for _, fn := range p.FuncsIn("pkg/index") {
		if fn.Parent() == nil && fn.Signature.Recv() != nil {
			idxMethods = append(idxMethods, fn)
		}
	}
	dispatch := func(ci ssa.CallInstruction) []*ssa.Function {
		cc := ci.Common()
		it, ok := cc.Value.Type().Underlying().(*types.Interface)
		if !ok {
			return nil
		}
		var out []*ssa.Function
		for _, m := range idxMethods {
			if m.Name() == cc.Method.Name() && types.Implements(m.Signature.Recv().Type(), it) {
				out = append(out, m)
			}
		}
		return out
	}

	// need[f]: f must be entered with INDEX held
	need := map[*ssa.Function]string{} // why
	why := map[*ssa.Function]ssa.Instruction{}
	uncovered := func(in ssa.Instruction) bool { return !il.heldAt(in) }
	// base: direct access to Corpus fields on a published corpus
	for _, fn := range p.FuncsIn("pkg/index") {
		for _, b := range fn.Blocks {
			for _, in := range b.Instrs {
				fa, ok := in.(*ssa.FieldAddr)
				if !ok || NamedOf(fa.X.Type()) != corpusT {
					continue
				}
				if cx.fresh.freshAt(fa.X, fa) || !uncovered(fa) {
					continue
				}
				if _, ok := need[fn]; !ok {
					need[fn] = "reads/writes Corpus." + fieldName(fa.X.Type(), fa.Field)
					why[fn] = fa
				}
			}
		}
	}
	for changed := true; changed; {
		changed = false
		for _, fn := range p.AllFuncs {
			if _, ok := need[fn]; ok {
				continue
			}
			for _, rf := range refs[fn] {
				if _, n := need[rf.callee]; n && uncovered(rf.at) {
					need[fn] = rf.kind + " " + FuncKey(rf.callee)
					why[fn] = rf.at
					changed = true
					break
				}
			}
			if _, ok := need[fn]; ok {
				continue
			}
			for _, ci := range invokes[fn] {
				if !uncovered(ci) {
					continue
				}
				for _, m := range dispatch(ci) {
					if _, n := need[m]; n {
						need[fn] = "invoke " + FuncKey(m)
						why[fn] = ci
						changed = true
						break
					}
				}
				if _, ok := need[fn]; ok {
					break
				}
			}
		}
	}

	// who can enter f: every static call, function-value reference and possible interface dispatch
	type entrySite struct {
		from *ssa.Function
		at   ssa.Instruction
		kind string
	}
	entries := map[*ssa.Function][]entrySite{}
	for g, rs := range refs {
		for _, rf := range rs {
			entries[rf.callee] = append(entries[rf.callee], entrySite{g, rf.at, rf.kind})
		}
	}
	for g, cis := range invokes {
		for _, ci := range cis {
			for _, m := range dispatch(ci) {
				entries[m] = append(entries[m], entrySite{g, ci, "invoke"})
			}
		}
	}
	// safe[f]: f is only ever entered with INDEX held — by contract, or because every
	// entry site seen in the module is covered or lies in a safe function (greatest
	// fixpoint; a function nobody in the module refers to is an entry point: not safe).
	unsafe := map[*ssa.Function]entrySite{}
	isSafe := func(f *ssa.Function) bool {
		if _, k := contract[f]; k {
			return true
		}
		_, u := unsafe[f]
		return !u
	}
	var needFns []*ssa.Function
	for fn := range need {
		needFns = append(needFns, fn)
	}
	sort.Slice(needFns, func(i, j int) bool { return FuncKey(needFns[i]) < FuncKey(needFns[j]) })
	for _, fn := range needFns {
		if _, k := contract[fn]; !k && len(entries[fn]) == 0 {
			unsafe[fn] = entrySite{}
		}
	}
	for changed := true; changed; {
		changed = false
		for _, fn := range needFns {
			if !isSafe(fn) {
				continue
			}
			if _, k := contract[fn]; k {
				continue
			}
			for _, es := range entries[fn] {
				if uncovered(es.at) && !isSafe(es.from) {
					unsafe[fn] = es
					changed = true
					break
				}
				if _, n := need[es.from]; !n && uncovered(es.at) {
					// cannot happen (need is closed under uncovered references), kept as a guard
					unsafe[fn] = es
					changed = true
					break
				}
			}
		}
	}
	chain := func(f *ssa.Function) string {
		var parts []string
		seen := map[*ssa.Function]bool{}
		for f != nil && !seen[f] && len(parts) < 8 {
			seen[f] = true
			es, u := unsafe[f]
			if !u {
				break
			}
			if es.from == nil {
				parts = append(parts, FuncKey(f)+" (entry point: nothing in the module calls it, so nothing holds the lock for it)")
				break
			}
			parts = append(parts, fmt.Sprintf("%s ← %s by %s at %s", FuncKey(f), es.kind, FuncKey(es.from), p.Pos(c14InstrPos(es.at))))
			if es.kind == "invoke" {
				parts = append(parts, "(interface dispatch: the caller knows nothing of the index lock)")
				break
			}
			f = es.from
		}
		return strings.Join(parts, "; ")
	}

	// obligations: every site, in non-contract code, that calls (or takes the value of) a contract function
	n := 0
	report := func(fn *ssa.Function, at ssa.Instruction, callee *ssa.Function, kind string) {
		if _, k := contract[callee]; !k {
			return
		}
		if _, nd := need[callee]; !nd {
			return // this contract function never reaches corpus state
		}
		top := TopFunc(fn)
		if _, k := contract[top]; k {
			return // accessor calling accessor: covered by the caller's own contract
		}
		if IsTestSupportPkg(RelPkg(top.Pkg.Pkg)) || top.Synthetic != "" {
			return // package initialisers only build tables of function values
		}
		// the receiver is an object under construction: nothing to lock yet
		if ci, ok := at.(ssa.CallInstruction); ok && !ci.Common().IsInvoke() && len(ci.Common().Args) > 0 && cx.fresh.freshAt(ci.Common().Args[0], at) {
			return
		}
		if mc, ok := at.(*ssa.MakeClosure); ok && len(mc.Bindings) > 0 && cx.fresh.freshAt(mc.Bindings[0], at) {
			return
		}
		n++
		construct := FuncKey(fn) + "#" + FuncKey(callee)
		site := p.Pos(c14InstrPos(at))
		if !uncovered(at) {
			r.OK("L-corpus", construct, site, "index lock held at the "+kind+" ("+contract[callee]+")")
			return
		}
		if exc, ok := c14CorpusExceptions[FuncKey(callee)]; ok && !isSafe(fn) {
			if c14OnlyFrom(p, cx, fn, exc.root, 0, map[*ssa.Function]bool{}) {
				r.OKTable("L-corpus", construct, site, "exception (re-checked structurally: "+FuncKey(TopFunc(fn))+" is reachable only from "+exc.root+"): "+exc.reason)
				return
			}
		}
		if !isSafe(fn) {
			r.Violation("L-corpus", construct, site, fmt.Sprintf("%s of %s without the index lock (%s: %s). %s can run without the lock: %s. The corpus maps are written under Index.Lock by ReceiveBlob→Corpus.addBlob, so this access races with a concurrent receive",
				kind, FuncKey(callee), contract[callee], need[callee], FuncKey(fn), chain(fn)))
			return
		}
		r.OK("L-corpus", construct, site, fmt.Sprintf("not held locally; %s is only entered with the index lock held: all %d entry site(s) in the module are under the lock or in functions with that property (%s)", FuncKey(fn), len(entries[fn]), contract[callee]))
	}
	for _, fn := range p.AllFuncs {
		for _, rf := range refs[fn] {
			report(fn, rf.at, rf.callee, rf.kind)
		}
		for _, ci := range invokes[fn] {
			for _, m := range dispatch(ci) {
				report(fn, ci, m, "invoke")
			}
		}
	}
	r.Analysed("corpus_contract_functions", len(contract))
	r.Analysed("functions_needing_index_lock", len(need))
	r.Floor("L-corpus", 50)
}

// c14CorpusExceptions: one contract function, one reason, one root; re-checked on
// every run. The exception covers a site wherever it sits in the code that only
// the root function can reach: the root itself, its literals, and unexported
// functions all of whose static calls and function-value references lie in such
// code (depth 4) — so extracting the site into a helper or turning the callback
// literal into a method changes nothing, and a second way in removes it.
var c14CorpusExceptions = map[string]struct {
	reason string
	root   string
}{
	"pkg/index.(*Index).GetBlobMeta": {
		reason: "the integrity check runs only inside index.newFromConfig, on the Index that function has just built and not yet returned to the handler loader: no corpus is attached yet (KeepInMemory is called later by the search handler) and nobody else can reach the index",
		root:   "pkg/index.newFromConfig",
	},
}

// c14OnlyFrom: fn can only run on behalf of the function named root.
func c14OnlyFrom(p *Program, cx *c14Ctx, fn *ssa.Function, root string, depth int, seen map[*ssa.Function]bool) bool {
	top := TopFunc(fn)
	if FuncKey(top) == root {
		return true
	}
	if seen[top] {
		return true
	}
	if depth > 4 || token.IsExported(top.Name()) || top.Synthetic != "" || top.Name() == "init" || top.Name() == "main" {
		return false
	}
	callers := p.StaticCallers(top)
	uses := p.FuncValueUses(top)
	if len(callers)+len(uses) == 0 {
		return false
	}
	if top.Signature.Recv() != nil && cx.inv[top.Name()] && len(p.InvokeSites(top)) > 0 {
		return false
	}
	seen[top] = true
	for _, c := range callers {
		if c.IsGo() || !c14OnlyFrom(p, cx, c.Fn, root, depth+1, seen) {
			return false
		}
	}
	for _, u := range uses {
		if u.Parent() == nil || !c14OnlyFrom(p, cx, u.Parent(), root, depth+1, seen) {
			return false
		}
	}
	return true
}

func c14InstrPos(in ssa.Instruction) token.Pos {
	if in == nil {
		return token.NoPos
	}
	if p := in.Pos(); p.IsValid() {
		return p
	}
	if mc, ok := in.(*ssa.MakeClosure); ok {
		return mc.Fn.Pos()
	}
	if ci, ok := in.(ssa.CallInstruction); ok {
		return ci.Common().Pos()
	}
	return token.NoPos
}

// ---------------------------------------------------------------------------
// Access summaries (body-derived): what a function does to the memory reachable
// from one of its parameters *outside the locks it takes itself*. Used to tell
// mutating from reading method calls on guarded objects and to recognise
// objects that were configured, at construction, not to lock themselves
// (lru.NewUnlocked). Nothing here goes by method or constructor names.

// c14Cfg fixes the value of construction-only bool fields of the struct a
// parameter points to (field index -> value); branches on them are pruned.
type c14Cfg map[int]bool

func (c c14Cfg) key() string {
	if c == nil {
		return "?"
	}
	var ks []int
	for k := range c {
		ks = append(ks, k)
	}
	sort.Ints(ks)
	var sb strings.Builder
	for _, k := range ks {
		fmt.Fprintf(&sb, "%d=%v,", k, c[k])
	}
	return sb.String()
}

func c14CfgDesc(c c14Cfg, T *types.Named) string {
	if c == nil {
		return "unknown configuration"
	}
	st, _ := T.Underlying().(*types.Struct)
	var ks []int
	for k := range c {
		ks = append(ks, k)
	}
	sort.Ints(ks)
	var parts []string
	for _, k := range ks {
		name := fmt.Sprint(k)
		if st != nil && k < st.NumFields() {
			name = st.Field(k).Name()
		}
		parts = append(parts, fmt.Sprintf("%s=%v", name, c[k]))
	}
	return strings.Join(parts, ",")
}

// c14Sum: the effect of one function on parameter-reachable memory.
type c14Sum struct {
	write, read string // witness of a write / read not covered by a lock the function acquires itself (write: exclusive)
	syncUnk     string // parameter-reachable state is handed to synchronisation this analysis does not model (atomics, sync.Once/Cond/WaitGroup, channels, Locker interfaces)
	dynUnk      string // … or to code it cannot follow (interface/dynamic calls, bodyless functions, depth bound, literals)
	optOut      string // an acquisition of a mutex inside the parameter's object is unreachable under the configuration
	retDerived  bool   // a result may point into parameter-reachable memory
}

// mode: 'W' the function definitely writes unsynchronised; 'R' it only reads
// (fully followed); 'N' fully followed, every access under its own lock (or no
// access at all); '?' not established.
func (s *c14Sum) mode() byte {
	switch {
	case s.syncUnk != "":
		return '?'
	case s.write != "":
		return 'W'
	case s.dynUnk != "":
		return '?'
	case s.read != "":
		return 'R'
	}
	return 'N'
}

func (s *c14Sum) unknownWhy() string {
	if s.syncUnk != "" {
		return s.syncUnk
	}
	return s.dynUnk
}

type c14SumKey struct {
	fn  *ssa.Function
	idx int
	cfg string
	pc  string
}

// c14ConstArgs: the bool parameters of the callee that are constants at call
// site c (also constants the caller itself was entered with), so that
// `find(key, false)`-style flags select the branch actually taken.
func c14ConstArgs(c CallSite, callerPC c14Cfg) c14Cfg {
	var pc c14Cfg
	for k, a := range c.Args() {
		val, known := false, false
		switch x := a.(type) {
		case *ssa.Const:
			if b, ok := x.Type().Underlying().(*types.Basic); ok && b.Info()&types.IsBoolean != 0 && x.Value != nil {
				val, known = x.Value.String() == "true", true
			}
		case *ssa.Parameter:
			for i, prm := range c.Fn.Params {
				if prm == x {
					if v, ok := callerPC[i]; ok {
						val, known = v, true
					}
				}
			}
		}
		if known {
			if pc == nil {
				pc = c14Cfg{}
			}
			pc[k] = val
		}
	}
	return pc
}

type c14FieldKey struct {
	owner *types.Named
	idx   int
}

// c14Reach: one way a value of a configurable type reaches a struct field.
type c14Reach struct {
	cfg     c14Cfg // nil: unknown
	via     string
	unknown string
}

type c14Summ struct {
	p          *Program
	cx         *c14Ctx
	memo       map[c14SumKey]*c14Sum
	cfgFields  map[*types.Named]map[int]bool // construction-only bool fields, verified
	ptrStores  map[c14FieldKey][]*ssa.Store  // stores of pointers-to-struct into struct fields, module-wide
	fieldReach map[c14FieldKey][]c14Reach
	configur   map[*types.Named]int // 1 yes, 2 no
}

func c14NewSumm(p *Program, cx *c14Ctx) *c14Summ {
	return &c14Summ{p: p, cx: cx, memo: map[c14SumKey]*c14Sum{}, cfgFields: map[*types.Named]map[int]bool{},
		fieldReach: map[c14FieldKey][]c14Reach{}, configur: map[*types.Named]int{}}
}

func c14FnPkgPath(f *ssa.Function) string {
	if f == nil {
		return ""
	}
	if f.Pkg != nil {
		return f.Pkg.Pkg.Path()
	}
	if o := f.Object(); o != nil && o.Pkg() != nil {
		return o.Pkg().Path()
	}
	if o := f.Origin(); o != nil && o != f {
		return c14FnPkgPath(o)
	}
	return ""
}

// c14IsSyncFn: functions of the synchronisation packages (other than the
// Mutex/RWMutex operations, which the locksets model).
func c14IsSyncFn(f *ssa.Function) bool {
	switch pp := c14FnPkgPath(f); {
	case pp == "sync", pp == "sync/atomic", pp == "runtime", pp == "internal/sync", strings.HasPrefix(pp, "internal/runtime"), pp == "go4.org/syncutil", pp == "go4.org/syncutil/singleflight", pp == "golang.org/x/sync/errgroup", pp == "golang.org/x/sync/singleflight":
		return true
	}
	return false
}

func c14PointerLike(t types.Type, depth int) bool {
	if depth > 4 {
		return true
	}
	switch u := t.Underlying().(type) {
	case *types.Pointer, *types.Map, *types.Slice, *types.Chan, *types.Interface, *types.Signature:
		return true
	case *types.Struct:
		for i := 0; i < u.NumFields(); i++ {
			if c14PointerLike(u.Field(i).Type(), depth+1) {
				return true
			}
		}
	case *types.Array:
		return c14PointerLike(u.Elem(), depth+1)
	case *types.Tuple:
		for i := 0; i < u.Len(); i++ {
			if c14PointerLike(u.At(i).Type(), depth+1) {
				return true
			}
		}
	}
	return false
}

func c14StructOf(t types.Type) (*types.Named, *types.Struct) {
	n := NamedOf(t)
	if n == nil {
		return nil, nil
	}
	st, _ := n.Underlying().(*types.Struct)
	if st == nil {
		return nil, nil
	}
	return n, st
}

func c14IsMutexType(t types.Type) bool {
	return IsNamed(t, "sync", "Mutex") || IsNamed(t, "sync", "RWMutex")
}

func (sm *c14Summ) sum(fn *ssa.Function, idx int, cfg, pc c14Cfg, depth int) *c14Sum {
	if fn == nil || len(fn.Blocks) == 0 || idx >= len(fn.Params) {
		name := "a function without a body"
		if fn != nil {
			name = FuncKeyAny(fn) + " (no body)"
		}
		return &c14Sum{dynUnk: "calls " + name}
	}
	if depth > 7 {
		return &c14Sum{dynUnk: "call depth bound reached at " + FuncKeyAny(fn)}
	}
	k := c14SumKey{fn, idx, cfg.key(), pc.key()}
	if s, ok := sm.memo[k]; ok {
		if s == nil {
			return &c14Sum{} // recursion: the outer activation accounts for the body
		}
		return s
	}
	sm.memo[k] = nil
	s := sm.compute(fn, idx, cfg, pc, depth)
	sm.memo[k] = s
	return s
}

func (sm *c14Summ) compute(fn *ssa.Function, idx int, cfg, pc c14Cfg, depth int) *c14Sum {
	s := &c14Sum{}
	param := fn.Params[idx]
	pname := param.Name()
	pT, _ := c14StructOf(param.Type())

	// (1) feasible blocks under cfg and must-hold locksets on the pruned CFG
	var eval func(v ssa.Value, d int) (known, val bool)
	eval = func(v ssa.Value, d int) (bool, bool) {
		if d > 6 {
			return false, false
		}
		switch x := v.(type) {
		case *ssa.Const:
			if b, ok := x.Type().Underlying().(*types.Basic); ok && b.Info()&types.IsBoolean != 0 && x.Value != nil {
				return true, x.Value.String() == "true"
			}
		case *ssa.Parameter:
			for i, prm := range fn.Params {
				if prm == x {
					if b, ok := pc[i]; ok {
						return true, b
					}
				}
			}
		case *ssa.UnOp:
			switch x.Op {
			case token.NOT:
				k, b := eval(x.X, d+1)
				return k, !b
			case token.MUL:
				if fa, ok := x.X.(*ssa.FieldAddr); ok && cfg != nil && originValue(fa.X) == ssa.Value(param) {
					if b, ok := cfg[fa.Field]; ok {
						return true, b
					}
				}
			}
		case *ssa.BinOp:
			if x.Op == token.EQL || x.Op == token.NEQ {
				ka, a := eval(x.X, d+1)
				kb, b := eval(x.Y, d+1)
				if ka && kb {
					return true, (a == b) == (x.Op == token.EQL)
				}
			}
		}
		return false, false
	}
	succs := func(b *ssa.BasicBlock) []*ssa.BasicBlock {
		if len(b.Instrs) > 0 {
			if br, ok := b.Instrs[len(b.Instrs)-1].(*ssa.If); ok && len(b.Succs) == 2 {
				if k, v := eval(br.Cond, 0); k {
					if v {
						return b.Succs[:1]
					}
					return b.Succs[1:2]
				}
			}
		}
		return b.Succs
	}
	in := map[*ssa.BasicBlock]LockSet{fn.Blocks[0]: {}}
	out := map[*ssa.BasicBlock]LockSet{}
	before := map[ssa.Instruction]LockSet{}
	transfer := func(b *ssa.BasicBlock, record bool) LockSet {
		cur := in[b].clone()
		for _, ins := range b.Instrs {
			if record {
				before[ins] = cur.clone()
			}
			ci, ok := ins.(ssa.CallInstruction)
			if !ok {
				continue
			}
			c := CallSite{fn, ci}
			if c.IsDefer() || c.IsGo() {
				continue
			}
			if op, p, ok := lockEffect(c); ok {
				switch op {
				case "Lock":
					cur[p] = 'W'
				case "RLock":
					cur[p] = 'R'
				default:
					delete(cur, p)
				}
			}
		}
		return cur
	}
	work := []*ssa.BasicBlock{fn.Blocks[0]}
	for n := 0; len(work) > 0 && n < 20000; n++ {
		b := work[0]
		work = work[1:]
		o := transfer(b, false)
		if prev, ok := out[b]; ok && equalLS(prev, o) {
			continue
		}
		out[b] = o
		for _, sc := range succs(b) {
			ni := o.clone()
			if cur, ok := in[sc]; ok {
				ni = meet(cur, o)
				if equalLS(cur, ni) {
					if _, done := out[sc]; done {
						continue
					}
				}
			}
			in[sc] = ni
			work = append(work, sc)
		}
	}
	feasible := func(b *ssa.BasicBlock) bool { _, ok := in[b]; return ok }
	for _, b := range fn.Blocks {
		if feasible(b) {
			transfer(b, true)
			continue
		}
		// an acquisition of the object's own mutex that the configuration rules out
		for _, ins := range b.Instrs {
			if ci, ok := ins.(ssa.CallInstruction); ok {
				if op, p, ok := lockEffect(CallSite{fn, ci}); ok && (op == "Lock" || op == "RLock") && strings.HasPrefix(p, "&"+pname+".") && s.optOut == "" {
					s.optOut = fmt.Sprintf("%s of %s in %s is unreachable when %s", op, p, FuncKeyAny(fn), c14CfgDesc(cfg, pT))
				}
			}
		}
	}
	held := func(at ssa.Instruction, needW bool) bool {
		for path, m := range before[at] {
			if !strings.HasPrefix(path, "&"+pname+".") && !strings.HasPrefix(path, "&global:") {
				continue
			}
			if !needW || m == 'W' {
				return true
			}
		}
		return false
	}
	noteW := func(at ssa.Instruction, what string) {
		if feasible(at.Block()) && !held(at, true) && s.write == "" {
			s.write = what + " in " + FuncKeyAny(fn)
		}
	}
	noteR := func(at ssa.Instruction, what string) {
		if feasible(at.Block()) && !held(at, false) && s.read == "" {
			s.read = what + " in " + FuncKeyAny(fn)
		}
	}
	noteSync := func(at ssa.Instruction, what string) {
		if feasible(at.Block()) && s.syncUnk == "" {
			s.syncUnk = what + " in " + FuncKeyAny(fn)
		}
	}
	noteDyn := func(at ssa.Instruction, what string) {
		if feasible(at.Block()) && !held(at, true) && s.dynUnk == "" {
			s.dynUnk = what + " in " + FuncKeyAny(fn)
		}
	}

	// (2) forward closure of the values that point into parameter-reachable memory
	seen := map[ssa.Value]bool{}
	var walk func(v ssa.Value)
	var walkLocal func(a ssa.Value) // a: address of / inside a local copy
	walkLocal = func(a ssa.Value) {
		if seen[a] {
			return
		}
		seen[a] = true
		refs := a.Referrers()
		if refs == nil {
			return
		}
		for _, u := range *refs {
			switch x := u.(type) {
			case *ssa.FieldAddr:
				walkLocal(x)
			case *ssa.IndexAddr:
				walkLocal(x)
			case *ssa.UnOp:
				if x.Op == token.MUL && c14PointerLike(x.Type(), 0) {
					walk(x)
				}
			}
		}
	}
	walk = func(v ssa.Value) {
		if seen[v] {
			return
		}
		seen[v] = true
		refs := v.Referrers()
		if refs == nil {
			return
		}
		for _, u := range *refs {
			switch x := u.(type) {
			case *ssa.FieldAddr:
				if x.X == v {
					walk(x)
				}
			case *ssa.IndexAddr:
				if x.X == v {
					walk(x)
				}
			case *ssa.Field:
				if c14PointerLike(x.Type(), 0) {
					walk(x)
				}
			case *ssa.Index:
				if x.X == v && c14PointerLike(x.Type(), 0) {
					walk(x)
				}
			case *ssa.UnOp:
				switch x.Op {
				case token.MUL:
					exempt := false
					if fa, ok := v.(*ssa.FieldAddr); ok {
						if n, _ := c14StructOf(fa.X.Type()); n != nil && sm.cfgFieldsOf(n)[fa.Field] {
							exempt = true // fixed at construction: not a racy read
						}
					}
					if !exempt {
						noteR(x, "load of "+AccessPath(v))
					}
					if c14PointerLike(x.Type(), 0) {
						walk(x)
					}
				case token.ARROW:
					noteSync(x, "channel receive")
				}
			case *ssa.Store:
				if x.Addr == v {
					noteW(x, "store to "+AccessPath(v))
				}
				if x.Val == v {
					if al, ok := x.Addr.(*ssa.Alloc); ok && !al.Heap {
						walkLocal(al)
					} else if al, ok := x.Addr.(*ssa.Alloc); ok && plainVariable(al) {
						followVar(al, func(ld *ssa.UnOp) {
							if ld.Parent() != fn {
								noteDyn(x, "reachable state captured by a function literal")
								return
							}
							walk(ld)
						})
					}
				}
			case *ssa.MapUpdate:
				if x.Map == v {
					noteW(x, "map update of "+AccessPath(v))
				}
			case *ssa.Lookup:
				if x.X == v {
					noteR(x, "map lookup in "+AccessPath(v))
					if c14PointerLike(x.Type(), 0) {
						walk(x)
					}
				}
			case *ssa.Range:
				noteR(x, "range over "+AccessPath(v))
				walk(x)
			case *ssa.Next:
				walk(x)
			case *ssa.Extract:
				if c14PointerLike(x.Type(), 0) {
					walk(x)
				}
			case *ssa.Phi:
				walk(x)
			case *ssa.ChangeType:
				walk(x)
			case *ssa.ChangeInterface:
				walk(x)
			case *ssa.MakeInterface:
				walk(x)
			case *ssa.TypeAssert:
				if c14PointerLike(x.Type(), 0) {
					walk(x)
				}
			case *ssa.Slice:
				if x.X == v {
					walk(x)
				}
			case *ssa.Convert:
				if c14IsContainer(v.Type()) {
					noteR(x, "conversion of "+AccessPath(v))
				}
			case *ssa.MakeClosure:
				noteDyn(x, "reachable state captured by a function literal")
			case *ssa.Send:
				noteSync(x, "channel send")
			case *ssa.Select:
				noteSync(x, "select")
			case *ssa.Return:
				s.retDerived = true
			case ssa.CallInstruction:
				c := CallSite{fn, x}
				if _, _, ok := lockEffect(c); ok {
					continue
				}
				cc := x.Common()
				if c.IsGo() {
					noteDyn(x, "reachable state handed to a new goroutine")
					continue
				}
				if b, ok := cc.Value.(*ssa.Builtin); ok {
					switch b.Name() {
					case "delete":
						if len(cc.Args) > 0 && cc.Args[0] == v {
							noteW(x, "map delete in "+AccessPath(v))
						}
					case "clear":
						noteW(x, "clear of "+AccessPath(v))
					case "copy":
						if len(cc.Args) > 0 && cc.Args[0] == v {
							noteW(x, "copy into "+AccessPath(v))
						} else {
							noteR(x, "copy from "+AccessPath(v))
						}
					case "append":
						noteR(x, "append from "+AccessPath(v))
						if len(cc.Args) > 0 && cc.Args[0] == v {
							if cv, ok := x.(*ssa.Call); ok {
								walk(cv) // may share the backing array
							}
						}
					}
					continue
				}
				if held(x, true) {
					continue // the callee runs under the exclusive lock taken here
				}
				if cc.IsInvoke() {
					switch cc.Method.Name() {
					case "Lock", "Unlock", "RLock", "RUnlock", "Wait", "Signal", "Broadcast", "Done":
						noteSync(x, "interface call "+c.CalleeKey())
					default:
						noteDyn(x, "interface call "+c.CalleeKey())
					}
					continue
				}
				callee := c.Callee()
				if callee == nil {
					noteDyn(x, "dynamic call")
					continue
				}
				if c14IsSyncFn(callee) {
					noteSync(x, "call of "+FuncKeyAny(callee))
					continue
				}
				for j, arg := range c.Args() {
					if arg != v {
						continue
					}
					var ccfg c14Cfg
					if cfg != nil && j < len(callee.Params) && originValue(arg) == ssa.Value(param) && types.Identical(arg.Type(), callee.Params[j].Type()) {
						ccfg = cfg
					}
					sub := sm.sum(callee, j, ccfg, c14ConstArgs(c, pc), depth+1)
					if sub.write != "" && s.write == "" && feasible(x.Block()) {
						s.write = sub.write
					}
					if sub.read != "" && s.read == "" && feasible(x.Block()) && !held(x, false) {
						s.read = sub.read
					}
					if sub.syncUnk != "" && s.syncUnk == "" && feasible(x.Block()) {
						s.syncUnk = sub.syncUnk
					}
					if sub.dynUnk != "" && s.dynUnk == "" && feasible(x.Block()) {
						s.dynUnk = sub.dynUnk
					}
					if sub.optOut != "" && s.optOut == "" && feasible(x.Block()) {
						s.optOut = sub.optOut
					}
					if cv, ok := x.(*ssa.Call); ok && sub.retDerived {
						walk(cv)
					}
				}
			}
		}
	}
	if _, isPtr := param.Type().Underlying().(*types.Pointer); isPtr || c14PointerLike(param.Type(), 0) {
		walk(param)
	}
	return s
}

// cfgFieldsOf: the bool fields of struct type T that are only ever stored on
// objects still under construction (verified over T's package and the module).
func (sm *c14Summ) cfgFieldsOf(T *types.Named) map[int]bool {
	if m, ok := sm.cfgFields[T]; ok {
		return m
	}
	m := map[int]bool{}
	sm.cfgFields[T] = m
	st, _ := T.Underlying().(*types.Struct)
	if st == nil || T.Obj().Pkg() == nil {
		return m
	}
	hasMu := false
	for i := 0; i < st.NumFields(); i++ {
		if b, ok := st.Field(i).Type().Underlying().(*types.Basic); ok && b.Kind() == types.Bool {
			m[i] = true
		}
		if c14IsMutexType(st.Field(i).Type()) {
			hasMu = true
		}
	}
	if !hasMu || len(m) == 0 {
		for k := range m {
			delete(m, k)
		}
		return m
	}
	fns := append([]*ssa.Function{}, sm.p.AllFuncs...)
	if sp := sm.p.SSA.Package(T.Obj().Pkg()); sp != nil && !strings.HasPrefix(T.Obj().Pkg().Path(), modPrefix) {
		fns = append(fns, c14PkgFuncs(sm.p, sp)...)
	}
	for _, f := range fns {
		for _, b := range f.Blocks {
			for _, in := range b.Instrs {
				stx, ok := in.(*ssa.Store)
				if !ok {
					continue
				}
				fa, ok := stx.Addr.(*ssa.FieldAddr)
				if !ok || !m[fa.Field] {
					continue
				}
				if n, _ := c14StructOf(fa.X.Type()); n != T {
					continue
				}
				if !sm.cx.fresh.freshAt(fa.X, stx) {
					delete(m, fa.Field)
				}
			}
		}
	}
	return m
}

func c14PkgFuncs(p *Program, sp *ssa.Package) []*ssa.Function {
	var out []*ssa.Function
	seen := map[*ssa.Function]bool{}
	var add func(f *ssa.Function)
	add = func(f *ssa.Function) {
		if f == nil || seen[f] || len(f.Blocks) == 0 {
			return
		}
		seen[f] = true
		out = append(out, f)
		for _, a := range f.AnonFuncs {
			add(a)
		}
	}
	for _, m := range sp.Members {
		switch m := m.(type) {
		case *ssa.Function:
			add(m)
		case *ssa.Type:
			for _, t := range []types.Type{m.Type(), types.NewPointer(m.Type())} {
				ms := p.SSA.MethodSets.MethodSet(t)
				for i := 0; i < ms.Len(); i++ {
					add(p.SSA.MethodValue(ms.At(i)))
				}
			}
		}
	}
	return out
}

// methodsOf: the declared methods (pointer method set) of T.
func (sm *c14Summ) methodsOf(T *types.Named) []*ssa.Function {
	var out []*ssa.Function
	ms := sm.p.SSA.MethodSets.MethodSet(types.NewPointer(T))
	for i := 0; i < ms.Len(); i++ {
		if f := sm.p.SSA.MethodValue(ms.At(i)); f != nil && f.Synthetic == "" && len(f.Blocks) > 0 {
			out = append(out, f)
		}
	}
	return out
}

// lockConfigurable: T has a mutex of its own whose acquisition some method
// skips depending on a construction-only bool field.
func (sm *c14Summ) lockConfigurable(T *types.Named) bool {
	if v := sm.configur[T]; v != 0 {
		return v == 1
	}
	sm.configur[T] = 2
	cf := sm.cfgFieldsOf(T)
	if len(cf) == 0 {
		return false
	}
	for _, m := range sm.methodsOf(T) {
		for b := range cf {
			for _, val := range []bool{false, true} {
				if sm.sum(m, 0, c14Cfg{b: val}, nil, 0).optOut != "" {
					sm.configur[T] = 1
					return true
				}
			}
		}
	}
	return false
}

// valueCfg: the configurations a value of type *T used at `at` may have been
// constructed with: composite literal / new (zero bools + dominating constant
// stores), or the result of a function returning such a value (bounded depth),
// refined by constant stores that dominate the use.
func (sm *c14Summ) valueCfg(v ssa.Value, T *types.Named, at ssa.Instruction, depth int) []c14Reach {
	cf := sm.cfgFieldsOf(T)
	if IsNilConst(v) {
		return nil
	}
	o := originValue(v)
	apply := func(rs []c14Reach) []c14Reach {
		fn := at.Parent()
		for _, b := range fn.Blocks {
			for _, in := range b.Instrs {
				stx, ok := in.(*ssa.Store)
				if !ok {
					continue
				}
				fa, ok := stx.Addr.(*ssa.FieldAddr)
				if !ok || !cf[fa.Field] || originValue(fa.X) != o {
					continue
				}
				for i := range rs {
					if rs[i].cfg == nil {
						continue
					}
					c, isConst := stx.Val.(*ssa.Const)
					if isConst && c.Value != nil && (stx.Block() == at.Block() && Precedes(stx, at) || stx.Block() != at.Block() && stx.Block().Dominates(at.Block())) {
						nc := c14Cfg{}
						for k, vv := range rs[i].cfg {
							nc[k] = vv
						}
						nc[fa.Field] = c.Value.String() == "true"
						rs[i].cfg = nc
						rs[i].via += ", then " + fieldName(fa.X.Type(), fa.Field) + "=" + c.Value.String() + " in " + FuncKeyAny(fn)
					} else {
						nc := c14Cfg{}
						for k, vv := range rs[i].cfg {
							if k != fa.Field {
								nc[k] = vv
							}
						}
						rs[i].cfg = nc
					}
				}
			}
		}
		return rs
	}
	switch x := o.(type) {
	case *ssa.Alloc:
		if n, _ := c14StructOf(x.Type()); n == T && x.Parent() == at.Parent() {
			c := c14Cfg{}
			for k := range cf {
				c[k] = false
			}
			return apply([]c14Reach{{cfg: c, via: "allocated in " + FuncKeyAny(x.Parent())}})
		}
	case *ssa.Call:
		g := x.Call.StaticCallee()
		if g != nil && len(g.Blocks) > 0 && depth < 4 && x.Parent() == at.Parent() {
			var rs []c14Reach
			for _, ri := range Returns(g) {
				if len(ri.Results) != 1 {
					return []c14Reach{{unknown: "multi-result constructor " + FuncKeyAny(g)}}
				}
				for _, sub := range sm.valueCfg(ri.Results[0], T, ri.Ret, depth+1) {
					if sub.cfg != nil {
						nc := c14Cfg{}
						for k, vv := range sub.cfg {
							nc[k] = vv
						}
						sub.cfg = nc
					}
					sub.via = FuncKeyAny(g) + " ← " + sub.via
					rs = append(rs, sub)
				}
			}
			if len(rs) == 0 {
				return []c14Reach{{unknown: FuncKeyAny(g) + " has no followed result"}}
			}
			return apply(rs)
		}
	case *ssa.Phi:
		var rs []c14Reach
		for _, e := range x.Edges {
			rs = append(rs, sm.valueCfg(e, T, at, depth+1)...)
		}
		return rs
	}
	return []c14Reach{{unknown: fmt.Sprintf("value of unknown construction (%s) in %s", AccessPath(v), FuncKey(at.Parent()))}}
}

func (sm *c14Summ) indexPtrStores() {
	if sm.ptrStores != nil {
		return
	}
	sm.ptrStores = map[c14FieldKey][]*ssa.Store{}
	for _, f := range sm.p.AllFuncs {
		if IsTestSupportPkg(RelPkg(TopFunc(f).Pkg.Pkg)) {
			continue
		}
		for _, b := range f.Blocks {
			for _, in := range b.Instrs {
				stx, ok := in.(*ssa.Store)
				if !ok {
					continue
				}
				fa, ok := stx.Addr.(*ssa.FieldAddr)
				if !ok {
					continue
				}
				if _, isPtr := stx.Val.Type().Underlying().(*types.Pointer); !isPtr {
					continue
				}
				if n, _ := c14StructOf(fa.X.Type()); n != nil {
					k := c14FieldKey{n, fa.Field}
					sm.ptrStores[k] = append(sm.ptrStores[k], stx)
				}
			}
		}
	}
}

// reachOf: how the objects stored in owner.field (of type *T) are constructed.
func (sm *c14Summ) reachOf(k c14FieldKey, T *types.Named) []c14Reach {
	if r, ok := sm.fieldReach[k]; ok {
		return r
	}
	sm.indexPtrStores()
	var rs []c14Reach
	seen := map[string]bool{}
	for _, stx := range sm.ptrStores[k] {
		for _, r := range sm.valueCfg(stx.Val, T, stx, 0) {
			if r.cfg != nil && len(r.cfg) < len(sm.cfgFieldsOf(T)) {
				r.cfg, r.unknown = nil, " (a configuration flag is not a constant on every path)"
			}
			r.via = "stored by " + FuncKey(stx.Parent()) + ": " + r.via
			key := r.cfg.key() + "|" + r.via + "|" + r.unknown
			if !seen[key] {
				seen[key] = true
				rs = append(rs, r)
			}
		}
	}
	sm.fieldReach[k] = rs
	return rs
}

// c14PointeeUse: one use of a pointer loaded from a struct field.
type c14PointeeUse struct {
	at     ssa.Instruction
	callee *ssa.Function // static callee with a body, the pointer being argument j
	j      int
	escape string // non-empty: the pointer leaves the function's view
}

func c14PointeeUses(ld ssa.Value) []c14PointeeUse {
	var out []c14PointeeUse
	seen := map[ssa.Value]bool{}
	var walk func(v ssa.Value)
	walk = func(v ssa.Value) {
		if seen[v] {
			return
		}
		seen[v] = true
		refs := v.Referrers()
		if refs == nil {
			return
		}
		for _, u := range *refs {
			switch x := u.(type) {
			case *ssa.Phi:
				walk(x)
			case *ssa.ChangeType:
				walk(x)
			case *ssa.FieldAddr, *ssa.BinOp, *ssa.If, *ssa.DebugRef, *ssa.UnOp:
				// direct field access of the pointee / nil comparison: not a method call
			case *ssa.Store:
				if x.Val != v {
					continue
				}
				if al, ok := x.Addr.(*ssa.Alloc); ok && plainVariable(al) {
					followVar(al, func(l *ssa.UnOp) { walk(l) })
					continue
				}
				if fa, ok := x.Addr.(*ssa.FieldAddr); ok {
					if l, ok := ld.(*ssa.UnOp); ok {
						if src, ok := l.X.(*ssa.FieldAddr); ok && src.Field == fa.Field && types.Identical(src.X.Type(), fa.X.Type()) {
							continue // copied into the same field of another object of the owner type
						}
					}
				}
				out = append(out, c14PointeeUse{at: x, escape: "stored elsewhere"})
			case ssa.CallInstruction:
				c := CallSite{x.Parent(), x}
				callee := c.Callee()
				found := false
				for j, a := range c.Args() {
					if a == v {
						found = true
						if callee != nil && len(callee.Blocks) > 0 && !c.IsGo() && !x.Common().IsInvoke() {
							out = append(out, c14PointeeUse{at: x, callee: callee, j: j})
						} else {
							out = append(out, c14PointeeUse{at: x, escape: "passed to " + c.CalleeKey()})
						}
					}
				}
				if !found {
					out = append(out, c14PointeeUse{at: x, escape: "used by " + c.CalleeKey()})
				}
			case *ssa.Return:
				out = append(out, c14PointeeUse{at: x, escape: "returned"})
			case *ssa.MakeInterface:
				out = append(out, c14PointeeUse{at: x, escape: "boxed in an interface"})
			case *ssa.MakeClosure:
				out = append(out, c14PointeeUse{at: x, escape: "captured by a function literal"})
			case *ssa.Send:
				out = append(out, c14PointeeUse{at: x, escape: "sent on a channel"})
			default:
				if in, ok := u.(ssa.Instruction); ok {
					out = append(out, c14PointeeUse{at: in, escape: fmt.Sprintf("used by %T", u)})
				}
			}
		}
	}
	walk(ld)
	return out
}

// classify a call of callee (pointer = argument j) on an object that may have
// any of the configurations in reach: the worst mode, its witness, and whether
// the object was configured not to lock itself.
func (sm *c14Summ) classify(callee *ssa.Function, j int, reach []c14Reach, pc c14Cfg) (mode byte, why string, optOut string) {
	cfgs := []c14Cfg{nil}
	if len(reach) > 0 {
		cfgs = cfgs[:0]
		for _, r := range reach {
			cfgs = append(cfgs, r.cfg)
		}
	}
	rank := map[byte]int{'N': 0, 'R': 1, '?': 2, 'W': 3}
	mode = 'N'
	for _, cfg := range cfgs {
		s := sm.sum(callee, j, cfg, pc, 0)
		if s.optOut != "" && optOut == "" {
			optOut = s.optOut
		}
		m := s.mode()
		if rank[m] > rank[mode] || why == "" && m == mode {
			mode = m
			switch m {
			case 'W':
				why = s.write
			case 'R':
				why = s.read
			case '?':
				why = s.unknownWhy()
			}
		}
	}
	return
}

// c14InstallHooks wires the summaries into the L-guard event extraction.
func c14InstallHooks(sm *c14Summ) {
	c14PointeeHook = func(fa *ssa.FieldAddr, ld *ssa.UnOp, out *[]c14Event) {
		pt, ok := ld.Type().Underlying().(*types.Pointer)
		if !ok {
			return
		}
		T, _ := c14StructOf(pt.Elem())
		owner, _ := c14StructOf(fa.X.Type())
		if T == nil || owner == nil {
			return
		}
		var reach []c14Reach
		if sm.lockConfigurable(T) {
			reach = sm.reachOf(c14FieldKey{owner, fa.Field}, T)
		}
		for _, u := range c14PointeeUses(ld) {
			if u.callee == nil {
				continue
			}
			mode, why, _ := sm.classify(u.callee, u.j, reach, c14ConstArgs(CallSite{u.at.Parent(), u.at.(ssa.CallInstruction)}, nil))
			switch mode {
			case 'W':
				*out = append(*out, c14Event{at: u.at, mode: 'W', pointee: true, what: "call of " + FuncKeyAny(u.callee) + " on the object the field points to, which mutates it without a lock of its own (" + why + ")"})
			case 'R':
				*out = append(*out, c14Event{at: u.at, mode: 'R', pointee: true, what: "call of " + FuncKeyAny(u.callee) + " on the object the field points to, which reads it without a lock of its own (" + why + ")"})
			}
		}
	}
	c14AddrCallHook = func(c CallSite, addr ssa.Value, ev *c14Event) {
		if _, _, ok := lockEffect(c); ok {
			return
		}
		callee := c.Callee()
		if callee == nil || len(callee.Blocks) == 0 || c.IsGo() || c.Common().IsInvoke() || c14IsSyncFn(callee) {
			return
		}
		worst := byte('N')
		why := ""
		for j, a := range c.Args() {
			if a != addr {
				continue
			}
			s := sm.sum(callee, j, nil, c14ConstArgs(c, nil), 0)
			switch s.mode() {
			case 'W':
				worst, why = 'W', s.write
			case '?':
				if worst != 'W' {
					worst = '?'
				}
			case 'R':
				if worst == 'N' {
					worst, why = 'R', s.read
				}
			}
		}
		switch worst {
		case 'W':
			ev.soft = false
			ev.what = "address passed to " + FuncKeyAny(callee) + ", which writes through it (" + why + ")"
		case 'R', 'N':
			ev.mode, ev.soft = 'R', false
			ev.what = "address passed to " + FuncKeyAny(callee) + ", which only reads through it"
		}
	}
}

// ---------------------------------------------------------------------------
// L-unsync and L-rlock

type c14OwnedAccess struct {
	fn    *ssa.Function
	fa    *ssa.FieldAddr
	owner *types.Named
	T     *types.Named // L-unsync: the configurable pointee type
}

func c14InModuleType(n *types.Named) bool {
	return n != nil && n.Obj().Pkg() != nil && strings.HasPrefix(n.Obj().Pkg().Path(), modPrefix) && !IsTestSupportPkg(RelPkg(n.Obj().Pkg()))
}

// c14RWFields: names of the sync.RWMutex fields (also embedded) of struct type n.
func c14RWFields(n *types.Named) []string {
	st, _ := n.Underlying().(*types.Struct)
	var out []string
	for i := 0; st != nil && i < st.NumFields(); i++ {
		if IsNamed(st.Field(i).Type(), "sync", "RWMutex") {
			out = append(out, st.Field(i).Name())
		}
	}
	return out
}

func c14IsSyncType(t types.Type) bool {
	if pt, ok := t.Underlying().(*types.Pointer); ok {
		t = pt.Elem()
	}
	n := NamedOf(t)
	if n == nil || n.Obj().Pkg() == nil {
		return false
	}
	switch n.Obj().Pkg().Path() {
	case "sync", "sync/atomic", "go4.org/syncutil", "go4.org/syncutil/singleflight", "golang.org/x/sync/errgroup", "golang.org/x/sync/singleflight":
		return true
	}
	return false
}

// c14ScanOwned enumerates, over non-test module code, (a) accesses to struct
// fields holding a pointer to a lock-configurable type (L-unsync) and (b)
// accesses to the non-table fields of structs that have a sync.RWMutex
// (L-rlock). The containing functions become roots of the entry-lockset inference.
func c14ScanOwned(p *Program, sm *c14Summ, guards map[*types.Named]map[int]*c14FieldSpec) (unsync, rl []c14OwnedAccess, roots []*ssa.Function) {
	rw := map[*types.Named][]string{}
	seenRoot := map[*ssa.Function]bool{}
	for _, fn := range p.AllFuncs {
		top := TopFunc(fn)
		if top.Pkg == nil || IsTestSupportPkg(RelPkg(top.Pkg.Pkg)) {
			continue
		}
		for _, b := range fn.Blocks {
			for _, in := range b.Instrs {
				fa, ok := in.(*ssa.FieldAddr)
				if !ok {
					continue
				}
				owner, st := c14StructOf(fa.X.Type())
				if !c14InModuleType(owner) {
					continue
				}
				ft := st.Field(fa.Field).Type()
				hit := false
				if pt, ok := ft.Underlying().(*types.Pointer); ok {
					if T, _ := c14StructOf(pt.Elem()); T != nil && sm.lockConfigurable(T) {
						unsync = append(unsync, c14OwnedAccess{fn, fa, owner, T})
						hit = true
					}
				}
				rws, ok := rw[owner]
				if !ok {
					rws = c14RWFields(owner)
					rw[owner] = rws
				}
				if len(rws) > 0 && !c14IsSyncType(ft) && guards[owner][fa.Field] == nil {
					rl = append(rl, c14OwnedAccess{fn: fn, fa: fa, owner: owner})
					hit = true
				}
				if hit && !seenRoot[top] {
					seenRoot[top] = true
					roots = append(roots, top)
				}
			}
		}
	}
	return
}

// ownerPath: for a field address rendered "&P.f" returns P.
func c14OwnerPath(fa *ssa.FieldAddr) (string, bool) {
	ap := AccessPath(fa)
	suffix := "." + fieldName(fa.X.Type(), fa.Field)
	if strings.HasPrefix(ap, "&") && strings.HasSuffix(ap, suffix) {
		return ap[1 : len(ap)-len(suffix)], true
	}
	return ap, false
}

func c14RuleUnsync(p *Program, r *Reporter, cx *c14Ctx, sm *c14Summ, accs []c14OwnedAccess) {
	groups := map[c14FieldKey][]c14OwnedAccess{}
	var keys []c14FieldKey
	for _, a := range accs {
		k := c14FieldKey{a.owner, a.fa.Field}
		if _, ok := groups[k]; !ok {
			keys = append(keys, k)
		}
		groups[k] = append(groups[k], a)
	}
	name := func(k c14FieldKey) string {
		return RelPkg(k.owner.Obj().Pkg()) + "." + k.owner.Obj().Name() + "." + k.owner.Underlying().(*types.Struct).Field(k.idx).Name()
	}
	sort.Slice(keys, func(i, j int) bool { return name(keys[i]) < name(keys[j]) })
	nOptOut := 0
	for _, k := range keys {
		as := groups[k]
		T := as[0].T
		fname := name(k)
		site := p.Pos(as[0].fa.Pos())
		reach := sm.reachOf(k, T)
		optedOut := func(cfg c14Cfg) string {
			for _, m := range sm.methodsOf(T) {
				if o := sm.sum(m, 0, cfg, nil, 0).optOut; o != "" {
					return o
				}
			}
			return ""
		}
		var vias, outs, unks []string
		for _, rc := range reach {
			switch {
			case rc.cfg == nil:
				unks = append(unks, rc.via+rc.unknown)
			case optedOut(rc.cfg) != "":
				outs = append(outs, rc.via+" ["+c14CfgDesc(rc.cfg, T)+": "+optedOut(rc.cfg)+"]")
			default:
				vias = append(vias, rc.via+" ["+c14CfgDesc(rc.cfg, T)+"]")
			}
		}
		tname := typeKey(T)
		if len(reach) == 0 {
			r.OKTable("L-unsync", fname+"#construction", site, "no non-test code stores a *"+tname+" in this field")
			continue
		}
		if len(outs) == 0 && len(unks) == 0 {
			r.OKTable("L-unsync", fname+"#construction", site, fmt.Sprintf("every *%s stored here locks itself: %s; its methods need no lock of the owner", tname, strings.Join(vias, "; ")))
			continue
		}
		nOptOut++
		// the object does not lock itself (or may not): every call that touches it needs the owner's lock
		var common map[string]bool
		nSites, nFresh, nBad := 0, 0, 0
		for _, a := range as {
			refs := a.fa.Referrers()
			if refs == nil {
				continue
			}
			ownerP, okP := c14OwnerPath(a.fa)
			li := cx.lockInfo(TopFunc(a.fn))
			for _, u := range *refs {
				ld, ok := u.(*ssa.UnOp)
				if !ok || ld.Op != token.MUL {
					continue
				}
				for _, use := range c14PointeeUses(ld) {
					if cx.fresh.freshAt(a.fa.X, use.at) {
						nFresh++
						continue
					}
					upos := p.Pos(c14InstrPos(use.at))
					if use.callee == nil {
						nSites++
						nBad++
						r.Undecided("L-unsync", FuncKey(a.fn)+"#"+fname+"#escape", upos, fmt.Sprintf("the *%s that does not lock itself (%s) is %s: its later uses are not followed", tname, strings.Join(append(outs, unks...), "; "), use.escape))
						continue
					}
					mode, why, _ := sm.classify(use.callee, use.j, reach, c14ConstArgs(CallSite{use.at.Parent(), use.at.(ssa.CallInstruction)}, nil))
					if mode == 'N' {
						continue
					}
					nSites++
					construct := FuncKey(a.fn) + "#" + fname + "." + use.callee.Name()
					if mode == '?' {
						nBad++
						r.Undecided("L-unsync", construct, upos, fmt.Sprintf("cannot establish what %s does to the object (%s)", FuncKeyAny(use.callee), why))
						continue
					}
					if !okP {
						nBad++
						r.Undecided("L-unsync", construct, upos, "cannot name the owning object ("+ownerP+")")
						continue
					}
					held := li.HeldAt(use.at)
					here := map[string]bool{}
					for path, m := range held {
						if strings.HasPrefix(path, "&"+ownerP+".") && (m == 'W' || mode == 'R') {
							here[path[len("&"+ownerP):]] = true
						}
					}
					verb := map[byte]string{'W': "mutates", 'R': "reads"}[mode]
					need := map[byte]string{'W': "exclusively (sync.Mutex, or the write side of an RWMutex)", 'R': "(read side suffices)"}[mode]
					if len(here) == 0 {
						nBad++
						msg := fmt.Sprintf("%s %s the *%s in %s.%s (%s), which does not lock itself (%s), without a mutex of %s held %s; held: %s (entry lockset of %s: %s)",
							FuncKeyAny(use.callee), verb, tname, ownerP, fieldName(a.fa.X.Type(), a.fa.Field), why, strings.Join(append(outs, unks...), "; "), ownerP, need, held, FuncKey(TopFunc(a.fn)), c14EntryDesc(cx, TopFunc(a.fn)))
						if mode == 'W' {
							for _, m := range held {
								if m == 'R' {
									msg += "; a read lock admits several holders at once, so two of these calls race"
									break
								}
							}
						}
						if len(outs) == 0 {
							r.Undecided("L-unsync", construct, upos, msg+" — construction of the object could not be followed")
						} else {
							r.Violation("L-unsync", construct, upos, msg)
						}
						continue
					}
					var hs []string
					for h := range here {
						hs = append(hs, "&"+ownerP+h)
					}
					sort.Strings(hs)
					r.OK("L-unsync", construct, upos, fmt.Sprintf("%s %s the object (%s); %s held %s", FuncKeyAny(use.callee), verb, why, strings.Join(hs, ","), need))
					if mode == 'W' {
						if common == nil {
							common = here
						} else {
							for h := range common {
								if !here[h] {
									delete(common, h)
								}
							}
						}
					}
				}
			}
		}
		var cs []string
		for h := range common {
			cs = append(cs, h[1:])
		}
		sort.Strings(cs)
		desc := fmt.Sprintf("*%s built not to lock itself: %s", tname, strings.Join(append(outs, unks...), "; "))
		switch {
		case nBad > 0:
			r.Violation("L-unsync", fname+"#construction", site, fmt.Sprintf("%s; %d of %d call site(s) touch it without the owner's lock (see the site obligations)", desc, nBad, nSites))
		case common != nil && len(common) == 0:
			r.Violation("L-unsync", fname+"#construction", site, desc+"; its mutating call sites each hold some mutex of the owner but no single mutex is held exclusively at all of them")
		default:
			r.OK("L-unsync", fname+"#construction", site, fmt.Sprintf("%s; all %d call site(s) that touch it hold the owner's mutex %s as needed (%d more on a not-yet-published owner)", desc, nSites, strings.Join(cs, ","), nFresh))
		}
	}
	r.Analysed("fields_holding_lock_configurable_objects", len(keys))
	r.Analysed("of_which_not_self_locking", nOptOut)
	r.Floor("L-unsync", 5)
}

func c14RuleRLock(p *Program, r *Reporter, cx *c14Ctx, accs []c14OwnedAccess) {
	type gkey struct {
		fn    *ssa.Function
		field string
	}
	type ginfo struct {
		site         string
		nUnder, nMut int
		bad          []string
		locks        []string
	}
	groups := map[gkey]*ginfo{}
	var order []gkey
	get := func(k gkey, site string) *ginfo {
		g, ok := groups[k]
		if !ok {
			g = &ginfo{site: site}
			groups[k] = g
			order = append(order, k)
		}
		return g
	}
	check := func(fn *ssa.Function, field string, site string, evs []c14Event, rlocks []string, fresh func(at ssa.Instruction) bool) {
		li := cx.lockInfo(TopFunc(fn))
		for _, ev := range evs {
			held := li.HeldAt(ev.at)
			rl := ""
			anyW := false
			for _, m := range held {
				if m == 'W' {
					anyW = true
				}
			}
			for _, l := range rlocks {
				if held[l] == 'R' {
					rl = l
				}
			}
			if rl == "" || anyW || fresh(ev.at) {
				continue
			}
			g := get(gkey{fn, field}, site)
			g.nUnder++
			g.locks = append(g.locks, rl)
			if ev.mode == 'W' && !ev.soft {
				g.nMut++
				g.bad = append(g.bad, fmt.Sprintf("%s at %s with only the read side of %s held (held: %s; entry lockset of %s: %s): a read lock admits several holders at once, so two executions of this write race", ev.what, p.Pos(c14InstrPos(ev.at)), rl, held, FuncKey(TopFunc(fn)), c14EntryDesc(cx, TopFunc(fn))))
			}
		}
	}
	for _, a := range accs {
		ownerP, ok := c14OwnerPath(a.fa)
		if !ok {
			continue
		}
		var rlocks []string
		for _, m := range c14RWFields(a.owner) {
			rlocks = append(rlocks, "&"+ownerP+"."+m)
		}
		var evs []c14Event
		c14AddrEvents(a.fa, false, &evs, map[ssa.Value]bool{})
		field := a.owner.Obj().Name() + "." + fieldName(a.fa.X.Type(), a.fa.Field)
		check(a.fn, field, p.Pos(a.fa.Pos()), evs, rlocks, func(at ssa.Instruction) bool { return cx.fresh.freshAt(a.fa.X, at) })
	}
	// package-level RWMutexes: writes to package-level variables of the same package
	nGlob := 0
	for _, sp := range p.SSA.AllPackages() {
		if !strings.HasPrefix(sp.Pkg.Path(), modPrefix) || IsTestSupportPkg(RelPkg(sp.Pkg)) {
			continue
		}
		var rlocks []string
		for _, m := range sp.Members {
			if g, ok := m.(*ssa.Global); ok && IsNamed(g.Type().(*types.Pointer).Elem(), "sync", "RWMutex") {
				rlocks = append(rlocks, AccessPath(g))
			}
		}
		if len(rlocks) == 0 {
			continue
		}
		nGlob += len(rlocks)
		for _, fn := range p.FuncsIn(RelPkg(sp.Pkg)) {
			for _, b := range fn.Blocks {
				for _, in := range b.Instrs {
					var g *ssa.Global
					var evs []c14Event
					switch x := in.(type) {
					case *ssa.Store:
						if gg, ok := x.Addr.(*ssa.Global); ok && gg.Pkg == sp {
							g = gg
							evs = append(evs, c14Ev(x, 'W', "store", false))
						}
					case *ssa.UnOp:
						if gg, ok := x.X.(*ssa.Global); ok && x.Op == token.MUL && gg.Pkg == sp {
							g = gg
							evs = append(evs, c14Ev(x, 'R', "load", false))
							if c14IsContainer(x.Type()) {
								c14ValueEvents(x, &evs, map[ssa.Value]bool{})
							}
						}
					}
					if g == nil || c14IsSyncType(g.Type().(*types.Pointer).Elem()) {
						continue
					}
					check(fn, "var "+g.Name(), p.Pos(in.Pos()), evs, rlocks, func(ssa.Instruction) bool { return false })
				}
			}
		}
	}
	for _, k := range order {
		g := groups[k]
		construct := FuncKey(k.fn) + "#" + k.field
		if len(g.bad) > 0 {
			r.Violation("L-rlock", construct, g.site, strings.Join(g.bad, " | "))
			continue
		}
		r.OK("L-rlock", construct, g.site, fmt.Sprintf("%d access event(s) run with only the read side of %s held; none is a write (store, map update/delete, in-place element write, or call of a function whose body writes through the field)", g.nUnder, strings.Join(dedupe(g.locks), ",")))
	}
	r.Analysed("package_level_rwmutexes", nGlob)
	r.Floor("L-rlock", 25)
}

// ---------------------------------------------------------------------------
// L-excl: an RWMutex that protects the DIRECTORY TREE of a storage (an external
// resource, not a struct field).
//
// The read side is for operations that rely on the tree's structure staying
// put (make a directory, then create an entry in it); the write side is for
// operations that change the structure (remove a directory). Two read holders
// run concurrently, so a directory removal that holds only the read side (or no
// lock) can land between a receiver's MkdirAll and its TempFile: the receive
// fails with ENOENT on a healthy store, a result no sequential order of the
// calls produces.
//
// Nothing is named: resource locks, dependent sequences and destroying calls
// are derived from the code. The only frozen part is the classification of the
// filesystem operations (methods of files.VFS, resolved on the interface, and
// the os / robustio functions behind them), one reason each.

type c14FsKind int

const (
	c14FsNeutral    c14FsKind = iota // does not create or remove directories and does not need one to be there afterwards
	c14FsMkdir                       // establishes the directory named by its path argument
	c14FsCreateIn                    // creates an entry in the directory named by its dir argument: fails if that directory is gone
	c14FsCreatePath                  // creates/opens the entry named by its path argument: dependent when the path is computed from an established directory
	c14FsRmdir                       // removes the directory named by its path argument
	c14FsRemovePath                  // removes whatever the path names: destroys structure when the path is a directory path
	c14FsRenamePath                  // renames old to new: destroys structure when old is a directory path; creates an entry at new
	c14FsDirRead                     // lists a directory: its argument is a directory path (used for classification only)
)

type c14FsEntry struct {
	kind   c14FsKind
	arg    int // index of the path/dir argument, receiver not counted
	arg2   int // Rename: new name
	reason string
}

// c14VFSTable classifies every method of files.VFS (checked against the
// interface's method set on every run: an unclassified method is Undecided, a
// table entry without method is an unresolved anchor).
var c14VFSTable = map[string]c14FsEntry{
	"MkdirAll":     {kind: c14FsMkdir, arg: 0, reason: "creates the directory (and parents): what a following TempFile into it relies on"},
	"TempFile":     {kind: c14FsCreateIn, arg: 0, reason: "`should behave like os.CreateTemp`: creates a file IN dir and fails with ENOENT when dir is gone"},
	"RemoveDir":    {kind: c14FsRmdir, arg: 0, reason: "removes a directory: the one operation of the interface whose purpose is to change the tree's structure"},
	"Remove":       {kind: c14FsRemovePath, arg: 0, reason: "`files, not directories` by the interface's contract: structure-neutral unless it is handed a directory path"},
	"Rename":       {kind: c14FsRenamePath, arg: 0, arg2: 1, reason: "POSIX rename: moves a directory (and everything below it) when oldname is one; otherwise replaces one file entry"},
	"ReadDirNames": {kind: c14FsDirRead, arg: 0, reason: "lists a directory; read-only"},
	"Stat":         {kind: c14FsNeutral, reason: "read-only"},
	"Lstat":        {kind: c14FsNeutral, reason: "read-only"},
	"Open":         {kind: c14FsNeutral, reason: "opens an existing file for reading"},
}

// c14OSTable: the os / robustio functions with the same effects, for storage
// code that bypasses the VFS.
var c14OSTable = map[string]map[string]c14FsEntry{
	"os": {
		"MkdirAll":   {kind: c14FsMkdir, arg: 0, reason: "creates the directory"},
		"Mkdir":      {kind: c14FsMkdir, arg: 0, reason: "creates the directory"},
		"CreateTemp": {kind: c14FsCreateIn, arg: 0, reason: "creates a file in dir"},
		"MkdirTemp":  {kind: c14FsCreateIn, arg: 0, reason: "creates a directory in dir"},
		"Create":     {kind: c14FsCreatePath, arg: 0, reason: "creates the named file: its directory must exist"},
		"OpenFile":   {kind: c14FsCreatePath, arg: 0, reason: "opens/creates the named file: its directory must exist"},
		"WriteFile":  {kind: c14FsCreatePath, arg: 0, reason: "creates the named file: its directory must exist"},
		"Remove":     {kind: c14FsRemovePath, arg: 0, reason: "removes a file or an empty directory"},
		"RemoveAll":  {kind: c14FsRemovePath, arg: 0, reason: "removes a file or a whole tree"},
		"Rename":     {kind: c14FsRenamePath, arg: 0, arg2: 1, reason: "renames a file or a directory"},
		"ReadDir":    {kind: c14FsDirRead, arg: 0, reason: "lists a directory"},
	},
	modPrefix + "thirdparty/go/robustio": {
		"RemoveAll": {kind: c14FsRemovePath, arg: 0, reason: "os.RemoveAll with retries"},
		"Rename":    {kind: c14FsRenamePath, arg: 0, arg2: 1, reason: "os.Rename with retries"},
	},
}

// A c14FsOp is one classified filesystem call.
type c14FsOp struct {
	kind  c14FsKind
	name  string    // "VFS.RemoveDir", "os.Remove"
	vfs   ssa.Value // the VFS the call goes to (nil for os functions)
	path  ssa.Value // dir/path argument (Rename: oldname); nil when lost in a wrapper
	path2 ssa.Value // Rename: newname
}

// A c14ExclSite is a filesystem call attributed to a storage object.
type c14ExclSite struct {
	c        CallSite // where the lockset is evaluated (the wrapper's call site when lifted)
	op       c14FsOp
	T        *types.Named // owning storage type
	owner    string       // access path of the owning object in c.Fn's terms
	via      string       // "" or the wrapper the operation sits in
	viaLocks bool         // that wrapper performs lock operations of its own
}

type c14ExclLock struct {
	T    *types.Named
	name string
	ptr  bool // the field is a *sync.RWMutex
}

func (l c14ExclLock) path(owner string) string {
	if l.ptr {
		return owner + "." + l.name
	}
	return "&" + owner + "." + l.name
}

func (l c14ExclLock) key() string {
	return RelPkg(l.T.Obj().Pkg()) + "." + l.T.Obj().Name() + "." + l.name
}

type c14ExclState struct {
	p         *Program
	vfs       *types.Interface
	vfsNamed  *types.Named
	cands     []c14ExclLock
	candT     map[*types.Named]bool
	sites     []c14ExclSite
	unowned   []c14ExclSite // definite directory removals whose owner cannot be named
	unclass   []string      // VFS methods missing from the table
	producers map[*ssa.Function]bool
	nCalls    int
}

// c14ExclScan enumerates the candidate locks (RWMutex fields, by value or by
// pointer, of struct types declared under pkg/blobserver that are not the
// mutex of a guard-table entry) and the classified filesystem calls of their
// packages. It returns the functions whose entry locksets must be inferred.
func c14ExclScan(p *Program, guards map[*types.Named]map[int]*c14FieldSpec) (*c14ExclState, []*ssa.Function) {
	st := &c14ExclState{p: p, candT: map[*types.Named]bool{}, producers: map[*ssa.Function]bool{}}
	st.vfsNamed = p.NamedType("pkg/blobserver/files", "VFS")
	st.vfs = p.Iface("pkg/blobserver/files", "VFS")
	// table agreement with the interface
	have := map[string]bool{}
	for i := 0; i < st.vfs.NumMethods(); i++ {
		m := st.vfs.Method(i)
		have[m.Name()] = true
		e, ok := c14VFSTable[m.Name()]
		if !ok {
			st.unclass = append(st.unclass, m.Name())
			continue
		}
		if e.kind == c14FsNeutral {
			continue
		}
		sig := m.Type().(*types.Signature)
		for _, ai := range []int{e.arg, e.arg2} {
			if ai >= sig.Params().Len() || !types.Identical(sig.Params().At(ai).Type(), types.Typ[types.String]) {
				brokenf("anchor unresolved: files.VFS.%s parameter %d is not a string path", m.Name(), ai)
			}
		}
	}
	for name := range c14VFSTable {
		if !have[name] {
			brokenf("anchor unresolved: files.VFS has no method %s (L-excl classification table)", name)
		}
	}
	sort.Strings(st.unclass)

	// candidate locks
	var paths []string
	for path := range p.ByPath {
		rel := strings.TrimPrefix(path, modPrefix)
		if strings.HasPrefix(path, modPrefix) && (rel == "pkg/blobserver" || strings.HasPrefix(rel, "pkg/blobserver/")) && !IsTestSupportPkg(rel) {
			paths = append(paths, path)
		}
	}
	sort.Strings(paths)
	pkgs := map[string]bool{}
	for _, path := range paths {
		pk := p.ByPath[path]
		if pk.Types == nil {
			continue
		}
		sc := pk.Types.Scope()
		for _, name := range sc.Names() {
			tn, ok := sc.Lookup(name).(*types.TypeName)
			if !ok || tn.IsAlias() {
				continue
			}
			n, ok := tn.Type().(*types.Named)
			if !ok || n.TypeParams().Len() > 0 {
				continue
			}
			stt, ok := n.Underlying().(*types.Struct)
			if !ok {
				continue
			}
			for i := 0; i < stt.NumFields(); i++ {
				f := stt.Field(i)
				if !IsNamed(f.Type(), "sync", "RWMutex") {
					continue
				}
				tabled := false
				for _, fs := range guards[n] {
					if fs.g.mu == f.Name() {
						tabled = true
					}
				}
				if tabled {
					continue // guards struct fields: L-guard's business
				}
				_, ptr := f.Type().(*types.Pointer)
				st.cands = append(st.cands, c14ExclLock{T: n, name: f.Name(), ptr: ptr})
				st.candT[n] = true
				pkgs[strings.TrimPrefix(path, modPrefix)] = true
			}
		}
	}

	// classified calls of those packages
	var rels []string
	for rel := range pkgs {
		rels = append(rels, rel)
	}
	sort.Strings(rels)
	seenRoot := map[*ssa.Function]bool{}
	var roots []*ssa.Function
	for _, rel := range rels {
		fns := p.FuncsIn(rel)
		// functions whose results are used as directory paths somewhere in the package
		for _, fn := range fns {
			if st.lowerLayer(fn) {
				continue
			}
			for _, c := range CallsIn(fn, false) {
				if op, ok := st.classify(c); ok && c14FsDirPosition(op.kind) && op.path != nil {
					if call, ok := originValue(op.path).(*ssa.Call); ok {
						if g := call.Call.StaticCallee(); g != nil && InModule(g) {
							st.producers[g] = true
						}
					}
				}
			}
		}
		for _, fn := range fns {
			if st.lowerLayer(fn) {
				continue
			}
			for _, c := range CallsIn(fn, false) {
				op, ok := st.classify(c)
				if !ok {
					continue
				}
				st.nCalls++
				for _, s := range st.attribute(c14ExclSite{c: c, op: op}, 0) {
					if s.T == nil {
						if st.destroys(s) {
							st.unowned = append(st.unowned, s)
						}
						continue
					}
					st.sites = append(st.sites, s)
					if top := TopFunc(s.c.Fn); !seenRoot[top] {
						seenRoot[top] = true
						roots = append(roots, top)
					}
				}
			}
		}
	}
	return st, roots
}

func c14FsDirPosition(k c14FsKind) bool {
	return k == c14FsMkdir || k == c14FsCreateIn || k == c14FsRmdir || k == c14FsDirRead
}

// lowerLayer: fn belongs to an implementation of files.VFS — the layer the
// table describes, below the lock.
func (st *c14ExclState) lowerLayer(fn *ssa.Function) bool {
	top := TopFunc(fn)
	recv := top.Signature.Recv()
	if recv == nil {
		return false
	}
	t := recv.Type()
	return types.Implements(t, st.vfs) || types.Implements(types.NewPointer(t), st.vfs)
}

// classify recognises a filesystem call: an invoke of a files.VFS method
// (through VFS or an interface that includes it), a static call of such a
// method on an implementer, or one of the os / robustio functions.
func (st *c14ExclState) classify(c CallSite) (c14FsOp, bool) {
	cc := c.Common()
	args := c.Args()
	mk := func(prefix, name string, e c14FsEntry, off int, vfs ssa.Value) (c14FsOp, bool) {
		op := c14FsOp{kind: e.kind, name: prefix + "." + name, vfs: vfs}
		if e.kind != c14FsNeutral {
			if e.arg+off < len(args) {
				op.path = args[e.arg+off]
			}
			if e.kind == c14FsRenamePath && e.arg2+off < len(args) {
				op.path2 = args[e.arg2+off]
			}
		}
		return op, true
	}
	if cc.IsInvoke() {
		e, ok := c14VFSTable[cc.Method.Name()]
		if !ok || !types.Implements(cc.Value.Type(), st.vfs) {
			return c14FsOp{}, false
		}
		return mk("VFS", cc.Method.Name(), e, 1, cc.Value)
	}
	f := cc.StaticCallee()
	if f == nil {
		return c14FsOp{}, false
	}
	if recv := f.Signature.Recv(); recv != nil {
		e, ok := c14VFSTable[f.Name()]
		if !ok || len(args) == 0 {
			return c14FsOp{}, false
		}
		if t := recv.Type(); types.Implements(t, st.vfs) || types.Implements(types.NewPointer(t), st.vfs) {
			return mk("VFS", f.Name(), e, 1, args[0])
		}
		return c14FsOp{}, false
	}
	var pkg *types.Package
	if f.Pkg != nil {
		pkg = f.Pkg.Pkg
	} else if f.Object() != nil {
		pkg = f.Object().Pkg()
	}
	if pkg == nil {
		return c14FsOp{}, false
	}
	if e, ok := c14OSTable[pkg.Path()][f.Name()]; ok {
		return mk(pkg.Name(), f.Name(), e, 0, nil)
	}
	return c14FsOp{}, false
}

// ownerOfVFS: v is the value of field f of an object X of a candidate type:
// returns the type and X's access path.
func (st *c14ExclState) ownerOfVFS(v ssa.Value) (*types.Named, string) {
	if v == nil {
		return nil, ""
	}
	ld, ok := originValue(v).(*ssa.UnOp)
	if !ok || ld.Op != token.MUL {
		return nil, ""
	}
	fa, ok := ld.X.(*ssa.FieldAddr)
	if !ok {
		return nil, ""
	}
	n := NamedOf(fa.X.Type().Underlying().(*types.Pointer).Elem())
	if n == nil || !st.candT[n] {
		return nil, ""
	}
	return n, strings.TrimPrefix(AccessPath(fa.X), "&")
}

// attribute names the storage object a filesystem call works for: the object
// whose field holds the VFS, else the receiver of the enclosing method; a call
// on a VFS that is a plain parameter is lifted to the call sites of the
// enclosing function (bounded).
func (st *c14ExclState) attribute(s c14ExclSite, depth int) []c14ExclSite {
	if T, owner := st.ownerOfVFS(s.op.vfs); T != nil {
		s.T, s.owner = T, owner
		return []c14ExclSite{s}
	}
	top := TopFunc(s.c.Fn)
	if recv := top.Signature.Recv(); recv != nil && len(top.Params) > 0 {
		if n := NamedOf(recv.Type()); n != nil && st.candT[n] {
			if _, isPtr := recv.Type().(*types.Pointer); isPtr {
				s.T, s.owner = n, top.Params[0].Name()
				return []c14ExclSite{s}
			}
		}
	}
	if s.op.vfs == nil || depth >= 3 {
		return []c14ExclSite{s}
	}
	prm, ok := originValue(s.op.vfs).(*ssa.Parameter)
	if !ok || prm.Parent() != s.c.Fn {
		return []c14ExclSite{s}
	}
	fn := s.c.Fn
	idx := func(v ssa.Value) int {
		if v == nil {
			return -1
		}
		if q, ok := originValue(v).(*ssa.Parameter); ok && q.Parent() == fn {
			for i, x := range fn.Params {
				if x == q {
					return i
				}
			}
		}
		return -1
	}
	vi, pi, pi2 := idx(prm), idx(s.op.path), idx(s.op.path2)
	callers := st.p.StaticCallers(fn)
	if vi < 0 || len(callers) == 0 || len(st.p.FuncValueUses(fn)) > 0 {
		return []c14ExclSite{s}
	}
	locks := s.viaLocks
	for _, c := range CallsIn(fn, true) {
		if _, _, ok := lockEffect(c); ok {
			locks = true
		}
	}
	var out []c14ExclSite
	for _, cs := range callers {
		args := cs.Args()
		if vi >= len(args) {
			continue
		}
		ns := c14ExclSite{c: cs, op: c14FsOp{kind: s.op.kind, name: s.op.name, vfs: args[vi]}, via: FuncKey(fn), viaLocks: locks}
		if s.via != "" {
			ns.via = s.via + " <- " + ns.via
		}
		if pi >= 0 && pi < len(args) {
			ns.op.path = args[pi]
		}
		if pi2 >= 0 && pi2 < len(args) {
			ns.op.path2 = args[pi2]
		}
		out = append(out, st.attribute(ns, depth+1)...)
	}
	return out
}

// sameValue: a and b denote the same run-time value as far as a local,
// structural comparison can tell (same origin, or calls of the same module
// function with pairwise same arguments).
func c14ExclSameValue(a, b ssa.Value, depth int) bool {
	if a == nil || b == nil {
		return false
	}
	if sameOrigin(a, b) {
		return true
	}
	if depth > 2 {
		return false
	}
	ca, ok1 := originValue(a).(*ssa.Call)
	cb, ok2 := originValue(b).(*ssa.Call)
	if !ok1 || !ok2 {
		return false
	}
	fa, fb := ca.Call.StaticCallee(), cb.Call.StaticCallee()
	if fa == nil || fa != fb || !InModule(fa) || len(ca.Call.Args) != len(cb.Call.Args) {
		return false
	}
	for i := range ca.Call.Args {
		x, y := ca.Call.Args[i], cb.Call.Args[i]
		if kx, ok := x.(*ssa.Const); ok {
			if ky, ok := y.(*ssa.Const); ok && kx.String() == ky.String() {
				continue
			}
			return false
		}
		if !c14ExclSameValue(x, y, depth+1) {
			return false
		}
	}
	return true
}

// dirValued: v is a directory path — the same value is handed to a
// directory-position parameter (MkdirAll, TempFile's dir, RemoveDir,
// ReadDirNames) in the same function, it is the result of a function whose
// results are used that way in the package, or it is a parameter that callers
// fill with such a value.
func (st *c14ExclState) dirValued(v ssa.Value, fn *ssa.Function, depth int) (bool, string) {
	if v == nil {
		return false, ""
	}
	var hit string
	var walk func(f *ssa.Function)
	walk = func(f *ssa.Function) {
		for _, c := range CallsIn(f, false) {
			if op, ok := st.classify(c); ok && c14FsDirPosition(op.kind) && c14ExclSameValue(v, op.path, 0) && hit == "" {
				hit = "the same value is the directory argument of " + op.name + " in " + FuncKey(f)
			}
		}
		for _, a := range f.AnonFuncs {
			walk(a)
		}
	}
	walk(TopFunc(fn))
	if hit != "" {
		return true, hit
	}
	o := originValue(v)
	if call, ok := o.(*ssa.Call); ok {
		if g := call.Call.StaticCallee(); g != nil && st.producers[g] {
			return true, "result of " + FuncKey(g) + ", whose results are used as directory paths"
		}
	}
	if prm, ok := o.(*ssa.Parameter); ok && depth < 2 {
		pf := prm.Parent()
		for i, x := range pf.Params {
			if x != prm {
				continue
			}
			for _, cs := range st.p.StaticCallers(pf) {
				if args := cs.Args(); i < len(args) {
					if ok, why := st.dirValued(args[i], cs.Fn, depth+1); ok {
						return true, "parameter " + prm.Name() + ", filled by " + FuncKey(cs.Fn) + " where " + why
					}
				}
			}
		}
	}
	return false, ""
}

// destroys: the call removes (or moves away) a directory.
func (st *c14ExclState) destroys(s c14ExclSite) bool {
	ok, _ := st.destroysWhy(s)
	return ok
}

func (st *c14ExclState) destroysWhy(s c14ExclSite) (bool, string) {
	switch s.op.kind {
	case c14FsRmdir:
		return true, "removes a directory"
	case c14FsRemovePath, c14FsRenamePath:
		if ok, why := st.dirValued(s.op.path, s.c.Fn, 0); ok {
			return true, "its path argument is a directory path (" + why + ")"
		}
	}
	return false, ""
}

// paramCreates: fn uses its idx-th parameter as the directory of a creating
// call (possibly through further module functions).
func (st *c14ExclState) paramCreates(fn *ssa.Function, idx, depth int) bool {
	if fn == nil || len(fn.Blocks) == 0 || idx >= len(fn.Params) || depth > 3 || !InModule(fn) {
		return false
	}
	prm := fn.Params[idx]
	for _, c := range CallsIn(fn, true) {
		if op, ok := st.classify(c); ok {
			if st.dependsOnDir(op, prm) {
				return true
			}
			continue
		}
		if g := c.Callee(); g != nil && g != fn {
			for j, a := range c.Args() {
				if sameOrigin(a, prm) && st.paramCreates(g, j, depth+1) {
					return true
				}
			}
		}
	}
	return false
}

// dependsOnDir: the operation creates an entry in / below directory value d.
func (st *c14ExclState) dependsOnDir(op c14FsOp, d ssa.Value) bool {
	od := originValue(d)
	derived := func(v ssa.Value) bool {
		return v != nil && (c14ExclSameValue(v, d, 0) || DependsOn(v, func(x ssa.Value) bool { return x == od || x == d }))
	}
	switch op.kind {
	case c14FsCreateIn:
		return derived(op.path)
	case c14FsCreatePath:
		return derived(op.path)
	case c14FsRenamePath:
		return derived(op.path2)
	}
	return false
}

// c14ExclBroken explores the CFG from C (exclusive) and reports a release of
// lock path L that lies on a path from C to U which does not re-execute C.
func c14ExclBroken(C, U ssa.Instruction, L string) ssa.Instruction {
	type key struct {
		b      *ssa.BasicBlock
		broken bool
	}
	fn := C.Parent()
	seen := map[key]bool{}
	var found ssa.Instruction
	var walk func(b *ssa.BasicBlock, from int, rel ssa.Instruction)
	walk = func(b *ssa.BasicBlock, from int, rel ssa.Instruction) {
		for i := from; i < len(b.Instrs) && found == nil; i++ {
			in := b.Instrs[i]
			if in == C {
				return
			}
			if in == U && rel != nil {
				found = rel
				return
			}
			ci, ok := in.(ssa.CallInstruction)
			if !ok {
				continue
			}
			c := CallSite{fn, ci}
			if c.IsDefer() || c.IsGo() {
				continue
			}
			if op, path, ok := lockEffect(c); ok && path == L && (op == "Unlock" || op == "RUnlock") && rel == nil {
				rel = in
			}
		}
		if found != nil {
			return
		}
		for _, s := range b.Succs {
			k := key{s, rel != nil}
			if !seen[k] {
				seen[k] = true
				walk(s, 0, rel)
			}
		}
	}
	walk(C.Block(), instrIndex(C)+1, nil)
	return found
}

func c14RuleExcl(p *Program, r *Reporter, cx *c14Ctx, st *c14ExclState) {
	const rule = "L-excl"
	vfsKey := "pkg/blobserver/files.VFS#classification"
	vfsSite := p.Pos(st.vfsNamed.Obj().Pos())
	if len(st.unclass) > 0 {
		r.Undecided(rule, vfsKey, vfsSite, "files.VFS has method(s) the classification table does not cover: "+strings.Join(st.unclass, ", ")+" — does it create, rely on or remove directories?")
	} else {
		var rows []string
		for name, e := range c14VFSTable {
			rows = append(rows, name+": "+e.reason)
		}
		sort.Strings(rows)
		r.OKTable(rule, vfsKey, vfsSite, fmt.Sprintf("all %d methods of files.VFS are classified — %s", st.vfs.NumMethods(), strings.Join(rows, "; ")))
	}
	lockAt := func(s c14ExclSite) LockSet {
		if s.c.IsGo() {
			return LockSet{}
		}
		li := cx.lockInfo(TopFunc(s.c.Fn))
		if d, ok := s.c.Instr.(*ssa.Defer); ok {
			return li.atExits(s.c.Fn, d)
		}
		return li.HeldAt(s.c.Instr)
	}
	opRelevant := func(s c14ExclSite) bool {
		switch s.op.kind {
		case c14FsMkdir, c14FsCreateIn, c14FsRmdir:
			return true
		}
		return st.destroys(s)
	}
	named := func(path string) bool { return !strings.Contains(path, "?") }

	// which candidate locks are directory locks: some structure operation of their owner runs under them
	nRes := 0
	for _, lk := range st.cands {
		var under []string
		var mine []c14ExclSite
		for _, s := range st.sites {
			if s.T != lk.T {
				continue
			}
			mine = append(mine, s)
			if !opRelevant(s) || !named(s.owner) {
				continue
			}
			if _, ok := lockAt(s)[lk.path(s.owner)]; ok {
				under = append(under, s.op.name+" in "+FuncKey(s.c.Fn))
			}
		}
		if len(under) == 0 {
			continue // guards something this rule knows nothing about
		}
		nRes++
		resKey := lk.key() + "#resource"
		resSite := p.Pos(lk.T.Obj().Pos())

		// (1) dependent sequences
		type seq struct {
			ok    bool
			descr string
		}
		var seqs []seq
		nBad := 0
		count := map[string]int{}
		uniq := func(k string) string {
			count[k]++
			if count[k] > 1 {
				return fmt.Sprintf("%s#%d", k, count[k])
			}
			return k
		}
		// evalSeq decides the sequence that starts at call cIn in fn (a make-directory call, or — lifted — a
		// call of an unexported helper that makes the directory and leaves creating the entry to its caller).
		// dirs: the values that denote the directory in fn.
		var evalSeq func(cIn ssa.CallInstruction, fn *ssa.Function, owner string, dirs []ssa.Value, cname, base string, depth int)
		evalSeq = func(cIn ssa.CallInstruction, fn *ssa.Function, owner string, dirs []ssa.Value, cname, base string, depth int) {
			site := p.Pos(CallSite{fn, cIn}.Pos())
			L := lk.path(owner)
			dependsOnAny := func(op c14FsOp) bool {
				for _, d := range dirs {
					if st.dependsOnDir(op, d) {
						return true
					}
				}
				return false
			}
			// dependent calls in the same function
			type dep struct {
				in   ssa.CallInstruction
				name string
			}
			var deps []dep
			var inLit []string
			var scan func(f *ssa.Function)
			scan = func(f *ssa.Function) {
				for _, u := range CallsIn(f, false) {
					if u.Instr == cIn {
						continue
					}
					name := ""
					if op, ok := st.classify(u); ok {
						if dependsOnAny(op) {
							name = op.name
						}
					} else if g := u.Callee(); g != nil && InModule(g) {
						for j, a := range u.Args() {
							for _, d := range dirs {
								if c14ExclSameValue(a, d, 0) && st.paramCreates(g, j, 0) {
									name = FuncKey(g)
								}
							}
						}
					}
					if name == "" {
						continue
					}
					if f != fn {
						inLit = append(inLit, name+" in "+FuncKey(f))
						continue
					}
					deps = append(deps, dep{u.Instr, name})
				}
				for _, a := range f.AnonFuncs {
					scan(a)
				}
			}
			scan(fn)
			li := cx.lockInfo(TopFunc(fn))
			var heldC LockSet
			switch x := cIn.(type) {
			case *ssa.Go:
				heldC = LockSet{}
			case *ssa.Defer:
				heldC = li.atExits(fn, x)
			default:
				heldC = li.HeldAt(cIn)
			}
			if len(deps) == 0 && len(inLit) == 0 && depth < 3 && fn.Parent() == nil && cx.eligible(fn) {
				// function splitting: the directory is made in an unexported helper, the entry is created by its
				// caller(s). The helper must run with the lock held from the call on and must not touch the lock
				// itself; the sequence is then decided in every caller, from the call of the helper on.
				_, atC := heldC[L]
				touches := ""
				for _, u := range CallsIn(fn, true) {
					if _, path, ok := lockEffect(u); ok && path == L {
						touches = p.Pos(u.Pos())
					}
				}
				switch {
				case !atC && touches == "":
					r.Violation(rule, uniq(base), site, fmt.Sprintf("%s runs without %s held (held: %s; entry lockset of %s: %s) and leaves creating the entry to its callers: a directory removal (which takes the write side) can run in between", cname, L, heldC, FuncKey(fn), c14EntryDesc(cx, fn)))
					nBad++
					return
				case touches != "":
					r.Undecided(rule, uniq(base), site, fmt.Sprintf("%s makes the directory for its callers but locks/unlocks %s itself (at %s): a hold that spans the return is not followed", FuncKey(fn), L, touches))
					nBad++
					return
				}
				oi := -1
				for i, q := range fn.Params {
					if q.Name() == owner {
						oi = i
					}
				}
				for _, cs := range p.StaticCallers(fn) {
					args := cs.Args()
					var nd []ssa.Value
					for _, d := range dirs {
						if q, ok := originValue(d).(*ssa.Parameter); ok && q.Parent() == fn {
							for i, x := range fn.Params {
								if x == q && i < len(args) {
									nd = append(nd, args[i])
								}
							}
						}
					}
					if call := cs.Value(); call != nil {
						nres := fn.Signature.Results().Len()
						for _, ri := range Returns(fn) {
							for j, res := range ri.Results {
								hit := false
								for _, d := range dirs {
									od := originValue(d)
									if c14ExclSameValue(res, d, 0) || DependsOn(res, func(x ssa.Value) bool { return x == od || x == d }) {
										hit = true
									}
								}
								if !hit {
									continue
								}
								if nres == 1 {
									nd = append(nd, call)
								} else if refs := call.Referrers(); refs != nil {
									for _, u := range *refs {
										if ex, ok := u.(*ssa.Extract); ok && ex.Index == j {
											nd = append(nd, ex)
										}
									}
								}
							}
						}
					}
					nbase := FuncKey(cs.Fn) + "#sequence:" + cname + "(in " + FuncKey(fn) + ")"
					ownerC := ""
					if oi >= 0 && oi < len(args) {
						ownerC = AccessPath(args[oi])
					}
					switch {
					case cs.IsGo() || cs.IsDefer() || len(nd) == 0:
						r.Undecided(rule, uniq(nbase), p.Pos(cs.Pos()), "the directory made by "+cname+" in "+FuncKey(fn)+" cannot be related to a value of this caller (the helper is started with go/defer, or neither an argument nor a result carries the path)")
						nBad++
					case ownerC == "" || !named(ownerC) || strings.HasPrefix(ownerC, "&") || strings.HasPrefix(ownerC, "*"):
						r.Undecided(rule, uniq(nbase), p.Pos(cs.Pos()), "cannot name the storage object the call works for ("+ownerC+")")
						nBad++
					default:
						evalSeq(cs.Instr, cs.Fn, ownerC, nd, cname+" (in "+FuncKey(fn)+")", nbase, depth+1)
					}
				}
				return
			}
			if len(deps) == 0 {
				why := "no call in this function creates an entry in the directory it makes"
				if len(inLit) > 0 {
					why = "the call(s) that create an entry in the directory sit in function literals (" + strings.Join(inLit, ", ") + ")"
				}
				r.Undecided(rule, uniq(base), site, why+": the extent of the sequence that relies on the directory cannot be delimited (held at the call: "+heldC.String()+")")
				nBad++
				return
			}
			for _, d := range deps {
				key := uniq(base + "->" + d.name)
				dsite := p.Pos(CallSite{fn, d.in}.Pos())
				ctxt := fmt.Sprintf("%s … %s in %s (entry lockset %s)", cname, d.name, FuncKey(fn), c14EntryDesc(cx, TopFunc(fn)))
				sq := seq{descr: ctxt}
				_, atC := heldC[L]
				var heldU LockSet
				if dd, ok := d.in.(*ssa.Defer); ok {
					heldU = li.atExits(fn, dd)
				} else if _, isGo := d.in.(*ssa.Go); isGo {
					heldU = LockSet{}
				} else {
					heldU = li.HeldAt(d.in)
				}
				_, atU := heldU[L]
				switch {
				case !atC:
					r.Violation(rule, key, site, fmt.Sprintf("%s runs without %s held (held: %s): a directory removal (which takes the write side) can run between it and %s at %s, which then fails although the store is healthy", cname, L, heldC, d.name, dsite))
				case !atU:
					r.Violation(rule, key, dsite, fmt.Sprintf("%s runs without %s held (held: %s) although it relies on the directory made by %s at %s: the directory can be removed in between", d.name, L, heldU, cname, site))
				default:
					if rel := c14ExclBroken(cIn, d.in, L); rel != nil {
						r.Violation(rule, key, p.Pos(c14InstrPos(rel)), fmt.Sprintf("%s is released at %s between %s (%s) and %s (%s): holding it again later does not help, a directory removal can run in the gap and %s fails with 'no such file or directory' on a healthy store", L, p.Pos(c14InstrPos(rel)), cname, site, d.name, dsite, d.name))
					} else {
						sq.ok = true
						r.OK(rule, key, site, fmt.Sprintf("%s held (%c) from %s through %s at %s on every path, no release in between", L, heldU[L], cname, d.name, dsite))
					}
				}
				if !sq.ok {
					nBad++
				}
				seqs = append(seqs, sq)
			}
		}
		for _, C := range mine {
			if C.op.kind != c14FsMkdir {
				continue
			}
			fn := C.c.Fn
			site := p.Pos(C.c.Pos())
			base := FuncKey(fn) + "#sequence:" + C.op.name
			if C.via != "" {
				r.Undecided(rule, uniq(base+"(via "+C.via+")"), site, "the directory is created inside "+C.via+", which receives the VFS as a plain parameter: the sequence that relies on it is not followed")
				nBad++
				continue
			}
			if !named(C.owner) {
				r.Undecided(rule, uniq(base), site, "cannot name the storage object the call works for ("+C.owner+")")
				nBad++
				continue
			}
			evalSeq(C.c.Instr, fn, C.owner, []ssa.Value{C.op.path}, C.op.name, base, 0)
		}

		// (2) structure-destroying calls need the write side
		nDestroy := 0
		for _, D := range mine {
			isD, whyD := st.destroysWhy(D)
			if !isD {
				continue
			}
			nDestroy++
			key := uniq(FuncKey(D.c.Fn) + "#destroy:" + D.op.name)
			site := p.Pos(D.c.Pos())
			via := ""
			if D.via != "" {
				via = " (performed inside " + D.via + ")"
			}
			if !named(D.owner) {
				r.Undecided(rule, key, site, "cannot name the storage object the call works for ("+D.owner+")")
				nBad++
				continue
			}
			if len(seqs) == 0 && nBad == 0 {
				r.OKTable(rule, key, site, D.op.name+via+" "+whyD+"; no sequence in the package relies on a directory it has just made, so there is nothing to exclude")
				continue
			}
			L := lk.path(D.owner)
			h := lockAt(D)
			m, has := h[L]
			rely := "receivers"
			if len(seqs) > 0 {
				rely = seqs[0].descr
			}
			switch {
			case has && m == 'W':
				r.OK(rule, key, site, fmt.Sprintf("%s%s %s; %s is held exclusively at the call on every path (entry lockset of %s: %s), excluding %s", D.op.name, via, whyD, L, FuncKey(TopFunc(D.c.Fn)), c14EntryDesc(cx, TopFunc(D.c.Fn)), rely))
			case D.viaLocks:
				nBad++
				r.Undecided(rule, key, site, fmt.Sprintf("%s%s %s; %s is not held exclusively at the wrapper's call site (held: %s) and the wrapper takes locks of its own, which are not related to the storage object", D.op.name, via, whyD, L, h))
			case has:
				nBad++
				r.Violation(rule, key, site, fmt.Sprintf("directory removed while receivers may be between MkdirAll and TempFile: %s%s %s and runs with only the READ side of %s held (held: %s; entry lockset of %s: %s). The read side admits several holders at once, so it does not exclude %s, which holds the same lock for reading: the directory can vanish between the two calls and the receive fails with 'no such file or directory' on a healthy store — a result no sequential order of the calls gives", D.op.name, via, whyD, L, h, FuncKey(TopFunc(D.c.Fn)), c14EntryDesc(cx, TopFunc(D.c.Fn)), rely))
			default:
				nBad++
				r.Violation(rule, key, site, fmt.Sprintf("directory removed while receivers may be between MkdirAll and TempFile: %s%s %s and runs without %s held (held: %s; entry lockset of %s: %s), so nothing excludes %s: the directory can vanish between the two calls and the receive fails on a healthy store", D.op.name, via, whyD, L, h, FuncKey(TopFunc(D.c.Fn)), c14EntryDesc(cx, TopFunc(D.c.Fn)), rely))
			}
		}
		sort.Strings(under)
		summary := fmt.Sprintf("%s guards no struct field (no guard-table entry) but the directory tree below the storage: held around %s; %d make-directory→create-in-it pair(s) and %d directory-removing call(s) of %s checked (see their obligations)", lk.key(), strings.Join(dedupe(under), ", "), len(seqs), nDestroy, typeKey(lk.T))
		switch {
		case nBad > 0:
			r.Violation(rule, resKey, resSite, summary+fmt.Sprintf("; %d of them do not hold it as needed", nBad))
		case len(seqs) == 0 || nDestroy == 0:
			r.OKTable(rule, resKey, resSite, summary+"; one of the two sides is absent, nothing can interleave")
		default:
			r.OK(rule, resKey, resSite, summary+": every pair holds it (R or W) without a gap, every removal holds it for writing")
		}
	}
	for _, s := range st.unowned {
		if nRes == 0 {
			break
		}
		r.Undecided(rule, FuncKey(s.c.Fn)+"#destroy:"+s.op.name+"#unowned", p.Pos(s.c.Pos()), s.op.name+" removes a directory on a VFS that cannot be related to a storage object (neither a field of one nor reached from a method of one): which directory lock it needs is unknown")
	}
	r.Analysed("candidate_resource_rwmutexes", len(st.cands))
	r.Analysed("directory_locks", nRes)
	r.Analysed("classified_filesystem_calls", st.nCalls)
	r.Floor(rule, 4)
}
