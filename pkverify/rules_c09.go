package main

import (
	"fmt"
	"go/constant"
	"go/token"
	"go/types"
	"sort"
	"strings"

	"golang.org/x/tools/go/ssa"
)

func init() {
	register(&PropSpec{
		ID:    "C09",
		Title: "Paging through search results with continue tokens neither skips nor repeats",
		Explanation: "Decided (structural necessary conditions of exactly-once paging): " +
			"T-clock — for every sort for which setResultContinue writes a token (derived from the program: LastModifiedDesc, CreatedDesc) the SAME corpus time function is used (i) as the sort key of the sorted candidate source picked for that sort (pickCandidateSource -> Corpus enumerator -> lazySortedPermanodes field -> pnTime as initialised in pkg/index, requested newest-first, flagged sorted), (ii) to compute the token time of the token's own ref (the last result), and (iii) in the continue matcher for the PermanodeContinueConstraint field that addContinueConstraint fills from the parsed token under that same sort; the sort default is fixed before the token is interpreted and the continue constraint is and-ed with the base constraint. " +
			"T-tiebreak — byPermanodeTime.Less and the continue branch of PermanodeConstraint.blobMatches are evaluated abstractly over all 9 orderings (time <,=,> x ref <,=,>) and both must be the strict lexicographic order (time, then blob.Ref.Less): the matcher admits exactly the items that sort strictly after the token item; every sort in lazySortedPermanodes.sorted uses byPermanodeTime, reversed exactly when reverse is requested. " +
			"T-codec — the token writer's format (literal prefix, integer verb, separator, ref verb) and the reader agree: same prefix and separator constants, the integer is written from a signed 64-bit UnixNano and parsed by a signed 64-bit base-10 parse, turned back into a time with time.Unix(0, n) (lossless), the ref part is parsed from behind the separator, and the reader's success results are those values. " +
			"T-around — Handler.Query clears the result list on the path where an Around pivot was requested but no candidate equal to it matched. " +
			"NOT decided: that the enumerator yields the slice in order, correctness of reversedCopy and of the sorted caches, the time functions' own values (only their identity), that blob.Parse inverts Ref.String, exactly-once coverage for a concrete world, effects of index mutation between pages, the 'around' window arithmetic, and unsorted (post-sorted) candidate sources, which never receive a token. Assumes a permanode time returned with ok=true is never the zero time.Time (the zero value is the 'unset' marker of PermanodeContinueConstraint).",
		RuleDocs: map[string]string{
			"T-clock":    "per continuable sort (cases of setResultContinue that write a token): time function of the sorted source == of the token writer == of the matcher mode filled by addContinueConstraint for that sort; plus key/ref consistency, newest-first, sorted flag, sort default before token interpretation, and-conjunction",
			"T-tiebreak": "abstract evaluation over the 9 (time,ref) orderings of byPermanodeTime.Less and of the continue branch of PermanodeConstraint.blobMatches against the strict lexicographic order; sort calls in lazySortedPermanodes.sorted use byPermanodeTime with Reverse iff reverse",
			"T-around":   "Handler.Query: the flag set where q.Around equals a candidate is tested after enumeration and res.Blobs is cleared where it is false",
			"T-codec":    "writer format string of setResultContinue vs reader parsePermanodeContinueToken: prefix, separator, signedness/width/base of the integer, UnixNano <-> time.Unix(0,n), ref parsed behind the separator, results returned",
		},
		Run:       runC09,
		DesignRef: "DESIGN.md §4 C09",
		Technique: "static analysis: agreement of function values resolved under branch facts (value dependence over go/ssa), abstract evaluation of comparators over a finite order domain, writer/reader table agreement",
		LevelText: "Decides structural necessary conditions only: one clock per continuable sort across source, token writer and continue matcher; sort comparator and continue matcher implement the same strict (time, ref) order; token writer and reader agree on format, signedness and unit. Does not decide exactly-once coverage for any concrete world, enumeration order of the slice, cache correctness, nor the 'around' window arithmetic (only that a missed pivot yields nothing).",
	})
}

// ---------------------------------------------------------------------------
// context and small helpers

type c09Ctx struct {
	p         *Program
	r         *Reporter
	sortNames map[int64]string
	tQuery    *types.Named // search.SearchQuery
	tResult   *types.Named // search.SearchResult
	tPC       *types.Named // search.PermanodeConstraint
	tPCC      *types.Named // search.PermanodeContinueConstraint
	tCandSrc  *types.Named // search.candidateSource
	tLogical  *types.Named // search.LogicalConstraint
	tCorpus   *types.Named // index.Corpus
	tLSP      *types.Named // index.lazySortedPermanodes
	tPnTime   *types.Named // index.pnAndTime
	tByPT     *types.Named // index.byPermanodeTime
}

func c09NewCtx(p *Program, r *Reporter) *c09Ctx {
	cx := &c09Ctx{p: p, r: r, sortNames: map[int64]string{}}
	cx.tQuery = p.NamedType("pkg/search", "SearchQuery")
	cx.tResult = p.NamedType("pkg/search", "SearchResult")
	cx.tPC = p.NamedType("pkg/search", "PermanodeConstraint")
	cx.tPCC = p.NamedType("pkg/search", "PermanodeContinueConstraint")
	cx.tCandSrc = p.NamedType("pkg/search", "candidateSource")
	cx.tLogical = p.NamedType("pkg/search", "LogicalConstraint")
	cx.tCorpus = p.NamedType("pkg/index", "Corpus")
	cx.tLSP = p.NamedType("pkg/index", "lazySortedPermanodes")
	cx.tPnTime = p.NamedType("pkg/index", "pnAndTime")
	cx.tByPT = p.NamedType("pkg/index", "byPermanodeTime")
	st := p.NamedType("pkg/search", "SortType")
	scope := p.Pkg("pkg/search").Types.Scope()
	for _, n := range scope.Names() {
		if c, ok := scope.Lookup(n).(*types.Const); ok && types.Identical(c.Type(), st) && c.Val().Kind() == constant.Int {
			if v, ok := constant.Int64Val(c.Val()); ok && c09Exported(n) {
				cx.sortNames[v] = n
			}
		}
	}
	if len(cx.sortNames) == 0 {
		brokenf("anchor unresolved: no SortType constants in pkg/search")
	}
	return cx
}

func c09Exported(n string) bool { return n != "" && n[0] >= 'A' && n[0] <= 'Z' }

func (cx *c09Ctx) sortName(k int64) string {
	if n, ok := cx.sortNames[k]; ok {
		return n
	}
	return fmt.Sprintf("SortType(%d)", k)
}

func c09Is(t types.Type, n *types.Named) bool {
	m := NamedOf(t)
	return m != nil && n != nil && m.Obj() == n.Obj()
}

func c09IsTime(t types.Type) bool { return IsNamed(t, "time", "Time") && !c09IsPtr(t) }
func c09IsRef(t types.Type) bool {
	return IsNamed(t, "perkeep.org/pkg/blob", "Ref") && !c09IsPtr(t)
}
func c09IsPtr(t types.Type) bool { _, ok := t.(*types.Pointer); return ok }

// c09FieldRef describes a FieldAddr (address of a field) or Field (value of a
// field of a struct value).
type c09Fld struct {
	Base  ssa.Value
	Owner *types.Named
	Name  string
	Type  types.Type
}

func c09FieldRef(v ssa.Value) (c09Fld, bool) {
	var base ssa.Value
	var idx int
	switch x := v.(type) {
	case *ssa.FieldAddr:
		base, idx = x.X, x.Field
	case *ssa.Field:
		base, idx = x.X, x.Field
	default:
		return c09Fld{}, false
	}
	t := base.Type()
	if pt, ok := t.Underlying().(*types.Pointer); ok {
		t = pt.Elem()
	}
	st, ok := t.Underlying().(*types.Struct)
	if !ok || idx >= st.NumFields() {
		return c09Fld{}, false
	}
	n, _ := t.(*types.Named)
	return c09Fld{base, n, st.Field(idx).Name(), st.Field(idx).Type()}, true
}

// c09LoadedField: v is the value of a struct field (load through FieldAddr, or Field).
func c09LoadedField(v ssa.Value) (c09Fld, bool) {
	switch x := v.(type) {
	case *ssa.UnOp:
		if x.Op == token.MUL {
			return c09FieldRef(x.X)
		}
	case *ssa.Field:
		return c09FieldRef(x)
	}
	return c09Fld{}, false
}

// c09StoresToField lists every store, in the given functions (literals
// included), whose address is field `name` of struct type owner.
func c09StoresToField(fns []*ssa.Function, owner *types.Named, name string) []*ssa.Store {
	var out []*ssa.Store
	for _, fn := range fns {
		for _, b := range fn.Blocks {
			for _, in := range b.Instrs {
				st, ok := in.(*ssa.Store)
				if !ok {
					continue
				}
				if f, ok := c09FieldRef(st.Addr); ok && f.Owner != nil && f.Owner.Obj() == owner.Obj() && f.Name == name {
					out = append(out, st)
				}
			}
		}
	}
	return out
}

func c09WithLits(fn *ssa.Function) []*ssa.Function {
	out := []*ssa.Function{fn}
	for _, a := range fn.AnonFuncs {
		out = append(out, c09WithLits(a)...)
	}
	return out
}

// c09MethodOfFuncValue resolves a function value (bound-method closure, plain
// function) to the declared function object.
func c09MethodOfFuncValue(v ssa.Value) *types.Func {
	switch x := originValue(v).(type) {
	case *ssa.MakeClosure:
		if f, ok := x.Fn.(*ssa.Function); ok {
			if o, ok := f.Object().(*types.Func); ok {
				return o
			}
		}
	case *ssa.Function:
		if o, ok := x.Object().(*types.Func); ok {
			return o
		}
	}
	return nil
}

func c09FuncName(f *types.Func) string {
	if f == nil {
		return "<unresolved>"
	}
	s := f.FullName()
	return strings.ReplaceAll(s, modPrefix, "")
}

// c09Varargs returns the values stored into the backing array of a varargs
// slice (`slice t[:]` of `new [N]any`), by index.
func c09Varargs(v ssa.Value) []ssa.Value {
	sl, ok := v.(*ssa.Slice)
	if !ok {
		return nil
	}
	al, ok := sl.X.(*ssa.Alloc)
	if !ok || al.Referrers() == nil {
		return nil
	}
	vals := map[int64]ssa.Value{}
	max := int64(-1)
	for _, ref := range *al.Referrers() {
		ia, ok := ref.(*ssa.IndexAddr)
		if !ok || ia.Referrers() == nil {
			continue
		}
		i, ok := ConstInt(ia.Index)
		if !ok {
			return nil
		}
		for _, u := range *ia.Referrers() {
			if st, ok := u.(*ssa.Store); ok && st.Addr == ssa.Value(ia) {
				vals[i] = st.Val
				if i > max {
					max = i
				}
			}
		}
	}
	out := make([]ssa.Value, max+1)
	for i := range out {
		out[i] = vals[int64(i)]
	}
	return out
}

// ---------------------------------------------------------------------------
// Sort facts: which SortType constant q.Sort is known to equal

// sortOfCond interprets cond==val as "SearchQuery.Sort == k".
func (cx *c09Ctx) sortOfCond(cond ssa.Value, val bool) (int64, bool) {
	for {
		if u, ok := cond.(*ssa.UnOp); ok && u.Op == token.NOT {
			cond, val = u.X, !val
			continue
		}
		break
	}
	bo, ok := cond.(*ssa.BinOp)
	if !ok || !((bo.Op == token.EQL && val) || (bo.Op == token.NEQ && !val)) {
		return 0, false
	}
	x, y := bo.X, bo.Y
	if _, isC := x.(*ssa.Const); isC {
		x, y = y, x
	}
	k, ok := ConstInt(y)
	if !ok {
		return 0, false
	}
	f, ok := c09LoadedField(originValue(x))
	if !ok || f.Owner == nil || f.Owner.Obj() != cx.tQuery.Obj() || f.Name != "Sort" {
		return 0, false
	}
	return k, true
}

// sortSet is the set of SortType constants q.Sort may equal at a program
// point; nil means unknown (any).
type c09SortSet map[int64]bool

func (s c09SortSet) clone() c09SortSet {
	if s == nil {
		return nil
	}
	o := c09SortSet{}
	for k := range s {
		o[k] = true
	}
	return o
}

// negSortOfCond interprets cond==val as "SearchQuery.Sort != k".
func (cx *c09Ctx) negSortOfCond(cond ssa.Value, val bool) (int64, bool) {
	return cx.sortOfCond(cond, !val)
}

// possibleSorts computes the sorts possible at entry of block b from the
// dominating facts and, failing a positive fact, from the union over the
// incoming edges (this is how `if q.Sort == A || q.Sort == B { ... }` and an
// `else` arm inside it are understood).
func (cx *c09Ctx) possibleSorts(b *ssa.BasicBlock, busy map[*ssa.BasicBlock]bool) c09SortSet {
	var set c09SortSet
	excl := map[int64]bool{}
	for _, f := range FactsAt(b) {
		if k, ok := cx.sortOfCond(f.Cond, f.Val); ok {
			if set == nil {
				set = c09SortSet{k: true}
			} else if !set[k] {
				set = c09SortSet{}
			}
		} else if k, ok := cx.negSortOfCond(f.Cond, f.Val); ok {
			excl[k] = true
		}
	}
	if set == nil && len(b.Preds) > 0 && !busy[b] && len(busy) < 40 {
		busy[b] = true
		union := c09SortSet{}
		for _, p := range b.Preds {
			ps := cx.possibleOnEdge(p, b, busy)
			if ps == nil {
				union = nil
				break
			}
			for k := range ps {
				union[k] = true
			}
		}
		delete(busy, b)
		set = union
	}
	if set == nil {
		return nil
	}
	set = set.clone()
	for k := range excl {
		delete(set, k)
	}
	return set
}

func (cx *c09Ctx) possibleOnEdge(pred, succ *ssa.BasicBlock, busy map[*ssa.BasicBlock]bool) c09SortSet {
	if n := len(pred.Instrs); n > 0 {
		if ifi, ok := pred.Instrs[n-1].(*ssa.If); ok && len(pred.Succs) == 2 && pred.Succs[0] != pred.Succs[1] {
			val := pred.Succs[0] == succ
			if k, ok := cx.sortOfCond(ifi.Cond, val); ok {
				return c09SortSet{k: true}
			}
			if k, ok := cx.negSortOfCond(ifi.Cond, val); ok {
				ps := cx.possibleSorts(pred, busy).clone()
				if ps != nil {
					delete(ps, k)
				}
				return ps
			}
		}
	}
	return cx.possibleSorts(pred, busy)
}

func c09Single(s c09SortSet) (int64, bool) {
	if len(s) != 1 {
		return 0, false
	}
	for k := range s {
		return k, true
	}
	return 0, false
}

func (cx *c09Ctx) sortAt(b *ssa.BasicBlock) (int64, bool) {
	return c09Single(cx.possibleSorts(b, map[*ssa.BasicBlock]bool{}))
}

// sortOnEdge: the sort known on the CFG edge pred->succ.
func (cx *c09Ctx) sortOnEdge(pred, succ *ssa.BasicBlock) (int64, bool) {
	return c09Single(cx.possibleOnEdge(pred, succ, map[*ssa.BasicBlock]bool{}))
}

type c09Leaf struct {
	V       ssa.Value
	Sort    int64
	HasSort bool
}

// expandBySort splits a value into the values it may take, each tagged with
// the SortType constant q.Sort is known to equal where that value is chosen
// (phi edges under dominating `q.Sort == K` facts).
func (cx *c09Ctx) expandBySort(v ssa.Value) []c09Leaf {
	var out []c09Leaf
	seen := map[ssa.Value]bool{}
	var walk func(v ssa.Value, k int64, has bool)
	walk = func(v ssa.Value, k int64, has bool) {
		for {
			if ct, ok := v.(*ssa.ChangeType); ok {
				v = ct.X
				continue
			}
			break
		}
		if ph, ok := v.(*ssa.Phi); ok {
			if seen[ph] {
				return
			}
			seen[ph] = true
			for i, e := range ph.Edges {
				k2, has2 := cx.sortOnEdge(ph.Block().Preds[i], ph.Block())
				if has && has2 && k != k2 {
					continue // infeasible combination
				}
				if has2 {
					walk(e, k2, true)
				} else {
					walk(e, k, has)
				}
			}
			return
		}
		if !has {
			if in, ok := v.(ssa.Instruction); ok && in.Block() != nil {
				k, has = cx.sortAt(in.Block())
			}
		}
		out = append(out, c09Leaf{v, k, has})
	}
	walk(v, 0, false)
	return out
}

func c09SortedKeys[T any](m map[int64]T) []int64 {
	var ks []int64
	for k := range m {
		ks = append(ks, k)
	}
	sort.Slice(ks, func(i, j int) bool { return ks[i] < ks[j] })
	return ks
}

// ---------------------------------------------------------------------------
// Abstract evaluation of an order predicate over the 9 (time, ref) orderings

// c09World fixes how the subject item compares with the reference item.
type c09World struct {
	Mode string // name of the PermanodeContinueConstraint time field assumed set ("" for the comparator)
	T, R int    // cmp(subject time, reference time), cmp(subject ref, reference ref): -1, 0, +1
}

func (w c09World) String() string {
	n := func(c int) string { return [...]string{"<", "=", ">"}[c+1] }
	s := fmt.Sprintf("time %s, ref %s", n(w.T), n(w.R))
	if w.Mode != "" {
		s = w.Mode + " set: " + s
	}
	return s
}

// c09Want: the item sorts strictly before the reference in ascending (time, ref) order.
func (w c09World) want() bool { return w.T < 0 || (w.T == 0 && w.R < 0) }

const (
	c09RoleNone = iota
	c09RoleSubject
	c09RoleReference
	c09RoleZero // the time field of the continue constraint that is unset in this world
)

type c09Eval struct {
	cx     *c09Ctx
	fn     *ssa.Function
	world  c09World
	predOf map[*ssa.BasicBlock]*ssa.BasicBlock
	// classification of operands (after path-sensitive resolution)
	timeRole func(e *c09Eval, v ssa.Value) int
	refRole  func(e *c09Eval, v ssa.Value) int
	// extra atoms (returns handled, value)
	atom func(e *c09Eval, v ssa.Value) (handled, val bool)
	// time functions that produced the subject time on this path
	timeFuncs map[*types.Func]bool
	err       string // non-empty: could not interpret
	bad       string // non-empty: construct that is wrong whatever the ordering (e.g. == on time.Time)
}

// resolve follows phis along the path taken, and value-preserving wrappers.
func (e *c09Eval) resolve(v ssa.Value) ssa.Value {
	for i := 0; i < 32; i++ {
		switch x := v.(type) {
		case *ssa.Phi:
			pred, ok := e.predOf[x.Block()]
			if !ok {
				return v
			}
			found := false
			for i, p := range x.Block().Preds {
				if p == pred {
					v = x.Edges[i]
					found = true
					break
				}
			}
			if !found {
				return v
			}
		case *ssa.ChangeType:
			v = x.X
		default:
			return v
		}
	}
	return v
}

func (e *c09Eval) fail(format string, args ...any) (bool, bool) {
	if e.err == "" {
		e.err = fmt.Sprintf(format, args...)
	}
	return false, false
}

func c09Cmp(ord int, op string) bool {
	switch op {
	case "After":
		return ord > 0
	case "Before":
		return ord < 0
	}
	return ord == 0 // Equal
}

// eval computes a boolean SSA value in the current world along the current path.
func (e *c09Eval) eval(v ssa.Value) (val, ok bool) {
	v = e.resolve(v)
	if e.atom != nil {
		if h, val := e.atom(e, v); h {
			return val, true
		}
	}
	switch x := v.(type) {
	case *ssa.Const:
		if x.Value != nil && x.Value.Kind() == constant.Bool {
			return constant.BoolVal(x.Value), true
		}
	case *ssa.UnOp:
		if x.Op == token.NOT {
			val, ok := e.eval(x.X)
			return !val, ok
		}
		if x.Op == token.MUL {
			if o := originValue(x); o != ssa.Value(x) {
				return e.eval(o)
			}
		}
	case *ssa.BinOp:
		if x.Op == token.EQL || x.Op == token.NEQ {
			if c09IsTime(x.X.Type()) {
				e.bad = "time.Time values are compared with " + x.Op.String() + " (compares wall/monotonic/location representation, not the instant): a token time rebuilt by time.Unix never equals the stored time"
				return false, false
			}
			if b, ok := x.X.Type().Underlying().(*types.Basic); ok && b.Info()&types.IsBoolean != 0 {
				a, ok1 := e.eval(x.X)
				bb, ok2 := e.eval(x.Y)
				return (a == bb) == (x.Op == token.EQL), ok1 && ok2
			}
		}
	case *ssa.Call:
		cs := CallSite{x.Parent(), x}
		for _, op := range []string{"After", "Before", "Equal"} {
			if !cs.IsStatic("time", "Time", op) {
				continue
			}
			a, b := x.Call.Args[0], x.Call.Args[1]
			ra, rb := e.timeRole(e, a), e.timeRole(e, b)
			switch {
			case ra == c09RoleSubject && rb == c09RoleReference:
				return c09Cmp(e.world.T, op), true
			case ra == c09RoleReference && rb == c09RoleSubject:
				return c09Cmp(-e.world.T, op), true
			case ra == c09RoleSubject && rb == c09RoleZero:
				return c09Cmp(+1, op), true // a real permanode time is after the zero time
			case ra == c09RoleZero && rb == c09RoleSubject:
				return c09Cmp(-1, op), true
			}
			return e.fail("time.%s compares operands the rule cannot classify as item time / token time", op)
		}
		if cs.IsStatic("perkeep.org/pkg/blob", "Ref", "Less") {
			ra, rb := e.refRole(e, x.Call.Args[0]), e.refRole(e, x.Call.Args[1])
			switch {
			case ra == c09RoleSubject && rb == c09RoleReference:
				return e.world.R < 0, true
			case ra == c09RoleReference && rb == c09RoleSubject:
				return e.world.R > 0, true
			}
			return e.fail("blob.Ref.Less compares operands the rule cannot classify as item ref / token ref")
		}
		return e.fail("branch on the result of %s, which the rule cannot interpret", cs.CalleeKey())
	}
	return e.fail("branch on value %s (%T), which the rule cannot interpret", v.Name(), v)
}

// run walks from block start along the single path the world determines.
// inRegion(b)==false means the walk left the region: result `leave`.
// It returns the boolean result (first result of the return reached).
func (e *c09Eval) run(start *ssa.BasicBlock, inRegion func(*ssa.BasicBlock) bool, leave bool) (res bool, outcome string) {
	b := start
	for steps := 0; steps < 400; steps++ {
		if inRegion != nil && !inRegion(b) {
			return leave, "left"
		}
		last := b.Instrs[len(b.Instrs)-1]
		var next *ssa.BasicBlock
		switch t := last.(type) {
		case *ssa.If:
			val, ok := e.eval(t.Cond)
			if !ok {
				return false, "error"
			}
			if val {
				next = b.Succs[0]
			} else {
				next = b.Succs[1]
			}
		case *ssa.Jump:
			next = b.Succs[0]
		case *ssa.Return:
			if len(t.Results) == 0 {
				e.fail("return without a boolean result")
				return false, "error"
			}
			rv := resolveReturnValue(t.Results[0], t)
			val, ok := e.eval(rv)
			if !ok {
				return false, "error"
			}
			return val, "return"
		case *ssa.Panic:
			return false, "panic"
		default:
			e.fail("unexpected block terminator %T", last)
			return false, "error"
		}
		e.predOf[next] = b
		b = next
	}
	e.fail("path did not terminate (loop in an order predicate)")
	return false, "error"
}

// c09CheckOrder evaluates all worlds and compares with the strict (time, ref)
// order. describe renders the consequence of a wrong verdict.
type c09OrderResult struct {
	undecided string
	wrong     []string
	bad       string
	funcs     map[string]map[*types.Func]bool // mode -> subject time functions
	worlds    int
}

func c09CheckOrder(modes []string, mk func(w c09World) (*c09Eval, *ssa.BasicBlock, func(*ssa.BasicBlock) bool, bool), consequence func(w c09World, got bool) string) c09OrderResult {
	res := c09OrderResult{funcs: map[string]map[*types.Func]bool{}}
	for _, m := range modes {
		res.funcs[m] = map[*types.Func]bool{}
		for t := -1; t <= 1; t++ {
			for r := -1; r <= 1; r++ {
				w := c09World{m, t, r}
				e, start, inRegion, leave := mk(w)
				got, outcome := e.run(start, inRegion, leave)
				res.worlds++
				for f := range e.timeFuncs {
					res.funcs[m][f] = true
				}
				if e.bad != "" {
					res.bad = e.bad
					continue
				}
				if outcome == "error" {
					if res.undecided == "" {
						res.undecided = fmt.Sprintf("[%s] %s", w, e.err)
					}
					continue
				}
				if outcome == "panic" {
					res.wrong = append(res.wrong, fmt.Sprintf("[%s] panics", w))
					continue
				}
				if got != w.want() {
					res.wrong = append(res.wrong, fmt.Sprintf("[%s] %s", w, consequence(w, got)))
				}
			}
		}
	}
	return res
}

// ---------------------------------------------------------------------------
// The continue matcher: PermanodeConstraint.blobMatches, branch under c.Continue != nil

type c09Matcher struct {
	fn      *ssa.Function
	entry   *ssa.BasicBlock // first block under `c.Continue != nil`
	modes   []string        // time-typed fields of PermanodeContinueConstraint
	problem string
}

func (cx *c09Ctx) findMatcher() *c09Matcher {
	fn := cx.p.Func("pkg/search", "PermanodeConstraint", "blobMatches")
	m := &c09Matcher{fn: fn}
	st := cx.tPCC.Underlying().(*types.Struct)
	for i := 0; i < st.NumFields(); i++ {
		if c09IsTime(st.Field(i).Type()) {
			m.modes = append(m.modes, st.Field(i).Name())
		}
	}
	var entries []*ssa.BasicBlock
	for _, b := range fn.Blocks {
		if len(b.Instrs) == 0 {
			continue
		}
		ifi, ok := b.Instrs[len(b.Instrs)-1].(*ssa.If)
		if !ok {
			continue
		}
		bo, ok := ifi.Cond.(*ssa.BinOp)
		if !ok || (bo.Op != token.NEQ && bo.Op != token.EQL) {
			continue
		}
		x, y := bo.X, bo.Y
		if IsNilConst(x) {
			x, y = y, x
		}
		if !IsNilConst(y) {
			continue
		}
		f, ok := c09LoadedField(originValue(x))
		if !ok || f.Owner == nil || f.Owner.Obj() != cx.tPC.Obj() || !c09Is(f.Type, cx.tPCC) {
			continue
		}
		if bo.Op == token.NEQ {
			entries = append(entries, b.Succs[0])
		} else {
			entries = append(entries, b.Succs[1])
		}
	}
	switch {
	case len(entries) == 0:
		m.problem = "blobMatches has no branch on PermanodeConstraint.Continue != nil: the continue constraint is never applied, every page returns the first page again"
	case len(entries) > 1:
		m.problem = "blobMatches tests PermanodeConstraint.Continue in more than one place; the rule follows a single continue branch"
	case len(entries[0].Preds) != 1:
		m.problem = "the continue branch is entered from several places; cannot delimit it"
	default:
		m.entry = entries[0]
	}
	return m
}

// timeCallFunc resolves the function called by a (time.Time, bool)-returning
// call on the corpus.
func (e *c09Eval) timeCallFunc(call *ssa.Call) *types.Func {
	sig := call.Call.Signature()
	if sig.Results().Len() != 2 || !c09IsTime(sig.Results().At(0).Type()) {
		return nil
	}
	var f *types.Func
	if call.Call.IsInvoke() {
		return nil
	}
	if sc := call.Call.StaticCallee(); sc != nil {
		f, _ = sc.Object().(*types.Func)
	} else {
		f = c09MethodOfFuncValue(e.resolve(call.Call.Value))
	}
	if f == nil {
		return nil
	}
	rs := f.Type().(*types.Signature).Recv()
	if rs == nil || !c09Is(rs.Type(), e.cx.tCorpus) {
		return nil
	}
	return f
}

func c09MatcherTimeRole(e *c09Eval, v ssa.Value) int {
	v = e.resolve(v)
	if ex, ok := v.(*ssa.Extract); ok && ex.Index == 0 {
		if call, ok := ex.Tuple.(*ssa.Call); ok {
			f := e.timeCallFunc(call)
			if f == nil || len(call.Call.Args) == 0 {
				return c09RoleNone
			}
			arg := e.resolve(call.Call.Args[len(call.Call.Args)-1])
			if c09MatcherRefRole(e, arg) != c09RoleSubject {
				return c09RoleNone
			}
			e.timeFuncs[f] = true
			return c09RoleSubject
		}
	}
	if f, ok := c09LoadedField(v); ok && f.Owner != nil && f.Owner.Obj() == e.cx.tPCC.Obj() && c09IsTime(f.Type) {
		if f.Name == e.world.Mode {
			return c09RoleReference
		}
		return c09RoleZero
	}
	return c09RoleNone
}

func c09MatcherRefRole(e *c09Eval, v ssa.Value) int {
	v = originValue(e.resolve(v))
	if p, ok := v.(*ssa.Parameter); ok && c09IsRef(p.Type()) && p.Parent() == e.fn {
		return c09RoleSubject
	}
	if f, ok := c09LoadedField(v); ok && f.Owner != nil && f.Owner.Obj() == e.cx.tPCC.Obj() && c09IsRef(f.Type) {
		return c09RoleReference
	}
	return c09RoleNone
}

func c09MatcherAtom(e *c09Eval, v ssa.Value) (handled, val bool) {
	switch x := v.(type) {
	case *ssa.Extract:
		if call, ok := x.Tuple.(*ssa.Call); ok && x.Index == 1 && e.timeCallFunc(call) != nil {
			return true, true // the item has a time (items without one are never enumerated by the sorted source)
		}
	case *ssa.BinOp:
		if x.Op == token.EQL || x.Op == token.NEQ {
			a, b := x.X, x.Y
			if IsNilConst(a) {
				a, b = b, a
			}
			if IsNilConst(b) && c09IsPtr(a.Type()) && (c09Is(a.Type(), e.cx.tCorpus) || c09Is(a.Type(), e.cx.tPCC)) {
				return true, x.Op == token.NEQ // corpus present, continue constraint present
			}
		}
	case *ssa.Call:
		if (CallSite{x.Parent(), x}).IsStatic("time", "Time", "IsZero") {
			if f, ok := c09LoadedField(e.resolve(x.Call.Args[0])); ok && f.Owner != nil && f.Owner.Obj() == e.cx.tPCC.Obj() {
				return true, f.Name != e.world.Mode
			}
		}
	}
	return false, false
}

func (cx *c09Ctx) checkMatcherOrder(m *c09Matcher) c09OrderResult {
	inRegion := func(b *ssa.BasicBlock) bool { return m.entry == b || m.entry.Dominates(b) }
	return c09CheckOrder(m.modes, func(w c09World) (*c09Eval, *ssa.BasicBlock, func(*ssa.BasicBlock) bool, bool) {
		e := &c09Eval{cx: cx, fn: m.fn, world: w, predOf: map[*ssa.BasicBlock]*ssa.BasicBlock{m.entry: m.entry.Preds[0]},
			timeRole: c09MatcherTimeRole, refRole: c09MatcherRefRole, atom: c09MatcherAtom, timeFuncs: map[*types.Func]bool{}}
		return e, m.entry, inRegion, true
	}, func(w c09World, got bool) string {
		if got {
			return "item is admitted although it does not sort after the token item: it is returned again on the next page (repeat)"
		}
		return "item is rejected although it sorts after the token item: it is never returned (skip)"
	})
}

// ---------------------------------------------------------------------------
// The sort comparator: byPermanodeTime.Less(i, j)

func (cx *c09Ctx) checkComparatorOrder(fn *ssa.Function) c09OrderResult {
	// params: receiver s, i, j
	var ints []*ssa.Parameter
	for _, p := range fn.Params {
		if b, ok := p.Type().Underlying().(*types.Basic); ok && b.Kind() == types.Int {
			ints = append(ints, p)
		}
	}
	role := func(want func(types.Type) bool) func(e *c09Eval, v ssa.Value) int {
		return func(e *c09Eval, v ssa.Value) int {
			f, ok := c09LoadedField(e.resolve(v))
			if !ok || !want(f.Type) || len(ints) != 2 {
				return c09RoleNone
			}
			var idx ssa.Value
			base := f.Base
			if al, ok := base.(*ssa.Alloc); ok && al.Referrers() != nil {
				// `a := s[i]` kept in a local because its fields are addressed: follow its single store
				var only *ssa.Store
				n := 0
				for _, u := range *al.Referrers() {
					if st, ok := u.(*ssa.Store); ok && st.Addr == ssa.Value(al) {
						only = st
						n++
					}
				}
				readOnly := true
				for _, u := range *al.Referrers() {
					fa, isFA := u.(*ssa.FieldAddr)
					if !isFA || fa.Referrers() == nil {
						continue
					}
					for _, u2 := range nonDebug(*fa.Referrers()) {
						if ld, ok := u2.(*ssa.UnOp); !ok || ld.Op != token.MUL {
							readOnly = false // a field of the copy is written or its address escapes
						}
					}
				}
				if n == 1 && readOnly {
					base = only.Val
				}
			}
			switch b := base.(type) {
			case *ssa.IndexAddr:
				idx = b.Index
			case *ssa.UnOp:
				if ia, ok := b.X.(*ssa.IndexAddr); ok && b.Op == token.MUL {
					idx = ia.Index
				}
			case *ssa.Index:
				idx = b.Index
			}
			switch originValue(idx) {
			case ssa.Value(ints[0]):
				return c09RoleSubject
			case ssa.Value(ints[1]):
				return c09RoleReference
			}
			return c09RoleNone
		}
	}
	return c09CheckOrder([]string{""}, func(w c09World) (*c09Eval, *ssa.BasicBlock, func(*ssa.BasicBlock) bool, bool) {
		e := &c09Eval{cx: cx, fn: fn, world: w, predOf: map[*ssa.BasicBlock]*ssa.BasicBlock{},
			timeRole: role(c09IsTime), refRole: role(c09IsRef), timeFuncs: map[*types.Func]bool{}}
		return e, fn.Blocks[0], nil, false
	}, func(w c09World, got bool) string {
		if got {
			return "Less(i,j) is true although element i does not sort before element j in (time, ref) order"
		}
		return "Less(i,j) is false although element i sorts before element j in (time, ref) order: equal-time permanodes have no fixed order, so the matcher's ref tie-break skips/repeats"
	})
}

func ruleC09Tiebreak(cx *c09Ctx, m *c09Matcher) (matcherFuncs map[string]map[*types.Func]bool) {
	p, r := cx.p, cx.r
	// (1) comparator
	less := p.Func("pkg/index", "byPermanodeTime", "Less")
	cr := cx.checkComparatorOrder(less)
	cx.reportOrder("T-tiebreak", FuncKey(less)+"#order", p.Pos(less.Pos()), cr,
		"byPermanodeTime.Less is the strict lexicographic order (time, then blob.Ref.Less) on all 9 orderings")
	// (2) matcher
	mkey := FuncKey(m.fn) + "#continue-order"
	if m.problem != "" {
		r.Violation("T-tiebreak", mkey, p.Pos(m.fn.Pos()), m.problem)
	} else {
		mr := cx.checkMatcherOrder(m)
		matcherFuncs = mr.funcs
		cx.reportOrder("T-tiebreak", mkey, p.Pos(m.entry.Instrs[0].Pos()), mr,
			fmt.Sprintf("for each of %v set, the continue branch admits exactly the items strictly after the token item in (time desc, ref desc) order: %d orderings evaluated", m.modes, mr.worlds))
	}
	// (3) direction and comparator of every sort in lazySortedPermanodes.sorted
	sorted := p.Func("pkg/index", "lazySortedPermanodes", "sorted")
	var rev *ssa.Parameter
	for _, prm := range sorted.Params {
		if b, ok := prm.Type().Underlying().(*types.Basic); ok && b.Kind() == types.Bool {
			rev = prm
		}
	}
	n := 0
	for _, c := range CallsIn(sorted, true) {
		f := c.Callee()
		if f == nil || f.Pkg == nil || (f.Pkg.Pkg.Path() != "sort" && f.Pkg.Pkg.Path() != "slices") {
			continue
		}
		if c.IsStatic("sort", "", "Reverse") {
			continue
		}
		n++
		key := fmt.Sprintf("%s#sort-call-%d", FuncKey(sorted), n)
		site := p.Pos(c.Pos())
		if !(c.IsStatic("sort", "", "Sort") || c.IsStatic("sort", "", "Stable")) || c.Fn != sorted {
			r.Undecided("T-tiebreak", key, site, "sorts with "+c.CalleeKey()+": the rule only follows sort.Sort/sort.Stable over byPermanodeTime")
			continue
		}
		arg := c09StripIface(c.Args()[0])
		reversed := false
		if call, ok := arg.(*ssa.Call); ok && (CallSite{sorted, call}).IsStatic("sort", "", "Reverse") {
			reversed = true
			arg = c09StripIface(call.Call.Args[0])
		}
		if !c09Is(arg.Type(), cx.tByPT) {
			r.Violation("T-tiebreak", key, site, fmt.Sprintf("permanodes are sorted with %s instead of byPermanodeTime: the (time, ref) order the continue matcher assumes is not established", arg.Type()))
			continue
		}
		known, want := false, false
		for _, f := range FactsAt(c.Block()) {
			cond, val := f.Cond, f.Val
			if u, ok := cond.(*ssa.UnOp); ok && u.Op == token.NOT {
				cond, val = u.X, !val
			}
			if rev != nil && originValue(cond) == ssa.Value(rev) {
				known, want = true, val
			}
		}
		switch {
		case !known:
			r.Undecided("T-tiebreak", key, site, "sort call is not under a fact about the reverse parameter")
		case want != reversed:
			r.Violation("T-tiebreak", key, site, fmt.Sprintf("reverse=%v is requested here but the slice is sorted %s: newest-first sources enumerate oldest-first, so the matcher (which admits older items) repeats/skips", want, map[bool]string{true: "descending", false: "ascending"}[reversed]))
		default:
			r.OK("T-tiebreak", key, site, fmt.Sprintf("sort over byPermanodeTime, sort.Reverse applied iff reverse (reverse=%v here)", want))
		}
	}
	if n == 0 {
		r.Violation("T-tiebreak", FuncKey(sorted)+"#sort-call", p.Pos(sorted.Pos()), "lazySortedPermanodes.sorted no longer sorts: enumeration order is map order")
	}
	r.Floor("T-tiebreak", 4)
	return matcherFuncs
}

// c09StripIface removes interface conversions only (the concrete named type
// of the operand is what matters).
func c09StripIface(v ssa.Value) ssa.Value {
	for {
		switch x := v.(type) {
		case *ssa.MakeInterface:
			v = x.X
		case *ssa.ChangeInterface:
			v = x.X
		default:
			return v
		}
	}
}

func (cx *c09Ctx) reportOrder(rule, construct, site string, res c09OrderResult, okDetail string) {
	switch {
	case res.bad != "":
		cx.r.Violation(rule, construct, site, res.bad)
	case len(res.wrong) > 0:
		cx.r.Violation(rule, construct, site, strings.Join(res.wrong, "; "))
	case res.undecided != "":
		cx.r.Undecided(rule, construct, site, res.undecided)
	default:
		cx.r.OK(rule, construct, site, okDetail)
	}
}

// ---------------------------------------------------------------------------
// Token writer: setResultContinue

type c09Writer struct {
	fn       *ssa.Function
	sprintf  *ssa.Call
	site     string
	format   string
	lits     []string // literal text before verb0, between verb0 and verb1, after verb1
	verbs    []byte
	args     []ssa.Value // values formatted (inside MakeInterface)
	timeArg  ssa.Value   // integer written
	refArg   ssa.Value   // ref written
	unix     *ssa.Call   // the (time.Time).UnixXxx call producing timeArg
	timeBy   map[int64]*types.Func
	problems []string // cannot follow
	lastOK   bool
	lastWhy  string
}

// isLastResult: v is res.Blobs[len(res.Blobs)-1].Blob.
func (cx *c09Ctx) isLastResult(v ssa.Value) (bool, string) {
	lf, ok := c09LoadedField(originValue(v))
	if !ok || !c09IsRef(lf.Type) {
		return false, "?the ref written in the token is not a field of a result element"
	}
	el, ok := originValue(lf.Base).(*ssa.UnOp)
	if !ok || el.Op != token.MUL {
		return false, "?the ref written in the token is not read from an element of a slice"
	}
	ia, ok := el.X.(*ssa.IndexAddr)
	if !ok {
		return false, "?the ref written in the token is not read from an element of a slice"
	}
	sf, ok := c09LoadedField(originValue(ia.X))
	if !ok || sf.Owner == nil || sf.Owner.Obj() != cx.tResult.Obj() {
		return false, "the ref written in the token is not taken from SearchResult.Blobs"
	}
	bo, ok := originValue(ia.Index).(*ssa.BinOp)
	if ok && bo.Op == token.SUB {
		if one, isC := ConstInt(bo.Y); isC && one == 1 {
			if ln, ok := originValue(bo.X).(*ssa.Call); ok {
				if b, ok := ln.Call.Value.(*ssa.Builtin); ok && b.Name() == "len" {
					if lf2, ok := c09LoadedField(originValue(ln.Call.Args[0])); ok && lf2.Owner == sf.Owner && lf2.Name == sf.Name && AccessPath(lf2.Base) == AccessPath(sf.Base) {
						return true, ""
					}
				}
			}
		}
	}
	return false, "the ref written in the token is not the LAST element of SearchResult.Blobs: the next page starts from the wrong place (repeats everything after that element)"
}

// c09ParseFormat splits a Printf format into literals and plain verbs.
func c09ParseFormat(f string) (lits []string, verbs []byte, ok bool) {
	cur := ""
	for i := 0; i < len(f); i++ {
		if f[i] != '%' {
			cur += string(f[i])
			continue
		}
		i++
		if i >= len(f) {
			return nil, nil, false
		}
		if f[i] == '%' {
			cur += "%"
			continue
		}
		if !(f[i] >= 'a' && f[i] <= 'z' || f[i] >= 'A' && f[i] <= 'Z') {
			return nil, nil, false // flags/width: not a plain verb
		}
		lits = append(lits, cur)
		cur = ""
		verbs = append(verbs, f[i])
	}
	lits = append(lits, cur)
	return lits, verbs, true
}

func (cx *c09Ctx) analyseWriter() *c09Writer {
	fn := cx.p.Func("pkg/search", "SearchQuery", "setResultContinue")
	w := &c09Writer{fn: fn, timeBy: map[int64]*types.Func{}, site: cx.p.Pos(fn.Pos())}
	stores := c09StoresToField(c09WithLits(fn), cx.tResult, "Continue")
	if len(stores) != 1 {
		w.problems = append(w.problems, fmt.Sprintf("%d stores to SearchResult.Continue (want exactly one token writer)", len(stores)))
		return w
	}
	call, ok := originValue(stores[0].Val).(*ssa.Call)
	if !ok || !(CallSite{call.Parent(), call}).IsStatic("fmt", "", "Sprintf") {
		w.problems = append(w.problems, "the token is not built by fmt.Sprintf; the rule cannot read its format")
		return w
	}
	w.sprintf, w.site = call, cx.p.Pos(call.Pos())
	format, ok := ConstString(call.Call.Args[0])
	if !ok {
		w.problems = append(w.problems, "token format is not a constant string")
		return w
	}
	w.format = format
	w.lits, w.verbs, ok = c09ParseFormat(format)
	if !ok {
		w.problems = append(w.problems, "token format uses flags/width the rule does not model")
		return w
	}
	for _, a := range c09Varargs(call.Call.Args[1]) {
		if mi, ok := a.(*ssa.MakeInterface); ok {
			w.args = append(w.args, mi.X)
		} else {
			w.args = append(w.args, a)
		}
	}
	if len(w.verbs) != 2 || len(w.args) != 2 || w.args[0] == nil || w.args[1] == nil {
		w.problems = append(w.problems, fmt.Sprintf("token format %q with %d arguments: expected <prefix><integer time><separator><ref>", format, len(w.args)))
		return w
	}
	w.timeArg, w.refArg = w.args[0], w.args[1]
	w.lastOK, w.lastWhy = cx.isLastResult(w.refArg)
	// the integer must be a UnixXxx() of a time value
	tv := w.timeArg
	for {
		if cv, ok := tv.(*ssa.Convert); ok {
			tv = cv.X
			continue
		}
		break
	}
	uc, ok := tv.(*ssa.Call)
	if !ok || uc.Call.StaticCallee() == nil || !c09IsTime(uc.Call.StaticCallee().Signature.Recv().Type()) {
		w.problems = append(w.problems, "the integer in the token is not the result of a time.Time method")
		return w
	}
	w.unix = uc
	// the time value, per sort
	for _, lf := range cx.expandBySort(uc.Call.Args[0]) {
		ex, ok := lf.V.(*ssa.Extract)
		var tcall *ssa.Call
		if ok && ex.Index == 0 {
			tcall, _ = ex.Tuple.(*ssa.Call)
		}
		if tcall == nil {
			w.problems = append(w.problems, "token time does not come from a (time, ok) call on the corpus")
			continue
		}
		// ref consistency: the time is the time of the ref written in the token
		if n := len(tcall.Call.Args); n == 0 || !sameOrigin(tcall.Call.Args[n-1], w.refArg) {
			w.problems = append(w.problems, "token time is computed for a different ref than the ref written in the token")
		}
		type tagged struct {
			f   *types.Func
			k   int64
			has bool
		}
		var fs []tagged
		if sc := tcall.Call.StaticCallee(); sc != nil {
			f, _ := sc.Object().(*types.Func)
			fs = append(fs, tagged{f, lf.Sort, lf.HasSort})
		} else {
			for _, fl := range cx.expandBySort(tcall.Call.Value) {
				k, has := fl.Sort, fl.HasSort
				if !has {
					k, has = lf.Sort, lf.HasSort
				} else if lf.HasSort && lf.Sort != k {
					continue
				}
				fs = append(fs, tagged{c09MethodOfFuncValue(fl.V), k, has})
			}
		}
		for _, t := range fs {
			switch {
			case t.f == nil:
				w.problems = append(w.problems, "token time function cannot be resolved to a declared method")
			case !t.has:
				w.problems = append(w.problems, "token time function "+c09FuncName(t.f)+" is chosen without a dominating q.Sort == K fact")
			default:
				if prev, dup := w.timeBy[t.k]; dup && prev != t.f {
					w.problems = append(w.problems, "two different token time functions under "+cx.sortName(t.k))
				}
				w.timeBy[t.k] = t.f
			}
		}
	}
	return w
}

// ---------------------------------------------------------------------------
// T-codec

func ruleC09Codec(cx *c09Ctx, w *c09Writer) {
	p, r := cx.p, cx.r
	wkey := FuncKey(w.fn) + "#format"
	rd := p.Func("pkg/search", "", "parsePermanodeContinueToken")
	rkey := FuncKey(rd)
	defer r.Floor("T-codec", 7)
	if len(w.problems) > 0 && (w.sprintf == nil || len(w.verbs) != 2 || w.unix == nil) {
		r.Undecided("T-codec", wkey, w.site, strings.Join(w.problems, "; "))
		return
	}
	// writer side: integer verb, signed 64-bit nanoseconds
	tb, _ := w.timeArg.Type().Underlying().(*types.Basic)
	wSigned := tb != nil && tb.Info()&types.IsInteger != 0 && tb.Info()&types.IsUnsigned == 0
	wBits := 0
	if tb != nil {
		switch tb.Kind() {
		case types.Int64, types.Uint64:
			wBits = 64
		case types.Int32, types.Uint32:
			wBits = 32
		}
	}
	base := map[byte]int64{'d': 10, 'v': 10, 'x': 16, 'X': 16, 'o': 8, 'b': 2}[w.verbs[0]]
	unixName := w.unix.Call.StaticCallee().Name()
	switch {
	case tb == nil || tb.Info()&types.IsInteger == 0 || base == 0:
		r.Violation("T-codec", wkey, w.site, fmt.Sprintf("token format %q does not write the time as an integer", w.format))
	case unixName != "UnixNano":
		r.Violation("T-codec", wkey, w.site, "token time is written with time.Time."+unixName+"(), which drops sub-unit precision: a permanode whose time has nanoseconds never Equals its own token time, so the tie filter does not apply and the last item is returned again")
	case w.lits[0] == "" || w.lits[1] == "" || strings.ContainsAny(w.lits[1], "0123456789-+"):
		r.Violation("T-codec", wkey, w.site, fmt.Sprintf("token format %q has no literal prefix or no unambiguous separator between time and ref", w.format))
	case !(w.verbs[1] == 'v' || w.verbs[1] == 's') || !c09IsRef(w.refArg.Type()):
		r.Violation("T-codec", wkey, w.site, fmt.Sprintf("token format %q does not write the blob.Ref with %%v/%%s (its String form, which blob.Parse reads)", w.format))
	default:
		r.OK("T-codec", wkey, w.site, fmt.Sprintf("format %q: prefix %q, %s %d-bit UnixNano in base %d, separator %q, ref as String()", w.format, w.lits[0], map[bool]string{true: "signed", false: "unsigned"}[wSigned], wBits, base, w.lits[1]))
	}
	prefix, sep := w.lits[0], w.lits[1]

	// reader
	var strParam *ssa.Parameter
	for _, prm := range rd.Params {
		if b, ok := prm.Type().Underlying().(*types.Basic); ok && b.Kind() == types.String {
			strParam = prm
		}
	}
	if strParam == nil {
		brokenf("anchor unresolved: string parameter of parsePermanodeContinueToken")
	}
	fromParam := func(v ssa.Value) bool {
		return DependsOn(v, func(x ssa.Value) bool { return x == ssa.Value(strParam) })
	}
	var parses, hasPrefix, indexes, unixes, refParses []CallSite
	for _, c := range CallsIn(rd, false) {
		f := c.Callee()
		if f == nil || f.Pkg == nil {
			continue
		}
		switch path, name := f.Pkg.Pkg.Path(), f.Name(); {
		case path == "strconv" && (name == "ParseInt" || name == "ParseUint" || name == "Atoi"):
			parses = append(parses, c)
		case path == "strings" && (name == "HasPrefix" || name == "TrimPrefix" || name == "CutPrefix"):
			hasPrefix = append(hasPrefix, c)
		case path == "strings" && (name == "Index" || name == "IndexByte" || name == "IndexRune" || name == "LastIndex" || name == "LastIndexByte"):
			indexes = append(indexes, c)
		case path == "time" && f.Signature.Recv() == nil && strings.HasPrefix(name, "Unix"):
			unixes = append(unixes, c)
		case path == "perkeep.org/pkg/blob" && f.Signature.Recv() == nil && strings.HasPrefix(name, "Parse"):
			refParses = append(refParses, c)
		}
	}
	// (a) prefix
	{
		key, site := rkey+"#prefix", p.Pos(rd.Pos())
		okp, detail := false, "the reader never checks the token prefix with strings.HasPrefix/TrimPrefix/CutPrefix on its argument"
		for _, c := range hasPrefix {
			site = p.Pos(c.Pos())
			s, isConst := ConstString(c.Args()[1])
			if !fromParam(c.Args()[0]) || !isConst {
				continue
			}
			if s != prefix {
				detail = fmt.Sprintf("reader expects prefix %q, writer emits %q: every token is rejected and paging restarts from the first page", s, prefix)
				continue
			}
			okp, detail = true, fmt.Sprintf("reader checks the writer's prefix %q", prefix)
			break
		}
		// every const-low slice of the parameter must skip exactly the prefix
		for _, b := range rd.Blocks {
			for _, in := range b.Instrs {
				if sl, ok := in.(*ssa.Slice); ok && sl.X == ssa.Value(strParam) && sl.Low != nil {
					if n, isC := ConstInt(sl.Low); isC && okp && n != int64(len(prefix)) {
						okp, detail = false, fmt.Sprintf("reader strips %d bytes but the prefix %q has %d", n, prefix, len(prefix))
					}
				}
			}
		}
		r.Check(okp, "T-codec", key, site, detail, detail)
	}
	// (b) integer parse
	if len(parses) != 1 {
		r.Undecided("T-codec", rkey+"#time-int", p.Pos(rd.Pos()), fmt.Sprintf("%d strconv integer parses in the reader (want one)", len(parses)))
		return
	}
	pc := parses[0]
	{
		key, site := rkey+"#time-int", p.Pos(pc.Pos())
		name := pc.Callee().Name()
		var bad []string
		if name == "Atoi" {
			bad = append(bad, "strconv.Atoi parses a platform int: on 32-bit builds every UnixNano overflows")
		} else {
			if rSigned := name == "ParseInt"; rSigned != wSigned {
				bad = append(bad, fmt.Sprintf("writer formats a %s integer (UnixNano is negative before 1970) but the reader uses strconv.%s: tokens of pre-1970 permanodes are rejected, paging cannot get past them",
					map[bool]string{true: "signed", false: "unsigned"}[wSigned], name))
			}
			if b, ok := ConstInt(pc.Args()[1]); !ok || b != base {
				bad = append(bad, fmt.Sprintf("reader parses base %d, writer formats base %d", b, base))
			}
			if bits, ok := ConstInt(pc.Args()[2]); !ok || bits != int64(wBits) {
				bad = append(bad, fmt.Sprintf("reader parses %d bits, writer formats %d bits", bits, wBits))
			}
		}
		if !fromParam(pc.Args()[0]) {
			bad = append(bad, "the parsed string does not derive from the token")
		}
		r.Check(len(bad) == 0, "T-codec", key, site,
			fmt.Sprintf("strconv.%s(base %d, %d bits) matches the writer's %s integer", name, base, wBits, map[bool]string{true: "signed", false: "unsigned"}[wSigned]),
			strings.Join(bad, "; "))
	}
	parsed := ResultValue(pc.Value(), 0)
	isParsed := func(x ssa.Value) bool { return parsed != nil && x == parsed }
	// (c) separator
	{
		key, site := rkey+"#separator", p.Pos(pc.Pos())
		okp, detail := false, "the reader does not locate the separator with strings.Index* on the token"
		var col ssa.Value
		for _, c := range indexes {
			if !fromParam(c.Args()[0]) {
				continue
			}
			s, isS := ConstString(c.Args()[1])
			if !isS {
				if n, isN := ConstInt(c.Args()[1]); isN {
					s, isS = string(rune(n)), true
				}
			}
			if !isS {
				continue
			}
			site = p.Pos(c.Pos())
			if s != sep {
				detail = fmt.Sprintf("reader splits at %q, writer separates with %q", s, sep)
				continue
			}
			okp, detail, col = true, fmt.Sprintf("reader splits at the writer's separator %q; time = text before it, ref = text after it", sep), c.Value()
			break
		}
		if okp {
			// the integer text ends at col; the ref text starts at col+len(sep)
			sl, isSl := originValue(pc.Args()[0]).(*ssa.Slice)
			if !isSl || sl.High == nil || originValue(sl.High) != col {
				okp, detail = false, "the integer text is not the token text up to the separator"
			}
		}
		if okp {
			if len(refParses) != 1 {
				okp, detail = false, fmt.Sprintf("%d blob.Parse* calls in the reader (want one)", len(refParses))
			} else {
				sl, isSl := originValue(refParses[0].Args()[0]).(*ssa.Slice)
				good := false
				if isSl && sl.Low != nil && sl.High == nil {
					if bo, ok := originValue(sl.Low).(*ssa.BinOp); ok && bo.Op == token.ADD {
						x, y := bo.X, bo.Y
						if _, isC := x.(*ssa.Const); isC {
							x, y = y, x
						}
						if n, isC := ConstInt(y); isC && originValue(x) == col && n == int64(len(sep)) {
							good = true
						}
					}
				}
				if !good {
					okp, detail = false, "the ref text is not the token text from separator+len(separator) to the end"
				}
			}
		}
		r.Check(okp, "T-codec", key, site, detail, detail)
	}
	// (d) unit: time.Unix(0, n)
	{
		key, site := rkey+"#time-unit", p.Pos(pc.Pos())
		okp, detail := false, "the parsed integer is not turned into a time with time.Unix(0, n)"
		for _, c := range unixes {
			site = p.Pos(c.Pos())
			dep := -1
			for i, a := range c.Args() {
				if DependsOn(a, isParsed) {
					dep = i
				}
			}
			if dep < 0 {
				continue
			}
			// only width/sign-preserving conversions between the parse and the call
			pure := true
			for v := c.Args()[dep]; v != parsed; {
				cv, ok := v.(*ssa.Convert)
				if !ok {
					pure = false
					break
				}
				if b, ok := cv.X.Type().Underlying().(*types.Basic); !ok || !(b.Kind() == types.Int64 || b.Kind() == types.Uint64) {
					pure = false
					break
				}
				v = cv.X
			}
			sec, secConst := int64(-1), false
			if len(c.Args()) == 2 {
				sec, secConst = ConstInt(c.Args()[0])
			}
			switch {
			case c.Callee().Name() != "Unix" || dep != 1 || !secConst || sec != 0:
				detail = fmt.Sprintf("writer emits UnixNano but the reader rebuilds the time with time.%s and the integer as argument %d: the token time is off by orders of magnitude, the matcher admits everything or nothing", c.Callee().Name(), dep)
			case !pure:
				detail = "the parsed integer is transformed (not only converted between 64-bit integer types) before time.Unix"
			default:
				okp, detail = true, "time.Unix(0, n) inverts UnixNano() exactly"
			}
			break
		}
		r.Check(okp, "T-codec", key, site, detail, detail)
	}
	// (e) results: on every return that may report ok, time and ref are the parsed ones
	{
		key := rkey + "#results"
		okp, detail := true, ""
		n := 0
		for _, ri := range Returns(rd) {
			if len(ri.Results) != 3 {
				okp, detail = false, "reader no longer returns (time, ref, ok)"
				break
			}
			if c, isC := originValue(ri.Results[2]).(*ssa.Const); isC && c.Value != nil && !constant.BoolVal(c.Value) {
				continue // ok=false
			}
			n++
			tcall, isCall := originValue(ri.Results[0]).(*ssa.Call)
			if !isCall || len(unixes) == 0 || tcall != unixes[0].Value() {
				okp, detail = false, "a return that may report ok does not return the time rebuilt from the token"
			}
			if len(refParses) == 1 {
				if ri.Results[1] != ResultValue(refParses[0].Value(), 0) {
					okp, detail = false, "a return that may report ok does not return the ref parsed from the token"
				}
				if rs := refParses[0].Callee().Signature.Results(); rs.Len() == 2 && ri.Results[2] != ResultValue(refParses[0].Value(), 1) {
					okp, detail = false, "ok is not the result of parsing the ref"
				}
			}
		}
		if okp && n == 0 {
			okp, detail = false, "the reader never reports ok"
		}
		if okp {
			detail = fmt.Sprintf("%d success return(s) return the rebuilt time, the parsed ref and its ok", n)
		}
		r.Check(okp, "T-codec", key, p.Pos(rd.Pos()), detail, detail)
	}
	// (f) the caller uses the values only under ok
	add := p.Func("pkg/search", "SearchQuery", "addContinueConstraint")
	for _, c := range CallsIn(add, true) {
		if c.Callee() != rd || c.Value() == nil {
			continue
		}
		okv := ResultValue(c.Value(), 2)
		good := okv != nil
		if good {
			for _, i := range []int{0, 1} {
				v := ResultValue(c.Value(), i)
				if v == nil || v.Referrers() == nil {
					continue
				}
				for _, u := range nonDebug(*v.Referrers()) {
					under := false
					for _, f := range FactsAt(u.Block()) {
						if f.Cond == okv && f.Val {
							under = true
						}
					}
					if _, isPhi := u.(*ssa.Phi); isPhi {
						under = true // selection only; the stores are checked by T-clock
					}
					if !under {
						good = false
					}
				}
			}
		}
		r.Check(good, "T-codec", FuncKey(add)+"#ok-guard", p.Pos(c.Pos()),
			"token time and ref are used only where the reader's ok is true",
			"token time/ref are used where the reader's ok is not known true: a malformed token becomes a zero-time continue constraint")
	}
}

// ---------------------------------------------------------------------------
// T-clock

// c09IndexKeys: which time function keys each lazySortedPermanodes field of Corpus.
func (cx *c09Ctx) indexSortKeys() (byField map[string]*types.Func, problems []string) {
	byField = map[string]*types.Func{}
	fns := cx.p.FuncsIn("pkg/index")
	for _, st := range c09StoresToField(fns, cx.tLSP, "pnTime") {
		f := c09MethodOfFuncValue(st.Val)
		fa, _ := c09FieldRef(st.Addr)
		// where does this lazySortedPermanodes go?
		var fields []string
		var corpusBase ssa.Value
		if refs := fa.Base.Referrers(); refs != nil {
			for _, u := range *refs {
				if s2, ok := u.(*ssa.Store); ok && s2.Val == fa.Base {
					if cf, ok := c09FieldRef(s2.Addr); ok && cf.Owner != nil && cf.Owner.Obj() == cx.tCorpus.Obj() {
						fields = append(fields, cf.Name)
						corpusBase = cf.Base
					}
				}
			}
		}
		if f == nil || len(fields) != 1 {
			problems = append(problems, fmt.Sprintf("store to lazySortedPermanodes.pnTime in %s cannot be resolved to (Corpus field, declared method)", FuncKey(st.Parent())))
			continue
		}
		if mc, ok := originValue(st.Val).(*ssa.MakeClosure); ok && len(mc.Bindings) == 1 && corpusBase != nil && originValue(mc.Bindings[0]) != originValue(corpusBase) {
			problems = append(problems, "pnTime of Corpus."+fields[0]+" is bound to a different corpus than the one that owns it")
		}
		if prev, dup := byField[fields[0]]; dup && prev != f {
			problems = append(problems, "Corpus."+fields[0]+" is keyed by two different time functions")
		}
		byField[fields[0]] = f
	}
	return
}

type c09Source struct {
	site     string
	enum     *ssa.Function
	field    string
	newest   bool   // newest-first requested
	sorted   bool   // candidateSource.sorted known true at the return
	problem  string // cannot follow
	violated string
}

// sourcesBySort: for each `q.Sort == K` arm of pickCandidateSource that installs
// a send function, the Corpus enumerator it calls.
func (cx *c09Ctx) sourcesBySort() map[int64]*c09Source {
	pick := cx.p.Func("pkg/search", "SearchQuery", "pickCandidateSource")
	out := map[int64]*c09Source{}
	for _, st := range c09StoresToField([]*ssa.Function{pick}, cx.tCandSrc, "send") {
		k, ok := cx.sortAt(st.Block())
		if !ok {
			continue
		}
		s := &c09Source{site: cx.p.Pos(st.Pos())}
		if _, dup := out[k]; dup {
			s.problem = "two send functions installed under " + cx.sortName(k)
			out[k] = s
			continue
		}
		out[k] = s
		// the branch must be the permanode-only, corpus-backed one
		onlyPN := false
		for _, f := range FactsAt(st.Block()) {
			if c, ok := originValue(f.Cond).(*ssa.Call); ok && f.Val && c.Call.StaticCallee() != nil && c.Call.StaticCallee().Name() == "onlyMatchesPermanode" {
				onlyPN = true
			}
		}
		if !onlyPN {
			s.problem = "send function for " + cx.sortName(k) + " is not installed under onlyMatchesPermanode()"
			continue
		}
		// sorted flag: last store to .sorted that dominates this store
		var flag *ssa.Store
		for _, fs := range c09StoresToField([]*ssa.Function{pick}, cx.tCandSrc, "sorted") {
			if Precedes(fs, st) && (flag == nil || Precedes(flag, fs)) {
				flag = fs
			}
		}
		if flag != nil {
			if c, ok := flag.Val.(*ssa.Const); ok && c.Value != nil && constant.BoolVal(c.Value) {
				s.sorted = true
			}
		}
		lit, _ := originValue(st.Val).(*ssa.MakeClosure)
		var body *ssa.Function
		if lit != nil {
			body, _ = lit.Fn.(*ssa.Function)
		} else if f, ok := originValue(st.Val).(*ssa.Function); ok {
			body = f
		}
		if body == nil {
			s.problem = "send function is not a function literal"
			continue
		}
		var enums []CallSite
		for _, c := range CallsIn(body, true) {
			if rt := c.RecvType(); rt != nil && c09Is(rt, cx.tCorpus) && c.Callee() != nil {
				enums = append(enums, c)
			}
		}
		if len(enums) != 1 {
			s.problem = fmt.Sprintf("send function calls %d Corpus methods (want one enumerator)", len(enums))
			continue
		}
		ec := enums[0]
		s.enum = ec.Callee()
		// inside the enumerator: exactly one lazySortedPermanodes.sorted call
		var sc []CallSite
		for _, c := range CallsIn(s.enum, false) {
			if rt := c.RecvType(); rt != nil && c09Is(rt, cx.tLSP) && c.Callee() != nil && c.Callee().Signature.Results().Len() == 1 {
				sc = append(sc, c)
			}
		}
		if len(sc) != 1 {
			s.violated = fmt.Sprintf("%s enumerates from %d lazySortedPermanodes slices: the source picked for %s is not one (time, ref)-sorted list", FuncKey(s.enum), len(sc), cx.sortName(k))
			continue
		}
		lf, ok := c09LoadedField(originValue(sc[0].Args()[0]))
		if !ok || lf.Owner == nil || lf.Owner.Obj() != cx.tCorpus.Obj() {
			s.problem = "receiver of sorted() is not a field of the Corpus"
			continue
		}
		s.field = lf.Name
		// the sorted slice and the callback reach the same call (or the slice is ranged over here)
		passed := false
		for _, c := range CallsIn(s.enum, false) {
			hasSlice, hasFn := false, false
			for _, a := range c.Args() {
				if originValue(a) == ssa.Value(sc[0].Value()) {
					hasSlice = true
				}
				if _, isP := originValue(a).(*ssa.Parameter); isP && c09IsFuncType(a.Type()) {
					hasFn = true
				}
			}
			if hasSlice && hasFn {
				passed = true
			}
		}
		if !passed {
			s.problem = "cannot see the sorted slice and the callback being handed to one enumeration helper"
			continue
		}
		// direction
		rev := originValue(sc[0].Args()[1])
		if prm, ok := rev.(*ssa.Parameter); ok {
			for i, ep := range s.enum.Params {
				if ep == prm {
					rev = originValue(ec.Args()[i])
				}
			}
		}
		if c, ok := rev.(*ssa.Const); ok && c.Value != nil && c.Value.Kind() == constant.Bool {
			s.newest = constant.BoolVal(c.Value)
		} else {
			s.problem = "direction requested from sorted() is not a constant"
		}
	}
	return out
}

func c09IsFuncType(t types.Type) bool { _, ok := t.Underlying().(*types.Signature); return ok }

// contFieldsBySort: which PermanodeContinueConstraint time field receives the
// parsed token time under which sort, in addContinueConstraint.
func (cx *c09Ctx) contFieldsBySort() (bySort map[int64]string, refOK bool, problems []string, violations []string, site string) {
	add := cx.p.Func("pkg/search", "SearchQuery", "addContinueConstraint")
	rd := cx.p.Func("pkg/search", "", "parsePermanodeContinueToken")
	bySort = map[int64]string{}
	site = cx.p.Pos(add.Pos())
	var tok *ssa.Call
	for _, c := range CallsIn(add, true) {
		if c.Callee() == rd && c.Value() != nil {
			tok = c.Value()
			site = cx.p.Pos(c.Pos())
		}
	}
	if tok == nil {
		violations = append(violations, "addContinueConstraint no longer parses the token with parsePermanodeContinueToken")
		return
	}
	tokT, tokR := ResultValue(tok, 0), ResultValue(tok, 1)
	st := cx.tPCC.Underlying().(*types.Struct)
	for i := 0; i < st.NumFields(); i++ {
		fld := st.Field(i)
		stores := c09StoresToField(c09WithLits(add), cx.tPCC, fld.Name())
		switch {
		case c09IsRef(fld.Type()):
			for _, s := range stores {
				if tokR != nil && sameOrigin(s.Val, tokR) {
					refOK = true
				}
			}
		case c09IsTime(fld.Type()):
			for _, s := range stores {
				for _, lf := range cx.expandBySort(s.Val) {
					if c, isC := lf.V.(*ssa.Const); isC && c.Value == nil {
						continue // zero time: field left unset on this path
					}
					if tokT == nil || lf.V != tokT {
						problems = append(problems, "PermanodeContinueConstraint."+fld.Name()+" receives a value that is neither the token time nor the zero time")
						continue
					}
					if !lf.HasSort {
						violations = append(violations, "PermanodeContinueConstraint."+fld.Name()+" receives the token time regardless of q.Sort: the matcher may compare the token with the wrong clock")
						continue
					}
					if prev, dup := bySort[lf.Sort]; dup && prev != fld.Name() {
						violations = append(violations, "under "+cx.sortName(lf.Sort)+" both "+prev+" and "+fld.Name()+" receive the token time: checkValid rejects the constraint / the matcher uses the first clock only")
					}
					bySort[lf.Sort] = fld.Name()
				}
			}
		}
	}
	return
}

func ruleC09Clock(cx *c09Ctx, w *c09Writer, m *c09Matcher, matcherFuncs map[string]map[*types.Func]bool) {
	p, r := cx.p, cx.r
	defer r.Floor("T-clock", 10)
	wfn := FuncKey(w.fn)
	if len(w.problems) > 0 {
		r.Undecided("T-clock", wfn+"#token-time", w.site, strings.Join(w.problems, "; "))
		return
	}
	if len(w.timeBy) < 2 {
		r.Violation("T-clock", wfn+"#token-time", w.site, fmt.Sprintf("only %d sort(s) write a continue token (LastModifiedDesc and CreatedDesc are expected to be continuable)", len(w.timeBy)))
	}
	keys, kprob := cx.indexSortKeys()
	srcs := cx.sourcesBySort()
	contFld, refOK, aprob, aviol, asite := cx.contFieldsBySort()
	pick := FuncKey(p.Func("pkg/search", "SearchQuery", "pickCandidateSource"))
	add := FuncKey(p.Func("pkg/search", "SearchQuery", "addContinueConstraint"))

	// the sort key stored in pnAndTime.t comes from lsp.pnTime of the same ref
	cx.checkSortKeyUse()

	for _, k := range c09SortedKeys(w.timeBy) {
		name := cx.sortName(k)
		wf := w.timeBy[k]
		// (i) source
		var srcFn *types.Func
		s := srcs[k]
		skey := pick + "#source/" + name
		switch {
		case s == nil:
			r.Violation("T-clock", skey, w.site, "a continue token is written for "+name+" but pickCandidateSource installs no dedicated sorted source for it: results are post-sorted without a ref tie-break, the token's tie-break does not match")
		case s.violated != "":
			r.Violation("T-clock", skey, s.site, s.violated)
		case s.problem != "":
			r.Undecided("T-clock", skey, s.site, s.problem)
		case len(kprob) > 0:
			r.Undecided("T-clock", skey, s.site, strings.Join(kprob, "; "))
		case keys[s.field] == nil:
			r.Undecided("T-clock", skey, s.site, "no pnTime initialisation found for Corpus."+s.field)
		default:
			srcFn = keys[s.field]
			r.OK("T-clock", skey, s.site, fmt.Sprintf("%s -> %s -> Corpus.%s keyed by %s", name, FuncKey(s.enum), s.field, c09FuncName(srcFn)))
			r.Check(s.newest, "T-clock", pick+"#newest-first/"+name, s.site,
				"the source is requested newest-first (the matcher admits items older than the token)",
				"the source for "+name+" is requested oldest-first but the continue matcher admits only items older than the token: page 2 is empty or repeats")
			r.Check(s.sorted, "T-clock", pick+"#sorted-flag/"+name, s.site,
				"candidateSource.sorted is true for this source: Query stops at Limit in enumeration order and does not re-sort",
				"candidateSource.sorted is not true for the source of "+name+": Query re-sorts all matches with an unstable sort without ref tie-break, then cuts at Limit, so the token's (time, ref) position does not describe the page boundary")
		}
		// (ii) writer vs source
		wkey := wfn + "#token-time/" + name
		switch {
		case srcFn == nil:
			r.Undecided("T-clock", wkey, w.site, "source clock for "+name+" unresolved; token clock is "+c09FuncName(wf))
		case srcFn != wf:
			r.Violation("T-clock", wkey, w.site, fmt.Sprintf("under %s the token time is %s(last) but the source is ordered by %s: for a permanode where the two differ the token points into the wrong place of the list (skips or repeats)", name, c09FuncName(wf), c09FuncName(srcFn)))
		default:
			r.OK("T-clock", wkey, w.site, fmt.Sprintf("token time under %s is %s of the token's own ref = sort key of the source", name, c09FuncName(wf)))
		}
		// (iii) continue field and matcher
		akey := add + "#token-field/" + name
		fld, have := contFld[k]
		switch {
		case len(aviol) > 0:
			r.Violation("T-clock", akey, asite, strings.Join(aviol, "; "))
		case len(aprob) > 0:
			r.Undecided("T-clock", akey, asite, strings.Join(aprob, "; "))
		case !have:
			r.Violation("T-clock", akey, asite, "a token is written for "+name+" but addContinueConstraint stores its time in no PermanodeContinueConstraint field under that sort: the token is ignored (first page again) or rejected by checkValid")
		default:
			r.OK("T-clock", akey, asite, "token time is stored in PermanodeContinueConstraint."+fld+" under "+name)
		}
		mkey := FuncKey(m.fn) + "#continue-clock/" + name
		if have && len(aviol) == 0 {
			var mfs []*types.Func
			for f := range matcherFuncs[fld] {
				mfs = append(mfs, f)
			}
			switch {
			case matcherFuncs == nil:
				r.Undecided("T-clock", mkey, p.Pos(m.fn.Pos()), "continue branch of the matcher could not be evaluated (see T-tiebreak)")
			case len(mfs) != 1:
				r.Undecided("T-clock", mkey, p.Pos(m.fn.Pos()), fmt.Sprintf("matcher compares %d different item clocks with %s", len(mfs), fld))
			case srcFn != nil && mfs[0] != srcFn:
				r.Violation("T-clock", mkey, p.Pos(m.entry.Instrs[0].Pos()), fmt.Sprintf("with %s set (sort %s) the matcher compares %s(item) with the token, but the list is ordered by %s: items whose two clocks differ are skipped or repeated", fld, name, c09FuncName(mfs[0]), c09FuncName(srcFn)))
			case srcFn == nil:
				r.Undecided("T-clock", mkey, p.Pos(m.fn.Pos()), "source clock unresolved")
			default:
				r.OK("T-clock", mkey, p.Pos(m.entry.Instrs[0].Pos()), fmt.Sprintf("with %s set the matcher compares %s(item) with the token = sort key of the source for %s", fld, c09FuncName(mfs[0]), name))
			}
		}
	}
	if strings.HasPrefix(w.lastWhy, "?") {
		r.Undecided("T-clock", wfn+"#token-ref-is-last", w.site, w.lastWhy[1:])
	} else {
		r.Check(w.lastOK, "T-clock", wfn+"#token-ref-is-last", w.site, "the token names the last element of the page (res.Blobs[len-1])", w.lastWhy)
	}
	r.Check(refOK, "T-clock", add+"#token-ref", asite,
		"the token's ref is stored in the continue constraint's ref field (tie-break reference)",
		"the parsed token ref is not stored in the continue constraint: the tie filter compares with the zero ref")
	cx.checkPlanOrder()
	cx.checkConjunction()
}

// checkSortKeyUse: in lazySortedPermanodes.sorted the time stored next to a ref
// is lsp.pnTime(that ref).
func (cx *c09Ctx) checkSortKeyUse() {
	fn := cx.p.Func("pkg/index", "lazySortedPermanodes", "sorted")
	key := FuncKey(fn) + "#sort-key"
	ts := c09StoresToField(c09WithLits(fn), cx.tPnTime, "t")
	ps := c09StoresToField(c09WithLits(fn), cx.tPnTime, "pn")
	if len(ts) != 1 || len(ps) != 1 {
		cx.r.Undecided("T-clock", key, cx.p.Pos(fn.Pos()), fmt.Sprintf("%d/%d stores to pnAndTime.t/.pn (want one each)", len(ts), len(ps)))
		return
	}
	okp, detail := false, "pnAndTime.t is not the first result of a call through lsp.pnTime"
	if ex, ok := originValue(ts[0].Val).(*ssa.Extract); ok && ex.Index == 0 {
		if call, ok := ex.Tuple.(*ssa.Call); ok {
			lf, isF := c09LoadedField(originValue(call.Call.Value))
			switch {
			case !isF || lf.Owner == nil || lf.Owner.Obj() != cx.tLSP.Obj() || lf.Name != "pnTime":
			case len(call.Call.Args) != 1 || !sameOrigin(call.Call.Args[0], ps[0].Val):
				detail = "the time stored next to a ref is computed for a different ref"
			default:
				okp, detail = true, "pnAndTime{pn, t}: t = lsp.pnTime(pn) — the slice byPermanodeTime sorts is keyed by the configured clock"
			}
		}
	}
	cx.r.Check(okp, "T-clock", key, cx.p.Pos(ts[0].Pos()), detail, detail)
}

// checkPlanOrder: in plannedQuery no store to Sort can happen after the token
// has been interpreted (addContinueConstraint switches on q.Sort; Query later
// writes the next token under the final Sort).
func (cx *c09Ctx) checkPlanOrder() {
	fn := cx.p.Func("pkg/search", "SearchQuery", "plannedQuery")
	add := cx.p.Func("pkg/search", "SearchQuery", "addContinueConstraint")
	key := FuncKey(fn) + "#sort-fixed-before-token"
	var call ssa.Instruction
	for _, c := range CallsIn(fn, false) {
		if c.Callee() == add {
			call = c.Instr
		}
	}
	if call == nil {
		cx.r.Violation("T-clock", key, cx.p.Pos(fn.Pos()), "plannedQuery no longer calls addContinueConstraint: continue tokens are ignored, every page is the first page")
		return
	}
	after := ReachableFrom(call, nil)
	bad := ""
	for _, st := range c09StoresToField([]*ssa.Function{fn}, cx.tQuery, "Sort") {
		if after[st] {
			bad = "q.Sort is assigned (line " + fmt.Sprint(cx.p.Fset.Position(st.Pos()).Line) + ") after addContinueConstraint interpreted the token under the previous Sort: with the default sort the token is dropped and the page repeats"
		}
	}
	for _, st := range c09StoresToField([]*ssa.Function{fn}, cx.tQuery, "Constraint") {
		if after[st] {
			if c, ok := originValue(st.Val).(*ssa.Call); ok && c.Call.StaticCallee() != nil && len(c.Call.Args) == 1 {
				if lf, ok := c09LoadedField(originValue(c.Call.Args[0])); ok && lf.Name == "Constraint" {
					continue // pq.Constraint = optimizePlan(pq.Constraint): rewrites the whole, continue-wrapped constraint
				}
			}
			bad = "q.Constraint is replaced after addContinueConstraint wrapped it: the continue constraint is lost"
		}
	}
	cx.r.Check(bad == "", "T-clock", key, cx.p.Pos(call.Pos()),
		"Sort (incl. the CreatedDesc default) and Constraint are final before the token is interpreted", bad)
}

// checkConjunction: the continue constraint is and-ed with the base constraint.
func (cx *c09Ctx) checkConjunction() {
	add := cx.p.Func("pkg/search", "SearchQuery", "addContinueConstraint")
	key := FuncKey(add) + "#conjunction"
	fns := c09WithLits(add)
	ops := c09StoresToField(fns, cx.tLogical, "Op")
	okp, detail := true, ""
	if len(ops) != 1 {
		cx.r.Undecided("T-clock", key, cx.p.Pos(add.Pos()), fmt.Sprintf("%d LogicalConstraint.Op stores (want one)", len(ops)))
		return
	}
	if s, _ := ConstString(ops[0].Val); s != "and" {
		okp, detail = false, fmt.Sprintf("continue constraint is combined with Op %q instead of \"and\": the token no longer restricts the result (everything matches)", s)
	}
	base, _ := c09FieldRef(ops[0].Addr)
	var sides []ssa.Value
	for _, n := range []string{"A", "B"} {
		for _, s := range c09StoresToField(fns, cx.tLogical, n) {
			if f, _ := c09FieldRef(s.Addr); f.Base == base.Base {
				sides = append(sides, s.Val)
			}
		}
	}
	hasBase, hasCont := false, false
	for _, v := range sides {
		if lf, ok := c09LoadedField(originValue(v)); ok && lf.Owner != nil && lf.Owner.Obj() == cx.tQuery.Obj() && lf.Name == "Constraint" {
			hasBase = true
		}
		if c09HoldsContinue(v, cx) {
			hasCont = true
		}
	}
	if okp && !(hasBase && hasCont) {
		okp, detail = false, "the and-node does not combine the previous q.Constraint with the new continue constraint"
	}
	if okp {
		detail = "q.Constraint = and(Permanode{Continue: token}, previous q.Constraint)"
	}
	cx.r.Check(okp, "T-clock", key, cx.p.Pos(ops[0].Pos()), detail, detail)
}

// c09HoldsContinue: v is a freshly allocated Constraint whose Permanode field
// holds a PermanodeConstraint whose Continue field is set.
func c09HoldsContinue(v ssa.Value, cx *c09Ctx) bool {
	al, ok := originValue(v).(*ssa.Alloc)
	if !ok || al.Referrers() == nil {
		return false
	}
	for _, u := range *al.Referrers() {
		fa, ok := u.(*ssa.FieldAddr)
		if !ok || fa.Referrers() == nil {
			continue
		}
		for _, u2 := range *fa.Referrers() {
			st, ok := u2.(*ssa.Store)
			if !ok || st.Addr != ssa.Value(fa) {
				continue
			}
			if c09Is(st.Val.Type(), cx.tPCC) {
				return true
			}
			if c09HoldsContinue(st.Val, cx) {
				return true
			}
		}
	}
	return false
}

// ---------------------------------------------------------------------------

func runC09(p *Program, r *Reporter) {
	cx := c09NewCtx(p, r)
	w := cx.analyseWriter()
	m := cx.findMatcher()
	r.Analysed("functions", 9)
	mf := ruleC09Tiebreak(cx, m)
	ruleC09Clock(cx, w, m, mf)
	ruleC09Codec(cx, w)
	ruleC09Around(cx)
}

// ---------------------------------------------------------------------------
// T-around: a pivot that was not found yields no results.

func ruleC09Around(cx *c09Ctx) {
	p, r := cx.p, cx.r
	fn := p.Func("pkg/search", "Handler", "Query")
	key := FuncKey(fn) + "#pivot-miss-clears-results"
	defer r.Floor("T-around", 1)
	isAroundEq := func(cond ssa.Value, val bool) bool {
		bo, ok := cond.(*ssa.BinOp)
		if !ok || !((bo.Op == token.EQL && val) || (bo.Op == token.NEQ && !val)) {
			return false
		}
		for _, o := range []ssa.Value{bo.X, bo.Y} {
			if lf, ok := c09LoadedField(originValue(o)); ok && lf.Owner != nil && lf.Owner.Obj() == cx.tQuery.Obj() && lf.Name == "Around" {
				return true
			}
		}
		return false
	}
	// (1) the "pivot found" flags: bool variables of Query set to true where q.Around == <candidate ref>
	found := map[ssa.Value]bool{}
	for _, f := range c09WithLits(fn) {
		for _, b := range f.Blocks {
			for _, in := range b.Instrs {
				st, ok := in.(*ssa.Store)
				if !ok {
					continue
				}
				c, isC := st.Val.(*ssa.Const)
				if !isC || c.Value == nil || c.Value.Kind() != constant.Bool || !constant.BoolVal(c.Value) {
					continue
				}
				cell, ok := varOf(st.Addr)
				if !ok {
					continue
				}
				for _, ft := range FactsAt(b) {
					if isAroundEq(ft.Cond, ft.Val) {
						found[cell] = true
					}
				}
			}
		}
	}
	if len(found) == 0 {
		r.Violation("T-around", key, p.Pos(fn.Pos()), "Query never records that the Around pivot was matched: a query whose pivot does not match cannot be told from one whose pivot does")
		return
	}
	// (2) results are cleared where a flag is known false
	var clears []*ssa.Store
	for _, st := range c09StoresToField([]*ssa.Function{fn}, cx.tResult, "Blobs") {
		if !IsNilConst(st.Val) {
			continue
		}
		for _, ft := range FactsAt(st.Block()) {
			cond, val := ft.Cond, ft.Val
			for {
				if u, ok := cond.(*ssa.UnOp); ok && u.Op == token.NOT {
					cond, val = u.X, !val
					continue
				}
				break
			}
			if ld, ok := cond.(*ssa.UnOp); ok && ld.Op == token.MUL && !val {
				if cell, ok := varOf(ld.X); ok && found[cell] {
					clears = append(clears, st)
				}
			}
		}
	}
	if len(clears) == 0 {
		r.Violation("T-around", key, p.Pos(fn.Pos()), "no `res.Blobs = nil` under `pivot not found`: an Around query whose pivot does not match returns an arbitrary window instead of nothing")
		return
	}
	// (3) the clear precedes the point where results are used further (token, describe): it must not be
	// reachable from a call that reads the results for the reply
	st := clears[0]
	okp, detail := true, "results are set to nil on the path where the Around pivot was wanted but never matched"
	for _, c := range CallsIn(fn, false) {
		if f := c.Callee(); f != nil && (f.Name() == "setResultContinue" || f.Name() == "DescribeLocked") {
			if ReachableFrom(c.Instr, nil)[st] {
				okp, detail = false, "results are cleared only after "+f.Name()+" already used them"
			}
		}
	}
	r.Check(okp, "T-around", key, p.Pos(st.Pos()), detail, detail)
}
