package main

import (
	"fmt"
	"go/constant"
	"go/token"
	"go/types"
	"sort"
	"strings"

	"golang.org/x/tools/go/ssa"
)

func init() {
	register(&PropSpec{
		ID:    "C09",
		Title: "Paging through search results with continue tokens neither skips nor repeats",
		Explanation: "All sites are looked up by ROLE in the EFFECTIVE BODY of the property's entry points (Handler.Query for the search side; the Corpus enumerator the chosen send function calls for the index side; PermanodeConstraint.blobMatches for the matcher): the function itself, its function literals and, transitively (depth <= 8), the unexported same-package functions it calls statically, with helper parameters standing for the caller's arguments and call results for the helper's returned values; branch facts and the known q.Sort of a call site hold inside the helper; order facts are lifted to the lowest common activation. " +
			"Decided (structural necessary conditions of exactly-once paging): " +
			"T-clock — for every sort for which a token is written (the store to SearchResult.Continue; sorts derived from the program: LastModifiedDesc, CreatedDesc) the SAME corpus time function is used (i) as the sort key of the sorted candidate source picked for that sort (store to candidateSource.send under that sort -> Corpus enumerator -> lazySortedPermanodes field of the Corpus -> pnTime as initialised in pkg/index, requested newest-first, flagged sorted, the sorted slice handed to / ranged over with the caller's callback, every pnAndTime built in the sorting method keyed by lsp.pnTime of its own ref), (ii) to compute the token time of the token's own ref (the last result), and (iii) in the continue matcher for the PermanodeContinueConstraint field that receives the time rebuilt from the token under that same sort; no store to SearchQuery.Sort and no replacement of SearchQuery.Constraint can follow the wrapping of the constraint, and the continue constraint is and-ed with the previous constraint. " +
			"T-tiebreak — the Less method of the type handed to sort.Sort/sort.Stable and the continue branch of PermanodeConstraint.blobMatches are evaluated abstractly (following calls into same-package helpers along the path the ordering determines) over all 9 orderings (time <,=,> x ref <,=,>) and both must be the strict lexicographic order (time, then blob.Ref.Less): the matcher admits exactly the items that sort strictly after the token item; every sort in the sorting method is reversed exactly when reverse is requested. " +
			"T-codec — the token writer's format (literal prefix, integer verb, separator, ref verb) and the reader (the strconv/strings/time/blob calls applied to text derived from SearchQuery.Continue, wherever they live) agree: same prefix and separator constants, the integer is written from a signed 64-bit UnixNano and parsed by a signed 64-bit base-10 parse, turned back into a time with time.Unix(0, n) (lossless), the ref part is parsed from behind the separator, the continue constraint receives exactly those values, and only where both parses are known to have succeeded (success carried across helper calls: a helper call counts as success where its ok/err result says so and every may-succeed return inside is itself success-dominated). " +
			"T-around — the 'pivot found' flag (variable or field) is only set for a candidate equal to q.Around that the matcher accepted, and the result list is cleared on the path where the flag is false, before the results are used for the reply. " +
			"NOT decided: that the enumerator yields the slice in order, correctness of reversedCopy and of the sorted caches, the time functions' own values (only their identity), that blob.Parse inverts Ref.String, exactly-once coverage for a concrete world, effects of index mutation between pages, the 'around' window arithmetic, and unsorted (post-sorted) candidate sources, which never receive a token. Assumes a permanode time returned with ok=true is never the zero time.Time (the zero value is the 'unset' marker of PermanodeContinueConstraint). Helpers reached only through interface calls or function values (other than literals called once, and the send/clock function values the rules resolve explicitly) are not followed: sites moved behind such a call are reported Undecided/violated, never silently accepted.",
		RuleDocs: map[string]string{
			"T-clock":    "per continuable sort (sorts under which the store to SearchResult.Continue is reached): time function of the sorted source == of the token writer == of the matcher mode that receives the token time under that sort; plus key/ref consistency, newest-first, sorted flag, slice handed to the callback enumeration, Sort/Constraint final once the constraint is wrapped, and-conjunction — all looked up in the effective body of Handler.Query / the enumerators",
			"T-tiebreak": "abstract interprocedural evaluation over the 9 (time,ref) orderings of the Less method of the sorted type and of the continue branch of PermanodeConstraint.blobMatches against the strict lexicographic order; sort calls in the effective body of the sorting method are over that type with Reverse iff reverse",
			"T-around":   "effective body of Handler.Query: the flag set where q.Around equals a candidate is set only under 'the matcher accepted that candidate', is tested after enumeration and res.Blobs is cleared where it is false, before the token writer / describe use the results",
			"T-codec":    "writer format string (fmt.Sprintf feeding SearchResult.Continue) vs the reader calls on text derived from SearchQuery.Continue: prefix, separator, signedness/width/base of the integer, UnixNano <-> time.Unix(0,n), ref parsed behind the separator, the constraint receives those values and only under success of both parses (success-dominance across helper calls)",
		},
		Run:       runC09,
		DesignRef: "DESIGN.md §4 C09",
		Technique: "static analysis over effective bodies (virtual inlining of same-package helpers with parameter/result mapping): agreement of function values resolved under branch facts (value dependence over go/ssa), abstract interprocedural evaluation of comparators over a finite order domain, writer/reader table agreement, success-dominance across calls",
		LevelText: "Decides structural necessary conditions only: one clock per continuable sort across source, token writer and continue matcher; sort comparator and continue matcher implement the same strict (time, ref) order; token writer and reader agree on format, signedness and unit; a missed or non-matching 'around' pivot yields nothing. Does not decide exactly-once coverage for any concrete world, enumeration order of the slice, cache correctness, nor the 'around' window arithmetic.",
	})
}

// ---------------------------------------------------------------------------
// context and small helpers

type c09Ctx struct {
	p         *Program
	r         *Reporter
	sortNames map[int64]string
	tQuery    *types.Named // search.SearchQuery
	tResult   *types.Named // search.SearchResult
	tPC       *types.Named // search.PermanodeConstraint
	tPCC      *types.Named // search.PermanodeContinueConstraint
	tCandSrc  *types.Named // search.candidateSource
	tLogical  *types.Named // search.LogicalConstraint
	tCorpus   *types.Named // index.Corpus
	tLSP      *types.Named // index.lazySortedPermanodes
	tPnTime   *types.Named // index.pnAndTime

	q *c09Frame // root activation of Handler.Query

	frames      map[c09FrameKey]*c09Frame
	roots       map[*ssa.Function]*c09Frame
	reaches     map[c09ReachKey]*c09Reach
	litCalls    map[*ssa.Function]c09LitCall
	origins     map[c09V]c09V
	originDepth int
}

func c09NewCtx(p *Program, r *Reporter) *c09Ctx {
	cx := &c09Ctx{p: p, r: r, sortNames: map[int64]string{},
		frames: map[c09FrameKey]*c09Frame{}, roots: map[*ssa.Function]*c09Frame{},
		reaches: map[c09ReachKey]*c09Reach{}, litCalls: map[*ssa.Function]c09LitCall{}, origins: map[c09V]c09V{}}
	cx.tQuery = p.NamedType("pkg/search", "SearchQuery")
	cx.tResult = p.NamedType("pkg/search", "SearchResult")
	cx.tPC = p.NamedType("pkg/search", "PermanodeConstraint")
	cx.tPCC = p.NamedType("pkg/search", "PermanodeContinueConstraint")
	cx.tCandSrc = p.NamedType("pkg/search", "candidateSource")
	cx.tLogical = p.NamedType("pkg/search", "LogicalConstraint")
	cx.tCorpus = p.NamedType("pkg/index", "Corpus")
	cx.tLSP = p.NamedType("pkg/index", "lazySortedPermanodes")
	cx.tPnTime = p.NamedType("pkg/index", "pnAndTime")
	st := p.NamedType("pkg/search", "SortType")
	scope := p.Pkg("pkg/search").Types.Scope()
	for _, n := range scope.Names() {
		if c, ok := scope.Lookup(n).(*types.Const); ok && types.Identical(c.Type(), st) && c.Val().Kind() == constant.Int {
			if v, ok := constant.Int64Val(c.Val()); ok && token.IsExported(n) {
				cx.sortNames[v] = n
			}
		}
	}
	if len(cx.sortNames) == 0 {
		brokenf("anchor unresolved: no SortType constants in pkg/search")
	}
	cx.q = cx.root(p.Func("pkg/search", "Handler", "Query"))
	return cx
}

func (cx *c09Ctx) sortName(k int64) string {
	if n, ok := cx.sortNames[k]; ok {
		return n
	}
	return fmt.Sprintf("SortType(%d)", k)
}

func c09Is(t types.Type, n *types.Named) bool {
	m := NamedOf(t)
	return m != nil && n != nil && m.Obj() == n.Obj()
}

func c09IsTime(t types.Type) bool { return IsNamed(t, "time", "Time") && !c09IsPtr(t) }
func c09IsRef(t types.Type) bool {
	return IsNamed(t, "perkeep.org/pkg/blob", "Ref") && !c09IsPtr(t)
}
func c09IsPtr(t types.Type) bool { _, ok := t.(*types.Pointer); return ok }
func c09IsBool(t types.Type) bool {
	b, ok := t.Underlying().(*types.Basic)
	return ok && b.Info()&types.IsBoolean != 0
}
func c09IsFuncType(t types.Type) bool { _, ok := t.Underlying().(*types.Signature); return ok }

// c09Fld describes a FieldAddr (address of a field) or Field (value of a
// field of a struct value).
type c09Fld struct {
	Base  ssa.Value
	Owner *types.Named
	Name  string
	Type  types.Type
}

func (f c09Fld) is(owner *types.Named, name string) bool {
	return f.Owner != nil && owner != nil && f.Owner.Obj() == owner.Obj() && (name == "" || f.Name == name)
}

func c09FieldRef(v ssa.Value) (c09Fld, bool) {
	var base ssa.Value
	var idx int
	switch x := v.(type) {
	case *ssa.FieldAddr:
		base, idx = x.X, x.Field
	case *ssa.Field:
		base, idx = x.X, x.Field
	default:
		return c09Fld{}, false
	}
	t := base.Type()
	if pt, ok := t.Underlying().(*types.Pointer); ok {
		t = pt.Elem()
	}
	st, ok := t.Underlying().(*types.Struct)
	if !ok || idx >= st.NumFields() {
		return c09Fld{}, false
	}
	n, _ := t.(*types.Named)
	return c09Fld{base, n, st.Field(idx).Name(), st.Field(idx).Type()}, true
}

// c09LoadedField: v is the value of a struct field (load through FieldAddr, or Field).
func c09LoadedField(v ssa.Value) (c09Fld, bool) {
	switch x := v.(type) {
	case *ssa.UnOp:
		if x.Op == token.MUL {
			return c09FieldRef(x.X)
		}
	case *ssa.Field:
		return c09FieldRef(x)
	}
	return c09Fld{}, false
}

// c09StoresToField lists every store, in the given functions, whose address
// is field `name` of struct type owner.
func c09StoresToField(fns []*ssa.Function, owner *types.Named, name string) []*ssa.Store {
	var out []*ssa.Store
	for _, fn := range fns {
		for _, b := range fn.Blocks {
			for _, in := range b.Instrs {
				if st, ok := in.(*ssa.Store); ok {
					if f, ok := c09FieldRef(st.Addr); ok && f.is(owner, name) {
						out = append(out, st)
					}
				}
			}
		}
	}
	return out
}

func c09WithLits(fn *ssa.Function) []*ssa.Function {
	out := []*ssa.Function{fn}
	for _, a := range fn.AnonFuncs {
		out = append(out, c09WithLits(a)...)
	}
	return out
}

// c09MethodOfFuncValue resolves a function value (bound-method closure, plain
// function) to the declared function object.
func c09MethodOfFuncValue(v ssa.Value) *types.Func {
	switch x := originValue(v).(type) {
	case *ssa.MakeClosure:
		if f, ok := x.Fn.(*ssa.Function); ok {
			if o, ok := f.Object().(*types.Func); ok {
				return o
			}
		}
	case *ssa.Function:
		if o, ok := x.Object().(*types.Func); ok {
			return o
		}
	}
	return nil
}

func c09FuncName(f *types.Func) string {
	if f == nil {
		return "<unresolved>"
	}
	s := f.FullName()
	return strings.ReplaceAll(s, modPrefix, "")
}

// c09Varargs returns the values stored into the backing array of a varargs
// slice (`slice t[:]` of `new [N]any`), by index.
func c09Varargs(v ssa.Value) []ssa.Value {
	sl, ok := v.(*ssa.Slice)
	if !ok {
		return nil
	}
	al, ok := sl.X.(*ssa.Alloc)
	if !ok || al.Referrers() == nil {
		return nil
	}
	vals := map[int64]ssa.Value{}
	max := int64(-1)
	for _, ref := range *al.Referrers() {
		ia, ok := ref.(*ssa.IndexAddr)
		if !ok || ia.Referrers() == nil {
			continue
		}
		i, ok := ConstInt(ia.Index)
		if !ok {
			return nil
		}
		for _, u := range *ia.Referrers() {
			if st, ok := u.(*ssa.Store); ok && st.Addr == ssa.Value(ia) {
				vals[i] = st.Val
				if i > max {
					max = i
				}
			}
		}
	}
	out := make([]ssa.Value, max+1)
	for i := range out {
		out[i] = vals[int64(i)]
	}
	return out
}

func c09SortedKeys[T any](m map[int64]T) []int64 {
	var ks []int64
	for k := range m {
		ks = append(ks, k)
	}
	sort.Slice(ks, func(i, j int) bool { return ks[i] < ks[j] })
	return ks
}

// c09StripIface removes interface conversions only (the concrete named type
// of the operand is what matters).
func c09StripIface(v ssa.Value) ssa.Value {
	for {
		switch x := v.(type) {
		case *ssa.MakeInterface:
			v = x.X
		case *ssa.ChangeInterface:
			v = x.X
		default:
			return v
		}
	}
}

// ---------------------------------------------------------------------------
// Effective bodies: activations (frames), values in frames, sites
//
// A rule that looks for a site "in function F" looks in F's effective body: F,
// its function literals and, transitively, the unexported same-package
// functions F calls statically. A frame is one activation of a declared
// function inside such a body, identified by its chain of call sites; a value
// is always paired with the frame it lives in, so that a helper's parameter can
// be followed to the caller's argument and a call to a helper to the value the
// helper returns.

const (
	c09MaxDepth  = 8
	c09MaxFrames = 24 // call chains considered per (root, function)
)

type c09Frame struct {
	fn     *ssa.Function       // declared (top-level) function this activation runs
	site   ssa.CallInstruction // the call (in parent's nest) that enters fn; nil for a root
	parent *c09Frame
	depth  int
}

type c09FrameKey struct {
	parent *c09Frame
	site   ssa.CallInstruction
	fn     *ssa.Function // for activations entered through a function value (site == nil)
}

// c09V is a value in an activation.
type c09V struct {
	V ssa.Value
	F *c09Frame
}

// c09Site is an instruction in an activation.
type c09Site struct {
	In ssa.Instruction
	F  *c09Frame
}

func (s c09Site) val(v ssa.Value) c09V { return c09V{v, s.F} }
func (s c09Site) store() *ssa.Store    { st, _ := s.In.(*ssa.Store); return st }
func (s c09Site) call() CallSite {
	ci, _ := s.In.(ssa.CallInstruction)
	return CallSite{s.In.Parent(), ci}
}
func (s c09Site) top() *ssa.Function { return TopFunc(s.In.Parent()) }

func (cx *c09Ctx) root(fn *ssa.Function) *c09Frame {
	fn = TopFunc(fn)
	if f, ok := cx.roots[fn]; ok {
		return f
	}
	f := &c09Frame{fn: fn}
	cx.roots[fn] = f
	return f
}

// c09Callee: the declared function or function literal a call statically
// enters (also a literal bound to the called local variable).
func c09Callee(ci ssa.CallInstruction) *ssa.Function {
	cc := ci.Common()
	if cc.IsInvoke() {
		return nil
	}
	if f := cc.StaticCallee(); f != nil {
		return f
	}
	switch x := originValue(cc.Value).(type) {
	case *ssa.MakeClosure:
		f, _ := x.Fn.(*ssa.Function)
		return f
	case *ssa.Function:
		return x
	}
	return nil
}

// c09Followable: callee belongs to the effective body of code in `from`'s
// package: a declared, unexported, non-generic source function of the same
// package.
func c09Followable(callee, from *ssa.Function) bool {
	if callee == nil || callee.Blocks == nil || callee.Synthetic != "" || callee.Parent() != nil {
		return false
	}
	if callee.Pkg == nil || callee.Pkg != TopFunc(from).Pkg {
		return false
	}
	if callee.Origin() != nil || callee.TypeParams().Len() > 0 {
		return false
	}
	return !token.IsExported(callee.Name())
}

// child returns the activation entered by the call `site` executed in frame F
// (nil when the callee is not followed). force follows any declared source
// function (used for the Corpus enumerator a send function calls).
func (cx *c09Ctx) child(F *c09Frame, site ssa.CallInstruction, force bool) *c09Frame {
	if F == nil || site == nil {
		return nil
	}
	callee := c09Callee(site)
	if callee == nil || callee.Parent() != nil || callee.Blocks == nil {
		return nil
	}
	if !force && !c09Followable(callee, F.fn) {
		return nil
	}
	if F.depth >= c09MaxDepth {
		return nil
	}
	for a := F; a != nil; a = a.parent {
		if a.fn == callee {
			return nil // recursion
		}
	}
	key := c09FrameKey{F, site, nil}
	if ch, ok := cx.frames[key]; ok {
		return ch
	}
	ch := &c09Frame{fn: callee, site: site, parent: F, depth: F.depth + 1}
	cx.frames[key] = ch
	return ch
}

// valueChild: an activation of fn that frame F's code hands out as a function
// value (method value, function passed as callback): it belongs to the
// effective body, but its parameters are opaque and it is not ordered against
// F's instructions.
func (cx *c09Ctx) valueChild(F *c09Frame, fn *ssa.Function) *c09Frame {
	if F == nil || fn == nil || F.depth >= c09MaxDepth {
		return nil
	}
	for a := F; a != nil; a = a.parent {
		if a.fn == fn {
			return nil
		}
	}
	key := c09FrameKey{F, nil, fn}
	if ch, ok := cx.frames[key]; ok {
		return ch
	}
	ch := &c09Frame{fn: fn, parent: F, depth: F.depth + 1}
	cx.frames[key] = ch
	return ch
}

// c09ValueFunc: the declared function behind a function used as a value (the
// method behind a bound-method wrapper).
func (cx *c09Ctx) valueFunc(f *ssa.Function) *ssa.Function {
	if f == nil || f.Parent() != nil {
		return nil
	}
	if f.Synthetic == "" {
		return f
	}
	if mo, ok := f.Object().(*types.Func); ok && mo != nil {
		if d := cx.p.SSA.FuncValue(mo); d != nil && d.Synthetic == "" {
			return d
		}
	}
	return nil
}

// A function literal that is only ever called, at exactly one place of its
// enclosing declared function, behaves like a block of that function: its
// parameters stand for that call's arguments.
type c09LitCall struct {
	site ssa.CallInstruction
}

func (cx *c09Ctx) litCall(lit *ssa.Function) ssa.CallInstruction {
	if lit == nil || lit.Parent() == nil {
		return nil
	}
	if lc, ok := cx.litCalls[lit]; ok {
		return lc.site
	}
	cx.litCalls[lit] = c09LitCall{}
	var site ssa.CallInstruction
	n, bad := 0, false
	isLit := func(v ssa.Value) bool {
		switch x := v.(type) {
		case *ssa.MakeClosure:
			return x.Fn == ssa.Value(lit)
		case *ssa.Function:
			return x == lit
		}
		return false
	}
	for _, g := range c09WithLits(TopFunc(lit)) {
		for _, b := range g.Blocks {
			for _, in := range b.Instrs {
				if ci, ok := in.(ssa.CallInstruction); ok && c09Callee(ci) == lit {
					if _, isCall := ci.(*ssa.Call); !isCall {
						bad = true // go/defer of the literal: runs elsewhere
					}
					site = ci
					n++
					for _, a := range ci.Common().Args {
						if isLit(a) || isLit(originValue(a)) {
							bad = true
						}
					}
					continue
				}
				if mc, ok := in.(*ssa.MakeClosure); ok && mc.Fn == ssa.Value(lit) {
					continue // creation
				}
				for _, op := range in.Operands(nil) {
					if *op == nil || !isLit(*op) {
						continue
					}
					// the literal value may only be stored into a plain local variable
					var al *ssa.Alloc
					if st, isStore := in.(*ssa.Store); isStore && st.Val == *op {
						al, _ = st.Addr.(*ssa.Alloc)
					}
					if al == nil || !plainVariable(al) {
						bad = true
						continue
					}
					// every load of that variable must be the operand of a call
					for _, ld := range c09LoadsOf(al) {
						if ld.Referrers() == nil {
							continue
						}
						for _, u := range nonDebug(*ld.Referrers()) {
							ci, isCall := u.(ssa.CallInstruction)
							if !isCall || ci.Common().Value != ssa.Value(ld) {
								bad = true
							}
						}
					}
				}
			}
		}
	}
	if n != 1 || bad {
		return nil
	}
	cx.litCalls[lit] = c09LitCall{site}
	return site
}

// c09LoadsOf lists the loads of a plain variable, in its function and the
// literals that capture it.
func c09LoadsOf(al *ssa.Alloc) []*ssa.UnOp {
	var out []*ssa.UnOp
	var walk func(addr ssa.Value, depth int)
	walk = func(addr ssa.Value, depth int) {
		refs := addr.Referrers()
		if refs == nil || depth > 8 {
			return
		}
		for _, r := range *refs {
			switch r := r.(type) {
			case *ssa.UnOp:
				if r.Op == token.MUL {
					out = append(out, r)
				}
			case *ssa.MakeClosure:
				fn := r.Fn.(*ssa.Function)
				for i, b := range r.Bindings {
					if b == addr && i < len(fn.FreeVars) {
						walk(fn.FreeVars[i], depth+1)
					}
				}
			}
		}
	}
	walk(al, 0)
	return out
}

func c09ParamIndex(p *ssa.Parameter) int {
	for i, q := range p.Parent().Params {
		if q == p {
			return i
		}
	}
	return -1
}

// paramArg: the caller's argument a parameter stands for in frame F.
func (cx *c09Ctx) paramArg(p *ssa.Parameter, F *c09Frame) (c09V, bool) {
	g := p.Parent()
	idx := c09ParamIndex(p)
	if idx < 0 {
		return c09V{}, false
	}
	var site ssa.CallInstruction
	up := F
	if g.Parent() == nil {
		if F == nil || F.fn != g || F.site == nil {
			return c09V{}, false
		}
		site, up = F.site, F.parent
	} else if site = cx.litCall(g); site == nil {
		return c09V{}, false
	}
	args := site.Common().Args
	if len(args) != len(g.Params) {
		return c09V{}, false
	}
	return c09V{args[idx], up}, true
}

// callReturns: the returns of the function a call enters, and the activation
// they live in, when the callee is part of the effective body.
func (cx *c09Ctx) callReturns(call *ssa.Call, F *c09Frame) ([]ReturnInfo, *c09Frame, bool) {
	callee := c09Callee(call)
	if callee == nil || callee.Blocks == nil {
		return nil, nil, false
	}
	if callee.Parent() != nil {
		if cx.litCall(callee) != ssa.CallInstruction(call) {
			return nil, nil, false
		}
		return Returns(callee), F, true
	}
	G := cx.child(F, call, false)
	if G == nil {
		return nil, nil, false
	}
	return Returns(callee), G, true
}

// uniqueResult: result idx of a call into the effective body, when every
// return of the callee yields the same value.
func (cx *c09Ctx) uniqueResult(call *ssa.Call, idx int, F *c09Frame) (c09V, bool) {
	rets, G, ok := cx.callReturns(call, F)
	if !ok || len(rets) == 0 {
		return c09V{}, false
	}
	var first c09V
	for i, ri := range rets {
		if idx >= len(ri.Results) {
			return c09V{}, false
		}
		o := cx.origin(c09V{ri.Results[idx], G})
		if i == 0 {
			first = o
		} else if o != first {
			return c09V{}, false
		}
	}
	return first, true
}

// origin is originValue across the effective body: value-preserving wrappers,
// loads of single-assignment variables, helper parameters (-> the caller's
// argument), calls of helpers whose returns agree (-> the returned value), and
// phis all of whose edges agree.
func (cx *c09Ctx) origin(v c09V) c09V {
	if v.V == nil {
		return v
	}
	if o, ok := cx.origins[v]; ok {
		return o
	}
	if cx.originDepth > 24 {
		return c09V{originValue(v.V), v.F}
	}
	cx.originDepth++
	defer func() { cx.originDepth-- }()
	start := v
	for i := 0; i < 64 && v.V != nil; i++ {
		v.V = originValue(v.V)
		var nv c09V
		ok := false
		switch x := v.V.(type) {
		case *ssa.Parameter:
			nv, ok = cx.paramArg(x, v.F)
		case *ssa.Call:
			if x.Call.Signature().Results().Len() == 1 {
				nv, ok = cx.uniqueResult(x, 0, v.F)
			}
		case *ssa.Extract:
			if call, isCall := x.Tuple.(*ssa.Call); isCall {
				nv, ok = cx.uniqueResult(call, x.Index, v.F)
			}
		case *ssa.Phi:
			var first c09V
			same, n := true, 0
			for _, e := range x.Edges {
				if e == ssa.Value(x) {
					continue
				}
				if _, isPhi := e.(*ssa.Phi); isPhi {
					same = false // no phi cycles
					break
				}
				o := cx.origin(c09V{e, v.F})
				if n == 0 {
					first = o
				} else if o != first {
					same = false
				}
				n++
			}
			if same && n > 0 {
				nv, ok = first, true
			}
		}
		if !ok {
			break
		}
		v = nv
	}
	cx.origins[start] = v
	return v
}

// originUntil is origin that stops as soon as stop(v) holds (origin strips
// type conversions; a rule that needs the named type of a converted value
// stops at the conversion).
func (cx *c09Ctx) originUntil(v c09V, stop func(c09V) bool) c09V {
	for i := 0; i < 64 && v.V != nil; i++ {
		if stop(v) {
			return v
		}
		var nv c09V
		ok := false
		switch x := v.V.(type) {
		case *ssa.ChangeType:
			nv, ok = c09V{x.X, v.F}, true
		case *ssa.MakeInterface:
			nv, ok = c09V{x.X, v.F}, true
		case *ssa.ChangeInterface:
			nv, ok = c09V{x.X, v.F}, true
		case *ssa.UnOp:
			if x.Op == token.MUL {
				if r := resolveLoad(x); r != nil {
					nv, ok = c09V{r, v.F}, true
				}
			}
		case *ssa.Parameter:
			nv, ok = cx.paramArg(x, v.F)
		case *ssa.Call:
			if x.Call.Signature().Results().Len() == 1 {
				nv, ok = cx.uniqueResult(x, 0, v.F)
			}
		case *ssa.Extract:
			if call, isCall := x.Tuple.(*ssa.Call); isCall {
				nv, ok = cx.uniqueResult(call, x.Index, v.F)
			}
		case *ssa.Phi:
			if o := originValue(x); o != ssa.Value(x) {
				nv, ok = c09V{o, v.F}, true
			}
		}
		if !ok {
			return v
		}
		v = nv
	}
	return v
}

func (cx *c09Ctx) sameOrigin(a, b c09V) bool {
	oa, ob := cx.origin(a), cx.origin(b)
	if oa == ob {
		return true
	}
	if ph, ok := oa.V.(*ssa.Phi); ok {
		for _, e := range ph.Edges {
			if cx.origin(c09V{e, oa.F}) == ob {
				return true
			}
		}
	}
	if ph, ok := ob.V.(*ssa.Phi); ok {
		for _, e := range ph.Edges {
			if cx.origin(c09V{e, ob.F}) == oa {
				return true
			}
		}
	}
	return false
}

// sameField: the same value, or reads of the same field of the same base
// (go/ssa performs no CSE: `meta.Ref` read twice is two instructions).
func (cx *c09Ctx) sameField(a, b c09V, depth int) bool {
	if cx.sameOrigin(a, b) {
		return true
	}
	if depth > 4 {
		return false
	}
	oa, ob := cx.origin(a), cx.origin(b)
	fa, ok1 := c09LoadedField(oa.V)
	fb, ok2 := c09LoadedField(ob.V)
	if !ok1 || !ok2 || fa.Name != fb.Name || fa.Owner == nil || fb.Owner == nil || fa.Owner.Obj() != fb.Owner.Obj() {
		return false
	}
	return cx.sameField(c09V{fa.Base, oa.F}, c09V{fb.Base, ob.F}, depth+1)
}

// live: origin, and where that stops at a phi or at a helper whose returns
// differ, the single non-constant value among the alternatives (sentinel
// results such as `return "", -1` on a failure path are set aside). Only for
// structural matching ("which call produced this text"), never to conclude
// that a value is constant.
func (cx *c09Ctx) live(v c09V) c09V {
	o := cx.origin(v)
	switch o.V.(type) {
	case *ssa.Phi, *ssa.Extract, *ssa.Call:
	default:
		return o
	}
	var cand []c09V
	for _, l := range cx.expandBySort(o) {
		lo := cx.origin(l.V)
		if _, isC := lo.V.(*ssa.Const); isC {
			continue
		}
		dup := false
		for _, c := range cand {
			dup = dup || c == lo
		}
		if !dup {
			cand = append(cand, lo)
		}
	}
	if len(cand) == 1 {
		return cand[0]
	}
	return o
}

func (cx *c09Ctx) constString(v c09V) (string, bool) { return ConstString(cx.origin(v).V) }
func (cx *c09Ctx) constInt(v c09V) (int64, bool)     { return ConstInt(cx.origin(v).V) }

// loadedField: v is (originates in) the value of a struct field.
func (cx *c09Ctx) loadedField(v c09V) (c09Fld, c09V, bool) {
	o := cx.origin(v)
	f, ok := c09LoadedField(o.V)
	return f, o, ok
}

// dependsOn is DependsOn across the effective body.
func (cx *c09Ctx) dependsOn(v c09V, target func(c09V) bool) bool {
	seen := map[c09V]bool{}
	var walk func(v c09V, depth int) bool
	walk = func(v c09V, depth int) bool {
		if v.V == nil || depth > 60 {
			return false
		}
		if seen[v] {
			return false
		}
		seen[v] = true
		if target(v) {
			return true
		}
		if o := cx.origin(v); o != v {
			if walk(o, depth+1) {
				return true
			}
		}
		switch x := v.V.(type) {
		case *ssa.UnOp:
			if x.Op == token.MUL {
				if cell, ok := varOf(x.X); ok {
					for _, st := range storesTo(cell) {
						if walk(c09V{st.Val, v.F}, depth+1) {
							return true
						}
					}
				}
			}
		case *ssa.Alloc:
			// a local whose address is used (`cand := pns[i]; cand.pn`): what was stored into it
			for _, st := range storesTo(x) {
				if walk(c09V{st.Val, v.F}, depth+1) {
					return true
				}
			}
		case *ssa.Parameter:
			if a, ok := cx.paramArg(x, v.F); ok {
				return walk(a, depth+1)
			}
			return false
		case *ssa.Call:
			if rets, G, ok := cx.callReturns(x, v.F); ok {
				for _, ri := range rets {
					for _, res := range ri.Results {
						if walk(c09V{res, G}, depth+1) {
							return true
						}
					}
				}
			}
		case *ssa.Extract:
			if call, isCall := x.Tuple.(*ssa.Call); isCall {
				if rets, G, ok := cx.callReturns(call, v.F); ok {
					for _, ri := range rets {
						if x.Index < len(ri.Results) && walk(c09V{ri.Results[x.Index], G}, depth+1) {
							return true
						}
					}
					return false
				}
			}
		}
		if in, ok := v.V.(ssa.Instruction); ok {
			for _, op := range in.Operands(nil) {
				if *op != nil && walk(c09V{*op, v.F}, depth+1) {
					return true
				}
			}
		}
		return false
	}
	return walk(v, 0)
}

// ---------------------------------------------------------------------------
// Reach and sites

type c09Edge struct {
	site ssa.CallInstruction // nil: the callee is handed out as a function value
	from *ssa.Function       // declared caller; nil when the site lies in the start nest
}

type c09ReachKey struct {
	start *ssa.Function
	F     *c09Frame
}

// c09Reach is the effective body that starts at function `start` (a declared
// function or one of its literals) running in frame F.
type c09Reach struct {
	start  *ssa.Function
	F      *c09Frame
	fns    []*ssa.Function
	edges  map[*ssa.Function][]c09Edge
	frames map[*ssa.Function][]*c09Frame
}

func (cx *c09Ctx) reach(start *ssa.Function, F *c09Frame) *c09Reach {
	key := c09ReachKey{start, F}
	if rc, ok := cx.reaches[key]; ok {
		return rc
	}
	rc := &c09Reach{start: start, F: F, edges: map[*ssa.Function][]c09Edge{}, frames: map[*ssa.Function][]*c09Frame{}}
	cx.reaches[key] = rc
	seen := map[*ssa.Function]bool{F.fn: true}
	scan := func(region, from *ssa.Function) []*ssa.Function {
		var next []*ssa.Function
		for _, g := range c09WithLits(region) {
			for _, b := range g.Blocks {
				for _, in := range b.Instrs {
					ci, isCall := in.(ssa.CallInstruction)
					// functions of the package handed out as values (method values, callbacks)
					for _, op := range in.Operands(nil) {
						f, isF := (*op).(*ssa.Function)
						if !isF || (isCall && ci.Common().Value == *op) {
							continue
						}
						if d := cx.valueFunc(f); c09Followable(d, region) {
							dup := false
							for _, e := range rc.edges[d] {
								dup = dup || (e.site == nil && e.from == from)
							}
							if !dup {
								rc.edges[d] = append(rc.edges[d], c09Edge{nil, from})
							}
							if !seen[d] {
								seen[d] = true
								rc.fns = append(rc.fns, d)
								next = append(next, d)
							}
						}
					}
					if !isCall {
						continue
					}
					callee := c09Callee(ci)
					if !c09Followable(callee, region) {
						continue
					}
					rc.edges[callee] = append(rc.edges[callee], c09Edge{ci, from})
					if !seen[callee] {
						seen[callee] = true
						rc.fns = append(rc.fns, callee)
						next = append(next, callee)
					}
				}
			}
		}
		return next
	}
	level := scan(start, nil)
	for d := F.depth + 1; d < c09MaxDepth && len(level) > 0; d++ {
		var nl []*ssa.Function
		for _, fn := range level {
			nl = append(nl, scan(fn, fn)...)
		}
		level = nl
	}
	return rc
}

func (rc *c09Reach) framesTo(cx *c09Ctx, fn *ssa.Function, depth int) []*c09Frame {
	if fs, ok := rc.frames[fn]; ok {
		return fs
	}
	if depth > c09MaxDepth {
		return nil
	}
	rc.frames[fn] = nil // recursion guard
	var out []*c09Frame
	seen := map[*c09Frame]bool{}
	for _, e := range rc.edges[fn] {
		parents := []*c09Frame{rc.F}
		if e.from != nil {
			parents = rc.framesTo(cx, e.from, depth+1)
		}
		for _, P := range parents {
			var ch *c09Frame
			if e.site == nil {
				ch = cx.valueChild(P, fn)
			} else {
				ch = cx.child(P, e.site, false)
			}
			if ch != nil && !seen[ch] && len(out) < c09MaxFrames {
				seen[ch] = true
				out = append(out, ch)
			}
		}
	}
	rc.frames[fn] = out
	return out
}

// sites lists the instructions satisfying pred in the effective body starting
// at `start` (frame F), each paired with every activation it runs in.
func (cx *c09Ctx) sites(start *ssa.Function, F *c09Frame, pred func(ssa.Instruction) bool) []c09Site {
	rc := cx.reach(start, F)
	var out []c09Site
	scan := func(region *ssa.Function, frames func() []*c09Frame) {
		for _, g := range c09WithLits(region) {
			for _, b := range g.Blocks {
				for _, in := range b.Instrs {
					if pred(in) {
						for _, fr := range frames() {
							out = append(out, c09Site{in, fr})
						}
					}
				}
			}
		}
	}
	scan(start, func() []*c09Frame { return []*c09Frame{F} })
	for _, fn := range rc.fns {
		fn := fn
		scan(fn, func() []*c09Frame { return rc.framesTo(cx, fn, 0) })
	}
	return out
}

func (cx *c09Ctx) fieldStores(start *ssa.Function, F *c09Frame, owner *types.Named, name string) []c09Site {
	return cx.sites(start, F, func(in ssa.Instruction) bool {
		st, ok := in.(*ssa.Store)
		if !ok {
			return false
		}
		f, ok := c09FieldRef(st.Addr)
		return ok && f.is(owner, name)
	})
}

func (cx *c09Ctx) callSites(start *ssa.Function, F *c09Frame, pred func(CallSite) bool) []c09Site {
	return cx.sites(start, F, func(in ssa.Instruction) bool {
		ci, ok := in.(ssa.CallInstruction)
		return ok && pred(CallSite{in.Parent(), ci})
	})
}

// ---------------------------------------------------------------------------
// Facts, order and success across activations

type c09Fact struct {
	Cond c09V
	Val  bool
}

// implied lists what `cond == val` implies: itself, the operand of a negation,
// and for the phi go/ssa builds for `a && b` / `a || b` used as a value the
// conjuncts (disjuncts) that must all have held (failed).
func (cx *c09Ctx) implied(cond c09V, val bool, depth int) []c09Fact {
	out := []c09Fact{{cond, val}}
	if depth > 6 {
		return out
	}
	switch x := cond.V.(type) {
	case *ssa.UnOp:
		if x.Op == token.NOT {
			out = append(out, cx.implied(c09V{x.X, cond.F}, !val, depth+1)...)
		} else if x.Op == token.MUL {
			if r := resolveLoad(x); r != nil {
				out = append(out, cx.implied(c09V{r, cond.F}, val, depth+1)...)
			}
		}
	case *ssa.Phi:
		if !c09IsBool(x.Type()) {
			break
		}
		live := -1
		for i, e := range x.Edges {
			if c, ok := e.(*ssa.Const); ok && c.Value != nil && c.Value.Kind() == constant.Bool && constant.BoolVal(c.Value) != val {
				continue // this edge yields the other truth value
			}
			if live >= 0 {
				live = -2
				break
			}
			live = i
		}
		if live >= 0 {
			out = append(out, cx.implied(c09V{x.Edges[live], cond.F}, val, depth+1)...)
			pred := x.Block().Preds[live]
			for _, f := range FactsAt(pred) {
				out = append(out, cx.implied(c09V{f.Cond, cond.F}, f.Val, depth+1)...)
			}
		}
	case *ssa.Parameter:
		if a, ok := cx.paramArg(x, cond.F); ok {
			out = append(out, cx.implied(a, val, depth+1)...)
		}
	}
	return out
}

// callerBlock: the block (and frame) from which the function of block b was
// entered, when that is statically unique.
func (cx *c09Ctx) callerBlock(b *ssa.BasicBlock, F *c09Frame) (*ssa.BasicBlock, *c09Frame) {
	g := b.Parent()
	if g.Parent() != nil {
		if site := cx.litCall(g); site != nil {
			return site.Block(), F
		}
		return nil, nil
	}
	if F != nil && F.fn == g && F.site != nil {
		return F.site.Block(), F.parent
	}
	return nil, nil
}

// factsAt: the branch facts known at block b of frame F: those of b's
// dominators and, transitively, those known at the call that entered b's
// function (they still hold while the helper runs).
func (cx *c09Ctx) factsAt(b *ssa.BasicBlock, F *c09Frame) []c09Fact {
	var out []c09Fact
	for i := 0; b != nil && i <= c09MaxDepth*2; i++ {
		for _, f := range FactsAt(b) {
			out = append(out, cx.implied(c09V{f.Cond, F}, f.Val, 0)...)
		}
		b, F = cx.callerBlock(b, F)
	}
	return out
}

// knownTrue: value v is known to be `want` at block b of frame F.
func (cx *c09Ctx) known(b *ssa.BasicBlock, F *c09Frame, v c09V, want bool) bool {
	ov := cx.origin(v)
	for _, f := range cx.factsAt(b, F) {
		if f.Val == want && (f.Cond == v || cx.origin(f.Cond) == ov) {
			return true
		}
	}
	return false
}

// knownNil: what the facts at b say about v == nil.
func (cx *c09Ctx) knownNil(b *ssa.BasicBlock, F *c09Frame, v c09V) (known, isNil bool) {
	for _, f := range cx.factsAt(b, F) {
		bo, ok := f.Cond.V.(*ssa.BinOp)
		if !ok || (bo.Op != token.EQL && bo.Op != token.NEQ) {
			continue
		}
		var other ssa.Value
		switch {
		case IsNilConst(bo.Y):
			other = bo.X
		case IsNilConst(bo.X):
			other = bo.Y
		default:
			continue
		}
		if !cx.sameOrigin(c09V{other, f.Cond.F}, v) {
			continue
		}
		return true, (bo.Op == token.EQL) == f.Val
	}
	return false, false
}

func c09LCA(a, b *c09Frame) *c09Frame {
	for a != nil && b != nil && a != b {
		if a.depth >= b.depth {
			a = a.parent
		} else {
			b = b.parent
		}
	}
	if a == b {
		return a
	}
	return nil
}

// liftTo: the instruction of frame A's nest that leads to site s (s.In itself
// when s runs in A, else the call that enters the chain towards s.F).
func c09LiftTo(s c09Site, A *c09Frame) ssa.Instruction {
	in, f := s.In, s.F
	for f != nil && f != A {
		if f.site == nil {
			return nil // entered through a function value: not ordered against the caller's instructions
		}
		in, f = f.site, f.parent
	}
	if f != A {
		return nil
	}
	return in
}

// lift brings two sites into one function of their lowest common activation.
func (cx *c09Ctx) lift(a, b c09Site) (ia, ib ssa.Instruction, A *c09Frame) {
	A = c09LCA(a.F, b.F)
	if A == nil {
		return nil, nil, nil
	}
	ia, ib = c09LiftTo(a, A), c09LiftTo(b, A)
	if ia == nil || ib == nil {
		return nil, nil, nil
	}
	// literals called at one place: hoist to that call
	hoist := func(in, other ssa.Instruction) ssa.Instruction {
		for i := 0; i < 8 && in.Parent() != other.Parent() && in.Parent().Parent() != nil; i++ {
			// do not hoist out of a literal that also encloses the other instruction
			enc := false
			for g := other.Parent(); g != nil; g = g.Parent() {
				if g == in.Parent() {
					enc = true
				}
			}
			if enc {
				break
			}
			site := cx.litCall(in.Parent())
			if site == nil {
				break
			}
			in = site
		}
		return in
	}
	ia = hoist(ia, ib)
	ib = hoist(ib, ia)
	return ia, ib, A
}

// precedes: a executes before b on every path to b.
func (cx *c09Ctx) precedes(a, b c09Site) bool {
	ia, ib, _ := cx.lift(a, b)
	if ia == nil || ia == ib {
		return false
	}
	return Precedes(ia, ib)
}

// reachableAfter: may b execute after a? known=false when the two cannot be
// brought into one function.
func (cx *c09Ctx) reachableAfter(a, b c09Site) (reach, known bool) {
	ia, ib, _ := cx.lift(a, b)
	if ia == nil || ia.Parent() != ib.Parent() {
		return true, false
	}
	if ia == ib {
		return false, true
	}
	return ReachableFrom(ia, nil)[ib], true
}

// succeededAt: call c (of frame F) is known to have reported success at block b
// of the same function: its trailing error is nil / its trailing bool is true.
func (cx *c09Ctx) succeededAt(c *ssa.Call, F *c09Frame, b *ssa.BasicBlock) (bool, string) {
	res := c.Call.Signature().Results()
	if res.Len() == 0 {
		return true, ""
	}
	last := res.At(res.Len() - 1).Type()
	rv := ResultValue(c, res.Len()-1)
	switch {
	case isErrorType(last):
		if rv == nil {
			return false, "the error result of " + (CallSite{c.Parent(), c}).CalleeKey() + " is discarded"
		}
		if k, isNil := cx.knownNil(b, F, c09V{rv, F}); k && isNil {
			return true, ""
		}
		return false, "the site is not on the err == nil edge of " + (CallSite{c.Parent(), c}).CalleeKey()
	case c09IsBool(last) && res.Len() > 1:
		if rv == nil {
			return false, "the ok result of " + (CallSite{c.Parent(), c}).CalleeKey() + " is discarded"
		}
		if cx.known(b, F, c09V{rv, F}, true) {
			return true, ""
		}
		return false, "the site is not on the ok edge of " + (CallSite{c.Parent(), c}).CalleeKey()
	}
	return true, ""
}

// successDominated (H2 across calls): every path to site S has passed through
// call P and P reported success. A call to a helper that contains P counts as
// "P succeeded" on the edge where the helper's own ok/err result says success,
// provided every return of the helper that may report success is itself
// success-dominated by P (or returns the success result of the call that leads
// to P, under the same proviso).
func (cx *c09Ctx) successDominated(P, S c09Site, depth int) (bool, string) {
	if depth > c09MaxDepth*2 {
		return false, "call chain too deep"
	}
	ip, is, A := cx.lift(P, S)
	if ip == nil {
		return false, "the call and the site do not share an activation"
	}
	if ip.Parent() != is.Parent() || ip == is || !Precedes(ip, is) {
		return false, "the call does not dominate the site"
	}
	call, ok := ip.(*ssa.Call)
	if !ok {
		return false, "the call is deferred or spawned"
	}
	if ok, why := cx.succeededAt(call, A, is.Block()); !ok {
		return false, why
	}
	if ip == P.In && P.F == A {
		return true, ""
	}
	G := cx.entered(call, A)
	if G == nil {
		return false, "cannot follow the call towards " + P.call().CalleeKey()
	}
	return cx.returnsDominated(P, call, G, depth+1)
}

// entered: the activation a call of frame A runs its callee in (A itself for a
// literal called at one place).
func (cx *c09Ctx) entered(call *ssa.Call, A *c09Frame) *c09Frame {
	callee := c09Callee(call)
	if callee == nil {
		return nil
	}
	if callee.Parent() != nil {
		if cx.litCall(callee) == ssa.CallInstruction(call) {
			return A
		}
		return nil
	}
	return cx.child(A, call, false)
}

// returnsDominated: every return of the function entered by `call` (running
// in G) that may report success is success-dominated by P.
func (cx *c09Ctx) returnsDominated(P c09Site, call *ssa.Call, G *c09Frame, depth int) (bool, string) {
	callee := c09Callee(call)
	if callee == nil || depth > c09MaxDepth*2 {
		return false, "call chain too deep"
	}
	res := callee.Signature.Results()
	succIdx := -1
	if res.Len() > 0 {
		if t := res.At(res.Len() - 1).Type(); isErrorType(t) || (c09IsBool(t) && res.Len() > 1) {
			succIdx = res.Len() - 1
		}
	}
	// the instruction of the callee that leads to P
	var inner *ssa.Call
	if in := c09LiftTo(P, G); in != nil {
		inner, _ = in.(*ssa.Call)
	}
	for _, ri := range Returns(callee) {
		if succIdx >= 0 && succIdx < len(ri.Results) {
			sv := cx.origin(c09V{ri.Results[succIdx], G})
			if c, isC := sv.V.(*ssa.Const); isC && c.Value != nil && c.Value.Kind() == constant.Bool && !constant.BoolVal(c.Value) {
				continue // reports ok = false
			}
			if isErrorType(res.At(succIdx).Type()) && isNonNilErrorExpr(sv.V) {
				continue // reports an error
			}
			// the result is known to report failure on this path (`if !ok { return }`)
			if c09IsBool(res.At(succIdx).Type()) && cx.known(ri.Ret.Block(), G, c09V{ri.Results[succIdx], G}, false) {
				continue
			}
			if isErrorType(res.At(succIdx).Type()) {
				if k, isNil := cx.knownNil(ri.Ret.Block(), G, c09V{ri.Results[succIdx], G}); k && !isNil {
					continue
				}
			}
			// the return hands on the success result of the call that leads to P
			if inner != nil && inner.Parent() == ri.Ret.Parent() && Precedes(inner, ri.Ret) {
				if n := inner.Call.Signature().Results().Len(); n > 0 {
					if irv := ResultValue(inner, n-1); irv != nil && cx.sameOrigin(c09V{irv, G}, c09V{ri.Results[succIdx], G}) {
						if inner == P.In && P.F == G {
							continue
						}
						if H := cx.entered(inner, G); H != nil {
							if ok, _ := cx.returnsDominated(P, inner, H, depth+1); ok {
								continue
							}
						}
					}
				}
			}
		}
		if ok, why := cx.successDominated(P, c09Site{ri.Ret, G}, depth+1); !ok {
			return false, fmt.Sprintf("inside %s a return that may report success is not preceded by a successful %s (%s)", FuncKey(callee), P.call().CalleeKey(), why)
		}
	}
	return true, ""
}

// boolAt: what the facts at block b (frame F) say about a boolean the caller
// recognises with isTarget.
func (cx *c09Ctx) boolAt(b *ssa.BasicBlock, F *c09Frame, isTarget func(c09V) bool) (known, val bool) {
	for _, f := range cx.factsAt(b, F) {
		if isTarget(f.Cond) {
			return true, f.Val
		}
	}
	return false, false
}

// boolOnEdge: the same for the CFG edge pred->succ.
func (cx *c09Ctx) boolOnEdge(pred, succ *ssa.BasicBlock, F *c09Frame, isTarget func(c09V) bool) (known, val bool) {
	if n := len(pred.Instrs); n > 0 {
		if ifi, ok := pred.Instrs[n-1].(*ssa.If); ok && len(pred.Succs) == 2 && pred.Succs[0] != pred.Succs[1] {
			for _, f := range cx.implied(c09V{ifi.Cond, F}, pred.Succs[0] == succ, 0) {
				if isTarget(f.Cond) {
					return true, f.Val
				}
			}
		}
	}
	return cx.boolAt(pred, F, isTarget)
}

// ---------------------------------------------------------------------------
// Sort facts: which SortType constant q.Sort is known to equal

// sortOfCond interprets cond==val as "SearchQuery.Sort == k".
func (cx *c09Ctx) sortOfCond(cond c09V, val bool) (int64, bool) {
	c := cond.V
	for {
		if u, ok := c.(*ssa.UnOp); ok && u.Op == token.NOT {
			c, val = u.X, !val
			continue
		}
		break
	}
	bo, ok := c.(*ssa.BinOp)
	if !ok || !((bo.Op == token.EQL && val) || (bo.Op == token.NEQ && !val)) {
		return 0, false
	}
	x, y := bo.X, bo.Y
	if _, isC := x.(*ssa.Const); isC {
		x, y = y, x
	}
	k, ok := cx.constInt(c09V{y, cond.F})
	if !ok {
		return 0, false
	}
	f, _, ok := cx.loadedField(c09V{x, cond.F})
	if !ok || !f.is(cx.tQuery, "Sort") {
		return 0, false
	}
	return k, true
}

// c09SortSet is the set of SortType constants q.Sort may equal at a program
// point; nil means unknown (any).
type c09SortSet map[int64]bool

func (s c09SortSet) clone() c09SortSet {
	if s == nil {
		return nil
	}
	o := c09SortSet{}
	for k := range s {
		o[k] = true
	}
	return o
}

type c09BF struct {
	b *ssa.BasicBlock
	F *c09Frame
}

// possibleSorts computes the sorts possible at entry of block b (frame F) from
// the dominating facts and, failing a positive fact, from the union over the
// incoming edges (this is how `if q.Sort == A || q.Sort == B { ... }`, an
// `else` arm inside it and the early-return form are understood); at the entry
// of a helper the sorts possible at the call that entered it.
func (cx *c09Ctx) possibleSorts(b *ssa.BasicBlock, F *c09Frame, busy map[c09BF]bool) c09SortSet {
	var set c09SortSet
	excl := map[int64]bool{}
	for _, ft := range FactsAt(b) {
		for _, f := range cx.implied(c09V{ft.Cond, F}, ft.Val, 0) {
			if k, ok := cx.sortOfCond(f.Cond, f.Val); ok {
				if set == nil {
					set = c09SortSet{k: true}
				} else if !set[k] {
					set = c09SortSet{}
				}
			} else if k, ok := cx.sortOfCond(f.Cond, !f.Val); ok {
				excl[k] = true
			}
		}
	}
	key := c09BF{b, F}
	if set == nil && !busy[key] && len(busy) < 80 {
		busy[key] = true
		if len(b.Preds) > 0 {
			union := c09SortSet{}
			for _, p := range b.Preds {
				ps := cx.possibleOnEdge(p, b, F, busy)
				if ps == nil {
					union = nil
					break
				}
				for k := range ps {
					union[k] = true
				}
			}
			set = union
		} else if up, upF := cx.callerBlock(b, F); up != nil {
			set = cx.possibleSorts(up, upF, busy)
		}
		delete(busy, key)
	}
	if set == nil {
		return nil
	}
	set = set.clone()
	for k := range excl {
		delete(set, k)
	}
	return set
}

func (cx *c09Ctx) possibleOnEdge(pred, succ *ssa.BasicBlock, F *c09Frame, busy map[c09BF]bool) c09SortSet {
	if n := len(pred.Instrs); n > 0 {
		if ifi, ok := pred.Instrs[n-1].(*ssa.If); ok && len(pred.Succs) == 2 && pred.Succs[0] != pred.Succs[1] {
			val := pred.Succs[0] == succ
			var pos c09SortSet
			var neg []int64
			for _, f := range cx.implied(c09V{ifi.Cond, F}, val, 0) {
				if k, ok := cx.sortOfCond(f.Cond, f.Val); ok {
					if pos == nil {
						pos = c09SortSet{k: true}
					} else if !pos[k] {
						pos = c09SortSet{}
					}
				} else if k, ok := cx.sortOfCond(f.Cond, !f.Val); ok {
					neg = append(neg, k)
				}
			}
			if pos != nil {
				return pos
			}
			if len(neg) > 0 {
				ps := cx.possibleSorts(pred, F, busy).clone()
				for _, k := range neg {
					if ps != nil {
						delete(ps, k)
					}
				}
				return ps
			}
		}
	}
	return cx.possibleSorts(pred, F, busy)
}

func c09Single(s c09SortSet) (int64, bool) {
	if len(s) != 1 {
		return 0, false
	}
	for k := range s {
		return k, true
	}
	return 0, false
}

func (cx *c09Ctx) sortAt(b *ssa.BasicBlock, F *c09Frame) (int64, bool) {
	return c09Single(cx.possibleSorts(b, F, map[c09BF]bool{}))
}

// sortOnEdge: the sort known on the CFG edge pred->succ.
func (cx *c09Ctx) sortOnEdge(pred, succ *ssa.BasicBlock, F *c09Frame) (int64, bool) {
	return c09Single(cx.possibleOnEdge(pred, succ, F, map[c09BF]bool{}))
}

type c09Leaf struct {
	V       c09V
	Sort    int64
	HasSort bool
}

// expandBySort splits a value into the values it may take, each tagged with
// the SortType constant q.Sort is known to equal where that value is chosen:
// phi edges under dominating `q.Sort == K` facts, the returns of a helper
// (under the facts of the return and of the call), helper parameters (the
// caller's argument), loads of plain variables.
func (cx *c09Ctx) expandBySort(v c09V) []c09Leaf {
	var out []c09Leaf
	seen := map[c09V]bool{}
	var walk func(v c09V, k int64, has bool, depth int)
	walk = func(v c09V, k int64, has bool, depth int) {
		if depth < 40 {
			switch x := v.V.(type) {
			case *ssa.ChangeType:
				walk(c09V{x.X, v.F}, k, has, depth+1)
				return
			case *ssa.Phi:
				if seen[v] {
					return
				}
				seen[v] = true
				for i, e := range x.Edges {
					k2, has2 := cx.sortOnEdge(x.Block().Preds[i], x.Block(), v.F)
					if has && has2 && k != k2 {
						continue // infeasible combination
					}
					if has2 {
						walk(c09V{e, v.F}, k2, true, depth+1)
					} else {
						walk(c09V{e, v.F}, k, has, depth+1)
					}
				}
				return
			case *ssa.Parameter:
				if a, ok := cx.paramArg(x, v.F); ok {
					walk(a, k, has, depth+1)
					return
				}
			case *ssa.UnOp:
				if x.Op == token.MUL {
					if r := resolveLoad(x); r != nil {
						walk(c09V{r, v.F}, k, has, depth+1)
						return
					}
				}
			case *ssa.Call, *ssa.Extract:
				call, idx := (*ssa.Call)(nil), 0
				if c, ok := x.(*ssa.Call); ok {
					if c.Call.Signature().Results().Len() == 1 {
						call = c
					}
				} else if ex := x.(*ssa.Extract); ex != nil {
					call, _ = ex.Tuple.(*ssa.Call)
					idx = ex.Index
				}
				if call != nil {
					if rets, G, ok := cx.callReturns(call, v.F); ok && len(rets) > 0 {
						if !has {
							if k1, has1 := cx.sortAt(call.Block(), v.F); has1 {
								k, has = k1, true
							}
						}
						for _, ri := range rets {
							if idx >= len(ri.Results) {
								continue
							}
							k2, has2 := cx.sortAt(ri.Ret.Block(), G)
							if has && has2 && k != k2 {
								continue
							}
							if has2 {
								walk(c09V{ri.Results[idx], G}, k2, true, depth+1)
							} else {
								walk(c09V{ri.Results[idx], G}, k, has, depth+1)
							}
						}
						return
					}
				}
			}
		}
		if !has {
			if in, ok := v.V.(ssa.Instruction); ok && in.Block() != nil {
				k, has = cx.sortAt(in.Block(), v.F)
			}
		}
		out = append(out, c09Leaf{v, k, has})
	}
	walk(v, 0, false, 0)
	return out
}

// ---------------------------------------------------------------------------
// Abstract evaluation of an order predicate over the 9 (time, ref) orderings

// c09World fixes how the subject item compares with the reference item.
type c09World struct {
	Mode string // name of the PermanodeContinueConstraint time field assumed set ("" for the comparator)
	T, R int    // cmp(subject time, reference time), cmp(subject ref, reference ref): -1, 0, +1
}

func (w c09World) String() string {
	n := func(c int) string { return [...]string{"<", "=", ">"}[c+1] }
	s := fmt.Sprintf("time %s, ref %s", n(w.T), n(w.R))
	if w.Mode != "" {
		s = w.Mode + " set: " + s
	}
	return s
}

// want: the item sorts strictly before the reference in ascending (time, ref) order.
func (w c09World) want() bool { return w.T < 0 || (w.T == 0 && w.R < 0) }

const (
	c09RoleNone = iota
	c09RoleSubject
	c09RoleReference
	c09RoleZero // the time field of the continue constraint that is unset in this world
)

type c09Outcome struct {
	results []c09V
	kind    string // "return", "panic", "error"
}

// c09Eval walks the single path an ordering (world) determines, through the
// root function and into the helpers it calls.
type c09Eval struct {
	cx     *c09Ctx
	root   *c09Frame
	world  c09World
	predOf map[c09BF]*ssa.BasicBlock // frame-qualified block -> predecessor taken
	calls  map[c09Site]*c09Outcome
	// classification of operands (after path-sensitive resolution)
	timeRole func(e *c09Eval, v c09V) int
	refRole  func(e *c09Eval, v c09V) int
	// extra atoms (returns handled, value)
	atom func(e *c09Eval, v c09V) (handled, val bool)
	// time functions that produced the subject time on this path
	timeFuncs map[*types.Func]bool
	watch     *ssa.Call // lifted mode: the helper call that holds the predicate
	consumed  bool      // the watched call's result has been used
	depth     int
	err       string // non-empty: could not interpret
	bad       string // non-empty: construct that is wrong whatever the ordering (e.g. == on time.Time)
}

func (e *c09Eval) fail(format string, args ...any) (bool, bool) {
	if e.err == "" {
		e.err = fmt.Sprintf(format, args...)
	}
	return false, false
}

// outcome evaluates a call into the effective body along the world's path.
func (e *c09Eval) outcome(call *ssa.Call, F *c09Frame) *c09Outcome {
	key := c09Site{call, F}
	if o, ok := e.calls[key]; ok {
		return o
	}
	callee := c09Callee(call)
	G := e.cx.entered(call, F)
	if callee == nil || G == nil || callee.Blocks == nil {
		return nil
	}
	if e.watch == call {
		e.consumed = true
	}
	o := &c09Outcome{kind: "error"}
	e.calls[key] = o
	if e.depth > c09MaxDepth {
		e.fail("helper calls nested too deep in an order predicate")
		return o
	}
	e.depth++
	ret, kind := e.walk(callee.Blocks[0], G, nil, false)
	e.depth--
	o.kind = kind
	if kind == "return" {
		for _, r := range ret.Results {
			o.results = append(o.results, c09V{resolveReturnValue(r, ret), G})
		}
	}
	return o
}

// resolve follows phis along the path taken, value-preserving wrappers, loads
// of plain variables, helper parameters and the results of evaluated helper calls.
func (e *c09Eval) resolve(v c09V) c09V {
	for i := 0; i < 64 && v.V != nil; i++ {
		switch x := v.V.(type) {
		case *ssa.Phi:
			pred, ok := e.predOf[c09BF{x.Block(), v.F}]
			if !ok {
				return v
			}
			found := false
			for j, p := range x.Block().Preds {
				if p == pred {
					v.V = x.Edges[j]
					found = true
					break
				}
			}
			if !found {
				return v
			}
		case *ssa.ChangeType:
			v.V = x.X
		case *ssa.MakeInterface:
			v.V = x.X
		case *ssa.UnOp:
			if x.Op != token.MUL {
				return v
			}
			r := resolveLoad(x)
			if r == nil {
				return v
			}
			v.V = r
		case *ssa.Parameter:
			a, ok := e.cx.paramArg(x, v.F)
			if !ok {
				return v
			}
			v = a
		case *ssa.Call:
			if x.Call.Signature().Results().Len() != 1 {
				return v
			}
			o := e.outcome(x, v.F)
			if o == nil || o.kind != "return" || len(o.results) != 1 {
				return v
			}
			v = o.results[0]
		case *ssa.Extract:
			call, ok := x.Tuple.(*ssa.Call)
			if !ok {
				return v
			}
			o := e.outcome(call, v.F)
			if o == nil || o.kind != "return" || x.Index >= len(o.results) {
				return v
			}
			v = o.results[x.Index]
		default:
			return v
		}
	}
	return v
}

func c09Cmp(ord int, op string) bool {
	switch op {
	case "After":
		return ord > 0
	case "Before":
		return ord < 0
	}
	return ord == 0 // Equal
}

// eval computes a boolean SSA value in the current world along the current path.
func (e *c09Eval) eval(v c09V) (val, ok bool) {
	v = e.resolve(v)
	if e.atom != nil {
		if h, val := e.atom(e, v); h {
			return val, true
		}
	}
	switch x := v.V.(type) {
	case *ssa.Const:
		if x.Value != nil && x.Value.Kind() == constant.Bool {
			return constant.BoolVal(x.Value), true
		}
	case *ssa.UnOp:
		if x.Op == token.NOT {
			val, ok := e.eval(c09V{x.X, v.F})
			return !val, ok
		}
	case *ssa.BinOp:
		if x.Op == token.EQL || x.Op == token.NEQ {
			if c09IsTime(x.X.Type()) {
				e.bad = "time.Time values are compared with " + x.Op.String() + " (compares wall/monotonic/location representation, not the instant): a token time rebuilt by time.Unix never equals the stored time"
				return false, false
			}
			if c09IsBool(x.X.Type()) {
				a, ok1 := e.eval(c09V{x.X, v.F})
				bb, ok2 := e.eval(c09V{x.Y, v.F})
				return (a == bb) == (x.Op == token.EQL), ok1 && ok2
			}
		}
	case *ssa.Call:
		cs := CallSite{x.Parent(), x}
		for _, op := range []string{"After", "Before", "Equal"} {
			if !cs.IsStatic("time", "Time", op) {
				continue
			}
			a, b := c09V{x.Call.Args[0], v.F}, c09V{x.Call.Args[1], v.F}
			ra, rb := e.timeRole(e, a), e.timeRole(e, b)
			switch {
			case ra == c09RoleSubject && rb == c09RoleReference:
				return c09Cmp(e.world.T, op), true
			case ra == c09RoleReference && rb == c09RoleSubject:
				return c09Cmp(-e.world.T, op), true
			case ra == c09RoleSubject && rb == c09RoleZero:
				return c09Cmp(+1, op), true // a real permanode time is after the zero time
			case ra == c09RoleZero && rb == c09RoleSubject:
				return c09Cmp(-1, op), true
			}
			return e.fail("time.%s compares operands the rule cannot classify as item time / token time", op)
		}
		if cs.IsStatic("perkeep.org/pkg/blob", "Ref", "Less") {
			ra, rb := e.refRole(e, c09V{x.Call.Args[0], v.F}), e.refRole(e, c09V{x.Call.Args[1], v.F})
			switch {
			case ra == c09RoleSubject && rb == c09RoleReference:
				return e.world.R < 0, true
			case ra == c09RoleReference && rb == c09RoleSubject:
				return e.world.R > 0, true
			}
			return e.fail("blob.Ref.Less compares operands the rule cannot classify as item ref / token ref")
		}
		if o := e.outcome(x, v.F); o != nil {
			switch o.kind {
			case "panic":
				return e.fail("helper %s panics for this ordering", cs.CalleeKey())
			case "error":
				return e.fail("helper %s could not be evaluated", cs.CalleeKey())
			}
		}
		return e.fail("branch on the result of %s, which the rule cannot interpret", cs.CalleeKey())
	}
	return e.fail("branch on value %s (%T), which the rule cannot interpret", v.V.Name(), v.V)
}

// walk follows the single path the world determines from block `start` of
// frame F until a return. inRegion(b)==false (root frame only) means the walk
// left the region under analysis: outcome "left".
func (e *c09Eval) walk(start *ssa.BasicBlock, F *c09Frame, inRegion func(*ssa.BasicBlock) bool, lifted bool) (*ssa.Return, string) {
	b := start
	for steps := 0; steps < 400; steps++ {
		if inRegion != nil && !inRegion(b) {
			return nil, "left"
		}
		last := b.Instrs[len(b.Instrs)-1]
		if lifted && e.consumed {
			if _, isRet := last.(*ssa.Return); !isRet {
				return nil, "left" // the helper's verdict has been acted on and the function goes on
			}
		}
		var next *ssa.BasicBlock
		switch t := last.(type) {
		case *ssa.If:
			val, ok := e.eval(c09V{t.Cond, F})
			if !ok {
				return nil, "error"
			}
			if val {
				next = b.Succs[0]
			} else {
				next = b.Succs[1]
			}
		case *ssa.Jump:
			next = b.Succs[0]
		case *ssa.Return:
			return t, "return"
		case *ssa.Panic:
			return nil, "panic"
		default:
			e.fail("unexpected block terminator %T", last)
			return nil, "error"
		}
		e.predOf[c09BF{next, F}] = b
		b = next
	}
	e.fail("path did not terminate (loop in an order predicate)")
	return nil, "error"
}

// run evaluates the predicate from block start of the root frame: the boolean
// first result of the return reached, or `leave` when the walk leaves the region.
func (e *c09Eval) run(start *ssa.BasicBlock, inRegion func(*ssa.BasicBlock) bool, leave, lifted bool) (res bool, outcome string) {
	ret, kind := e.walk(start, e.root, inRegion, lifted)
	switch kind {
	case "left":
		return leave, "left"
	case "return":
		if len(ret.Results) == 0 {
			e.fail("return without a boolean result")
			return false, "error"
		}
		val, ok := e.eval(c09V{resolveReturnValue(ret.Results[0], ret), e.root})
		if !ok {
			return false, "error"
		}
		return val, "return"
	}
	return false, kind
}

type c09OrderResult struct {
	undecided string
	wrong     []string
	bad       string
	funcs     map[string]map[*types.Func]bool // mode -> subject time functions
	worlds    int
}

type c09Plan struct {
	e        *c09Eval
	start    *ssa.BasicBlock
	inRegion func(*ssa.BasicBlock) bool
	leave    bool
	lifted   bool
}

// c09CheckOrder evaluates all worlds and compares with the strict (time, ref)
// order. consequence renders the consequence of a wrong verdict.
func c09CheckOrder(modes []string, mk func(w c09World) c09Plan, consequence func(w c09World, got bool) string) c09OrderResult {
	res := c09OrderResult{funcs: map[string]map[*types.Func]bool{}}
	for _, m := range modes {
		res.funcs[m] = map[*types.Func]bool{}
		for t := -1; t <= 1; t++ {
			for r := -1; r <= 1; r++ {
				w := c09World{m, t, r}
				pl := mk(w)
				e := pl.e
				got, outcome := e.run(pl.start, pl.inRegion, pl.leave, pl.lifted)
				res.worlds++
				for f := range e.timeFuncs {
					res.funcs[m][f] = true
				}
				if e.bad != "" {
					res.bad = e.bad
					continue
				}
				if outcome == "error" {
					if res.undecided == "" {
						res.undecided = fmt.Sprintf("[%s] %s", w, e.err)
					}
					continue
				}
				if outcome == "panic" {
					res.wrong = append(res.wrong, fmt.Sprintf("[%s] panics", w))
					continue
				}
				if got != w.want() {
					res.wrong = append(res.wrong, fmt.Sprintf("[%s] %s", w, consequence(w, got)))
				}
			}
		}
	}
	return res
}

func (cx *c09Ctx) newEval(root *c09Frame, w c09World) *c09Eval {
	return &c09Eval{cx: cx, root: root, world: w, predOf: map[c09BF]*ssa.BasicBlock{}, calls: map[c09Site]*c09Outcome{}, timeFuncs: map[*types.Func]bool{}}
}

func (cx *c09Ctx) reportOrder(rule, construct, site string, res c09OrderResult, okDetail string) {
	switch {
	case res.bad != "":
		cx.r.Violation(rule, construct, site, res.bad)
	case len(res.wrong) > 0:
		cx.r.Violation(rule, construct, site, strings.Join(res.wrong, "; "))
	case res.undecided != "":
		cx.r.Undecided(rule, construct, site, res.undecided)
	default:
		cx.r.OK(rule, construct, site, okDetail)
	}
}

// ---------------------------------------------------------------------------
// The continue matcher: effective body of PermanodeConstraint.blobMatches, the
// branch under `<PermanodeConstraint>.Continue != nil`

type c09Matcher struct {
	fn      *ssa.Function
	root    *c09Frame
	entry   *ssa.BasicBlock // first block under `c.Continue != nil` (root frame), or the block of the helper call (lifted)
	lifted  *ssa.Call       // non-nil: the nil test lives in a helper entered by this call of the root
	pos     token.Pos
	modes   []string // time-typed fields of PermanodeContinueConstraint
	problem string
}

func (cx *c09Ctx) findMatcher() *c09Matcher {
	fn := cx.p.Func("pkg/search", "PermanodeConstraint", "blobMatches")
	m := &c09Matcher{fn: fn, root: cx.root(fn), pos: fn.Pos()}
	st := cx.tPCC.Underlying().(*types.Struct)
	for i := 0; i < st.NumFields(); i++ {
		if c09IsTime(st.Field(i).Type()) {
			m.modes = append(m.modes, st.Field(i).Name())
		}
	}
	// the branch on <PermanodeConstraint>.Continue ==/!= nil
	nilTest := func(s c09Site) (isNeq, ok bool) {
		ifi, isIf := s.In.(*ssa.If)
		if !isIf {
			return false, false
		}
		bo, isBo := ifi.Cond.(*ssa.BinOp)
		if !isBo || (bo.Op != token.NEQ && bo.Op != token.EQL) {
			return false, false
		}
		x, y := bo.X, bo.Y
		if IsNilConst(x) {
			x, y = y, x
		}
		if !IsNilConst(y) {
			return false, false
		}
		f, _, isF := cx.loadedField(s.val(x))
		if !isF || !f.is(cx.tPC, "") || !c09Is(f.Type, cx.tPCC) {
			return false, false
		}
		return bo.Op == token.NEQ, true
	}
	tests := cx.sites(fn, m.root, func(in ssa.Instruction) bool {
		_, ok := in.(*ssa.If)
		return ok
	})
	var hits []c09Site
	for _, s := range tests {
		if _, ok := nilTest(s); ok {
			hits = append(hits, s)
		}
	}
	switch {
	case len(hits) == 0:
		m.problem = "blobMatches has no branch on PermanodeConstraint.Continue != nil: the continue constraint is never applied, every page returns the first page again"
		return m
	case len(hits) > 1:
		m.problem = "blobMatches tests PermanodeConstraint.Continue in more than one place; the rule follows a single continue branch"
		return m
	}
	h := hits[0]
	neq, _ := nilTest(h)
	if h.F == m.root && h.In.Parent() == fn {
		b := h.In.Block()
		m.entry = b.Succs[1]
		if neq {
			m.entry = b.Succs[0]
		}
		if len(m.entry.Preds) != 1 {
			m.problem = "the continue branch is entered from several places; cannot delimit it"
			m.entry = nil
			return m
		}
		if len(m.entry.Instrs) > 0 {
			m.pos = m.entry.Instrs[0].Pos()
		}
		return m
	}
	// the test lives in a helper: evaluate from the root's call towards it
	in := c09LiftTo(h, m.root)
	call, ok := in.(*ssa.Call)
	if !ok || call.Parent() != fn {
		m.problem = "the continue branch lives in a helper the rule cannot reach from blobMatches by a plain call"
		return m
	}
	m.lifted, m.entry, m.pos = call, call.Block(), call.Pos()
	return m
}

// timeCallFunc resolves the function called by a (time.Time, bool)-returning
// call on the corpus.
func (e *c09Eval) timeCallFunc(call *ssa.Call, F *c09Frame) *types.Func {
	sig := call.Call.Signature()
	if sig.Results().Len() != 2 || !c09IsTime(sig.Results().At(0).Type()) {
		return nil
	}
	var f *types.Func
	if call.Call.IsInvoke() {
		return nil
	}
	if sc := call.Call.StaticCallee(); sc != nil {
		f, _ = sc.Object().(*types.Func)
	} else {
		f = c09MethodOfFuncValue(e.resolve(c09V{call.Call.Value, F}).V)
	}
	if f == nil {
		return nil
	}
	rs := f.Type().(*types.Signature).Recv()
	if rs == nil || !c09Is(rs.Type(), e.cx.tCorpus) {
		return nil
	}
	return f
}

func c09MatcherTimeRole(e *c09Eval, v c09V) int {
	v = e.resolve(v)
	if ex, ok := v.V.(*ssa.Extract); ok && ex.Index == 0 {
		if call, ok := ex.Tuple.(*ssa.Call); ok {
			f := e.timeCallFunc(call, v.F)
			if f == nil || len(call.Call.Args) == 0 {
				return c09RoleNone
			}
			arg := c09V{call.Call.Args[len(call.Call.Args)-1], v.F}
			if c09MatcherRefRole(e, arg) != c09RoleSubject {
				return c09RoleNone
			}
			e.timeFuncs[f] = true
			return c09RoleSubject
		}
	}
	if f, ok := c09LoadedField(v.V); ok && f.is(e.cx.tPCC, "") && c09IsTime(f.Type) {
		if f.Name == e.world.Mode {
			return c09RoleReference
		}
		return c09RoleZero
	}
	return c09RoleNone
}

func c09MatcherRefRole(e *c09Eval, v c09V) int {
	v = e.resolve(v)
	if p, ok := v.V.(*ssa.Parameter); ok && c09IsRef(p.Type()) && p.Parent() == e.root.fn && v.F == e.root {
		return c09RoleSubject
	}
	if f, ok := c09LoadedField(v.V); ok && f.is(e.cx.tPCC, "") && c09IsRef(f.Type) {
		return c09RoleReference
	}
	return c09RoleNone
}

func c09MatcherAtom(e *c09Eval, v c09V) (handled, val bool) {
	switch x := v.V.(type) {
	case *ssa.Extract:
		if call, ok := x.Tuple.(*ssa.Call); ok && x.Index == 1 && e.timeCallFunc(call, v.F) != nil {
			return true, true // the item has a time (items without one are never enumerated by the sorted source)
		}
	case *ssa.BinOp:
		if x.Op == token.EQL || x.Op == token.NEQ {
			a, b := x.X, x.Y
			if IsNilConst(a) {
				a, b = b, a
			}
			if IsNilConst(b) && c09IsPtr(a.Type()) && (c09Is(a.Type(), e.cx.tCorpus) || c09Is(a.Type(), e.cx.tPCC)) {
				return true, x.Op == token.NEQ // corpus present, continue constraint present
			}
		}
	case *ssa.Call:
		if (CallSite{x.Parent(), x}).IsStatic("time", "Time", "IsZero") {
			if f, ok := c09LoadedField(e.resolve(c09V{x.Call.Args[0], v.F}).V); ok && f.is(e.cx.tPCC, "") {
				return true, f.Name != e.world.Mode
			}
		}
	}
	return false, false
}

func (cx *c09Ctx) checkMatcherOrder(m *c09Matcher) c09OrderResult {
	inRegion := func(b *ssa.BasicBlock) bool { return m.entry == b || m.entry.Dominates(b) }
	return c09CheckOrder(m.modes, func(w c09World) c09Plan {
		e := cx.newEval(m.root, w)
		e.timeRole, e.refRole, e.atom = c09MatcherTimeRole, c09MatcherRefRole, c09MatcherAtom
		if m.lifted != nil {
			e.watch = m.lifted
			return c09Plan{e, m.entry, inRegion, true, true}
		}
		e.predOf[c09BF{m.entry, m.root}] = m.entry.Preds[0]
		return c09Plan{e, m.entry, inRegion, true, false}
	}, func(w c09World, got bool) string {
		if got {
			return "item is admitted although it does not sort after the token item: it is returned again on the next page (repeat)"
		}
		return "item is rejected although it sorts after the token item: it is never returned (skip)"
	})
}

// ---------------------------------------------------------------------------
// The sort comparator: <sorted type>.Less(i, j)

func (cx *c09Ctx) checkComparatorOrder(fn *ssa.Function) c09OrderResult {
	root := cx.root(fn)
	// params: receiver s, i, j
	var ints []*ssa.Parameter
	for _, p := range fn.Params {
		if b, ok := p.Type().Underlying().(*types.Basic); ok && b.Kind() == types.Int {
			ints = append(ints, p)
		}
	}
	role := func(want func(types.Type) bool) func(e *c09Eval, v c09V) int {
		return func(e *c09Eval, v c09V) int {
			v = e.resolve(v)
			f, ok := c09LoadedField(v.V)
			if !ok || !want(f.Type) || len(ints) != 2 {
				return c09RoleNone
			}
			base := c09V{f.Base, v.F}
			var idx ssa.Value
			for i := 0; i < 8 && idx == nil; i++ {
				base = e.resolve(base)
				switch b := base.V.(type) {
				case *ssa.Alloc:
					// `a := s[i]` kept in a local because its fields are addressed: follow its single store
					if b.Referrers() == nil {
						return c09RoleNone
					}
					var only *ssa.Store
					n := 0
					readOnly := true
					for _, u := range *b.Referrers() {
						if st, ok := u.(*ssa.Store); ok && st.Addr == ssa.Value(b) {
							only = st
							n++
						}
						fa, isFA := u.(*ssa.FieldAddr)
						if !isFA || fa.Referrers() == nil {
							continue
						}
						for _, u2 := range nonDebug(*fa.Referrers()) {
							if ld, ok := u2.(*ssa.UnOp); !ok || ld.Op != token.MUL {
								readOnly = false // a field of the copy is written or its address escapes
							}
						}
					}
					if n != 1 || !readOnly {
						return c09RoleNone
					}
					base = c09V{only.Val, base.F}
				case *ssa.IndexAddr:
					idx = b.Index
				case *ssa.UnOp:
					ia, ok := b.X.(*ssa.IndexAddr)
					if !ok || b.Op != token.MUL {
						return c09RoleNone
					}
					idx = ia.Index
				case *ssa.Index:
					idx = b.Index
				default:
					return c09RoleNone
				}
			}
			if idx == nil {
				return c09RoleNone
			}
			iv := e.resolve(c09V{idx, base.F})
			if iv.F != root {
				return c09RoleNone
			}
			switch iv.V {
			case ssa.Value(ints[0]):
				return c09RoleSubject
			case ssa.Value(ints[1]):
				return c09RoleReference
			}
			return c09RoleNone
		}
	}
	return c09CheckOrder([]string{""}, func(w c09World) c09Plan {
		e := cx.newEval(root, w)
		e.timeRole, e.refRole = role(c09IsTime), role(c09IsRef)
		return c09Plan{e, fn.Blocks[0], nil, false, false}
	}, func(w c09World, got bool) string {
		if got {
			return "Less(i,j) is true although element i does not sort before element j in (time, ref) order"
		}
		return "Less(i,j) is false although element i sorts before element j in (time, ref) order: equal-time permanodes have no fixed order, so the matcher's ref tie-break skips/repeats"
	})
}

// sortedElem: t is a named slice type whose elements are pnAndTime.
func (cx *c09Ctx) sortedElem(t types.Type) bool {
	n := NamedOf(t)
	if n == nil || c09IsPtr(t) {
		return false
	}
	sl, ok := n.Underlying().(*types.Slice)
	return ok && c09Is(sl.Elem(), cx.tPnTime) && !c09IsPtr(sl.Elem())
}

func ruleC09Tiebreak(cx *c09Ctx, m *c09Matcher, sorters []*ssa.Function) (matcherFuncs map[string]map[*types.Func]bool) {
	p, r := cx.p, cx.r
	defer r.Floor("T-tiebreak", 3)
	// (2) matcher
	mkey := FuncKey(m.fn) + "#continue-order"
	if m.problem != "" {
		r.Violation("T-tiebreak", mkey, p.Pos(m.pos), m.problem)
	} else {
		mr := cx.checkMatcherOrder(m)
		matcherFuncs = mr.funcs
		cx.reportOrder("T-tiebreak", mkey, p.Pos(m.pos), mr,
			fmt.Sprintf("for each of %v set, the continue branch admits exactly the items strictly after the token item in (time desc, ref desc) order: %d orderings evaluated", m.modes, mr.worlds))
	}
	// (3) direction and comparator of every sort in the effective body of the sorting method(s)
	lessDone := map[*ssa.Function]bool{}
	checkLess := func(t types.Type, site string) {
		n := NamedOf(t)
		var less *ssa.Function
		if n != nil {
			// the declared method (value or pointer receiver), not a synthetic wrapper
			for _, rt := range []types.Type{n, types.NewPointer(n)} {
				if sel := p.SSA.MethodSets.MethodSet(rt).Lookup(n.Obj().Pkg(), "Less"); sel != nil {
					if f := p.SSA.MethodValue(sel); f != nil && f.Synthetic == "" && f.Blocks != nil {
						less = f
						break
					}
				}
			}
		}
		if less == nil || less.Blocks == nil {
			r.Undecided("T-tiebreak", typeKey(t)+"#order", site, "cannot find the Less method of the sorted type")
			return
		}
		if lessDone[less] {
			return
		}
		lessDone[less] = true
		cr := cx.checkComparatorOrder(less)
		cx.reportOrder("T-tiebreak", FuncKey(less)+"#order", p.Pos(less.Pos()), cr,
			typeKey(t)+".Less is the strict lexicographic order (time, then blob.Ref.Less) on all 9 orderings")
	}
	if len(sorters) == 0 {
		r.Undecided("T-tiebreak", "pkg/index#sort-call", "?", "no sorting method of lazySortedPermanodes could be resolved from the candidate sources (see T-clock)")
	}
	for _, sorted := range sorters {
		root := cx.root(sorted)
		var rev *ssa.Parameter
		for _, prm := range sorted.Params {
			if c09IsBool(prm.Type()) {
				rev = prm
			}
		}
		calls := cx.callSites(sorted, root, func(c CallSite) bool {
			f := c.Callee()
			if f == nil || f.Pkg == nil || (f.Pkg.Pkg.Path() != "sort" && f.Pkg.Pkg.Path() != "slices") {
				return false
			}
			return !c.IsStatic("sort", "", "Reverse")
		})
		n := 0
		for _, s := range calls {
			c := s.call()
			n++
			key := fmt.Sprintf("%s#sort-call-%d", FuncKey(sorted), n)
			site := p.Pos(c.Pos())
			if !(c.IsStatic("sort", "", "Sort") || c.IsStatic("sort", "", "Stable")) {
				r.Undecided("T-tiebreak", key, site, "sorts with "+c.CalleeKey()+": the rule only follows sort.Sort/sort.Stable over a type with a Less method")
				continue
			}
			isReverse := func(v c09V) bool {
				call, ok := v.V.(*ssa.Call)
				return ok && (CallSite{call.Parent(), call}).IsStatic("sort", "", "Reverse")
			}
			isRev := func(v c09V) bool {
				o := cx.origin(v)
				return rev != nil && o.V == ssa.Value(rev) && o.F == root
			}
			// the values the sorted argument may take (phi edges), each with what is known about `reverse` there
			type leaf struct {
				v                    c09V
				reversed, known, rev bool
			}
			var leaves []leaf
			var expand func(v c09V, reversed, known, val bool, depth int)
			expand = func(v c09V, reversed, known, val bool, depth int) {
				v = cx.originUntil(v, func(x c09V) bool {
					if _, isPhi := x.V.(*ssa.Phi); isPhi {
						return originValue(x.V) == x.V
					}
					return isReverse(x) || cx.sortedElem(x.V.Type())
				})
				switch x := v.V.(type) {
				case *ssa.Phi:
					if depth < 6 {
						for i, e := range x.Edges {
							k2, v2 := cx.boolOnEdge(x.Block().Preds[i], x.Block(), v.F, isRev)
							if known && k2 && v2 != val {
								continue
							}
							if k2 {
								expand(c09V{e, v.F}, reversed, true, v2, depth+1)
							} else {
								expand(c09V{e, v.F}, reversed, known, val, depth+1)
							}
						}
						return
					}
				case *ssa.Call:
					if isReverse(v) && depth < 6 {
						if !known {
							known, val = cx.boolAt(x.Block(), v.F, isRev)
						}
						expand(c09V{x.Call.Args[0], v.F}, !reversed, known, val, depth+1)
						return
					}
				}
				leaves = append(leaves, leaf{v, reversed, known, val})
			}
			expand(s.val(c.Args()[0]), false, false, false, 0)
			kb, vb := cx.boolAt(c.Block(), s.F, isRev)
			status, detail := "ok", ""
			for _, l := range leaves {
				if !cx.sortedElem(l.v.V.Type()) {
					status, detail = "violated", fmt.Sprintf("permanodes are sorted with %s instead of a []pnAndTime comparator type: the (time, ref) order the continue matcher assumes is not established", l.v.V.Type())
					break
				}
				checkLess(l.v.V.Type(), site)
				known, want := l.known, l.rev
				if !known {
					known, want = kb, vb
				}
				switch {
				case !known:
					if status == "ok" {
						status, detail = "undecided", "sort call is not under a fact about the reverse parameter"
					}
				case want != l.reversed:
					status, detail = "violated", fmt.Sprintf("reverse=%v is requested here but the slice is sorted %s: newest-first sources enumerate oldest-first, so the matcher (which admits older items) repeats/skips", want, map[bool]string{true: "descending", false: "ascending"}[l.reversed])
				default:
					if status == "ok" {
						detail += fmt.Sprintf(" [reverse=%v: %s]", want, map[bool]string{true: "sort.Reverse applied", false: "ascending"}[l.reversed])
					}
				}
			}
			switch status {
			case "violated":
				r.Violation("T-tiebreak", key, site, detail)
			case "undecided":
				r.Undecided("T-tiebreak", key, site, detail)
			default:
				r.OK("T-tiebreak", key, site, "sort over a []pnAndTime comparator type, sort.Reverse applied iff reverse"+detail)
			}
		}
		if n == 0 {
			r.Violation("T-tiebreak", FuncKey(sorted)+"#sort-call", p.Pos(sorted.Pos()), FuncKey(sorted)+" no longer sorts: enumeration order is map order")
		}
	}
	return matcherFuncs
}

// ---------------------------------------------------------------------------
// Token writer: the store to SearchResult.Continue in the effective body of Handler.Query

type c09Writer struct {
	fn       *ssa.Function // declared function holding the store
	store    c09Site
	sprintf  c09Site
	have     bool // sprintf resolved
	site     string
	format   string
	lits     []string // literal text before verb0, between verb0 and verb1, after verb1
	verbs    []byte
	args     []c09V    // values formatted (inside MakeInterface)
	timeArg  c09V      // integer written
	refArg   c09V      // ref written
	unix     *ssa.Call // the (time.Time).UnixXxx call producing timeArg
	timeBy   map[int64]*types.Func
	problems []string // cannot follow
	lastOK   bool
	lastWhy  string
}

// isLastResult: v is <SearchResult>.Blobs[len(<same>.Blobs)-1].Blob.
func (cx *c09Ctx) isLastResult(v c09V) (bool, string) {
	lf, o, ok := cx.loadedField(v)
	if !ok || !c09IsRef(lf.Type) {
		return false, "?the ref written in the token is not a field of a result element"
	}
	el := cx.origin(c09V{lf.Base, o.F})
	ld, ok := el.V.(*ssa.UnOp)
	if !ok || ld.Op != token.MUL {
		return false, "?the ref written in the token is not read from an element of a slice"
	}
	ia, ok := ld.X.(*ssa.IndexAddr)
	if !ok {
		return false, "?the ref written in the token is not read from an element of a slice"
	}
	sf, so, ok := cx.loadedField(c09V{ia.X, el.F})
	if !ok || !sf.is(cx.tResult, "") {
		return false, "the ref written in the token is not taken from SearchResult.Blobs"
	}
	io := cx.origin(c09V{ia.Index, el.F})
	if bo, ok := io.V.(*ssa.BinOp); ok && bo.Op == token.SUB {
		if one, isC := cx.constInt(c09V{bo.Y, io.F}); isC && one == 1 {
			lo := cx.origin(c09V{bo.X, io.F})
			if ln, ok := lo.V.(*ssa.Call); ok {
				if b, ok := ln.Call.Value.(*ssa.Builtin); ok && b.Name() == "len" {
					if lf2, o2, ok := cx.loadedField(c09V{ln.Call.Args[0], lo.F}); ok && lf2.Owner == sf.Owner && lf2.Name == sf.Name {
						b1, b2 := c09V{lf2.Base, o2.F}, c09V{sf.Base, so.F}
						if cx.sameOrigin(b1, b2) || (o2.F == so.F && AccessPath(lf2.Base) == AccessPath(sf.Base) && !strings.HasPrefix(AccessPath(sf.Base), "?")) {
							return true, ""
						}
					}
				}
			}
		}
	}
	return false, "the ref written in the token is not the LAST element of SearchResult.Blobs: the next page starts from the wrong place (repeats everything after that element)"
}

// c09ParseFormat splits a Printf format into literals and plain verbs.
func c09ParseFormat(f string) (lits []string, verbs []byte, ok bool) {
	cur := ""
	for i := 0; i < len(f); i++ {
		if f[i] != '%' {
			cur += string(f[i])
			continue
		}
		i++
		if i >= len(f) {
			return nil, nil, false
		}
		if f[i] == '%' {
			cur += "%"
			continue
		}
		if !(f[i] >= 'a' && f[i] <= 'z' || f[i] >= 'A' && f[i] <= 'Z') {
			return nil, nil, false // flags/width: not a plain verb
		}
		lits = append(lits, cur)
		cur = ""
		verbs = append(verbs, f[i])
	}
	lits = append(lits, cur)
	return lits, verbs, true
}

func (cx *c09Ctx) analyseWriter() *c09Writer {
	q := cx.q.fn
	w := &c09Writer{fn: q, timeBy: map[int64]*types.Func{}, site: cx.p.Pos(q.Pos())}
	stores := cx.fieldStores(q, cx.q, cx.tResult, "Continue")
	if len(stores) != 1 {
		if len(stores) > 1 {
			w.fn, w.site = stores[0].top(), cx.p.Pos(stores[0].In.Pos())
		}
		w.problems = append(w.problems, fmt.Sprintf("%d stores to SearchResult.Continue in the effective body of %s (want exactly one token writer)", len(stores), FuncKey(q)))
		return w
	}
	st := stores[0]
	w.store, w.fn, w.site = st, st.top(), cx.p.Pos(st.In.Pos())
	val := cx.origin(st.val(st.store().Val))
	call, ok := val.V.(*ssa.Call)
	if !ok || !(CallSite{call.Parent(), call}).IsStatic("fmt", "", "Sprintf") {
		w.problems = append(w.problems, "the token is not built by fmt.Sprintf; the rule cannot read its format")
		return w
	}
	w.sprintf, w.have, w.site = c09Site{call, val.F}, true, cx.p.Pos(call.Pos())
	format, ok := cx.constString(c09V{call.Call.Args[0], val.F})
	if !ok {
		w.problems = append(w.problems, "token format is not a constant string")
		return w
	}
	w.format = format
	w.lits, w.verbs, ok = c09ParseFormat(format)
	if !ok {
		w.problems = append(w.problems, "token format uses flags/width the rule does not model")
		return w
	}
	for _, a := range c09Varargs(call.Call.Args[1]) {
		if mi, ok := a.(*ssa.MakeInterface); ok {
			w.args = append(w.args, c09V{mi.X, val.F})
		} else {
			w.args = append(w.args, c09V{a, val.F})
		}
	}
	if len(w.verbs) != 2 || len(w.args) != 2 || w.args[0].V == nil || w.args[1].V == nil {
		w.problems = append(w.problems, fmt.Sprintf("token format %q with %d arguments: expected <prefix><integer time><separator><ref>", format, len(w.args)))
		return w
	}
	w.timeArg, w.refArg = w.args[0], w.args[1]
	w.lastOK, w.lastWhy = cx.isLastResult(w.refArg)
	// the integer must be a UnixXxx() of a time value
	tv := cx.origin(w.timeArg)
	for {
		if cv, ok := tv.V.(*ssa.Convert); ok {
			tv = cx.origin(c09V{cv.X, tv.F})
			continue
		}
		break
	}
	uc, ok := tv.V.(*ssa.Call)
	if !ok || uc.Call.StaticCallee() == nil || uc.Call.StaticCallee().Signature.Recv() == nil || !c09IsTime(uc.Call.StaticCallee().Signature.Recv().Type()) {
		w.problems = append(w.problems, "the integer in the token is not the result of a time.Time method")
		return w
	}
	w.unix = uc
	// the time value, per sort
	for _, lf := range cx.expandBySort(c09V{uc.Call.Args[0], tv.F}) {
		ex, ok := lf.V.V.(*ssa.Extract)
		var tcall *ssa.Call
		if ok && ex.Index == 0 {
			tcall, _ = ex.Tuple.(*ssa.Call)
		}
		if tcall == nil {
			w.problems = append(w.problems, "token time does not come from a (time, ok) call on the corpus")
			continue
		}
		// ref consistency: the time is the time of the ref written in the token
		if n := len(tcall.Call.Args); n == 0 || !cx.sameField(c09V{tcall.Call.Args[n-1], lf.V.F}, w.refArg, 0) {
			w.problems = append(w.problems, "token time is computed for a different ref than the ref written in the token")
		}
		type tagged struct {
			f   *types.Func
			k   int64
			has bool
		}
		var fs []tagged
		if sc := tcall.Call.StaticCallee(); sc != nil && sc.Synthetic == "" {
			f, _ := sc.Object().(*types.Func)
			fs = append(fs, tagged{f, lf.Sort, lf.HasSort})
		} else {
			for _, fl := range cx.expandBySort(c09V{tcall.Call.Value, lf.V.F}) {
				if c, isC := fl.V.V.(*ssa.Const); isC && c.Value == nil {
					continue // nil function: calling it panics, no token is written on that path
				}
				k, has := fl.Sort, fl.HasSort
				if !has {
					k, has = lf.Sort, lf.HasSort
				} else if lf.HasSort && lf.Sort != k {
					continue
				}
				fs = append(fs, tagged{c09MethodOfFuncValue(fl.V.V), k, has})
			}
		}
		for _, t := range fs {
			switch {
			case t.f == nil:
				w.problems = append(w.problems, "token time function cannot be resolved to a declared method")
			case !t.has:
				w.problems = append(w.problems, "token time function "+c09FuncName(t.f)+" is chosen without a dominating q.Sort == K fact")
			default:
				if prev, dup := w.timeBy[t.k]; dup && prev != t.f {
					w.problems = append(w.problems, "two different token time functions under "+cx.sortName(t.k))
				}
				w.timeBy[t.k] = t.f
			}
		}
	}
	return w
}

// ---------------------------------------------------------------------------
// Token reader: the calls applied to text derived from SearchQuery.Continue,
// and the continue constraint built from their results

type c09Reader struct {
	fn                                    *ssa.Function // declared function holding the integer parse (for keys)
	parses, hasPrefix, indexes, refParses []c09Site
	unixes                                []c09Site
	parsed                                c09V // integer result of the single parse
	unixV, refV, refOKV                   c09V // rebuilt time, parsed ref and its ok
}

func (cx *c09Ctx) isToken(v c09V) bool {
	f, _, ok := cx.loadedField(v)
	return ok && f.is(cx.tQuery, "Continue")
}

func (cx *c09Ctx) fromToken(v c09V) bool { return cx.dependsOn(v, cx.isToken) }

func (cx *c09Ctx) analyseReader() *c09Reader {
	q := cx.q.fn
	rd := &c09Reader{}
	classify := func(c CallSite) string {
		f := c.Callee()
		if f == nil || f.Pkg == nil {
			return ""
		}
		switch path, name := f.Pkg.Pkg.Path(), f.Name(); {
		case path == "strconv" && (name == "ParseInt" || name == "ParseUint" || name == "Atoi"):
			return "parse"
		case path == "strings" && (name == "HasPrefix" || name == "TrimPrefix" || name == "CutPrefix"):
			return "prefix"
		case path == "strings" && (name == "Index" || name == "IndexByte" || name == "IndexRune" || name == "LastIndex" || name == "LastIndexByte"):
			return "index"
		case path == "time" && f.Signature.Recv() == nil && strings.HasPrefix(name, "Unix"):
			return "unix"
		case path == "perkeep.org/pkg/blob" && f.Signature.Recv() == nil && strings.HasPrefix(name, "Parse"):
			return "ref"
		}
		return ""
	}
	var unixCand []c09Site
	for _, s := range cx.callSites(q, cx.q, func(c CallSite) bool { return classify(c) != "" }) {
		c := s.call()
		kind := classify(c)
		if kind == "unix" {
			unixCand = append(unixCand, s)
			continue
		}
		if len(c.Args()) == 0 || !cx.fromToken(s.val(c.Args()[0])) {
			continue
		}
		switch kind {
		case "parse":
			rd.parses = append(rd.parses, s)
		case "prefix":
			rd.hasPrefix = append(rd.hasPrefix, s)
		case "index":
			rd.indexes = append(rd.indexes, s)
		case "ref":
			rd.refParses = append(rd.refParses, s)
		}
	}
	if len(rd.parses) == 1 {
		pc := rd.parses[0]
		if rv := ResultValue(pc.call().Value(), 0); rv != nil {
			rd.parsed = pc.val(rv)
		}
	}
	for _, s := range unixCand {
		for _, a := range s.call().Args() {
			if rd.parsed.V != nil && cx.dependsOn(s.val(a), func(x c09V) bool { return x == rd.parsed }) {
				rd.unixes = append(rd.unixes, s)
				break
			}
		}
	}
	if len(rd.unixes) > 0 {
		rd.unixV = rd.unixes[0].val(rd.unixes[0].call().Value())
	}
	if len(rd.refParses) == 1 {
		c := rd.refParses[0].call().Value()
		if v := ResultValue(c, 0); v != nil {
			rd.refV = rd.refParses[0].val(v)
		}
		if c.Call.Signature().Results().Len() == 2 {
			if v := ResultValue(c, 1); v != nil {
				rd.refOKV = rd.refParses[0].val(v)
			}
		}
	}
	switch {
	case len(rd.parses) > 0:
		rd.fn = rd.parses[0].top()
	case len(rd.unixes) > 0:
		rd.fn = rd.unixes[0].top()
	case len(rd.hasPrefix) > 0:
		rd.fn = rd.hasPrefix[0].top()
	case len(rd.refParses) > 0:
		rd.fn = rd.refParses[0].top()
	}
	return rd
}

// c09Interp: how the continue constraint is filled from the token.
type c09Interp struct {
	fn         *ssa.Function // declared function holding the stores (for keys)
	site       string
	bySort     map[int64]string
	refOK      bool
	problems   []string
	violations []string
	timeStores []c09Site // stores of a token-derived time into a PermanodeContinueConstraint field
	refStores  []c09Site // stores of a token-derived ref
	exact      bool      // every token-derived value stored is exactly the reader's rebuilt time / parsed ref
	inexact    string
}

// interpretation: which PermanodeContinueConstraint time field receives the
// time rebuilt from the token under which sort.
func (cx *c09Ctx) interpretation(rd *c09Reader) *c09Interp {
	q := cx.q.fn
	ip := &c09Interp{fn: q, site: cx.p.Pos(q.Pos()), bySort: map[int64]string{}, exact: true}
	st := cx.tPCC.Underlying().(*types.Struct)
	first := true
	for i := 0; i < st.NumFields(); i++ {
		fld := st.Field(i)
		stores := cx.fieldStores(q, cx.q, cx.tPCC, fld.Name())
		for _, s := range stores {
			if first {
				ip.fn, ip.site, first = s.top(), cx.p.Pos(s.In.Pos()), false
			}
			switch {
			case c09IsRef(fld.Type()):
				for _, lf := range cx.expandBySort(s.val(s.store().Val)) {
					if c, isC := lf.V.V.(*ssa.Const); isC && c.Value == nil {
						continue
					}
					if !cx.fromToken(lf.V) {
						continue
					}
					ip.refOK = true
					ip.refStores = append(ip.refStores, s)
					if rd.refV.V == nil || lf.V != rd.refV {
						ip.exact, ip.inexact = false, "PermanodeContinueConstraint."+fld.Name()+" receives a value derived from the token that is not the ref parsed by blob.Parse"
					}
				}
			case c09IsTime(fld.Type()):
				for _, lf := range cx.expandBySort(s.val(s.store().Val)) {
					if c, isC := lf.V.V.(*ssa.Const); isC && c.Value == nil {
						continue // zero time: field left unset on this path
					}
					if !cx.fromToken(lf.V) {
						ip.problems = append(ip.problems, "PermanodeContinueConstraint."+fld.Name()+" receives a value that is neither the token time nor the zero time")
						continue
					}
					ip.timeStores = append(ip.timeStores, s)
					if rd.unixV.V == nil || lf.V != rd.unixV {
						ip.exact, ip.inexact = false, "PermanodeContinueConstraint."+fld.Name()+" receives a value derived from the token that is not the time rebuilt by time.Unix"
					}
					if !lf.HasSort {
						// the store itself sits under the sort fact (`case K: cc.LastMod = t`)
						lf.Sort, lf.HasSort = cx.sortAt(s.In.Block(), s.F)
					}
					if !lf.HasSort {
						ip.violations = append(ip.violations, "PermanodeContinueConstraint."+fld.Name()+" receives the token time regardless of q.Sort: the matcher may compare the token with the wrong clock")
						continue
					}
					if prev, dup := ip.bySort[lf.Sort]; dup && prev != fld.Name() {
						ip.violations = append(ip.violations, "under "+cx.sortName(lf.Sort)+" both "+prev+" and "+fld.Name()+" receive the token time: checkValid rejects the constraint / the matcher uses the first clock only")
					}
					ip.bySort[lf.Sort] = fld.Name()
				}
			}
		}
	}
	return ip
}

// ---------------------------------------------------------------------------
// T-codec

func ruleC09Codec(cx *c09Ctx, w *c09Writer, rd *c09Reader, ip *c09Interp) {
	p, r := cx.p, cx.r
	wkey := FuncKey(w.fn) + "#format"
	defer r.Floor("T-codec", 7)
	if len(w.problems) > 0 && (!w.have || len(w.verbs) != 2 || w.unix == nil) {
		r.Undecided("T-codec", wkey, w.site, strings.Join(w.problems, "; "))
		return
	}
	// writer side: integer verb, signed 64-bit nanoseconds
	tb, _ := w.timeArg.V.Type().Underlying().(*types.Basic)
	wSigned := tb != nil && tb.Info()&types.IsInteger != 0 && tb.Info()&types.IsUnsigned == 0
	wBits := 0
	if tb != nil {
		switch tb.Kind() {
		case types.Int64, types.Uint64:
			wBits = 64
		case types.Int32, types.Uint32:
			wBits = 32
		}
	}
	base := map[byte]int64{'d': 10, 'v': 10, 'x': 16, 'X': 16, 'o': 8, 'b': 2}[w.verbs[0]]
	unixName := w.unix.Call.StaticCallee().Name()
	switch {
	case tb == nil || tb.Info()&types.IsInteger == 0 || base == 0:
		r.Violation("T-codec", wkey, w.site, fmt.Sprintf("token format %q does not write the time as an integer", w.format))
	case unixName != "UnixNano":
		r.Violation("T-codec", wkey, w.site, "token time is written with time.Time."+unixName+"(), which drops sub-unit precision: a permanode whose time has nanoseconds never Equals its own token time, so the tie filter does not apply and the last item is returned again")
	case w.lits[0] == "" || w.lits[1] == "" || strings.ContainsAny(w.lits[1], "0123456789-+"):
		r.Violation("T-codec", wkey, w.site, fmt.Sprintf("token format %q has no literal prefix or no unambiguous separator between time and ref", w.format))
	case !(w.verbs[1] == 'v' || w.verbs[1] == 's') || !c09IsRef(w.refArg.V.Type()):
		r.Violation("T-codec", wkey, w.site, fmt.Sprintf("token format %q does not write the blob.Ref with %%v/%%s (its String form, which blob.Parse reads)", w.format))
	default:
		r.OK("T-codec", wkey, w.site, fmt.Sprintf("format %q: prefix %q, %s %d-bit UnixNano in base %d, separator %q, ref as String()", w.format, w.lits[0], map[bool]string{true: "signed", false: "unsigned"}[wSigned], wBits, base, w.lits[1]))
	}
	prefix, sep := w.lits[0], w.lits[1]

	// reader
	rfn := rd.fn
	if rfn == nil {
		rfn = ip.fn
	}
	rkey := FuncKey(rfn)
	// (a) prefix
	{
		key, site := rkey+"#prefix", p.Pos(rfn.Pos())
		okp, detail := false, "the reader never checks the token prefix with strings.HasPrefix/TrimPrefix/CutPrefix on text derived from SearchQuery.Continue"
		for _, s := range rd.hasPrefix {
			c := s.call()
			site = p.Pos(c.Pos())
			str, isConst := cx.constString(s.val(c.Args()[1]))
			if !isConst {
				continue
			}
			if str != prefix {
				detail = fmt.Sprintf("reader expects prefix %q, writer emits %q: every token is rejected and paging restarts from the first page", str, prefix)
				continue
			}
			okp, detail = true, fmt.Sprintf("reader checks the writer's prefix %q", prefix)
			break
		}
		// every const-low slice of the raw token must skip exactly the prefix
		for _, s := range cx.sites(cx.q.fn, cx.q, func(in ssa.Instruction) bool {
			sl, ok := in.(*ssa.Slice)
			return ok && sl.Low != nil && c09IsStringType(sl.X.Type())
		}) {
			sl := s.In.(*ssa.Slice)
			if !cx.isToken(s.val(sl.X)) {
				continue
			}
			if n, isC := cx.constInt(s.val(sl.Low)); isC && okp && n != int64(len(prefix)) {
				okp, detail = false, fmt.Sprintf("reader strips %d bytes but the prefix %q has %d", n, prefix, len(prefix))
			}
		}
		r.Check(okp, "T-codec", key, site, detail, detail)
	}
	// (b) integer parse
	if len(rd.parses) != 1 {
		r.Undecided("T-codec", rkey+"#time-int", p.Pos(rfn.Pos()), fmt.Sprintf("%d strconv integer parses of text derived from the token (want one)", len(rd.parses)))
		return
	}
	ps := rd.parses[0]
	pc := ps.call()
	{
		key, site := rkey+"#time-int", p.Pos(pc.Pos())
		name := pc.Callee().Name()
		var bad []string
		if name == "Atoi" {
			bad = append(bad, "strconv.Atoi parses a platform int: on 32-bit builds every UnixNano overflows")
		} else {
			if rSigned := name == "ParseInt"; rSigned != wSigned {
				bad = append(bad, fmt.Sprintf("writer formats a %s integer (UnixNano is negative before 1970) but the reader uses strconv.%s: tokens of pre-1970 permanodes are rejected, paging cannot get past them",
					map[bool]string{true: "signed", false: "unsigned"}[wSigned], name))
			}
			if b, ok := cx.constInt(ps.val(pc.Args()[1])); !ok || b != base {
				bad = append(bad, fmt.Sprintf("reader parses base %d, writer formats base %d", b, base))
			}
			if bits, ok := cx.constInt(ps.val(pc.Args()[2])); !ok || bits != int64(wBits) {
				bad = append(bad, fmt.Sprintf("reader parses %d bits, writer formats %d bits", bits, wBits))
			}
		}
		r.Check(len(bad) == 0, "T-codec", key, site,
			fmt.Sprintf("strconv.%s(base %d, %d bits) matches the writer's %s integer", name, base, wBits, map[bool]string{true: "signed", false: "unsigned"}[wSigned]),
			strings.Join(bad, "; "))
	}
	parsed := rd.parsed
	// (c) separator
	{
		key, site := rkey+"#separator", p.Pos(pc.Pos())
		okp, detail := false, "the reader does not locate the separator with strings.Index* on the token"
		var col, searched c09V
		for _, s := range rd.indexes {
			c := s.call()
			str, isS := cx.constString(s.val(c.Args()[1]))
			if !isS {
				if n, isN := cx.constInt(s.val(c.Args()[1])); isN {
					str, isS = string(rune(n)), true
				}
			}
			if !isS {
				continue
			}
			site = p.Pos(c.Pos())
			if str != sep {
				detail = fmt.Sprintf("reader splits at %q, writer separates with %q", str, sep)
				continue
			}
			okp, detail = true, fmt.Sprintf("reader splits at the writer's separator %q; time = text before it, ref = text after it", sep)
			col, searched = s.val(c.Value()), s.val(c.Args()[0])
			break
		}
		if okp {
			// the integer text ends at col; the ref text starts at col+len(sep)
			so := cx.live(ps.val(pc.Args()[0]))
			sl, isSl := so.V.(*ssa.Slice)
			if !isSl || sl.High == nil || cx.live(c09V{sl.High, so.F}) != col || cx.live(c09V{sl.X, so.F}) != cx.live(searched) {
				okp, detail = false, "the integer text is not the searched text up to the separator"
			}
		}
		if okp {
			if len(rd.refParses) != 1 {
				okp, detail = false, fmt.Sprintf("%d blob.Parse* calls on text derived from the token (want one)", len(rd.refParses))
			} else {
				rs := rd.refParses[0]
				so := cx.live(rs.val(rs.call().Args()[0]))
				sl, isSl := so.V.(*ssa.Slice)
				good := false
				if isSl && sl.Low != nil && sl.High == nil && cx.live(c09V{sl.X, so.F}) == cx.live(searched) {
					lo := cx.live(c09V{sl.Low, so.F})
					if bo, ok := lo.V.(*ssa.BinOp); ok && bo.Op == token.ADD {
						x, y := bo.X, bo.Y
						if _, isC := x.(*ssa.Const); isC {
							x, y = y, x
						}
						if n, isC := cx.constInt(c09V{y, lo.F}); isC && cx.live(c09V{x, lo.F}) == col && n == int64(len(sep)) {
							good = true
						}
					}
				}
				if !good {
					okp, detail = false, "the ref text is not the searched text from separator+len(separator) to the end"
				}
			}
		}
		r.Check(okp, "T-codec", key, site, detail, detail)
	}
	// (d) unit: time.Unix(0, n)
	{
		key, site := rkey+"#time-unit", p.Pos(pc.Pos())
		okp, detail := false, "the parsed integer is not turned into a time with time.Unix(0, n)"
		for _, s := range rd.unixes {
			c := s.call()
			site = p.Pos(c.Pos())
			dep := -1
			for i, a := range c.Args() {
				if cx.dependsOn(s.val(a), func(x c09V) bool { return x == parsed }) {
					dep = i
				}
			}
			if dep < 0 {
				continue
			}
			// only width/sign-preserving conversions between the parse and the call
			pure := true
			for v, n := cx.origin(s.val(c.Args()[dep])), 0; v != parsed; n++ {
				cv, ok := v.V.(*ssa.Convert)
				if !ok || n > 8 {
					pure = false
					break
				}
				if b, ok := cv.X.Type().Underlying().(*types.Basic); !ok || !(b.Kind() == types.Int64 || b.Kind() == types.Uint64) {
					pure = false
					break
				}
				v = cx.origin(c09V{cv.X, v.F})
			}
			sec, secConst := int64(-1), false
			if len(c.Args()) == 2 {
				sec, secConst = cx.constInt(s.val(c.Args()[0]))
			}
			switch {
			case c.Callee().Name() != "Unix" || dep != 1 || !secConst || sec != 0:
				detail = fmt.Sprintf("writer emits UnixNano but the reader rebuilds the time with time.%s and the integer as argument %d: the token time is off by orders of magnitude, the matcher admits everything or nothing", c.Callee().Name(), dep)
			case !pure:
				detail = "the parsed integer is transformed (not only converted between 64-bit integer types) before time.Unix"
			default:
				okp, detail = true, "time.Unix(0, n) inverts UnixNano() exactly"
			}
			break
		}
		r.Check(okp, "T-codec", key, site, detail, detail)
	}
	// (e) results: the continue constraint receives the rebuilt time and the parsed ref, nothing else derived from the token
	{
		key := rkey + "#results"
		switch {
		case len(ip.timeStores) == 0 || len(ip.refStores) == 0:
			r.Violation("T-codec", key, ip.site, fmt.Sprintf("the continue constraint receives %d token-derived time(s) and %d token-derived ref(s): the reader's results do not reach the PermanodeContinueConstraint", len(ip.timeStores), len(ip.refStores)))
		case !ip.exact:
			r.Violation("T-codec", key, ip.site, ip.inexact)
		default:
			r.OK("T-codec", key, ip.site, "the PermanodeContinueConstraint receives exactly the time rebuilt by time.Unix and the ref parsed by blob.Parse")
		}
	}
	// (f) the constraint is built only where both parses succeeded
	{
		key := FuncKey(ip.fn) + "#ok-guard"
		good, why := true, ""
		seen := map[c09Site]bool{}
		n := 0
		for _, s := range append(append([]c09Site{}, ip.timeStores...), ip.refStores...) {
			if seen[s] {
				continue
			}
			seen[s] = true
			n++
			for _, P := range append(append([]c09Site{}, rd.parses...), rd.refParses...) {
				if ok, w := cx.successDominated(P, s, 0); !ok {
					good, why = false, fmt.Sprintf("%s: %s", P.call().CalleeKey(), w)
				}
			}
		}
		site := ip.site
		switch {
		case n == 0:
			r.Undecided("T-codec", key, site, "no store of a token-derived value into the continue constraint found")
		case !good:
			r.Violation("T-codec", key, site, "token time/ref are stored into the continue constraint where the reader is not known to have succeeded ("+why+"): a malformed token becomes a zero-time continue constraint")
		default:
			r.OK("T-codec", key, site, "token time and ref are stored into the continue constraint only where the integer parse and the ref parse are known to have succeeded")
		}
	}
}

func c09IsStringType(t types.Type) bool {
	b, ok := t.Underlying().(*types.Basic)
	return ok && b.Info()&types.IsString != 0
}

// ---------------------------------------------------------------------------
// T-clock

// indexSortKeys: which time function keys each lazySortedPermanodes field of
// Corpus (role: the stores, anywhere in pkg/index, of a lazySortedPermanodes
// into a Corpus field, and the pnTime stored into that same object).
func (cx *c09Ctx) indexSortKeys() (byField map[string]*types.Func, problems []string) {
	byField = map[string]*types.Func{}
	st := cx.tCorpus.Underlying().(*types.Struct)
	for _, fn := range cx.p.FuncsIn("pkg/index") {
		if fn.Parent() != nil {
			continue
		}
		root := cx.root(fn)
		for i := 0; i < st.NumFields(); i++ {
			fld := st.Field(i)
			if !c09Is(fld.Type(), cx.tLSP) {
				continue
			}
			var stores []c09Site
			for _, d := range c09StoresToField(c09WithLits(fn), cx.tCorpus, fld.Name()) {
				s := c09Site{d, root}
				// the stored object is a parameter: look at it from the static callers
				if _, isP := cx.origin(s.val(d.Val)).V.(*ssa.Parameter); isP {
					n := 0
					for _, c := range cx.p.StaticCallers(fn) {
						if F := cx.child(cx.root(c.Fn), c.Instr, false); F != nil {
							stores = append(stores, c09Site{d, F})
							n++
						}
					}
					if n > 0 {
						continue
					}
				}
				stores = append(stores, s)
			}
			for _, s := range stores {
				fa, _ := c09FieldRef(s.store().Addr)
				obj := cx.origin(s.val(s.store().Val))
				if IsNilConst(obj.V) {
					continue
				}
				al, ok := obj.V.(*ssa.Alloc)
				if !ok || al.Referrers() == nil {
					problems = append(problems, "Corpus."+fld.Name()+" is set in "+FuncKey(fn)+" to a lazySortedPermanodes the rule cannot follow to its construction")
					continue
				}
				var f *types.Func
				n := 0
				for _, u := range *al.Referrers() {
					pfa, isFA := u.(*ssa.FieldAddr)
					if !isFA || pfa.Referrers() == nil {
						continue
					}
					if pf, ok := c09FieldRef(pfa); !ok || pf.Name != "pnTime" {
						continue
					}
					for _, u2 := range *pfa.Referrers() {
						ps, isSt := u2.(*ssa.Store)
						if !isSt || ps.Addr != ssa.Value(pfa) {
							continue
						}
						n++
						fv := cx.origin(c09V{ps.Val, obj.F})
						f = c09MethodOfFuncValue(fv.V)
						if mc, ok := fv.V.(*ssa.MakeClosure); ok && len(mc.Bindings) == 1 && !cx.sameOrigin(c09V{mc.Bindings[0], fv.F}, s.val(fa.Base)) {
							problems = append(problems, "pnTime of Corpus."+fld.Name()+" is bound to a different corpus than the one that owns it")
						}
					}
				}
				if f == nil || n != 1 {
					problems = append(problems, fmt.Sprintf("pnTime of the lazySortedPermanodes stored in Corpus.%s (%s) cannot be resolved to a declared method (%d stores)", fld.Name(), FuncKey(fn), n))
					continue
				}
				if prev, dup := byField[fld.Name()]; dup && prev != f {
					problems = append(problems, "Corpus."+fld.Name()+" is keyed by two different time functions")
				}
				byField[fld.Name()] = f
			}
		}
	}
	return
}

type c09Source struct {
	site     string
	enum     *ssa.Function
	sorter   *ssa.Function // the lazySortedPermanodes method that yields the slice
	field    string
	newest   bool   // newest-first requested
	sorted   bool   // candidateSource.sorted known true where the send function is installed
	problem  string // cannot follow
	violated string
}

// sourcesBySort: for each `q.Sort == K` arm (effective body of Handler.Query)
// that installs a candidateSource.send function, the Corpus enumerator it calls.
func (cx *c09Ctx) sourcesBySort() map[int64]*c09Source {
	q := cx.q.fn
	out := map[int64]*c09Source{}
	flags := cx.fieldStores(q, cx.q, cx.tCandSrc, "sorted")
	for _, st := range cx.fieldStores(q, cx.q, cx.tCandSrc, "send") {
		k, ok := cx.sortAt(st.In.Block(), st.F)
		if !ok {
			continue
		}
		s := &c09Source{site: cx.p.Pos(st.In.Pos())}
		if _, dup := out[k]; dup {
			s.problem = "two send functions installed under " + cx.sortName(k)
			out[k] = s
			continue
		}
		out[k] = s
		// sorted flag: last store to .sorted that precedes this store
		var flag *c09Site
		for i := range flags {
			fs := flags[i]
			if cx.precedes(fs, st) && (flag == nil || cx.precedes(*flag, fs)) {
				flag = &flags[i]
			}
		}
		if flag != nil {
			if c, ok := cx.origin(flag.val(flag.store().Val)).V.(*ssa.Const); ok && c.Value != nil && c.Value.Kind() == constant.Bool && constant.BoolVal(c.Value) {
				s.sorted = true
			}
		}
		fv := cx.origin(st.val(st.store().Val))
		var body *ssa.Function
		switch x := fv.V.(type) {
		case *ssa.MakeClosure:
			body, _ = x.Fn.(*ssa.Function)
		case *ssa.Function:
			body = x
		}
		if body != nil && body.Synthetic != "" {
			// a method value (`sender.lastModified`): the declared method behind the bound wrapper
			body = nil
			if mo := c09MethodOfFuncValue(fv.V); mo != nil {
				body = cx.p.SSA.FuncValue(mo)
			}
		}
		if body == nil || body.Blocks == nil || body.Synthetic != "" {
			s.problem = "send function is not a function literal or declared function"
			continue
		}
		bodyF := fv.F
		if body.Parent() == nil {
			bodyF = cx.root(body) // a declared function used as the send value: its own activation
		}
		enums := cx.callSites(body, bodyF, func(c CallSite) bool {
			rt := c.RecvType()
			return rt != nil && c09Is(rt, cx.tCorpus) && c.Callee() != nil && c.Callee().Blocks != nil
		})
		if len(enums) != 1 {
			s.problem = fmt.Sprintf("send function calls %d Corpus methods (want one enumerator)", len(enums))
			continue
		}
		ec := enums[0]
		s.enum = ec.call().Callee()
		E := cx.child(ec.F, ec.call().Instr, true)
		if E == nil {
			s.problem = "cannot enter the Corpus enumerator " + FuncKey(s.enum)
			continue
		}
		// inside the enumerator's effective body: exactly one lazySortedPermanodes method yielding the slice
		sc := cx.callSites(s.enum, E, func(c CallSite) bool {
			rt := c.RecvType()
			if rt == nil || !c09Is(rt, cx.tLSP) || c.Callee() == nil || c.Callee().Signature.Results().Len() != 1 {
				return false
			}
			sl, ok := c.Callee().Signature.Results().At(0).Type().Underlying().(*types.Slice)
			return ok && c09Is(sl.Elem(), cx.tPnTime)
		})
		// a wrapper method of lazySortedPermanodes calling the real one shows up twice: keep the outermost
		var outer []c09Site
		for _, c := range sc {
			inner := false
			for _, d := range sc {
				for f := c.F; f != nil; f = f.parent {
					if f.site != nil && ssa.Instruction(f.site) == d.In && f.parent == d.F {
						inner = true
					}
				}
			}
			if !inner {
				outer = append(outer, c)
			}
		}
		all := sc
		sc = outer
		if len(sc) != 1 {
			s.violated = fmt.Sprintf("%s enumerates from %d lazySortedPermanodes slices: the source picked for %s is not one (time, ref)-sorted list", FuncKey(s.enum), len(sc), cx.sortName(k))
			continue
		}
		sc0 := sc[0]
		// the sorting method proper: the innermost lazySortedPermanodes method (a wrapper may sit in between) taking the direction
		inner := sc0
		hasDir := func(c c09Site) bool {
			n := 0
			for _, prm := range c.call().Callee().Params {
				if c09IsBool(prm.Type()) {
					n++
				}
			}
			return n == 1 && len(c.call().Args()) == 2
		}
		for _, c := range all {
			if hasDir(c) && (!hasDir(inner) || c.F.depth > inner.F.depth) {
				inner = c
			}
		}
		s.sorter = inner.call().Callee()
		lf, _, ok := cx.loadedField(sc0.val(sc0.call().Args()[0]))
		if !ok || !lf.is(cx.tCorpus, "") {
			s.problem = "receiver of the sorting method is not a field of the Corpus"
			continue
		}
		s.field = lf.Name
		// the sorted slice and the caller's callback reach the same call, or the slice is ranged over where the callback is called
		slice := cx.origin(sc0.val(sc0.call().Value()))
		isCallback := func(v c09V) bool {
			// a function-typed parameter handed in from outside the enumerator
			o := cx.origin(v)
			prm, isP := o.V.(*ssa.Parameter)
			if !isP || !c09IsFuncType(prm.Type()) {
				return false
			}
			for f := E; f != nil; f = f.parent {
				if f == o.F {
					return true
				}
			}
			return false
		}
		passed := false
		for _, c := range cx.callSites(s.enum, E, func(CallSite) bool { return true }) {
			cs := c.call()
			hasSlice, hasFn := false, false
			for _, a := range cs.Args() {
				if cx.origin(c.val(a)) == slice {
					hasSlice = true
				}
				if c09IsFuncType(a.Type()) && isCallback(c.val(a)) {
					hasFn = true
				}
			}
			if hasSlice && hasFn {
				passed = true
			}
		}
		if !passed {
			// or: the callback is called with a value derived from an element read from the sorted slice
			isElem := func(v c09V) bool {
				var x ssa.Value
				switch in := v.V.(type) {
				case *ssa.IndexAddr:
					x = in.X
				case *ssa.Index:
					x = in.X
				case *ssa.Range:
					x = in.X
				default:
					return false
				}
				return cx.origin(c09V{x, v.F}) == slice
			}
			for _, x := range cx.callSites(s.enum, E, func(c CallSite) bool {
				return !c.Common().IsInvoke() && c.Common().StaticCallee() == nil
			}) {
				cs := x.call()
				if !isCallback(x.val(cs.Common().Value)) {
					continue
				}
				for _, a := range cs.Common().Args {
					if cx.dependsOn(x.val(a), isElem) {
						passed = true
					}
				}
			}
		}
		if !passed {
			s.problem = "cannot see the sorted slice and the callback being handed to one enumeration helper (or the slice being ranged over where the callback is called)"
			continue
		}
		// direction
		if !hasDir(inner) {
			s.problem = "the sorting method takes no direction the rule can read"
			continue
		}
		rev := cx.origin(inner.val(inner.call().Args()[1]))
		if c, ok := rev.V.(*ssa.Const); ok && c.Value != nil && c.Value.Kind() == constant.Bool {
			s.newest = constant.BoolVal(c.Value)
		} else {
			s.problem = "direction requested from the sorting method is not a constant"
		}
	}
	return out
}

func ruleC09Clock(cx *c09Ctx, w *c09Writer, m *c09Matcher, matcherFuncs map[string]map[*types.Func]bool, srcs map[int64]*c09Source, sorters []*ssa.Function, ip *c09Interp) {
	p, r := cx.p, cx.r
	defer r.Floor("T-clock", 10)
	wfn := FuncKey(w.fn)
	if len(w.problems) > 0 {
		r.Undecided("T-clock", wfn+"#token-time", w.site, strings.Join(w.problems, "; "))
		return
	}
	if len(w.timeBy) < 2 {
		r.Violation("T-clock", wfn+"#token-time", w.site, fmt.Sprintf("only %d sort(s) write a continue token (LastModifiedDesc and CreatedDesc are expected to be continuable)", len(w.timeBy)))
	}
	keys, kprob := cx.indexSortKeys()
	// the function that installs the send functions (for keys)
	pickFn := cx.q.fn
	if ss := cx.fieldStores(cx.q.fn, cx.q, cx.tCandSrc, "send"); len(ss) > 0 {
		pickFn = ss[0].top()
	}
	pick := FuncKey(pickFn)
	add := FuncKey(ip.fn)

	// the sort key stored in pnAndTime.t comes from lsp.pnTime of the same ref
	for _, s := range sorters {
		cx.checkSortKeyUse(s)
	}

	for _, k := range c09SortedKeys(w.timeBy) {
		name := cx.sortName(k)
		wf := w.timeBy[k]
		// (i) source
		var srcFn *types.Func
		s := srcs[k]
		skey := pick + "#source/" + name
		switch {
		case s == nil:
			r.Violation("T-clock", skey, w.site, "a continue token is written for "+name+" but no dedicated sorted source is installed for it: results are post-sorted without a ref tie-break, the token's tie-break does not match")
		case s.violated != "":
			r.Violation("T-clock", skey, s.site, s.violated)
		case s.problem != "":
			r.Undecided("T-clock", skey, s.site, s.problem)
		case len(kprob) > 0:
			r.Undecided("T-clock", skey, s.site, strings.Join(kprob, "; "))
		case keys[s.field] == nil:
			r.Undecided("T-clock", skey, s.site, "no pnTime initialisation found for Corpus."+s.field)
		default:
			srcFn = keys[s.field]
			r.OK("T-clock", skey, s.site, fmt.Sprintf("%s -> %s -> Corpus.%s keyed by %s", name, FuncKey(s.enum), s.field, c09FuncName(srcFn)))
			r.Check(s.newest, "T-clock", pick+"#newest-first/"+name, s.site,
				"the source is requested newest-first (the matcher admits items older than the token)",
				"the source for "+name+" is requested oldest-first but the continue matcher admits only items older than the token: page 2 is empty or repeats")
			r.Check(s.sorted, "T-clock", pick+"#sorted-flag/"+name, s.site,
				"candidateSource.sorted is true for this source: Query stops at Limit in enumeration order and does not re-sort",
				"candidateSource.sorted is not true for the source of "+name+": Query re-sorts all matches with an unstable sort without ref tie-break, then cuts at Limit, so the token's (time, ref) position does not describe the page boundary")
		}
		// (ii) writer vs source
		wkey := wfn + "#token-time/" + name
		switch {
		case srcFn == nil:
			r.Undecided("T-clock", wkey, w.site, "source clock for "+name+" unresolved; token clock is "+c09FuncName(wf))
		case srcFn != wf:
			r.Violation("T-clock", wkey, w.site, fmt.Sprintf("under %s the token time is %s(last) but the source is ordered by %s: for a permanode where the two differ the token points into the wrong place of the list (skips or repeats)", name, c09FuncName(wf), c09FuncName(srcFn)))
		default:
			r.OK("T-clock", wkey, w.site, fmt.Sprintf("token time under %s is %s of the token's own ref = sort key of the source", name, c09FuncName(wf)))
		}
		// (iii) continue field and matcher
		akey := add + "#token-field/" + name
		fld, have := ip.bySort[k]
		switch {
		case len(ip.violations) > 0:
			r.Violation("T-clock", akey, ip.site, strings.Join(ip.violations, "; "))
		case len(ip.problems) > 0:
			r.Undecided("T-clock", akey, ip.site, strings.Join(ip.problems, "; "))
		case !have:
			r.Violation("T-clock", akey, ip.site, "a token is written for "+name+" but its time is stored in no PermanodeContinueConstraint field under that sort: the token is ignored (first page again) or rejected by checkValid")
		default:
			r.OK("T-clock", akey, ip.site, "token time is stored in PermanodeContinueConstraint."+fld+" under "+name)
		}
		mkey := FuncKey(m.fn) + "#continue-clock/" + name
		if have && len(ip.violations) == 0 {
			var mfs []*types.Func
			for f := range matcherFuncs[fld] {
				mfs = append(mfs, f)
			}
			switch {
			case matcherFuncs == nil:
				r.Undecided("T-clock", mkey, p.Pos(m.fn.Pos()), "continue branch of the matcher could not be evaluated (see T-tiebreak)")
			case len(mfs) != 1:
				r.Undecided("T-clock", mkey, p.Pos(m.fn.Pos()), fmt.Sprintf("matcher compares %d different item clocks with %s", len(mfs), fld))
			case srcFn != nil && mfs[0] != srcFn:
				r.Violation("T-clock", mkey, p.Pos(m.pos), fmt.Sprintf("with %s set (sort %s) the matcher compares %s(item) with the token, but the list is ordered by %s: items whose two clocks differ are skipped or repeated", fld, name, c09FuncName(mfs[0]), c09FuncName(srcFn)))
			case srcFn == nil:
				r.Undecided("T-clock", mkey, p.Pos(m.fn.Pos()), "source clock unresolved")
			default:
				r.OK("T-clock", mkey, p.Pos(m.pos), fmt.Sprintf("with %s set the matcher compares %s(item) with the token = sort key of the source for %s", fld, c09FuncName(mfs[0]), name))
			}
		}
	}
	if strings.HasPrefix(w.lastWhy, "?") {
		r.Undecided("T-clock", wfn+"#token-ref-is-last", w.site, w.lastWhy[1:])
	} else {
		r.Check(w.lastOK, "T-clock", wfn+"#token-ref-is-last", w.site, "the token names the last element of the page (res.Blobs[len-1])", w.lastWhy)
	}
	r.Check(ip.refOK, "T-clock", add+"#token-ref", ip.site,
		"the token's ref is stored in the continue constraint's ref field (tie-break reference)",
		"the parsed token ref is not stored in the continue constraint: the tie filter compares with the zero ref")
	cx.checkWrap(ip)
}

// checkSortKeyUse: in the effective body of the sorting method every
// pnAndTime built field by field carries lsp.pnTime(its own ref) as its time.
func (cx *c09Ctx) checkSortKeyUse(fn *ssa.Function) {
	root := cx.root(fn)
	key := FuncKey(fn) + "#sort-key"
	ts := cx.fieldStores(fn, root, cx.tPnTime, "t")
	ps := cx.fieldStores(fn, root, cx.tPnTime, "pn")
	if len(ts) == 0 || len(ts) != len(ps) {
		cx.r.Undecided("T-clock", key, cx.p.Pos(fn.Pos()), fmt.Sprintf("%d/%d stores to pnAndTime.t/.pn in the effective body of %s (want matching pairs)", len(ts), len(ps), FuncKey(fn)))
		return
	}
	okp, detail := true, ""
	for _, t := range ts {
		tf, _ := c09FieldRef(t.store().Addr)
		var pn *c09Site
		for i := range ps {
			if pf, _ := c09FieldRef(ps[i].store().Addr); ps[i].F == t.F && pf.Base == tf.Base {
				pn = &ps[i]
			}
		}
		if pn == nil {
			okp, detail = false, "a pnAndTime receives a time but no ref next to it"
			continue
		}
		good, why := false, "pnAndTime.t is not the first result of a call through lsp.pnTime"
		tv := cx.origin(t.val(t.store().Val))
		if ex, ok := tv.V.(*ssa.Extract); ok && ex.Index == 0 {
			if call, ok := ex.Tuple.(*ssa.Call); ok {
				lf, _, isF := cx.loadedField(c09V{call.Call.Value, tv.F})
				switch {
				case !isF || !lf.is(cx.tLSP, "pnTime"):
				case len(call.Call.Args) != 1 || !cx.sameOrigin(c09V{call.Call.Args[0], tv.F}, pn.val(pn.store().Val)):
					why = "the time stored next to a ref is computed for a different ref"
				default:
					good = true
				}
			}
		}
		if !good {
			okp, detail = false, why
		}
	}
	if okp {
		detail = fmt.Sprintf("pnAndTime{pn, t}: t = lsp.pnTime(pn) (%d construction site(s)) — the slice the comparator sorts is keyed by the configured clock", len(ts))
	}
	cx.r.Check(okp, "T-clock", key, cx.p.Pos(ts[0].In.Pos()), detail, detail)
}

// holdsContinue: v is a freshly allocated Constraint/PermanodeConstraint whose
// fields (transitively) hold a PermanodeContinueConstraint.
func (cx *c09Ctx) holdsContinue(v c09V, depth int) bool {
	o := cx.origin(v)
	al, ok := o.V.(*ssa.Alloc)
	if !ok || al.Referrers() == nil || depth > 6 {
		return false
	}
	for _, u := range *al.Referrers() {
		fa, ok := u.(*ssa.FieldAddr)
		if !ok || fa.Referrers() == nil {
			continue
		}
		for _, u2 := range *fa.Referrers() {
			st, ok := u2.(*ssa.Store)
			if !ok || st.Addr != ssa.Value(fa) {
				continue
			}
			if c09Is(st.Val.Type(), cx.tPCC) {
				return true
			}
			if cx.holdsContinue(c09V{st.Val, o.F}, depth+1) {
				return true
			}
		}
	}
	return false
}

// checkWrap: (1) the continue constraint is and-ed with the previous
// constraint and installed as SearchQuery.Constraint; (2) once that has
// happened no store to SearchQuery.Sort and no replacement of
// SearchQuery.Constraint can follow (the token was interpreted under the Sort of
// that moment; Query later writes the next token under the final Sort).
func (cx *c09Ctx) checkWrap(ip *c09Interp) {
	q := cx.q.fn
	add := FuncKey(ip.fn)
	ckey := add + "#conjunction"
	// W: the store that installs a constraint holding the continue constraint
	var wraps []c09Site
	cstores := cx.fieldStores(q, cx.q, cx.tQuery, "Constraint")
	for _, s := range cstores {
		if cx.holdsContinue(s.val(s.store().Val), 0) {
			wraps = append(wraps, s)
		}
	}
	if len(wraps) != 1 {
		cx.r.Violation("T-clock", ckey, ip.site, fmt.Sprintf("%d stores install a constraint holding the continue constraint as SearchQuery.Constraint (want one): continue tokens are ignored, every page is the first page", len(wraps)))
		return
	}
	W := wraps[0]
	// (1) the and-node
	{
		okp, detail := true, ""
		top := cx.origin(W.val(W.store().Val))
		var node c09V // the LogicalConstraint object
		if al, ok := top.V.(*ssa.Alloc); ok && al.Referrers() != nil {
			for _, u := range *al.Referrers() {
				fa, ok := u.(*ssa.FieldAddr)
				if !ok || fa.Referrers() == nil {
					continue
				}
				for _, u2 := range *fa.Referrers() {
					if st, ok := u2.(*ssa.Store); ok && st.Addr == ssa.Value(fa) && c09Is(st.Val.Type(), cx.tLogical) {
						node = cx.origin(c09V{st.Val, top.F})
					}
				}
			}
		}
		nal, _ := node.V.(*ssa.Alloc)
		if nal == nil || nal.Referrers() == nil {
			cx.r.Undecided("T-clock", ckey, cx.p.Pos(W.In.Pos()), "the constraint installed with the continue constraint is not a freshly built LogicalConstraint the rule can follow")
		} else {
			op, hasOp := "", false
			hasBase, hasCont := false, false
			for _, u := range *nal.Referrers() {
				fa, ok := u.(*ssa.FieldAddr)
				if !ok || fa.Referrers() == nil {
					continue
				}
				nf, _ := c09FieldRef(fa)
				for _, u2 := range *fa.Referrers() {
					st, ok := u2.(*ssa.Store)
					if !ok || st.Addr != ssa.Value(fa) {
						continue
					}
					sv := c09V{st.Val, node.F}
					if nf.Name == "Op" {
						op, hasOp = cx.constString(sv)
						continue
					}
					if lf, _, ok := cx.loadedField(sv); ok && lf.is(cx.tQuery, "Constraint") {
						hasBase = true
					}
					if cx.holdsContinue(sv, 0) {
						hasCont = true
					}
				}
			}
			switch {
			case !hasOp || op != "and":
				okp, detail = false, fmt.Sprintf("continue constraint is combined with Op %q instead of \"and\": the token no longer restricts the result (everything matches)", op)
			case !(hasBase && hasCont):
				okp, detail = false, "the and-node does not combine the previous q.Constraint with the new continue constraint"
			default:
				detail = "q.Constraint = and(Permanode{Continue: token}, previous q.Constraint)"
			}
			cx.r.Check(okp, "T-clock", ckey, cx.p.Pos(W.In.Pos()), detail, detail)
		}
	}
	// (2) nothing changes Sort / replaces Constraint afterwards
	sorts := cx.fieldStores(q, cx.q, cx.tQuery, "Sort")
	// key: the function of the lowest activation that sees both the wrap and the Sort stores
	A := W.F
	for _, s := range sorts {
		if l := c09LCA(A, s.F); l != nil {
			A = l
		}
	}
	pkey := FuncKey(A.fn) + "#sort-fixed-before-token"
	bad, undec := "", ""
	for _, s := range sorts {
		reach, known := cx.reachableAfter(W, s)
		switch {
		case !known:
			undec = "cannot order the store to SearchQuery.Sort in " + FuncKey(s.top()) + " against the wrapping of the constraint"
		case reach:
			bad = "q.Sort is assigned in " + FuncKey(s.top()) + " after the token was interpreted under the previous Sort: with the default sort the token is dropped and the page repeats"
		}
	}
	for _, s := range cstores {
		if s == W {
			continue
		}
		reach, known := cx.reachableAfter(W, s)
		if !known || !reach {
			continue
		}
		// pq.Constraint = f(pq.Constraint): rewrites the whole, continue-wrapped constraint
		rewrite := false
		if c, ok := originValue(s.store().Val).(*ssa.Call); ok {
			for _, a := range c.Call.Args {
				if lf, ok := c09LoadedField(originValue(a)); ok && lf.is(cx.tQuery, "Constraint") {
					rewrite = true
				}
			}
		}
		if !rewrite {
			bad = "q.Constraint is replaced in " + FuncKey(s.top()) + " after the continue constraint was and-ed in: the continue constraint is lost"
		}
	}
	site := cx.p.Pos(c09SiteIn(W, A).Pos())
	switch {
	case bad != "":
		cx.r.Violation("T-clock", pkey, site, bad)
	case undec != "":
		cx.r.Undecided("T-clock", pkey, site, undec)
	default:
		cx.r.OK("T-clock", pkey, site, "Sort (incl. the CreatedDesc default) and Constraint are final before the token is interpreted")
	}
}

func c09SiteIn(s c09Site, A *c09Frame) ssa.Instruction {
	if in := c09LiftTo(s, A); in != nil {
		return in
	}
	return s.In
}

// ---------------------------------------------------------------------------
// T-around: a pivot that was not found, or that the matcher rejected, yields no results.

// c09Loc names a boolean location: a variable cell or a struct field.
func c09Loc(addr ssa.Value) (any, bool) {
	if cell, ok := varOf(addr); ok {
		return cell, true
	}
	if f, ok := c09FieldRef(addr); ok && f.Owner != nil {
		return f.Owner.Obj().Pkg().Path() + "." + f.Owner.Obj().Name() + "." + f.Name, true
	}
	return nil, false
}

func ruleC09Around(cx *c09Ctx, w *c09Writer) {
	p, r := cx.p, cx.r
	fn := cx.q.fn
	key := FuncKey(fn) + "#pivot-miss-clears-results"
	defer r.Floor("T-around", 1)
	// cond==val says q.Around == X: returns X
	aroundEq := func(f c09Fact) (c09V, bool) {
		bo, ok := f.Cond.V.(*ssa.BinOp)
		if !ok || !((bo.Op == token.EQL && f.Val) || (bo.Op == token.NEQ && !f.Val)) {
			return c09V{}, false
		}
		for i, o := range []ssa.Value{bo.X, bo.Y} {
			if lf, _, ok := cx.loadedField(c09V{o, f.Cond.F}); ok && lf.is(cx.tQuery, "Around") {
				return c09V{[]ssa.Value{bo.Y, bo.X}[i], f.Cond.F}, true
			}
		}
		return c09V{}, false
	}
	isAroundCmp := func(v c09V) bool {
		if bo, ok := v.V.(*ssa.BinOp); ok && (bo.Op == token.EQL || bo.Op == token.NEQ) {
			_, ok := aroundEq(c09Fact{v, bo.Op == token.EQL})
			return ok
		}
		return false
	}
	// the candidate was accepted by the matcher: a fact `m == true` where m is the boolean
	// first result of a call that received the candidate ref
	matched := func(facts []c09Fact, cand c09V) bool {
		for _, f := range facts {
			if !f.Val {
				continue
			}
			o := cx.origin(f.Cond)
			var call *ssa.Call
			switch x := o.V.(type) {
			case *ssa.Extract:
				if x.Index == 0 {
					call, _ = x.Tuple.(*ssa.Call)
				}
			case *ssa.Call:
				call = x
			}
			if call == nil || !c09IsBool(o.V.Type()) {
				continue
			}
			args := call.Call.Args
			for _, a := range args {
				if c09IsRef(a.Type()) && cx.sameField(c09V{a, o.F}, cand, 0) {
					return true
				}
			}
		}
		return false
	}
	// (1) the "pivot found" flags: bool locations set where q.Around == <candidate ref>
	found := map[any]bool{}
	var unmatched []c09Site
	for _, s := range cx.sites(fn, cx.q, func(in ssa.Instruction) bool {
		st, ok := in.(*ssa.Store)
		return ok && c09IsBool(st.Val.Type())
	}) {
		st := s.store()
		loc, ok := c09Loc(st.Addr)
		if !ok {
			continue
		}
		facts := cx.factsAt(st.Block(), s.F)
		var cand c09V
		isFlag := false
		if c, isC := st.Val.(*ssa.Const); isC {
			if c.Value == nil || c.Value.Kind() != constant.Bool || !constant.BoolVal(c.Value) {
				continue
			}
			for _, ft := range facts {
				if x, ok := aroundEq(ft); ok {
					cand, isFlag = x, true
				}
			}
		} else if cx.dependsOn(s.val(st.Val), isAroundCmp) {
			// found = found || q.Around == ref: the stored value itself carries the comparison
			cx.dependsOn(s.val(st.Val), func(v c09V) bool {
				if isAroundCmp(v) {
					bo := v.V.(*ssa.BinOp)
					cand, _ = aroundEq(c09Fact{v, bo.Op == token.EQL})
					isFlag = true
					return true
				}
				return false
			})
		}
		if !isFlag {
			continue
		}
		found[loc] = true
		if !matched(facts, cand) {
			unmatched = append(unmatched, s)
		}
	}
	if len(found) == 0 {
		r.Violation("T-around", key, p.Pos(fn.Pos()), "Query never records that the Around pivot was matched: a query whose pivot does not match cannot be told from one whose pivot does")
		return
	}
	if len(unmatched) > 0 {
		r.Violation("T-around", key, p.Pos(unmatched[0].In.Pos()), "the Around pivot is recorded as found where the matcher is not known to have accepted that candidate: a pivot that does not satisfy the constraint yields a window instead of nothing")
		return
	}
	// (2) results are cleared where a flag is known false
	var clears []c09Site
	for _, s := range cx.fieldStores(fn, cx.q, cx.tResult, "Blobs") {
		v := cx.origin(s.val(s.store().Val))
		empty := IsNilConst(v.V)
		if sl, ok := v.V.(*ssa.Slice); ok && sl.High != nil {
			if n, isC := cx.constInt(c09V{sl.High, v.F}); isC && n == 0 {
				empty = true
			}
		}
		if !empty {
			continue
		}
		for _, ft := range cx.factsAt(s.In.Block(), s.F) {
			if ft.Val {
				continue
			}
			for _, c := range []c09V{ft.Cond, cx.origin(ft.Cond)} {
				if ld, ok := c.V.(*ssa.UnOp); ok && ld.Op == token.MUL {
					if loc, ok := c09Loc(ld.X); ok && found[loc] {
						clears = append(clears, s)
					}
				}
			}
		}
	}
	if len(clears) == 0 {
		r.Violation("T-around", key, p.Pos(fn.Pos()), "no `res.Blobs = nil` under `pivot not found`: an Around query whose pivot does not match returns an arbitrary window instead of nothing")
		return
	}
	// (3) the clear precedes the point where results are used further (token, describe): it must not be
	// reachable from a call that reads the results for the reply
	st := clears[0]
	okp, detail := true, "the pivot is recorded only for a candidate the matcher accepted, and results are set to nil on the path where the Around pivot was wanted but never matched"
	var users []c09Site
	if w.store.In != nil {
		users = append(users, w.store)
	}
	users = append(users, cx.callSites(fn, cx.q, func(c CallSite) bool {
		f := c.Callee()
		return f != nil && f.Name() == "DescribeLocked" && c.Fn == fn
	})...)
	for _, u := range users {
		if reach, known := cx.reachableAfter(u, st); known && reach {
			what := "the reply was described"
			if u == w.store {
				what = "the continue token was written"
			}
			okp, detail = false, "results are cleared only after "+what+" from them"
		}
	}
	r.Check(okp, "T-around", key, p.Pos(st.In.Pos()), detail, detail)
}

// ---------------------------------------------------------------------------

func runC09(p *Program, r *Reporter) {
	cx := c09NewCtx(p, r)
	w := cx.analyseWriter()
	m := cx.findMatcher()
	rd := cx.analyseReader()
	ip := cx.interpretation(rd)
	srcs := cx.sourcesBySort()
	var sorters []*ssa.Function
	for _, k := range c09SortedKeys(srcs) {
		if s := srcs[k].sorter; s != nil {
			dup := false
			for _, t := range sorters {
				dup = dup || t == s
			}
			if !dup {
				sorters = append(sorters, s)
			}
		}
	}
	r.Analysed("functions", len(cx.reach(cx.q.fn, cx.q).fns)+1)
	mf := ruleC09Tiebreak(cx, m, sorters)
	ruleC09Clock(cx, w, m, mf, srcs, sorters, ip)
	ruleC09Codec(cx, w, rd, ip)
	ruleC09Around(cx, w)
}
