// Package main implements pkverify, a repository-specific static checker for
// perkeep. See /verif/DESIGN.md.
package main

import (
	"fmt"
	"go/ast"
	"go/token"
	"go/types"
	"os"
	"path/filepath"
	"sort"
	"strings"
	"time"

	"golang.org/x/tools/go/packages"
	"golang.org/x/tools/go/ssa"
	"golang.org/x/tools/go/ssa/ssautil"
)

// Program is the loaded, type-checked and SSA-lowered repository.
type Program struct {
	Repo     string
	Tier     string
	Config   string // build configuration label, e.g. "linux/amd64"
	Fset     *token.FileSet
	Roots    []*packages.Package
	ByPath   map[string]*packages.Package
	SSA      *ssa.Program
	AllFuncs []*ssa.Function // source functions of perkeep.org packages (incl. anon)
	LoadDur  time.Duration

	funcsByPkg map[string][]*ssa.Function
	cg         *cgState
}

const modPrefix = "perkeep.org/"

var rootPatterns = []string{"./pkg/...", "./internal/...", "./cmd/...", "./server/...", "./app/..."}

// brokenf reports a condition under which no verdict can be given (loader
// failure, unresolved anchor). Exit status 2.
type brokenErr struct{ msg string }

func (b brokenErr) Error() string { return b.msg }

func brokenf(format string, args ...any) {
	panic(brokenErr{fmt.Sprintf(format, args...)})
}

// LoadProgram loads /repo with the given environment additions (GOOS=...).
func LoadProgram(repo, tier string, env []string, overlay map[string][]byte) *Program {
	if slotFile == nil {
		acquireSlot()
	}
	plainVarCache = map[*ssa.Alloc]bool{} // do not retain previously loaded programs (selftest loads many)
	c13EdgeCache = map[*Program]map[*ssa.Function][]*ssa.Function{}
	c04BodyCache = map[*ssa.Function]*c04Body{}
	c14ROMemo = map[c14LeakKey]int{}
	t0 := time.Now()
	os.Unsetenv("GOWORK")
	cfg := &packages.Config{
		Mode:    packages.LoadAllSyntax,
		Dir:     repo,
		Tests:   false,
		Env: append(append(os.Environ(), "GOFLAGS=-mod=mod", "GOPROXY=off", "GOSUMDB=off", "GOWORK=off", "GOTOOLCHAIN=local",
			"PATH=/opt/veriftools/go1.26.8/bin:"+os.Getenv("PATH")), env...),
		Overlay: overlay,
	}
	pkgs, err := packages.Load(cfg, rootPatterns...)
	if err != nil {
		brokenf("packages.Load: %v", err)
	}
	if len(pkgs) == 0 {
		brokenf("packages.Load returned no packages")
	}
	p := &Program{Repo: repo, Tier: tier, ByPath: map[string]*packages.Package{}, funcsByPkg: map[string][]*ssa.Function{}}
	p.Config = "default"
	if len(env) > 0 {
		p.Config = strings.Join(env, ",")
	}
	var errs []string
	packages.Visit(pkgs, nil, func(pk *packages.Package) {
		p.ByPath[pk.PkgPath] = pk
		if strings.HasPrefix(pk.PkgPath, modPrefix) {
			for _, e := range pk.Errors {
				errs = append(errs, e.Error())
			}
		}
	})
	if len(errs) > 0 {
		sort.Strings(errs)
		if len(errs) > 10 {
			errs = errs[:10]
		}
		brokenf("type/parse errors in %s:\n  %s", repo, strings.Join(errs, "\n  "))
	}
	p.Roots = pkgs
	p.Fset = pkgs[0].Fset
	prog, _ := ssautil.AllPackages(pkgs, ssa.InstantiateGenerics)
	prog.Build()
	p.SSA = prog
	// Collect source functions of module packages.
	for _, sp := range prog.AllPackages() {
		if !strings.HasPrefix(sp.Pkg.Path(), modPrefix) {
			continue
		}
		var fns []*ssa.Function
		add := func(f *ssa.Function) {}
		add = func(f *ssa.Function) {
			if f == nil || f.Blocks == nil {
				return
			}
			fns = append(fns, f)
			for _, a := range f.AnonFuncs {
				add(a)
			}
		}
		for _, m := range sp.Members {
			switch m := m.(type) {
			case *ssa.Function:
				add(m)
			case *ssa.Type:
				for _, t := range []types.Type{m.Type(), types.NewPointer(m.Type())} {
					ms := prog.MethodSets.MethodSet(t)
					for i := 0; i < ms.Len(); i++ {
						f := prog.MethodValue(ms.At(i))
						if f != nil && f.Synthetic == "" && f.Pkg == sp {
							add(f)
						}
					}
				}
			}
		}
		// dedupe (pointer and value method sets overlap)
		seen := map[*ssa.Function]bool{}
		var out []*ssa.Function
		for _, f := range fns {
			if !seen[f] {
				seen[f] = true
				out = append(out, f)
			}
		}
		sort.Slice(out, func(i, j int) bool { return out[i].Pos() < out[j].Pos() })
		p.funcsByPkg[sp.Pkg.Path()] = out
		p.AllFuncs = append(p.AllFuncs, out...)
	}
	if len(p.AllFuncs) < 1000 {
		brokenf("only %d source functions loaded; expected thousands", len(p.AllFuncs))
	}
	p.LoadDur = time.Since(t0)
	return p
}

// Pkg returns the module package with the given path suffix (e.g.
// "pkg/blobserver") or reports the anchor as unresolved.
func (p *Program) Pkg(rel string) *packages.Package {
	pk := p.ByPath[modPrefix+rel]
	if pk == nil {
		brokenf("anchor unresolved: package %s%s not loaded", modPrefix, rel)
	}
	return pk
}

func (p *Program) SSAPkg(rel string) *ssa.Package {
	pk := p.Pkg(rel)
	sp := p.SSA.Package(pk.Types)
	if sp == nil {
		brokenf("anchor unresolved: no SSA for package %s", rel)
	}
	return sp
}

// FuncsIn returns all source functions (including function literals) of the
// module package rel.
func (p *Program) FuncsIn(rel string) []*ssa.Function {
	p.Pkg(rel)
	return p.funcsByPkg[modPrefix+rel]
}

// FuncsUnder returns all source functions of module packages whose path
// (relative to the module) has one of the given prefixes.
func (p *Program) FuncsUnder(prefixes ...string) []*ssa.Function {
	var out []*ssa.Function
	var keys []string
	for k := range p.funcsByPkg {
		keys = append(keys, k)
	}
	sort.Strings(keys)
	for _, k := range keys {
		rel := strings.TrimPrefix(k, modPrefix)
		for _, pre := range prefixes {
			if rel == pre || strings.HasPrefix(rel, pre+"/") {
				out = append(out, p.funcsByPkg[k]...)
				break
			}
		}
	}
	return out
}

// LookupFunc finds a function or method by package, receiver type name ("" for
// package-level functions) and name. It returns nil when absent.
func (p *Program) LookupFunc(rel, recv, name string) *ssa.Function {
	pk := p.ByPath[modPrefix+rel]
	if pk == nil {
		return nil
	}
	sp := p.SSA.Package(pk.Types)
	if sp == nil {
		return nil
	}
	if recv == "" {
		return sp.Func(name)
	}
	tn, _ := pk.Types.Scope().Lookup(recv).(*types.TypeName)
	if tn == nil {
		return nil
	}
	for _, t := range []types.Type{types.NewPointer(tn.Type()), tn.Type()} {
		sel := p.SSA.MethodSets.MethodSet(t).Lookup(pk.Types, name)
		if sel == nil {
			continue
		}
		if f := p.SSA.MethodValue(sel); f != nil {
			// Unwrap promoted-method wrappers: only accept methods declared on recv itself.
			if f.Synthetic == "" {
				return f
			}
		}
	}
	return nil
}

// Func is LookupFunc that treats absence as an unresolved anchor.
func (p *Program) Func(rel, recv, name string) *ssa.Function {
	f := p.LookupFunc(rel, recv, name)
	if f == nil || f.Blocks == nil {
		if recv != "" {
			brokenf("anchor unresolved: %s.(%s).%s", rel, recv, name)
		}
		brokenf("anchor unresolved: %s.%s", rel, name)
	}
	return f
}

// NamedType returns the named type rel.name.
func (p *Program) NamedType(rel, name string) *types.Named {
	pk := p.Pkg(rel)
	tn, _ := pk.Types.Scope().Lookup(name).(*types.TypeName)
	if tn == nil {
		brokenf("anchor unresolved: type %s.%s", rel, name)
	}
	n, _ := tn.Type().(*types.Named)
	if n == nil {
		brokenf("anchor unresolved: %s.%s is not a named type", rel, name)
	}
	return n
}

// Iface returns the interface type rel.name.
func (p *Program) Iface(rel, name string) *types.Interface {
	n := p.NamedType(rel, name)
	i, _ := n.Underlying().(*types.Interface)
	if i == nil {
		brokenf("anchor unresolved: %s.%s is not an interface", rel, name)
	}
	return i
}

// Pos renders a position relative to the repository root.
func (p *Program) Pos(pos token.Pos) string {
	if !pos.IsValid() {
		return "?"
	}
	pp := p.Fset.Position(pos)
	rel, err := filepath.Rel(p.Repo, pp.Filename)
	if err != nil || strings.HasPrefix(rel, "..") {
		rel = pp.Filename
	}
	return fmt.Sprintf("%s:%d", rel, pp.Line)
}

// RelPkg returns the module-relative path of a package ("" when outside).
func RelPkg(pkg *types.Package) string {
	if pkg == nil {
		return ""
	}
	return strings.TrimPrefix(pkg.Path(), modPrefix)
}

// InModule reports whether fn belongs to a perkeep.org package.
func InModule(fn *ssa.Function) bool {
	return fn != nil && fn.Pkg != nil && strings.HasPrefix(fn.Pkg.Pkg.Path(), modPrefix)
}

// FuncKey is the stable, line-free name of a function: pkg.(Recv).Name, with
// $N suffixes for function literals.
func FuncKey(fn *ssa.Function) string {
	if fn == nil {
		return "<nil>"
	}
	if fn.Parent() != nil {
		// fn.Name() is like "Outer$1"
		return FuncKey(fn.Parent()) + fn.Name()[strings.LastIndex(fn.Name(), "$"):]
	}
	pkg := ""
	if fn.Pkg != nil {
		pkg = RelPkg(fn.Pkg.Pkg)
	} else if fn.Object() != nil && fn.Object().Pkg() != nil {
		pkg = RelPkg(fn.Object().Pkg())
	}
	if recv := fn.Signature.Recv(); recv != nil {
		t := recv.Type()
		ptr := ""
		if pt, ok := t.(*types.Pointer); ok {
			t = pt.Elem()
			ptr = "*"
		}
		name := t.String()
		if n, ok := t.(*types.Named); ok {
			name = n.Obj().Name()
		}
		return fmt.Sprintf("%s.(%s%s).%s", pkg, ptr, name, fn.Name())
	}
	return pkg + "." + fn.Name()
}

// TopFunc returns the outermost enclosing declared function.
func TopFunc(fn *ssa.Function) *ssa.Function {
	for fn.Parent() != nil {
		fn = fn.Parent()
	}
	return fn
}

// IsTestSupportPkg reports whether the package is test support code that
// ships in the non-test build (excluded from who-may-call rules, like
// _test.go files).
func IsTestSupportPkg(rel string) bool {
	switch {
	case rel == "pkg/test", strings.HasPrefix(rel, "pkg/test/"),
		strings.HasSuffix(rel, "/storagetest"), strings.HasSuffix(rel, "/indextest"),
		strings.HasSuffix(rel, "/kvtest"), strings.HasSuffix(rel, "test") && strings.Contains(rel, "/"):
		return true
	}
	return false
}

// FileOf returns the syntax file containing pos, or nil.
func (p *Program) FileOf(pk *packages.Package, pos token.Pos) *ast.File {
	for _, f := range pk.Syntax {
		if f.Pos() <= pos && pos <= f.End() {
			return f
		}
	}
	return nil
}
