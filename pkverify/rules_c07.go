package main

import (
	"fmt"
	"go/constant"
	"go/token"
	"go/types"
	"sort"
	"strings"

	"golang.org/x/tools/go/ssa"
)

func init() {
	register(&PropSpec{
		ID:    "C07",
		Title: "Permanode attributes and deletions follow the documented claim semantics",
		Explanation: "Decided (structural necessary conditions, over every claim fold = every function that compares the Type field of a camtypes.Claim with the schema set/add/del-attribute constants, found by type, not by name): " +
			"A-fold (i) each fold handles all three claim types and its del-attribute case distinguishes the empty value (delete all) from a specific value; " +
			"(ii) each fold that has a query time available skips (continue/break) every claim whose Date is After that time on every path to the type switch, except paths on which the time is known zero; a fold that applies one claim to a cache and has no time input is accepted only because every function that hands out that cache together with a time parameter returns it solely under {time is zero, no claims, or the LAST claim is not After the time}, and the cache fields are read by no other function; " +
			"(iii) the claims folded exclude claims that were themselves deleted: an IsDeleted(claim.BlobRef) skip lies on every path to the switch, or every source the folded claims are traced back to (through parameters to all static callers, struct fields to all their stores, call results to the callee's returns) is the result of an AppendClaims method or a filtering append guarded by such a skip; every AppendClaims method appends a claim only behind an IsDeleted(claim.BlobRef) skip. A source that is the raw PermanodeMeta.Claims list is a violation (defect F13, see known_findings.json). " +
			"A-deleted: each IsDeleted implementation recurses on the DELETER of each deletion record selected by its argument and answers true only where that recursive call returned false (a deleted delete claim does not count); Index.IsDeleted returns only such a core applied to its own argument. " +
			"A-order: the incremental cache update in fixupLastClaim (a cache step outside the full rebuild) happens only when the last two claims are known to be in date order (or there are fewer than two), every other path rebuilds after sorting; the rebuild sorts Claims before folding and resets the caches; every append to PermanodeMeta.Claims is followed on every path by a fix-up unless the corpus is still building, and the bulk load rebuilds every permanode. " +
			"NOT decided: the folded values themselves for any concrete history (e.g. duplicate handling of add-attribute differs between Describe and the corpus and is not compared), that Claims really is sorted (only that sort/Less are called), URL-escaping of values, signer filtering, equality of answers between index rows and corpus for any concrete input, anything about future-dated claims when the query time is zero.",
		RuleDocs: map[string]string{
			"A-fold":    "sibling rule over every function comparing camtypes.Claim.Type with the set/add/del-attribute constants: (i) exhaustive + del distinguishes empty value, (ii) bounded by the query time (or cache handed out only when valid for the time), (iii) deleted claims excluded in the fold or at every traced claim source; AppendClaims methods append only behind an IsDeleted skip",
			"A-deleted": "every IsDeleted core recurses on the deleter selected by its argument and returns true only on the recursive call's false edge; the Index.IsDeleted dispatcher returns a core applied to its own argument",
			"A-order":   "the attribute cache is updated incrementally only when the new claim is last in date order; otherwise (and after bulk load) it is rebuilt from the sorted claim list; every append to PermanodeMeta.Claims is followed by that fix-up unless building",
		},
		Run:       runC07,
		DesignRef: "DESIGN.md §4 C07",
		Technique: "static analysis: sibling comparison of all claim folds found by type; CFG reachability with guard edges removed (time bound, deleted-claim skip, cache validity); inter-procedural back-tracing of the folded claims to their sources through parameters, struct-field stores and call results; dominance facts on recursive IsDeleted calls",
		LevelText: "Decides structural necessary conditions only: every attribute-claim fold in the tree treats set/add/del alike in shape, is bounded by the query time, and excludes deleted claims either itself or at its claim sources; the attribute cache is only handed out when no claim is newer than the query time and is rebuilt when claims arrive out of date order; deletion tests recurse on the deleter. It does not decide the attribute values for any concrete claim history, nor equality of the index-row and corpus answers.",
	})
}

func runC07(p *Program, r *Reporter) {
	cx := c07NewCtx(p)
	folds := c07FindFolds(cx)
	r.Analysed("functions", len(p.AllFuncs))
	r.Analysed("claim_folds", len(folds))
	c07RuleFold(cx, r, folds)
	c07RuleAppendClaims(cx, r)
	c07RuleDeleted(cx, r)
	c07RuleOrder(cx, r, folds)
}

// ---------------------------------------------------------------------------
// context

const c07CamtypesPath = modPrefix + "pkg/types/camtypes"

type c07Ctx struct {
	p     *Program
	kinds map[string]string // constant value of schema.{Set,Add,Del}AttributeClaim -> "set" | "add" | "del"
	// stores to struct fields, module wide, keyed by c07FieldKey
	fieldStores map[string][]*ssa.Store
	pmT         *types.Named // index.PermanodeMeta
	claimsField string       // name of the []*camtypes.Claim field of PermanodeMeta
}

func c07NewCtx(p *Program) *c07Ctx {
	cx := &c07Ctx{p: p, kinds: map[string]string{}}
	sc := p.Pkg("pkg/schema").Types.Scope()
	for name, kind := range map[string]string{"SetAttributeClaim": "set", "AddAttributeClaim": "add", "DelAttributeClaim": "del"} {
		c, ok := sc.Lookup(name).(*types.Const)
		if !ok || c.Val().Kind() != constant.String {
			brokenf("anchor unresolved: constant pkg/schema.%s", name)
		}
		cx.kinds[constant.StringVal(c.Val())] = kind
	}
	if len(cx.kinds) != 3 {
		brokenf("anchor unresolved: the three attribute claim type constants are not distinct")
	}
	cx.pmT = p.NamedType("pkg/index", "PermanodeMeta")
	st, ok := cx.pmT.Underlying().(*types.Struct)
	if !ok {
		brokenf("anchor unresolved: pkg/index.PermanodeMeta is not a struct")
	}
	for i := 0; i < st.NumFields(); i++ {
		if c07IsClaimSlice(st.Field(i).Type()) {
			if cx.claimsField != "" {
				brokenf("anchor unresolved: PermanodeMeta has more than one claim-list field")
			}
			cx.claimsField = st.Field(i).Name()
		}
	}
	if cx.claimsField == "" {
		brokenf("anchor unresolved: PermanodeMeta has no []*camtypes.Claim field")
	}
	return cx
}

func c07IsClaim(t types.Type) bool { return IsNamed(t, c07CamtypesPath, "Claim") }

func c07IsClaimSlice(t types.Type) bool {
	s, ok := t.Underlying().(*types.Slice)
	return ok && c07IsClaim(s.Elem())
}

func c07IsTimeType(t types.Type) bool {
	return IsNamed(t, "time", "Time") || IsNamed(t, "go4.org/types", "Time3339")
}

func c07Deref(t types.Type) types.Type {
	if pt, ok := t.Underlying().(*types.Pointer); ok {
		return pt.Elem()
	}
	return t
}

// c07FieldRef recognises a read of a struct field: a load through a FieldAddr
// or a Field of a struct value. base is the struct (pointer or value).
func c07FieldRef(v ssa.Value) (base ssa.Value, owner types.Type, name string, ok bool) {
	for i := 0; i < 8; i++ {
		switch x := v.(type) {
		case *ssa.ChangeType:
			v = x.X
			continue
		case *ssa.Convert:
			v = x.X
			continue
		case *ssa.UnOp:
			if x.Op != token.MUL {
				return nil, nil, "", false
			}
			if fa, isFA := x.X.(*ssa.FieldAddr); isFA {
				return fa.X, c07Deref(fa.X.Type()), fieldName(fa.X.Type(), fa.Field), true
			}
			o := originValue(x)
			if o == ssa.Value(x) {
				return nil, nil, "", false
			}
			v = o
			continue
		case *ssa.Field:
			return x.X, x.X.Type(), fieldName(x.X.Type(), x.Field), true
		}
		break
	}
	return nil, nil, "", false
}

// c07ClaimField: v reads field `name` of a camtypes.Claim; returns the claim handle.
func c07ClaimField(v ssa.Value, name string) (handle ssa.Value, ok bool) {
	base, owner, n, ok := c07FieldRef(v)
	if !ok || n != name || !c07IsClaim(owner) {
		return nil, false
	}
	return originValue(base), true
}

func c07FieldKey(owner types.Type, name string) string { return typeKey(c07Deref(owner)) + "." + name }

func (cx *c07Ctx) storesToField(key string) []*ssa.Store {
	if cx.fieldStores == nil {
		cx.fieldStores = map[string][]*ssa.Store{}
		for _, f := range cx.p.AllFuncs {
			for _, b := range f.Blocks {
				for _, in := range b.Instrs {
					st, ok := in.(*ssa.Store)
					if !ok {
						continue
					}
					if fa, ok := st.Addr.(*ssa.FieldAddr); ok {
						k := c07FieldKey(fa.X.Type(), fieldName(fa.X.Type(), fa.Field))
						cx.fieldStores[k] = append(cx.fieldStores[k], st)
					}
				}
			}
		}
	}
	return cx.fieldStores[key]
}

// ---------------------------------------------------------------------------
// CFG helpers: reachability with guard edges removed

type c07Edge struct {
	b    *ssa.BasicBlock
	succ int
}

// c07IfEdges finds the If terminators whose condition is (a negation chain
// over) a value satisfying match and returns, per If, the successor index
// taken when the matched value is TRUE.
func c07IfEdges(fn *ssa.Function, match func(ssa.Value) bool) []c07Edge {
	var out []c07Edge
	for _, b := range fn.Blocks {
		if len(b.Instrs) == 0 || len(b.Succs) != 2 {
			continue
		}
		ifi, ok := b.Instrs[len(b.Instrs)-1].(*ssa.If)
		if !ok {
			continue
		}
		cond, pos := ifi.Cond, true
		for {
			if u, ok := cond.(*ssa.UnOp); ok && u.Op == token.NOT {
				cond, pos = u.X, !pos
				continue
			}
			break
		}
		if match(cond) || match(originValue(cond)) {
			if pos {
				out = append(out, c07Edge{b, 0})
			} else {
				out = append(out, c07Edge{b, 1})
			}
		}
	}
	return out
}

func c07Other(e c07Edge) c07Edge { return c07Edge{e.b, 1 - e.succ} }

// c07Reach reports whether target is reachable from start without taking a
// removed edge.
func c07Reach(start, target *ssa.BasicBlock, removed map[c07Edge]bool) bool {
	if start == target {
		return true
	}
	seen := map[*ssa.BasicBlock]bool{start: true}
	work := []*ssa.BasicBlock{start}
	for len(work) > 0 {
		b := work[len(work)-1]
		work = work[:len(work)-1]
		for i, s := range b.Succs {
			if removed[c07Edge{b, i}] || seen[s] {
				continue
			}
			if s == target {
				return true
			}
			seen[s] = true
			work = append(work, s)
		}
	}
	return false
}

// c07DefBlock is the block where the per-iteration claim handle is defined
// (function entry for parameters).
func c07DefBlock(fn *ssa.Function, handle ssa.Value) *ssa.BasicBlock {
	if in, ok := handle.(ssa.Instruction); ok && in.Parent() == fn && in.Block() != nil {
		if al, isAlloc := handle.(*ssa.Alloc); isAlloc {
			// a per-iteration copy: start where it is (first) stored
			for _, st := range storesTo(al) {
				if st.Parent() == fn {
					return st.Block()
				}
			}
		}
		return in.Block()
	}
	return fn.Blocks[0]
}

// c07DependsOn is DependsOn that also follows stores into elements/fields of a
// local aggregate (varargs arrays, composite literals).
func c07DependsOn(v ssa.Value, target func(ssa.Value) bool) bool {
	seen := map[ssa.Value]bool{}
	var walk func(v ssa.Value, d int) bool
	walk = func(v ssa.Value, d int) bool {
		if v == nil || seen[v] || d > 80 {
			return false
		}
		seen[v] = true
		if target(v) {
			return true
		}
		switch x := v.(type) {
		case *ssa.UnOp:
			if x.Op == token.MUL {
				if cell, ok := varOf(x.X); ok {
					for _, st := range storesTo(cell) {
						if walk(st.Val, d+1) {
							return true
						}
					}
				}
			}
		case *ssa.Alloc:
			if refs := x.Referrers(); refs != nil {
				for _, r := range *refs {
					switch a := r.(type) {
					case *ssa.IndexAddr, *ssa.FieldAddr:
						if ar := a.(ssa.Value).Referrers(); ar != nil {
							for _, u := range *ar {
								if st, ok := u.(*ssa.Store); ok && st.Addr == a.(ssa.Value) && walk(st.Val, d+1) {
									return true
								}
							}
						}
					case *ssa.Store:
						if a.Addr == ssa.Value(x) && walk(a.Val, d+1) {
							return true
						}
					}
				}
			}
		}
		if in, ok := v.(ssa.Instruction); ok {
			for _, op := range in.Operands(nil) {
				if *op != nil && walk(*op, d+1) {
					return true
				}
			}
		}
		return false
	}
	return walk(v, 0)
}

// ---------------------------------------------------------------------------
// fold enumeration

type c07Fold struct {
	fn     *ssa.Function
	handle ssa.Value               // the claim (pointer, local copy, or struct value) whose Type is switched on
	cmps   map[string][]*ssa.BinOp // "set"/"add"/"del" -> comparisons
	head   *ssa.BasicBlock         // comparison block dominating all other comparisons
	key    string                  // FuncKey (+ ordinal when a function holds several folds)
}

func c07FindFolds(cx *c07Ctx) []*c07Fold {
	var out []*c07Fold
	for _, fn := range cx.p.AllFuncs {
		if fn.Pkg == nil || IsTestSupportPkg(RelPkg(fn.Pkg.Pkg)) {
			continue
		}
		var local []*c07Fold
		for _, b := range fn.Blocks {
			for _, in := range b.Instrs {
				bo, ok := in.(*ssa.BinOp)
				if !ok || (bo.Op != token.EQL && bo.Op != token.NEQ) {
					continue
				}
				for _, pair := range [][2]ssa.Value{{bo.X, bo.Y}, {bo.Y, bo.X}} {
					s, ok := ConstString(pair[1])
					if !ok {
						continue
					}
					kind, ok := cx.kinds[s]
					if !ok {
						continue
					}
					h, ok := c07ClaimField(pair[0], "Type")
					if !ok {
						continue
					}
					var f *c07Fold
					for _, x := range local {
						if x.handle == h {
							f = x
						}
					}
					if f == nil {
						f = &c07Fold{fn: fn, handle: h, cmps: map[string][]*ssa.BinOp{}}
						local = append(local, f)
					}
					f.cmps[kind] = append(f.cmps[kind], bo)
				}
			}
		}
		for i, f := range local {
			f.key = FuncKey(fn)
			if i > 0 {
				f.key = fmt.Sprintf("%s@fold%d", f.key, i+1)
			}
			var blocks []*ssa.BasicBlock
			for _, cs := range f.cmps {
				for _, c := range cs {
					blocks = append(blocks, c.Block())
				}
			}
			for _, cand := range blocks {
				all := true
				for _, o := range blocks {
					if o != cand && !cand.Dominates(o) {
						all = false
					}
				}
				if all {
					f.head = cand
					break
				}
			}
			out = append(out, f)
		}
	}
	sort.Slice(out, func(i, j int) bool { return out[i].key < out[j].key })
	return out
}

// ---------------------------------------------------------------------------
// A-fold

func c07RuleFold(cx *c07Ctx, r *Reporter, folds []*c07Fold) {
	p := cx.p
	for _, f := range folds {
		site := p.Pos(f.fn.Pos())
		if f.head == nil {
			r.Undecided("A-fold", f.key+"#types", site, "the comparisons of the claim type are not dominated by one of them; cannot locate the head of the switch")
			continue
		}
		site = p.Pos(c07FirstPos(f))
		c07FoldTypes(cx, r, f, site)
		c07FoldTime(cx, r, f, site)
		c07FoldDeleted(cx, r, f, site)
	}
	// today: claimsIntfAttrValue, attrValues.cacheAttrClaim, AppendPermanodeAttrValues,
	// PermanodeHasAttrValue, pnCamliContent (pkg/index) and DescribeRequest.populatePermanodeFields
	// (pkg/search): 6 folds x 3 clauses, plus per-source obligations, the cache consumer and readers,
	// and 2 AppendClaims methods.
	r.Floor("A-fold", 24)
}

func c07FirstPos(f *c07Fold) token.Pos {
	for _, in := range f.head.Instrs {
		if in.Pos().IsValid() {
			return in.Pos()
		}
	}
	return f.fn.Pos()
}

// clause (i)
func c07FoldTypes(cx *c07Ctx, r *Reporter, f *c07Fold, site string) {
	var problems []string
	var missing []string
	for _, k := range []string{"set", "add", "del"} {
		if len(f.cmps[k]) == 0 {
			missing = append(missing, k+"-attribute")
		}
	}
	construct := f.key + "#types"
	if len(missing) > 0 {
		problems = append(problems, fmt.Sprintf("no case for %s: claims of that type are ignored here while the sibling folds apply them", strings.Join(missing, ", ")))
	}
	// the del case must test the claim's Value against "" (or its length against 0)
	for _, cmp := range f.cmps["del"] {
		body := c07TrueSucc(cmp)
		if body == nil {
			r.Undecided("A-fold", construct, site, "(i) the del-attribute comparison does not feed a branch; cannot find the del case")
			return
		}
		if !c07TestsEmptyValue(f, body) {
			problems = append(problems, "the del-attribute case never tests the claim's Value for emptiness: 'delete all values' (empty Value) and 'delete this one value' are not distinguished as the sibling folds and doc/schema do")
			break
		}
	}
	if len(problems) > 0 {
		r.Violation("A-fold", construct, site, fmt.Sprintf("(i) fold over claim types in %s: %s", FuncKey(f.fn), strings.Join(problems, "; ")))
		return
	}
	r.OK("A-fold", construct, site, "(i) set-, add- and del-attribute are all handled; the del case tests Value for emptiness")
}

// c07TrueSucc returns the block entered when the comparison says "type is K".
func c07TrueSucc(cmp *ssa.BinOp) *ssa.BasicBlock {
	fn := cmp.Parent()
	for _, e := range c07IfEdges(fn, func(v ssa.Value) bool { return v == ssa.Value(cmp) }) {
		if cmp.Op == token.NEQ {
			e = c07Other(e)
		}
		return e.b.Succs[e.succ]
	}
	return nil
}

func c07TestsEmptyValue(f *c07Fold, body *ssa.BasicBlock) bool {
	isValue := func(v ssa.Value) bool {
		h, ok := c07ClaimField(v, "Value")
		return ok && h == f.handle
	}
	// blocks of the del case: reachable from body without passing the head again
	region := map[*ssa.BasicBlock]bool{body: true}
	work := []*ssa.BasicBlock{body}
	for len(work) > 0 {
		b := work[len(work)-1]
		work = work[:len(work)-1]
		for _, s := range b.Succs {
			if s == f.head || region[s] || !f.head.Dominates(s) {
				continue
			}
			region[s] = true
			work = append(work, s)
		}
	}
	for b := range region {
		for _, in := range b.Instrs {
			bo, ok := in.(*ssa.BinOp)
			if !ok {
				continue
			}
			for _, pair := range [][2]ssa.Value{{bo.X, bo.Y}, {bo.Y, bo.X}} {
				if s, ok := ConstString(pair[1]); ok && s == "" && isValue(pair[0]) {
					return true
				}
				if n, ok := ConstInt(pair[1]); ok && (n == 0 || n == 1) {
					if c, ok := pair[0].(*ssa.Call); ok {
						if bi, ok := c.Call.Value.(*ssa.Builtin); ok && bi.Name() == "len" && isValue(c.Call.Args[0]) {
							return true
						}
					}
				}
			}
		}
	}
	return false
}

// clause (ii)
func c07FoldTime(cx *c07Ctx, r *Reporter, f *c07Fold, site string) {
	p := cx.p
	fn := f.fn
	construct := f.key + "#time-bound"
	isTimeInput := func(v ssa.Value) bool {
		switch x := v.(type) {
		case *ssa.Parameter:
			return c07IsTimeType(x.Type())
		case *ssa.FieldAddr:
			return c07IsTimeType(c07Deref(x.Type()))
		case *ssa.Field:
			return c07IsTimeType(x.Type())
		}
		return false
	}
	// calls (time.Time).After(claim.Date, X)
	var afters []CallSite
	for _, c := range CallsIn(fn, false) {
		if !c.IsStatic("time", "Time", "After") || c.Value() == nil {
			continue
		}
		if h, ok := c07ClaimField(c.Args()[0], "Date"); ok && h == f.handle {
			afters = append(afters, c)
		}
	}
	hasTime := false
	for _, prm := range fn.Params {
		if c07IsTimeType(prm.Type()) {
			hasTime = true
		}
	}
	if recv := fn.Signature.Recv(); recv != nil {
		if st, ok := c07Deref(recv.Type()).Underlying().(*types.Struct); ok {
			for i := 0; i < st.NumFields(); i++ {
				if c07IsTimeType(st.Field(i).Type()) {
					hasTime = true
				}
			}
		}
	}
	if len(afters) == 0 {
		// other comparisons of the claim's date that this rule does not model
		for _, c := range CallsIn(fn, false) {
			if cal := c.Callee(); cal != nil && funcIs(cal, "time", "Time", c.MethodName()) {
				for _, a := range c.Args() {
					if h, ok := c07ClaimField(a, "Date"); ok && h == f.handle {
						r.Undecided("A-fold", construct, site, fmt.Sprintf("(ii) %s compares the claim's Date with time.Time.%s, not After; this rule only models the `cl.Date.After(at)` skip", FuncKey(fn), c.MethodName()))
						return
					}
				}
			}
		}
		switch {
		case hasTime:
			r.Violation("A-fold", construct, site, fmt.Sprintf("(ii) %s has a query time available but never skips claims whose Date is After it: a historical query folds claims newer than the requested time", FuncKey(fn)))
		case c07IsParam(f.handle):
			c07CacheConsumers(cx, r, f, construct, site)
		default:
			r.OKTable("A-fold", construct, site, fmt.Sprintf("(ii) not applicable: %s has no time input (no time parameter, no time field on its receiver) and so answers for the present only", FuncKey(fn)))
		}
		return
	}
	removed := map[c07Edge]bool{}
	nIf := 0
	for _, a := range afters {
		a := a
		if !c07DependsOn(a.Args()[1], isTimeInput) {
			r.Undecided("A-fold", construct, p.Pos(a.Pos()), fmt.Sprintf("(ii) the argument of Date.After in %s does not derive from a time parameter or time field; cannot tell it is the query time", FuncKey(fn)))
			return
		}
		for _, e := range c07IfEdges(fn, func(v ssa.Value) bool { return v == ssa.Value(a.Value()) }) {
			removed[c07Other(e)] = true // the "not after" edge is the only legitimate way on
			nIf++
		}
	}
	if nIf == 0 {
		r.Undecided("A-fold", construct, site, fmt.Sprintf("(ii) the result of Date.After in %s does not feed a branch directly", FuncKey(fn)))
		return
	}
	// paths on which the query time is known zero are unbounded by design
	for _, e := range c07IfEdges(fn, func(v ssa.Value) bool {
		c, ok := v.(*ssa.Call)
		if !ok {
			return false
		}
		cs := CallSite{fn, c}
		n := cs.MethodName()
		if n != "IsZero" && n != "IsAnyZero" {
			return false
		}
		args := cs.Args()
		return len(args) == 1 && c07IsTimeType(c07Deref(args[0].Type())) && c07DependsOn(args[0], isTimeInput)
	}) {
		removed[e] = true
	}
	if c07Reach(c07DefBlock(fn, f.handle), f.head, removed) {
		r.Violation("A-fold", construct, site, fmt.Sprintf("(ii) in %s a path reaches the claim-type switch without having passed `Date.After(at)` on its false edge (and without the time being known zero): claims newer than the query time are folded", FuncKey(fn)))
		return
	}
	r.OK("A-fold", construct, site, fmt.Sprintf("(ii) every path to the switch passes the false edge of claim.Date.After(<query time>) (%d test(s)), or a time-is-zero edge", nIf))
}

func c07IsParam(v ssa.Value) bool { _, ok := v.(*ssa.Parameter); return ok }

// c07CacheConsumers handles a fold step that applies ONE claim (a parameter)
// to an accumulator and has no time input: the accumulator's named type is a
// cache; whoever hands it out together with a time must check validity.
func c07CacheConsumers(cx *c07Ctx, r *Reporter, f *c07Fold, construct, site string) {
	p := cx.p
	fn := f.fn
	recv := fn.Signature.Recv()
	var cacheT *types.Named
	if recv != nil {
		cacheT = NamedOf(recv.Type())
	}
	if cacheT == nil {
		r.Undecided("A-fold", construct, site, fmt.Sprintf("(ii) %s folds one claim without a time bound and has no named receiver type to identify the cache it builds", FuncKey(fn)))
		return
	}
	rel := RelPkg(fn.Pkg.Pkg)
	var consumers []*ssa.Function
	for _, g := range p.FuncsIn(rel) {
		if g.Parent() != nil || g.Blocks == nil {
			continue
		}
		hasTime, resIdx := false, -1
		for _, prm := range g.Params {
			if c07IsTimeType(prm.Type()) {
				hasTime = true
			}
		}
		res := g.Signature.Results()
		for i := 0; i < res.Len(); i++ {
			if types.Identical(res.At(i).Type(), cacheT) {
				resIdx = i
			}
		}
		if hasTime && resIdx >= 0 {
			consumers = append(consumers, g)
			c07CheckConsumer(cx, r, g, resIdx, cacheT)
		}
	}
	if len(consumers) == 0 {
		r.Violation("A-fold", construct, site, fmt.Sprintf("(ii) %s builds a %s cache without a time bound and no function returns that cache under a time check", FuncKey(fn), cacheT.Obj().Name()))
		return
	}
	r.OK("A-fold", construct, site, fmt.Sprintf("(ii) cache builder without time input; its cache type %s is handed out with a time only by %s (checked as #cache-valid-at) and read by nobody else (checked as #reads-cache)", cacheT.Obj().Name(), FuncKey(consumers[0])))

	// who reads fields holding the cache: only consumers and the methods of the
	// owning struct that (transitively) run the fold step
	builders := map[*ssa.Function]bool{fn: true}
	for d := 0; d < 4; d++ {
		for g := range builders {
			for _, c := range p.StaticCallers(g) {
				builders[TopFunc(c.Fn)] = true
			}
		}
	}
	holdsCache := func(t types.Type) bool {
		if types.Identical(t, cacheT) {
			return true
		}
		if m, ok := t.Underlying().(*types.Map); ok && types.Identical(m.Elem(), cacheT) {
			return true
		}
		return false
	}
	readers := map[*ssa.Function]token.Pos{}
	for _, g := range p.AllFuncs {
		if g.Pkg == nil || IsTestSupportPkg(RelPkg(g.Pkg.Pkg)) {
			continue
		}
		for _, b := range g.Blocks {
			for _, in := range b.Instrs {
				fa, ok := in.(*ssa.FieldAddr)
				if !ok || !holdsCache(c07Deref(fa.Type())) {
					continue
				}
				if _, seen := readers[TopFunc(g)]; !seen {
					readers[TopFunc(g)] = fa.Pos()
				}
			}
		}
	}
	var keys []*ssa.Function
	for g := range readers {
		keys = append(keys, g)
	}
	sort.Slice(keys, func(i, j int) bool { return FuncKey(keys[i]) < FuncKey(keys[j]) })
	for _, g := range keys {
		isConsumer := false
		for _, c := range consumers {
			if c == g {
				isConsumer = true
			}
		}
		// a builder is a method of the struct that owns the cache fields (or of the cache type) on the call chain to the fold step
		okBuilder := false
		if recv := g.Signature.Recv(); recv != nil && builders[g] {
			if n := NamedOf(recv.Type()); n != nil {
				if types.Identical(n, cacheT) {
					okBuilder = true
				} else if st, ok := n.Underlying().(*types.Struct); ok {
					for i := 0; i < st.NumFields(); i++ {
						if holdsCache(st.Field(i).Type()) {
							okBuilder = true
						}
					}
				}
			}
		}
		r.Check(isConsumer || okBuilder, "A-fold", FuncKey(g)+"#reads-cache", p.Pos(readers[g]),
			"touches the attribute-cache fields as the time-checked accessor or as part of the cache builder",
			fmt.Sprintf("(ii) %s reads the %s cache fields directly; only the time-checked accessor may hand the cache to queries, otherwise a historical query sees present-time attributes", FuncKey(g), cacheT.Obj().Name()))
	}
}

// c07CheckConsumer: every return of a non-nil cache (with ok not constant
// false) must be unreachable once the validity edges are removed.
func c07CheckConsumer(cx *c07Ctx, r *Reporter, g *ssa.Function, resIdx int, cacheT *types.Named) {
	p := cx.p
	construct := FuncKey(g) + "#cache-valid-at"
	isAt := func(v ssa.Value) bool {
		prm, ok := originValue(v).(*ssa.Parameter)
		return ok && c07IsTimeType(prm.Type())
	}
	claimsOf := func(v ssa.Value) (string, bool) { // v is a load of the claim-list field; returns its access path
		base, owner, name, ok := c07FieldRef(v)
		if !ok || name != cx.claimsField || !types.Identical(owner, cx.pmT) {
			return "", false
		}
		return AccessPath(base) + "." + name, true
	}
	lenOfClaims := func(v ssa.Value) (string, bool) {
		c, ok := v.(*ssa.Call)
		if !ok {
			return "", false
		}
		if bi, ok := c.Call.Value.(*ssa.Builtin); !ok || bi.Name() != "len" {
			return "", false
		}
		return claimsOf(c.Call.Args[0])
	}
	removed := map[c07Edge]bool{}
	var accepted []string
	// at.IsZero()
	for _, e := range c07IfEdges(g, func(v ssa.Value) bool {
		c, ok := v.(*ssa.Call)
		return ok && CallSite{g, c}.IsStatic("time", "Time", "IsZero") && isAt(c.Call.Args[0])
	}) {
		removed[e] = true
		accepted = append(accepted, "time is zero")
	}
	// len(Claims) == 0
	for _, b := range g.Blocks {
		for _, in := range b.Instrs {
			bo, ok := in.(*ssa.BinOp)
			if !ok {
				continue
			}
			if _, ok := lenOfClaims(bo.X); !ok {
				continue
			}
			n, ok := ConstInt(bo.Y)
			if !ok {
				continue
			}
			emptyWhenTrue := (bo.Op == token.EQL && n == 0) || (bo.Op == token.LSS && n == 1) || (bo.Op == token.LEQ && n == 0)
			emptyWhenFalse := (bo.Op == token.NEQ && n == 0) || (bo.Op == token.GTR && n == 0) || (bo.Op == token.GEQ && n == 1)
			for _, e := range c07IfEdges(g, func(v ssa.Value) bool { return v == ssa.Value(bo) }) {
				if emptyWhenTrue {
					removed[e] = true
					accepted = append(accepted, "no claims")
				} else if emptyWhenFalse {
					removed[c07Other(e)] = true
					accepted = append(accepted, "no claims")
				}
			}
		}
	}
	// !Claims[len(Claims)-1].Date.After(at)
	for _, c := range CallsIn(g, false) {
		if !c.IsStatic("time", "Time", "After") || c.Value() == nil || !isAt(c.Args()[1]) {
			continue
		}
		h, ok := c07ClaimField(c.Args()[0], "Date")
		if !ok {
			continue
		}
		ld, ok := h.(*ssa.UnOp)
		if !ok || ld.Op != token.MUL {
			continue
		}
		ia, ok := ld.X.(*ssa.IndexAddr)
		if !ok {
			continue
		}
		path, ok := claimsOf(ia.X)
		if !ok {
			continue
		}
		sub, ok := ia.Index.(*ssa.BinOp)
		if !ok || sub.Op != token.SUB {
			continue
		}
		one, ok := ConstInt(sub.Y)
		lp, ok2 := lenOfClaims(sub.X)
		if !ok || !ok2 || one != 1 || lp != path {
			continue
		}
		for _, e := range c07IfEdges(g, func(v ssa.Value) bool { return v == ssa.Value(c.Value()) }) {
			removed[c07Other(e)] = true
			accepted = append(accepted, "last claim not after the time")
		}
	}
	n := 0
	for _, ri := range Returns(g) {
		v := ri.Results[resIdx]
		if IsNilConst(originValue(v)) {
			continue
		}
		// an accompanying constant-false bool says "not valid"
		invalid := false
		for i, o := range ri.Results {
			if i == resIdx {
				continue
			}
			if c, ok := originValue(o).(*ssa.Const); ok && c.Value != nil && c.Value.Kind() == constant.Bool && !constant.BoolVal(c.Value) {
				invalid = true
			}
		}
		if invalid {
			continue
		}
		n++
		if c07Reach(g.Blocks[0], ri.Ret.Block(), removed) {
			r.Violation("A-fold", construct, p.Pos(ri.Ret.Pos()), fmt.Sprintf("(ii) %s can return the present-time %s cache for a non-zero query time without having established that the last claim is not After that time (accepted validity edges found: %v): a historical query would see later claims", FuncKey(g), cacheT.Obj().Name(), c07Uniq(accepted)))
			return
		}
	}
	if n == 0 {
		r.Violation("A-fold", construct, p.Pos(g.Pos()), fmt.Sprintf("(ii) %s never returns a cache", FuncKey(g)))
		return
	}
	r.OK("A-fold", construct, p.Pos(g.Pos()), fmt.Sprintf("(ii) all %d return(s) of a cache lie behind one of: %v", n, c07Uniq(accepted)))
}

func c07Uniq(s []string) []string {
	m := map[string]bool{}
	var out []string
	for _, x := range s {
		if !m[x] {
			m[x] = true
			out = append(out, x)
		}
	}
	sort.Strings(out)
	return out
}

// ---------------------------------------------------------------------------
// clause (iii): deleted claims

// c07DeletedGuard looks for `X.IsDeleted(handle.BlobRef)` tests in fn and
// reports (found, guarded): guarded means target cannot be reached from the
// handle's definition without taking the false edge of such a test.
func c07DeletedGuard(fn *ssa.Function, handle ssa.Value, target *ssa.BasicBlock) (found, guarded bool) {
	removed := map[c07Edge]bool{}
	for _, c := range CallsIn(fn, false) {
		if c.MethodName() != "IsDeleted" || c.Value() == nil {
			continue
		}
		args := c.Args()
		if len(args) != 2 {
			continue
		}
		if t, ok := c.Value().Type().(*types.Basic); !ok || t.Kind() != types.Bool {
			continue
		}
		h, ok := c07ClaimField(args[1], "BlobRef")
		if !ok || h != handle {
			continue
		}
		found = true
		for _, e := range c07IfEdges(fn, func(v ssa.Value) bool { return v == ssa.Value(c.Value()) }) {
			removed[c07Other(e)] = true
		}
	}
	if !found || len(removed) == 0 {
		return found, false
	}
	return true, !c07Reach(c07DefBlock(fn, handle), target, removed)
}

type c07Src struct {
	kind string // raw | filtered | guarded | unknown
	fn   *ssa.Function
	pos  token.Pos
	what string
}

func c07FoldDeleted(cx *c07Ctx, r *Reporter, f *c07Fold, site string) {
	p := cx.p
	found, guarded := c07DeletedGuard(f.fn, f.handle, f.head)
	if guarded {
		r.OK("A-fold", f.key+"#deleted", site, "(iii) an IsDeleted(claim.BlobRef) skip lies on every path to the switch")
		return
	}
	if found {
		r.Violation("A-fold", f.key+"#deleted", site, fmt.Sprintf("(iii) %s tests IsDeleted(claim.BlobRef) but a path reaches the claim-type switch without taking the not-deleted edge", FuncKey(f.fn)))
		return
	}
	tr := &c07Tracer{cx: cx, seen: map[ssa.Value]bool{}}
	tr.trace(f.handle, 0)
	if len(tr.out) == 0 {
		r.Undecided("A-fold", f.key+"#deleted", site, fmt.Sprintf("(iii) %s has no IsDeleted skip and the folded claims could not be traced to any source", FuncKey(f.fn)))
		return
	}
	// one obligation per (fold, source function, kind)
	type k struct{ fn, kind string }
	done := map[k]bool{}
	sort.SliceStable(tr.out, func(i, j int) bool { return FuncKey(tr.out[i].fn) < FuncKey(tr.out[j].fn) })
	for _, s := range tr.out {
		kk := k{FuncKey(s.fn), s.kind}
		if done[kk] {
			continue
		}
		done[kk] = true
		construct := f.key + "#deleted<-" + FuncKey(s.fn)
		switch s.kind {
		case "raw":
			r.Violation("A-fold", construct, p.Pos(s.pos), fmt.Sprintf("(iii) %s folds claims taken in %s from %s with no IsDeleted(claim.BlobRef) skip anywhere between that list and the claim-type switch; the index path (AppendClaims) skips deleted claims, so a deleted attribute claim still counts here", FuncKey(f.fn), FuncKey(s.fn), s.what))
		case "filtered":
			r.OK("A-fold", construct, p.Pos(s.pos), fmt.Sprintf("(iii) claims come from %s, whose implementations skip deleted claims (obligations #deleted-skip)", s.what))
		case "guarded":
			r.OK("A-fold", construct, p.Pos(s.pos), "(iii) "+s.what)
		default:
			r.Undecided("A-fold", construct, p.Pos(s.pos), fmt.Sprintf("(iii) cannot trace the claims folded by %s further: %s", FuncKey(f.fn), s.what))
		}
	}
}

type c07Tracer struct {
	cx   *c07Ctx
	seen map[ssa.Value]bool
	out  []c07Src
}

func (t *c07Tracer) add(kind string, fn *ssa.Function, pos token.Pos, what string) {
	if fn == nil {
		return
	}
	t.out = append(t.out, c07Src{kind, TopFunc(fn), pos, what})
}

func c07ParentOf(v ssa.Value) *ssa.Function {
	switch x := v.(type) {
	case ssa.Instruction:
		return x.Parent()
	case *ssa.Parameter:
		return x.Parent()
	case *ssa.FreeVar:
		return x.Parent()
	}
	return nil
}

// trace walks from a claim (or a container of claims) back to where the
// claims come from.
func (t *c07Tracer) trace(v ssa.Value, depth int) {
	if v == nil || t.seen[v] {
		return
	}
	t.seen[v] = true
	fn := c07ParentOf(v)
	if depth > 60 {
		t.add("unknown", fn, v.Pos(), "trace too deep")
		return
	}
	p := t.cx.p
	switch x := v.(type) {
	case *ssa.Const:
		return // nil container: nothing folded
	case *ssa.ChangeType:
		t.trace(x.X, depth+1)
	case *ssa.Convert:
		t.trace(x.X, depth+1)
	case *ssa.MakeInterface:
		t.trace(x.X, depth+1)
	case *ssa.ChangeInterface:
		t.trace(x.X, depth+1)
	case *ssa.TypeAssert:
		t.trace(x.X, depth+1)
	case *ssa.Slice:
		t.trace(x.X, depth+1)
	case *ssa.Phi:
		for _, e := range x.Edges {
			t.trace(e, depth+1)
		}
	case *ssa.Index:
		t.trace(x.X, depth+1)
	case *ssa.IndexAddr:
		t.trace(x.X, depth+1)
	case *ssa.Field:
		t.traceField(x.X.Type(), fieldName(x.X.Type(), x.Field), fn, x.Pos())
	case *ssa.Alloc:
		sts := storesTo(x)
		if len(sts) == 0 {
			t.add("unknown", fn, x.Pos(), "local with no store")
		}
		for _, st := range sts {
			t.trace(st.Val, depth+1)
		}
	case *ssa.FreeVar:
		if b := bindingOf(x); b != nil {
			t.trace(b, depth+1)
		} else {
			t.add("unknown", fn, x.Pos(), "captured variable with ambiguous binding")
		}
	case *ssa.UnOp:
		if x.Op != token.MUL {
			t.add("unknown", fn, x.Pos(), "unmodelled operator")
			return
		}
		switch a := x.X.(type) {
		case *ssa.IndexAddr:
			t.trace(a.X, depth+1)
		case *ssa.FieldAddr:
			t.traceField(a.X.Type(), fieldName(a.X.Type(), a.Field), fn, x.Pos())
		default:
			if cell, ok := varOf(x.X); ok {
				if al, ok := cell.(*ssa.Alloc); ok {
					t.trace(al, depth+1)
					return
				}
			}
			if _, isClaimPtr := x.X.Type().Underlying().(*types.Pointer); isClaimPtr && c07IsClaim(x.X.Type()) {
				t.trace(x.X, depth+1) // *cl: a copy of the claim cl points to
				return
			}
			t.add("unknown", fn, x.Pos(), "load from an unmodelled address")
		}
	case *ssa.Extract:
		if c, ok := x.Tuple.(*ssa.Call); ok {
			t.traceCall(c, x.Index, depth)
		} else {
			t.add("unknown", fn, x.Pos(), "component of a non-call tuple")
		}
	case *ssa.Call:
		t.traceCall(x, 0, depth)
	case *ssa.Parameter:
		t.traceParam(x, depth)
	default:
		t.add("unknown", fn, v.Pos(), fmt.Sprintf("unmodelled value %T", v))
	}
	_ = p
}

func (t *c07Tracer) traceField(owner types.Type, name string, fn *ssa.Function, pos token.Pos) {
	cx := t.cx
	if types.Identical(c07Deref(owner), cx.pmT) && name == cx.claimsField {
		t.add("raw", fn, pos, "PermanodeMeta."+name+" (every claim ever received for the permanode, deleted ones included)")
		return
	}
	key := c07FieldKey(owner, name)
	sts := cx.storesToField(key)
	if len(sts) == 0 {
		t.add("unknown", fn, pos, "field "+key+" is never stored")
		return
	}
	for _, st := range sts {
		t.trace(st.Val, 1)
	}
}

func (t *c07Tracer) traceCall(c *ssa.Call, idx int, depth int) {
	cs := CallSite{c.Parent(), c}
	cc := c.Common()
	res := cc.Signature().Results()
	if cs.MethodName() == "AppendClaims" && cs.RecvType() != nil && idx < res.Len() && c07IsClaimSlice(res.At(idx).Type()) {
		t.add("filtered", c.Parent(), c.Pos(), cs.CalleeKey())
		return
	}
	if cc.IsInvoke() {
		// element accessor of a claims container interface: the claims are the receiver's
		if idx < res.Len() && c07IsClaim(res.At(idx).Type()) {
			t.trace(cc.Value, depth+1)
			return
		}
		t.add("unknown", c.Parent(), c.Pos(), "result of interface call "+cs.CalleeKey())
		return
	}
	if bi, ok := cc.Value.(*ssa.Builtin); ok {
		if bi.Name() == "append" && len(cc.Args) == 2 {
			t.trace(cc.Args[0], depth+1)
			t.traceAppended(c, depth)
			return
		}
		t.add("unknown", c.Parent(), c.Pos(), "result of builtin "+bi.Name())
		return
	}
	callee := cs.Callee()
	if callee == nil || callee.Blocks == nil || !(InModule(callee) || callee.Parent() != nil) {
		t.add("unknown", c.Parent(), c.Pos(), "result of "+cs.CalleeKey())
		return
	}
	for _, ri := range Returns(callee) {
		if idx < len(ri.Results) {
			t.trace(ri.Results[idx], depth+1)
		}
	}
}

// c07Appended lists, for an append call, the claim handles appended one by
// one (nil second return when the appended operand is a whole slice).
func c07Appended(c *ssa.Call) (handles []ssa.Value, whole ssa.Value) {
	arg := c.Call.Args[1]
	sl, ok := arg.(*ssa.Slice)
	if !ok {
		return nil, arg
	}
	al, ok := sl.X.(*ssa.Alloc)
	if !ok {
		return nil, arg
	}
	refs := al.Referrers()
	if refs == nil {
		return nil, arg
	}
	for _, rf := range *refs {
		ia, ok := rf.(*ssa.IndexAddr)
		if !ok {
			continue
		}
		if iar := ia.Referrers(); iar != nil {
			for _, u := range *iar {
				if st, ok := u.(*ssa.Store); ok && st.Addr == ssa.Value(ia) {
					v := st.Val
					if ld, ok := v.(*ssa.UnOp); ok && ld.Op == token.MUL && c07IsClaim(ld.X.Type()) {
						if _, isPtr := ld.X.Type().Underlying().(*types.Pointer); isPtr {
							v = ld.X // *cl -> cl
						}
					}
					handles = append(handles, originValue(v))
				}
			}
		}
	}
	return handles, nil
}

func (t *c07Tracer) traceAppended(c *ssa.Call, depth int) {
	handles, whole := c07Appended(c)
	if whole != nil {
		t.trace(whole, depth+1)
		return
	}
	for _, h := range handles {
		if found, guarded := c07DeletedGuard(c.Parent(), h, c.Block()); found && guarded {
			t.add("guarded", c.Parent(), c.Pos(), fmt.Sprintf("claims are filtered in %s: appended only behind an IsDeleted(claim.BlobRef) skip", FuncKey(c.Parent())))
			continue
		}
		t.trace(h, depth+1)
	}
}

func (t *c07Tracer) traceParam(prm *ssa.Parameter, depth int) {
	p := t.cx.p
	fn := prm.Parent()
	idx := -1
	for i, q := range fn.Params {
		if q == prm {
			idx = i
		}
	}
	if idx < 0 || fn.Parent() != nil {
		t.add("unknown", fn, prm.Pos(), "parameter of a function literal")
		return
	}
	if uses := p.FuncValueUses(fn); len(uses) > 0 {
		t.add("unknown", fn, prm.Pos(), FuncKey(fn)+" is used as a function value")
		return
	}
	if fn.Signature.Recv() != nil {
		if inv := p.InvokeSites(fn); len(inv) > 0 {
			t.add("unknown", fn, prm.Pos(), FuncKey(fn)+" is reachable through an interface")
			return
		}
	}
	n := 0
	for _, c := range p.StaticCallers(fn) {
		if c.Fn.Pkg != nil && IsTestSupportPkg(RelPkg(TopFunc(c.Fn).Pkg.Pkg)) {
			continue
		}
		args := c.Args()
		if idx >= len(args) {
			continue
		}
		n++
		arg := args[idx]
		if c07IsClaim(arg.Type()) {
			h := originValue(arg)
			if found, guarded := c07DeletedGuard(c.Fn, h, c.Block()); found && guarded {
				t.add("guarded", c.Fn, c.Pos(), fmt.Sprintf("%s passes the claim on only behind an IsDeleted(claim.BlobRef) skip", FuncKey(c.Fn)))
				continue
			}
		}
		t.trace(arg, depth+1)
	}
	if n == 0 {
		t.add("unknown", fn, prm.Pos(), FuncKey(fn)+" has no static caller")
	}
}

// c07RuleAppendClaims: the claim sources the index path folds.
func c07RuleAppendClaims(cx *c07Ctx, r *Reporter) {
	p := cx.p
	n := 0
	for _, fn := range p.AllFuncs {
		if fn.Parent() != nil || fn.Name() != "AppendClaims" || fn.Signature.Recv() == nil || fn.Pkg == nil || IsTestSupportPkg(RelPkg(fn.Pkg.Pkg)) {
			continue
		}
		res := fn.Signature.Results()
		if res.Len() == 0 || !c07IsClaimSlice(res.At(0).Type()) {
			continue
		}
		n++
		construct := FuncKey(fn) + "#deleted-skip"
		appends, delegations, bad := 0, 0, ""
		var badPos token.Pos
		for _, c := range CallsIn(fn, false) {
			call := c.Value()
			if call == nil {
				continue
			}
			if c.MethodName() == "AppendClaims" {
				delegations++
				continue
			}
			bi, ok := c.Common().Value.(*ssa.Builtin)
			if !ok || bi.Name() != "append" || !c07IsClaimSlice(call.Type()) {
				continue
			}
			handles, whole := c07Appended(call)
			if whole != nil {
				bad, badPos = "appends a whole slice of claims; this rule only follows one-by-one appends", call.Pos()
				continue
			}
			for _, h := range handles {
				appends++
				if found, guarded := c07DeletedGuard(fn, h, call.Block()); !(found && guarded) {
					bad, badPos = "appends a claim to its result on a path that has not taken the not-deleted edge of IsDeleted(claim.BlobRef)", call.Pos()
				}
			}
		}
		switch {
		case strings.HasPrefix(bad, "appends a whole"):
			r.Undecided("A-fold", construct, p.Pos(badPos), fmt.Sprintf("(iii) %s %s", FuncKey(fn), bad))
		case bad != "":
			r.Violation("A-fold", construct, p.Pos(badPos), fmt.Sprintf("(iii) %s %s: every fold fed by AppendClaims (Describe, location, GetClaims) then counts deleted attribute claims", FuncKey(fn), bad))
		case appends+delegations == 0:
			r.Undecided("A-fold", construct, p.Pos(fn.Pos()), fmt.Sprintf("(iii) %s neither appends claims nor delegates to another AppendClaims", FuncKey(fn)))
		default:
			r.OK("A-fold", construct, p.Pos(fn.Pos()), fmt.Sprintf("(iii) %d guarded append(s), %d delegation(s) to another AppendClaims", appends, delegations))
		}
	}
	if n < 2 {
		r.Violation("A-fold", "AppendClaims#implementations", "", fmt.Sprintf("(iii) expected the index and corpus AppendClaims methods, found %d", n))
	}
}

// ---------------------------------------------------------------------------
// A-deleted

func c07RuleDeleted(cx *c07Ctx, r *Reporter) {
	p := cx.p
	entries := []*ssa.Function{p.Func("pkg/index", "Corpus", "IsDeleted"), p.Func("pkg/index", "Index", "IsDeleted")}
	selfRec := func(fn *ssa.Function) []CallSite {
		return FindCalls(fn, false, func(c CallSite) bool { return c.Callee() == fn && c.Value() != nil })
	}
	cores := map[*ssa.Function]bool{}
	var coreList []*ssa.Function
	addCore := func(fn *ssa.Function) {
		if !cores[fn] {
			cores[fn] = true
			coreList = append(coreList, fn)
		}
	}
	for _, e := range entries {
		if len(selfRec(e)) > 0 {
			addCore(e)
			continue
		}
		// dispatcher: every return is a core applied to the same argument
		construct := FuncKey(e) + "#dispatch"
		bad := ""
		var badPos token.Pos
		nret := 0
		for _, ri := range Returns(e) {
			nret++
			call, ok := originValue(ri.Results[0]).(*ssa.Call)
			if !ok {
				bad, badPos = "returns something other than the result of a deletion test", ri.Ret.Pos()
				continue
			}
			cs := CallSite{e, call}
			g := cs.Callee()
			if g == nil || g.Blocks == nil || !types.Identical(g.Signature.Results(), e.Signature.Results()) || len(selfRec(g)) == 0 {
				bad, badPos = fmt.Sprintf("returns the result of %s, which is not a recursive deletion test", cs.CalleeKey()), ri.Ret.Pos()
				continue
			}
			args := cs.Args()
			if len(args) != 2 || !sameOrigin(args[1], e.Params[1]) {
				bad, badPos = fmt.Sprintf("calls %s with something other than its own argument", FuncKey(g)), ri.Ret.Pos()
				continue
			}
			addCore(g)
		}
		if bad != "" {
			r.Violation("A-deleted", construct, p.Pos(badPos), fmt.Sprintf("%s %s", FuncKey(e), bad))
		} else if nret == 0 {
			r.Undecided("A-deleted", construct, p.Pos(e.Pos()), "no return found")
		} else {
			r.OK("A-deleted", construct, p.Pos(e.Pos()), fmt.Sprintf("all %d return(s) are a recursive deletion test applied to the function's own argument", nret))
		}
	}
	for _, fn := range coreList {
		c07CheckDeletedCore(cx, r, fn, selfRec(fn))
	}
	r.Floor("A-deleted", 4) // Corpus.IsDeleted, Index.isDeleted, Index.isDeletedNoCache + the Index.IsDeleted dispatcher
}

func c07CheckDeletedCore(cx *c07Ctx, r *Reporter, fn *ssa.Function, recs []CallSite) {
	p := cx.p
	construct := FuncKey(fn) + "#recurse-on-deleter"
	site := p.Pos(fn.Pos())
	if len(fn.Params) != 2 {
		r.Undecided("A-deleted", construct, site, "unexpected signature")
		return
	}
	br := fn.Params[1]
	for _, rc := range recs {
		arg := rc.Args()[1]
		if sameOrigin(arg, br) {
			r.Violation("A-deleted", construct, p.Pos(rc.Pos()), fmt.Sprintf("%s recurses on its own argument instead of on the deleter", FuncKey(fn)))
			return
		}
		_, owner, name, ok := c07FieldRef(arg)
		isDeleter := ok && ((name == "deleter" && IsNamed(owner, modPrefix+"pkg/index", "deletion")) || (name == "BlobRef" && c07IsClaim(owner)))
		if !ok {
			r.Undecided("A-deleted", construct, p.Pos(rc.Pos()), fmt.Sprintf("the argument of the recursive call in %s is not a field read; cannot tell it is the deleter", FuncKey(fn)))
			return
		}
		if !isDeleter {
			r.Violation("A-deleted", construct, p.Pos(rc.Pos()), fmt.Sprintf("%s recurses on field %s of %s, which is not the deleting claim (deletion.deleter, or BlobRef of the claim parsed from a 'deleted' row)", FuncKey(fn), name, typeKey(owner)))
			return
		}
		if !c07DependsOn(arg, func(v ssa.Value) bool { return v == ssa.Value(br) }) {
			r.Violation("A-deleted", construct, p.Pos(rc.Pos()), fmt.Sprintf("the deleter %s recurses on is not selected by the function's argument (it must come from the deletion records of that blob)", FuncKey(fn)))
			return
		}
	}
	isRec := func(c CallSite) bool { return c.Callee() == fn }
	nTrue := 0
	for _, ri := range Returns(fn) {
		c, ok := originValue(ri.Results[0]).(*ssa.Const)
		if !ok || c.Value == nil || c.Value.Kind() != constant.Bool {
			r.Undecided("A-deleted", construct, p.Pos(ri.Ret.Pos()), fmt.Sprintf("%s returns a non-constant; this rule models `return true` on the not-deleted edge of the recursive call", FuncKey(fn)))
			return
		}
		if !constant.BoolVal(c.Value) {
			continue
		}
		nTrue++
		known, val, _ := BoolCallFact(ri.Ret.Block(), isRec)
		if !known || val {
			r.Violation("A-deleted", construct, p.Pos(ri.Ret.Pos()), fmt.Sprintf("%s answers 'deleted' at a point where the recursive test of the deleter is not known to have returned false: a delete claim that was itself deleted (undelete) would still count", FuncKey(fn)))
			return
		}
	}
	if nTrue == 0 {
		r.Violation("A-deleted", construct, site, fmt.Sprintf("%s never answers true", FuncKey(fn)))
		return
	}
	r.OK("A-deleted", construct, site, fmt.Sprintf("%d recursive call(s) on the deleter selected by the argument; %d `return true` all on the recursive call's false edge", len(recs), nTrue))
}

// ---------------------------------------------------------------------------
// A-order

func c07RuleOrder(cx *c07Ctx, r *Reporter, folds []*c07Fold) {
	p := cx.p
	// step folds: apply ONE claim (a parameter) to a cache, no time input
	var steps []*c07Fold
	for _, f := range folds {
		if !c07IsParam(f.handle) {
			continue
		}
		hasTime := false
		for _, prm := range f.fn.Params {
			if c07IsTimeType(prm.Type()) {
				hasTime = true
			}
		}
		if !hasTime && f.fn.Signature.Recv() != nil && NamedOf(f.fn.Signature.Recv().Type()) != nil {
			steps = append(steps, f)
		}
	}
	if len(steps) == 0 {
		r.Violation("A-order", "cache-step", "", "no fold step that applies one claim to an attribute cache was found; the cache-maintenance rules have nothing to anchor on")
		r.Floor("A-order", 5)
		return
	}
	isClaimsLoad := func(v ssa.Value) bool {
		_, owner, name, ok := c07FieldRef(v)
		return ok && name == cx.claimsField && types.Identical(owner, cx.pmT)
	}
	lenOfClaims := func(v ssa.Value) bool {
		c, ok := v.(*ssa.Call)
		if !ok {
			return false
		}
		bi, ok := c.Call.Value.(*ssa.Builtin)
		return ok && bi.Name() == "len" && isClaimsLoad(c.Call.Args[0])
	}
	lenMinus := func(v ssa.Value, k int64) bool {
		sub, ok := v.(*ssa.BinOp)
		if !ok || sub.Op != token.SUB || !lenOfClaims(sub.X) {
			return false
		}
		n, ok := ConstInt(sub.Y)
		return ok && n == k
	}
	for _, step := range steps {
		cacheT := NamedOf(step.fn.Signature.Recv().Type())
		holdsCache := func(t types.Type) bool {
			if types.Identical(t, cacheT) {
				return true
			}
			m, ok := t.Underlying().(*types.Map)
			return ok && types.Identical(m.Elem(), cacheT)
		}
		// appliers: the functions calling the step with their own claim parameter
		appliers := map[*ssa.Function]int{} // -> index of the claim parameter
		for _, c := range p.StaticCallers(step.fn) {
			g := c.Fn
			if g.Parent() != nil {
				continue
			}
			for i, a := range c.Args() {
				if prm, ok := originValue(a).(*ssa.Parameter); ok && c07IsClaim(prm.Type()) && prm.Parent() == g {
					for j, q := range g.Params {
						if q == prm {
							appliers[g] = j
						}
					}
				}
				_ = i
			}
		}
		if len(appliers) == 0 {
			r.Undecided("A-order", FuncKey(step.fn)+"#appliers", p.Pos(step.fn.Pos()), "no function passes its own claim parameter to the cache step; cannot find the cache maintenance code")
			continue
		}
		type site struct {
			c    CallSite
			kind string // incremental | rebuild
		}
		var sites []site
		rebuilders := map[*ssa.Function]bool{}
		fixers := map[*ssa.Function]bool{}
		for a, idx := range appliers {
			for _, c := range p.StaticCallers(a) {
				g := TopFunc(c.Fn)
				if g.Pkg != nil && IsTestSupportPkg(RelPkg(g.Pkg.Pkg)) {
					continue
				}
				arg := originValue(c.Args()[idx])
				construct := FuncKey(c.Fn) + "#cache-update"
				ld, ok := arg.(*ssa.UnOp)
				var ia *ssa.IndexAddr
				if ok && ld.Op == token.MUL {
					ia, _ = ld.X.(*ssa.IndexAddr)
				}
				if ia == nil || !isClaimsLoad(ia.X) {
					r.Undecided("A-order", construct, p.Pos(c.Pos()), fmt.Sprintf("%s feeds the attribute cache a claim that is not an element of PermanodeMeta.%s; cannot tell whether date order is respected", FuncKey(c.Fn), cx.claimsField))
					continue
				}
				switch {
				case lenMinus(ia.Index, 1):
					sites = append(sites, site{c, "incremental"})
					fixers[g] = true
				case inLoop(c.Block()):
					sites = append(sites, site{c, "rebuild"})
					rebuilders[g] = true
				default:
					r.Undecided("A-order", construct, p.Pos(c.Pos()), fmt.Sprintf("%s feeds the cache one claim that is neither the last one nor part of a loop over all claims", FuncKey(c.Fn)))
				}
			}
		}
		isFixOrRebuild := func(c CallSite) bool {
			g := c.Callee()
			return g != nil && (fixers[g] || rebuilders[g])
		}
		sort.Slice(sites, func(i, j int) bool {
			return FuncKey(sites[i].c.Fn)+sites[i].kind < FuncKey(sites[j].c.Fn)+sites[j].kind
		})
		for _, s := range sites {
			g := s.c.Fn
			switch s.kind {
			case "rebuild":
				construct := FuncKey(g) + "#rebuild"
				// sorted before folding
				sorted := false
				for _, c := range CallsIn(g, false) {
					cal := c.Callee()
					if cal == nil || cal.Pkg == nil {
						continue
					}
					pk := cal.Pkg.Pkg.Path()
					if !((pk == "sort" && (cal.Name() == "Sort" || cal.Name() == "Stable" || cal.Name() == "Slice" || cal.Name() == "SliceStable")) || (pk == "slices" && strings.HasPrefix(cal.Name(), "Sort"))) {
						continue
					}
					if len(c.Args()) > 0 && c07DependsOn(c.Args()[0], isClaimsLoad) && Precedes(c.Instr, s.c.Instr) {
						sorted = true
					}
				}
				if !sorted {
					r.Violation("A-order", construct, p.Pos(s.c.Pos()), fmt.Sprintf("%s refolds all claims into the attribute cache without sorting PermanodeMeta.%s first: claims that arrived out of date order are applied in arrival order", FuncKey(g), cx.claimsField))
					continue
				}
				// caches reset before folding
				st, _ := cx.pmT.Underlying().(*types.Struct)
				missing := ""
				for i := 0; i < st.NumFields(); i++ {
					if !holdsCache(st.Field(i).Type()) {
						continue
					}
					reset := false
					for _, sto := range cx.storesToField(c07FieldKey(cx.pmT, st.Field(i).Name())) {
						if sto.Parent() != g {
							continue
						}
						if _, fresh := sto.Val.(*ssa.MakeMap); fresh && Precedes(sto, s.c.Instr) {
							reset = true
						}
					}
					if !reset {
						missing = st.Field(i).Name()
					}
				}
				if missing != "" {
					r.Violation("A-order", construct, p.Pos(s.c.Pos()), fmt.Sprintf("%s refolds all claims without first replacing cache field %s by a fresh map: old values survive and add-attribute values are duplicated", FuncKey(g), missing))
					continue
				}
				r.OK("A-order", construct, p.Pos(s.c.Pos()), "the claim list is sorted and every cache field replaced by a fresh map before the loop that refolds all claims")
			case "incremental":
				construct := FuncKey(g) + "#incremental"
				removed := map[c07Edge]bool{}
				var accepted []string
				for _, b := range g.Blocks {
					for _, in := range b.Instrs {
						switch x := in.(type) {
						case *ssa.BinOp:
							n, ok := ConstInt(x.Y)
							if !ok || !lenOfClaims(x.X) {
								continue
							}
							fewTrue := (x.Op == token.LSS && n <= 2) || (x.Op == token.LEQ && n <= 1) || (x.Op == token.EQL && n <= 1)
							fewFalse := (x.Op == token.GEQ && n <= 2) || (x.Op == token.GTR && n <= 1)
							for _, e := range c07IfEdges(g, func(v ssa.Value) bool { return v == ssa.Value(x) }) {
								if fewTrue {
									removed[e] = true
									accepted = append(accepted, "fewer than two claims")
								} else if fewFalse {
									removed[c07Other(e)] = true
									accepted = append(accepted, "fewer than two claims")
								}
							}
						case *ssa.Call:
							cs := CallSite{g, x}
							if cs.MethodName() != "Less" || cs.Callee() == nil {
								continue
							}
							args := cs.Args()
							if len(args) != 3 || !c07DependsOn(args[0], isClaimsLoad) || !lenMinus(args[1], 2) || !lenMinus(args[2], 1) {
								continue
							}
							if !IsNamed(cs.RecvType(), c07CamtypesPath, "ClaimPtrsByDate") {
								continue
							}
							for _, e := range c07IfEdges(g, func(v ssa.Value) bool { return v == ssa.Value(x) }) {
								removed[e] = true
								accepted = append(accepted, "ClaimPtrsByDate.Less(n-2, n-1)")
							}
						}
					}
				}
				if c07Reach(g.Blocks[0], s.c.Block(), removed) {
					r.Violation("A-order", construct, p.Pos(s.c.Pos()), fmt.Sprintf("%s applies only the last claim to the attribute cache on a path where it is not known that the last two claims are in date order (accepted edges found: %v): a claim arriving with an older date is applied after newer ones", FuncKey(g), c07Uniq(accepted)))
					continue
				}
				leaks := LeakingExits(PathQuery{
					Start: g.Blocks[0].Instrs[0],
					Stop: func(in ssa.Instruction) bool {
						ci, ok := in.(ssa.CallInstruction)
						if !ok {
							return false
						}
						c := CallSite{g, ci}
						if cal := c.Callee(); cal != nil {
							if _, isApplier := appliers[cal]; isApplier || rebuilders[cal] {
								return true
							}
						}
						return false
					},
					IgnorePanics: true,
				})
				if len(leaks) > 0 {
					r.Violation("A-order", construct, p.Pos(leaks[0].Exit.Pos()), fmt.Sprintf("%s can return without either applying the last claim or rebuilding the cache", FuncKey(g)))
					continue
				}
				r.OK("A-order", construct, p.Pos(s.c.Pos()), fmt.Sprintf("the last claim alone is applied only behind %v; every other path rebuilds", c07Uniq(accepted)))
			}
		}
		// every growth of the claim list is followed by a fix-up unless building
		buildingFlags := map[string]bool{}
		for _, sto := range cx.storesToField(c07FieldKey(cx.pmT, cx.claimsField)) {
			g := sto.Parent()
			if g.Pkg != nil && IsTestSupportPkg(RelPkg(TopFunc(g).Pkg.Pkg)) {
				continue
			}
			construct := FuncKey(g) + "#claims-append"
			if rebuilders[TopFunc(g)] {
				r.OKTable("A-order", construct, p.Pos(sto.Pos()), "store inside the cache rebuild itself")
				continue
			}
			leaks := LeakingExits(PathQuery{
				Start: sto,
				Stop: func(in ssa.Instruction) bool {
					ci, ok := in.(ssa.CallInstruction)
					return ok && isFixOrRebuild(CallSite{g, ci})
				},
				Assume: func(cond ssa.Value) (bool, bool) {
					_, owner, name, ok := c07FieldRef(cond)
					if !ok {
						return false, false
					}
					if b, isBool := cond.Type().Underlying().(*types.Basic); !isBool || b.Kind() != types.Bool {
						return false, false
					}
					buildingFlags[c07FieldKey(owner, name)] = true
					return true, false // checked below: the flag is cleared only after a rebuild of every permanode
				},
				IgnorePanics: true,
			})
			if len(leaks) > 0 {
				r.Violation("A-order", construct, p.Pos(leaks[0].Exit.Pos()), fmt.Sprintf("%s stores a new claim list into PermanodeMeta.%s and can return without a cache fix-up (fixupLastClaim/restoreInvariants): the cached attributes miss the claim, or Claims is left unsorted", FuncKey(g), cx.claimsField))
				continue
			}
			r.OK("A-order", construct, p.Pos(sto.Pos()), "every path from the store to an exit calls the cache fix-up, or runs with the bulk-load flag set")
		}
		var flags []string
		for k := range buildingFlags {
			flags = append(flags, k)
		}
		sort.Strings(flags)
		for _, k := range flags {
			n := 0
			for _, sto := range cx.storesToField(k) {
				cv, ok := sto.Val.(*ssa.Const)
				if !ok || cv.Value == nil || cv.Value.Kind() != constant.Bool || constant.BoolVal(cv.Value) {
					continue
				}
				n++
				g := sto.Parent()
				construct := FuncKey(g) + "#" + k + "-cleared"
				// dominated by a range loop over *PermanodeMeta values whose body rebuilds the ranged value
				ok = false
				for _, c := range CallsIn(g, false) {
					cal := c.Callee()
					if cal == nil || !rebuilders[cal] {
						continue
					}
					ex, isEx := originValue(c.Args()[0]).(*ssa.Extract)
					if !isEx {
						continue
					}
					nx, isNext := ex.Tuple.(*ssa.Next)
					if !isNext {
						continue
					}
					if nx.Block().Dominates(sto.Block()) && nx.Block() != sto.Block() {
						ok = true
					}
				}
				r.Check(ok, "A-order", construct, p.Pos(sto.Pos()),
					"the bulk-load flag is cleared only after the loop that rebuilds the cache of every permanode",
					fmt.Sprintf("%s clears bulk-load flag %s without a preceding loop that rebuilds every permanode's cache: claims appended while the flag was set are never sorted nor folded", FuncKey(g), k))
			}
			if n == 0 {
				r.Violation("A-order", k+"-cleared", "", fmt.Sprintf("flag %s lets claim appends skip the cache fix-up but is never cleared", k))
			}
		}
	}
	// today: restoreInvariants#rebuild, fixupLastClaim#incremental, mergeClaimRow#claims-append, scanFromStorage#...building-cleared
	r.Floor("A-order", 4)
}
