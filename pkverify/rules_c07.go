package main

import (
	"fmt"
	"go/constant"
	"go/token"
	"go/types"
	"sort"
	"strings"

	"golang.org/x/tools/go/ssa"
)

func init() {
	register(&PropSpec{
		ID:    "C07",
		Title: "Permanode attributes and deletions follow the documented claim semantics",
		Explanation: "Decided (structural necessary conditions, over every claim fold = every function that compares the Type field of a camtypes.Claim with the schema set/add/del-attribute constants, found by type, not by name). " +
			"Effective bodies: every clause looks for its tests, calls and stores in the EFFECTIVE body of a function, not in its text: a fold is named after the unique function in which the folded claims originate as something other than a parameter when all static call chains from the switch lead to that one function (a switch or loop moved into a helper keeps its name), else after the outermost pure delegate above the switch, else after the function holding the switch; a skip test (claim newer than the query time, claim deleted, last two claims in date order) may sit in a boolean helper or literal the claim is handed to - the helper's result X counts as the skip when every return that may yield X is unreachable in the helper without the establishing edge (depth 3); a fold that applies ONE claim handed in as a parameter is bounded by time / filtered for deletion at each of its static call sites, followed upward through callers that pass their own parameter on (depth 4); 'P precedes the site' also holds when P is performed on every path of a helper called before the site, or before every static call of the helper holding the site (depth 3); 'a fix-up follows' also holds through a called function that performs one on each of its paths, and for a store inside a helper on the paths after each of the helper's static calls. " +
			"Clauses: " +
			"A-fold (i) each fold handles all three claim types and its del-attribute case distinguishes the empty value (delete all) from a specific value; " +
			"(iv, #del-removes-all) in each fold, the arm of the del-attribute case run for a del WITH a value (the blocks dominated by the not-empty edge of the emptiness test; the whole case when that is no separate region) removes EVERY element equal to the claim's Value from the list that leaves the arm (slice values defined in the arm that reach a phi outside it, a map entry, a variable or a return; a module helper returning the list is followed into its body). Accepted, decided per header-to-header path of the loop with the counter's next value computed as counter + constant: filter loops (append(kept, e) or list[w] = e; w++ with result list[:w]) whose read counter advances by exactly one on every path, that keep an element only on an edge where it is known != Value and drop it only where it is known == Value, start at the first element with an empty kept list / write counter 0, are bounded by len(list) and are left only at that bound; in-place removal loops (slices.Delete(l,i,i+1), append(l[:i], l[i+1:]...), copy-down + re-slice at the compared index) in which the path that removed the element at index i re-enters the header with the counter still at i (i-- before i++, or continue past the increment) while keeping paths advance by one, or which count down; slices.DeleteFunc with an `e == Value` predicate. Violations: the counter advances to i+1 after a removal at i (the element that slid into slot i is never compared), the loop is left on the path where an equal element was found, an element known equal is kept / one known different is dropped, a single element is removed outside a loop carrying the list, the valued arm empties the list. A fold whose del arm produces no list at all (PermanodeHasAttrValue's boolean, pnCamliContent's single ref) is exempt. Anything else in the arm is undecided. " +
			"(ii) each fold that has a query time available skips (continue/break) every claim whose Date is After that time on every path to the type switch, except paths on which the time is known zero; the test may also be written at.Before(claim.Date); a fold that applies one claim handed in by its callers is checked at every static call instead (the call must lie behind the skip in the caller; a caller with a query time and no skip is a violation); where such a chain ends in code that has no time at all the fold builds a cache (its type: the named map type of the step's receiver or parameter) and is accepted only because every function that hands out that cache together with a time parameter returns it solely under {time is zero, no claims, or the LAST claim is not After the time}, and the cache fields are read by no other function (comparing the field with nil, len and insertion read nothing out; functions on the call chain to the step that are methods of the owning struct / cache type or return nothing but errors are the builders); " +
			"(iii) the claims folded exclude claims that were themselves deleted: an IsDeleted(claim.BlobRef) skip lies on every path to the switch, or every source the folded claims are traced back to (through parameters to all static callers, struct fields to all their stores, call results to the callee's returns) is the result of an AppendClaims method or a filtering append guarded by such a skip; every AppendClaims method appends a claim only behind an IsDeleted(claim.BlobRef) skip - the appends are those of the method and of the module helpers / literals returning a claim list that it calls (depth 3), the skip may sit at the helper's call for a claim passed as parameter. A source that is the raw PermanodeMeta.Claims list is a violation (defect F13, see known_findings.json). " +
			"A-deleted: each IsDeleted implementation recurses on the DELETER of each deletion record selected by its argument and answers true only where that recursive call returned false (a deleted delete claim does not count); Index.IsDeleted returns only such a core applied to its own argument. " +
			"A-order (sites found by role, not by name: a call handing element len-1 of PermanodeMeta.Claims to the cache step or to a function passing its own claim parameter on to it is an incremental update, such a call inside a loop over Claims is a rebuild): every incremental update is reached only over an edge on which the last two claims are known to be in date order (or fewer than two exist), in its function or at every static call of it when it is a helper; the rebuild sorts Claims and replaces every cache field by a fresh map before refolding; every store to PermanodeMeta.Claims is followed on every path to an exit by a fix-up (an incremental/rebuild site, or a call of a function every path of which performs one) unless the corpus is still building, and the bulk-load flag is cleared only after a loop rebuilding every permanode. That a function holding an incremental site also rebuilds on its other paths is no longer a separate obligation: it is decided where the claim list grows. " +
			"A-own (storage ownership of the attribute caches; the cache type is found by type as the named map-of-slices receiver of the one-claim fold step; a 'cache map' is any value of that type or reached from one through conversions, variables, parameters, results and struct fields, module-wide): " +
			"(in-place-updates) the writes of entry storage in place are enumerated from SSA - element stores through, append onto, copy into or clear of a slice read from a cache map (also inside callees, stdlib generic bodies included) where the slice goes back under the same map and key; the sharing clauses below are enforced only when at least one exists (today: the del-attribute filter and the add-attribute append in cacheAttrClaim). " +
			"(entry-store) for every m[k] = x on a cache map, x traced backward through re-slices, conversions, phis, variables, append's first operand, callee returns (bodies followed, with parameters mapped to the call's arguments) and parameters to all static callers consists only of fresh storage (make, a slice of a new array / composite literal, nil, a zero-capacity slice) and of the previous value of the SAME map and key; reaching an entry of a different cache map, or of another key, without an intervening allocation is a violation (re-slicing, slices.Clip, full slice expressions, helper functions do not allocate). " +
			"(cached-slice-use) every slice read from a cache map (lookup or range), followed forward through aliases, variables, callee parameters (bodies followed) and results of unexported functions to all static callers, is only read (len, element loads, copied out as append's/copy's source, fmt/log operand) or updated and stored back under its own key; returning it from an exported function, storing it in a field, global, other map or channel, handing it to a goroutine, or writing it in place elsewhere is a violation; code without a body is undecided. " +
			"(holder-store) every store of a cache map into a field of the cache type or into a map of caches stores a map made by make (or nil), or shares another holder's map only on paths where the receiving map of caches is known empty (a len == 0 edge): the single-signer sharing of pm.attr. " +
			"(apply-once) where one claim is applied to a field-held cache map and to an entry of a map of caches, the two applications cannot both run unless that map is known to hold at least two entries. " +
			"(cache-map-flow) no cache map is returned by an exported function, stored in a package variable, shallow-copied with maps.Clone, sent on a channel; conversion to an interface (other than as a fmt/log operand), dynamic calls and code without a body are undecided. " +
			"NOT decided: the folded values themselves for any concrete history (of the fold arms only the valued del is checked element by element; that the list being filtered is the accumulator's previous value, and set/add, are not) (e.g. duplicate handling of add-attribute differs between Describe and the corpus and is not compared), that Claims really is sorted (only that sort/Less are called), URL-escaping of values, signer filtering, equality of answers between index rows and corpus for any concrete input, anything about future-dated claims when the query time is zero. For A-own: that a fresh slice stored into a cache holds the right elements (only that its storage is unshared); that the first signer's entry really is replaced by the copy on every path before a second signer's entry is added (only what is stored, and where sharing is allowed, is checked); aliasing through reflect/unsafe; a field re-assigned between two reads that have the same access path; what callers outside the module do with values they were given.",
		RuleDocs: map[string]string{
			"A-fold":    "sibling rule over every function comparing camtypes.Claim.Type with the set/add/del-attribute constants: (i) exhaustive + del distinguishes empty value, (iv #del-removes-all) the valued-del arm's filter / in-place removal loop / slices.DeleteFunc examines every element and removes every one equal to the claim's value (after a removal at index i the loop counter must still be i), (ii) bounded by the query time in the fold, in a boolean helper, or at every static call of a one-claim helper (or cache handed out only when valid for the time), (iii) deleted claims excluded in the fold or at every traced claim source; AppendClaims methods (and the helpers they build their result with) append only behind an IsDeleted skip. Folds are named after the function where the claims originate, so moving the switch or loop into a helper keeps the construct",
			"A-deleted": "every IsDeleted core recurses on the deleter selected by its argument and returns true only on the recursive call's false edge; the Index.IsDeleted dispatcher returns a core applied to its own argument",
			"A-own":     "ownership of cache storage, given that entries are updated in place (enumerated from SSA): every m[k]=x on a cache map stores fresh storage or the same entry's own previous slice, never (a re-slice/Clip/conversion of) an entry of another cache or key; slices read from a cache are only read or stored back under their own key, never returned by exported functions, kept in fields/globals/other maps or written elsewhere; a cache map is stored into a second holder only fresh or while the map of caches is empty; one claim is not applied to a field-held map and a map-of-caches entry unless >= 2 entries are known; cache maps do not leave the package's unexported code",
			"A-order":   "the attribute cache is updated incrementally (a call handing Claims[len-1] to the cache step) only over an edge where the last two claims are in date order, in the function or at all static calls of a helper; the rebuild loop is preceded by a sort of Claims and a fresh map for every cache field (helpers followed both ways); every store to PermanodeMeta.Claims is followed on all paths by such a site or a call of a function that always performs one, unless building; the bulk-load flag is cleared only after rebuilding every permanode",
		},
		Run:       runC07,
		DesignRef: "DESIGN.md §4 C07",
		Technique: "static analysis: sibling comparison of all claim folds found by type; inter-procedural effective bodies (guard tests summarised through boolean helpers per result polarity, one-claim folds checked at their static call sites, precedence and fix-up facts carried across helper calls in both directions); for the valued del arm, enumeration of every acyclic header-to-header and header-to-exit path of the removal loop with phis resolved along the path, loop counters and slice bounds evaluated as counter + constant, branch facts `element ==/!= claim.Value` collected per path, and classification of the loop-carried list's next value (unchanged / append of the compared element / removal at the compared index); CFG reachability with guard edges removed (time bound, deleted-claim skip, cache validity); inter-procedural back-tracing of the folded claims to their sources through parameters, struct-field stores and call results; dominance facts on recursive IsDeleted calls; for A-own a module-wide forward value-flow of cache maps (by type, through conversions, variables, fields, parameters, results), backward slicing of every stored entry value to its allocation sites and forward escape analysis of every entry read, both inter-procedural with callee bodies (including instantiated stdlib generics) followed and summarised",
		LevelText: "Decides structural necessary conditions only: every attribute-claim fold in the tree treats set/add/del alike in shape, removes in its del-with-value arm every element equal to the claim's value (each element is compared exactly once, also the one that slides into a slot just vacated), is bounded by the query time, and excludes deleted claims either itself or at its claim sources; the attribute cache is only handed out when no claim is newer than the query time and is rebuilt when claims arrive out of date order; deletion tests recurse on the deleter; the storage of a cached attribute slice has exactly one owner (one map, one key), so the in-place update of one signer's or the all-signers cache cannot change another cache or a value already handed to a caller. It does not decide the attribute values for any concrete claim history, nor equality of the index-row and corpus answers.",
	})
}

func runC07(p *Program, r *Reporter) {
	cx := c07NewCtx(p)
	folds := c07FindFolds(cx)
	r.Analysed("functions", len(p.AllFuncs))
	r.Analysed("claim_folds", len(folds))
	c07RuleFold(cx, r, folds)
	c07RuleAppendClaims(cx, r)
	c07RuleDeleted(cx, r)
	c07RuleOrder(cx, r, folds)
	c07RuleOwn(cx, r, folds)
}

// ---------------------------------------------------------------------------
// context

const c07CamtypesPath = modPrefix + "pkg/types/camtypes"

type c07Ctx struct {
	p     *Program
	kinds map[string]string // constant value of schema.{Set,Add,Del}AttributeClaim -> "set" | "add" | "del"
	// stores to struct fields, module wide, keyed by c07FieldKey
	fieldStores map[string][]*ssa.Store
	pmT         *types.Named // index.PermanodeMeta
	tg, dg, og  *c07Guard    // time / deleted-claim / date-order guards
	claimsField string       // name of the []*camtypes.Claim field of PermanodeMeta
}

func c07NewCtx(p *Program) *c07Ctx {
	cx := &c07Ctx{p: p, kinds: map[string]string{}}
	sc := p.Pkg("pkg/schema").Types.Scope()
	for name, kind := range map[string]string{"SetAttributeClaim": "set", "AddAttributeClaim": "add", "DelAttributeClaim": "del"} {
		c, ok := sc.Lookup(name).(*types.Const)
		if !ok || c.Val().Kind() != constant.String {
			brokenf("anchor unresolved: constant pkg/schema.%s", name)
		}
		cx.kinds[constant.StringVal(c.Val())] = kind
	}
	if len(cx.kinds) != 3 {
		brokenf("anchor unresolved: the three attribute claim type constants are not distinct")
	}
	cx.pmT = p.NamedType("pkg/index", "PermanodeMeta")
	st, ok := cx.pmT.Underlying().(*types.Struct)
	if !ok {
		brokenf("anchor unresolved: pkg/index.PermanodeMeta is not a struct")
	}
	for i := 0; i < st.NumFields(); i++ {
		if c07IsClaimSlice(st.Field(i).Type()) {
			if cx.claimsField != "" {
				brokenf("anchor unresolved: PermanodeMeta has more than one claim-list field")
			}
			cx.claimsField = st.Field(i).Name()
		}
	}
	if cx.claimsField == "" {
		brokenf("anchor unresolved: PermanodeMeta has no []*camtypes.Claim field")
	}
	return cx
}

func c07IsClaim(t types.Type) bool { return IsNamed(t, c07CamtypesPath, "Claim") }

func c07IsClaimSlice(t types.Type) bool {
	s, ok := t.Underlying().(*types.Slice)
	return ok && c07IsClaim(s.Elem())
}

func c07IsTimeType(t types.Type) bool {
	return IsNamed(t, "time", "Time") || IsNamed(t, "go4.org/types", "Time3339")
}

func c07Deref(t types.Type) types.Type {
	if pt, ok := t.Underlying().(*types.Pointer); ok {
		return pt.Elem()
	}
	return t
}

// c07FieldRef recognises a read of a struct field: a load through a FieldAddr
// or a Field of a struct value. base is the struct (pointer or value).
func c07FieldRef(v ssa.Value) (base ssa.Value, owner types.Type, name string, ok bool) {
	for i := 0; i < 8; i++ {
		switch x := v.(type) {
		case *ssa.ChangeType:
			v = x.X
			continue
		case *ssa.Convert:
			v = x.X
			continue
		case *ssa.UnOp:
			if x.Op != token.MUL {
				return nil, nil, "", false
			}
			if fa, isFA := x.X.(*ssa.FieldAddr); isFA {
				return fa.X, c07Deref(fa.X.Type()), fieldName(fa.X.Type(), fa.Field), true
			}
			o := originValue(x)
			if o == ssa.Value(x) {
				return nil, nil, "", false
			}
			v = o
			continue
		case *ssa.Field:
			return x.X, x.X.Type(), fieldName(x.X.Type(), x.Field), true
		}
		break
	}
	return nil, nil, "", false
}

// c07ClaimField: v reads field `name` of a camtypes.Claim; returns the claim handle.
func c07ClaimField(v ssa.Value, name string) (handle ssa.Value, ok bool) {
	base, owner, n, ok := c07FieldRef(v)
	if !ok || n != name || !c07IsClaim(owner) {
		return nil, false
	}
	return originValue(base), true
}

func c07FieldKey(owner types.Type, name string) string { return typeKey(c07Deref(owner)) + "." + name }

func (cx *c07Ctx) storesToField(key string) []*ssa.Store {
	if cx.fieldStores == nil {
		cx.fieldStores = map[string][]*ssa.Store{}
		for _, f := range cx.p.AllFuncs {
			for _, b := range f.Blocks {
				for _, in := range b.Instrs {
					st, ok := in.(*ssa.Store)
					if !ok {
						continue
					}
					if fa, ok := st.Addr.(*ssa.FieldAddr); ok {
						k := c07FieldKey(fa.X.Type(), fieldName(fa.X.Type(), fa.Field))
						cx.fieldStores[k] = append(cx.fieldStores[k], st)
					}
				}
			}
		}
	}
	return cx.fieldStores[key]
}

// ---------------------------------------------------------------------------
// CFG helpers: reachability with guard edges removed

type c07Edge struct {
	b    *ssa.BasicBlock
	succ int
}

// c07IfEdges finds the If terminators whose condition is (a negation chain
// over) a value satisfying match and returns, per If, the successor index
// taken when the matched value is TRUE.
func c07IfEdges(fn *ssa.Function, match func(ssa.Value) bool) []c07Edge {
	var out []c07Edge
	for _, b := range fn.Blocks {
		if len(b.Instrs) == 0 || len(b.Succs) != 2 {
			continue
		}
		ifi, ok := b.Instrs[len(b.Instrs)-1].(*ssa.If)
		if !ok {
			continue
		}
		cond, pos := ifi.Cond, true
		for {
			if u, ok := cond.(*ssa.UnOp); ok && u.Op == token.NOT {
				cond, pos = u.X, !pos
				continue
			}
			break
		}
		if match(cond) || match(originValue(cond)) {
			if pos {
				out = append(out, c07Edge{b, 0})
			} else {
				out = append(out, c07Edge{b, 1})
			}
		}
	}
	return out
}

func c07Other(e c07Edge) c07Edge { return c07Edge{e.b, 1 - e.succ} }

// c07Reach reports whether target is reachable from start without taking a
// removed edge.
func c07Reach(start, target *ssa.BasicBlock, removed map[c07Edge]bool) bool {
	if start == target {
		return true
	}
	seen := map[*ssa.BasicBlock]bool{start: true}
	work := []*ssa.BasicBlock{start}
	for len(work) > 0 {
		b := work[len(work)-1]
		work = work[:len(work)-1]
		for i, s := range b.Succs {
			if removed[c07Edge{b, i}] || seen[s] {
				continue
			}
			if s == target {
				return true
			}
			seen[s] = true
			work = append(work, s)
		}
	}
	return false
}

// c07DefBlock is the block where the per-iteration claim handle is defined
// (function entry for parameters).
func c07DefBlock(fn *ssa.Function, handle ssa.Value) *ssa.BasicBlock {
	if in, ok := handle.(ssa.Instruction); ok && in.Parent() == fn && in.Block() != nil {
		if al, isAlloc := handle.(*ssa.Alloc); isAlloc {
			// a per-iteration copy: start where it is (first) stored
			for _, st := range storesTo(al) {
				if st.Parent() == fn {
					return st.Block()
				}
			}
		}
		return in.Block()
	}
	return fn.Blocks[0]
}

// c07DependsOn is DependsOn that also follows stores into elements/fields of a
// local aggregate (varargs arrays, composite literals).
func c07DependsOn(v ssa.Value, target func(ssa.Value) bool) bool {
	seen := map[ssa.Value]bool{}
	var walk func(v ssa.Value, d int) bool
	walk = func(v ssa.Value, d int) bool {
		if v == nil || seen[v] || d > 80 {
			return false
		}
		seen[v] = true
		if target(v) {
			return true
		}
		switch x := v.(type) {
		case *ssa.UnOp:
			if x.Op == token.MUL {
				if cell, ok := varOf(x.X); ok {
					for _, st := range storesTo(cell) {
						if walk(st.Val, d+1) {
							return true
						}
					}
				}
			}
		case *ssa.Alloc:
			if refs := x.Referrers(); refs != nil {
				for _, r := range *refs {
					switch a := r.(type) {
					case *ssa.IndexAddr, *ssa.FieldAddr:
						if ar := a.(ssa.Value).Referrers(); ar != nil {
							for _, u := range *ar {
								if st, ok := u.(*ssa.Store); ok && st.Addr == a.(ssa.Value) && walk(st.Val, d+1) {
									return true
								}
							}
						}
					case *ssa.Store:
						if a.Addr == ssa.Value(x) && walk(a.Val, d+1) {
							return true
						}
					}
				}
			}
		}
		if in, ok := v.(ssa.Instruction); ok {
			for _, op := range in.Operands(nil) {
				if *op != nil && walk(*op, d+1) {
					return true
				}
			}
		}
		return false
	}
	return walk(v, 0)
}

// ---------------------------------------------------------------------------
// fold enumeration

type c07Fold struct {
	fn     *ssa.Function
	handle ssa.Value               // the claim (pointer, local copy, or struct value) whose Type is switched on
	cmps   map[string][]*ssa.BinOp // "set"/"add"/"del" -> comparisons
	head   *ssa.BasicBlock         // comparison block dominating all other comparisons
	key    string                  // FuncKey of the owner (+ ordinal when a function owns several folds)
	owner  *ssa.Function           // the function the fold is named after (see foldOwner)
}

func c07FindFolds(cx *c07Ctx) []*c07Fold {
	var out []*c07Fold
	for _, fn := range cx.p.AllFuncs {
		if fn.Pkg == nil || IsTestSupportPkg(RelPkg(fn.Pkg.Pkg)) {
			continue
		}
		var local []*c07Fold
		for _, b := range fn.Blocks {
			for _, in := range b.Instrs {
				bo, ok := in.(*ssa.BinOp)
				if !ok || (bo.Op != token.EQL && bo.Op != token.NEQ) {
					continue
				}
				for _, pair := range [][2]ssa.Value{{bo.X, bo.Y}, {bo.Y, bo.X}} {
					s, ok := ConstString(pair[1])
					if !ok {
						continue
					}
					kind, ok := cx.kinds[s]
					if !ok {
						continue
					}
					h, ok := c07ClaimField(pair[0], "Type")
					if !ok {
						continue
					}
					var f *c07Fold
					for _, x := range local {
						if x.handle == h {
							f = x
						}
					}
					if f == nil {
						f = &c07Fold{fn: fn, handle: h, cmps: map[string][]*ssa.BinOp{}}
						local = append(local, f)
					}
					f.cmps[kind] = append(f.cmps[kind], bo)
				}
			}
		}
		for _, f := range local {
			var blocks []*ssa.BasicBlock
			for _, cs := range f.cmps {
				for _, c := range cs {
					blocks = append(blocks, c.Block())
				}
			}
			for _, cand := range blocks {
				all := true
				for _, o := range blocks {
					if o != cand && !cand.Dominates(o) {
						all = false
					}
				}
				if all {
					f.head = cand
					break
				}
			}
			out = append(out, f)
		}
	}
	// name each fold after its owner (see foldOwner); several folds of one owner are numbered
	sort.SliceStable(out, func(i, j int) bool { return FuncKey(out[i].fn) < FuncKey(out[j].fn) })
	perOwner := map[string]int{}
	for _, f := range out {
		f.owner = cx.foldOwner(f)
		f.key = FuncKey(f.owner)
		perOwner[f.key]++
		if n := perOwner[f.key]; n > 1 {
			f.key = fmt.Sprintf("%s@fold%d", f.key, n)
		}
	}
	sort.SliceStable(out, func(i, j int) bool { return out[i].key < out[j].key })
	return out
}

// ---------------------------------------------------------------------------
// A-fold

func c07RuleFold(cx *c07Ctx, r *Reporter, folds []*c07Fold) {
	p := cx.p
	for _, f := range folds {
		site := p.Pos(f.fn.Pos())
		if f.head == nil {
			r.Undecided("A-fold", f.key+"#types", site, "the comparisons of the claim type are not dominated by one of them; cannot locate the head of the switch")
			continue
		}
		site = p.Pos(c07FirstPos(f))
		c07FoldTypes(cx, r, f, site)
		c07FoldDelAll(cx, r, f, site)
		c07FoldTime(cx, r, f, site)
		c07FoldDeleted(cx, r, f, site)
	}
	// today: claimsIntfAttrValue, attrValues.cacheAttrClaim, AppendPermanodeAttrValues,
	// PermanodeHasAttrValue, pnCamliContent (pkg/index) and DescribeRequest.populatePermanodeFields
	// (pkg/search): 6 folds x 4 clauses, plus per-source obligations, the cache consumer and readers,
	// and 2 AppendClaims methods.
	r.Floor("A-fold", 30)
}

func c07FirstPos(f *c07Fold) token.Pos {
	for _, in := range f.head.Instrs {
		if in.Pos().IsValid() {
			return in.Pos()
		}
	}
	return f.fn.Pos()
}

// clause (i)
func c07FoldTypes(cx *c07Ctx, r *Reporter, f *c07Fold, site string) {
	var problems []string
	var missing []string
	for _, k := range []string{"set", "add", "del"} {
		if len(f.cmps[k]) == 0 {
			missing = append(missing, k+"-attribute")
		}
	}
	construct := f.key + "#types"
	if len(missing) > 0 {
		problems = append(problems, fmt.Sprintf("no case for %s: claims of that type are ignored here while the sibling folds apply them", strings.Join(missing, ", ")))
	}
	// the del case must test the claim's Value against "" (or its length against 0)
	for _, cmp := range f.cmps["del"] {
		body := c07TrueSucc(cmp)
		if body == nil {
			r.Undecided("A-fold", construct, site, "(i) the del-attribute comparison does not feed a branch; cannot find the del case")
			return
		}
		if !c07TestsEmptyValue(f, body) {
			problems = append(problems, "the del-attribute case never tests the claim's Value for emptiness: 'delete all values' (empty Value) and 'delete this one value' are not distinguished as the sibling folds and doc/schema do")
			break
		}
	}
	if len(problems) > 0 {
		r.Violation("A-fold", construct, site, fmt.Sprintf("(i) fold over claim types in %s: %s", FuncKey(f.fn), strings.Join(problems, "; ")))
		return
	}
	r.OK("A-fold", construct, site, "(i) set-, add- and del-attribute are all handled; the del case tests Value for emptiness")
}

// c07TrueSucc returns the block entered when the comparison says "type is K".
func c07TrueSucc(cmp *ssa.BinOp) *ssa.BasicBlock {
	fn := cmp.Parent()
	for _, e := range c07IfEdges(fn, func(v ssa.Value) bool { return v == ssa.Value(cmp) }) {
		if cmp.Op == token.NEQ {
			e = c07Other(e)
		}
		return e.b.Succs[e.succ]
	}
	return nil
}

func c07TestsEmptyValue(f *c07Fold, body *ssa.BasicBlock) bool {
	isValue := func(v ssa.Value) bool {
		h, ok := c07ClaimField(v, "Value")
		return ok && h == f.handle
	}
	// blocks of the del case: reachable from body without passing the head again
	region := map[*ssa.BasicBlock]bool{body: true}
	work := []*ssa.BasicBlock{body}
	for len(work) > 0 {
		b := work[len(work)-1]
		work = work[:len(work)-1]
		for _, s := range b.Succs {
			if s == f.head || region[s] || !f.head.Dominates(s) {
				continue
			}
			region[s] = true
			work = append(work, s)
		}
	}
	for b := range region {
		for _, in := range b.Instrs {
			bo, ok := in.(*ssa.BinOp)
			if !ok {
				continue
			}
			for _, pair := range [][2]ssa.Value{{bo.X, bo.Y}, {bo.Y, bo.X}} {
				if s, ok := ConstString(pair[1]); ok && s == "" && isValue(pair[0]) {
					return true
				}
				if n, ok := ConstInt(pair[1]); ok && (n == 0 || n == 1) {
					if c, ok := pair[0].(*ssa.Call); ok {
						if bi, ok := c.Call.Value.(*ssa.Builtin); ok && bi.Name() == "len" && isValue(c.Call.Args[0]) {
							return true
						}
					}
				}
			}
		}
	}
	return false
}

// clause (ii)

// c07TimeInputOf: v is a time the function was given: a time parameter, or a
// time field of a struct other than a claim.
func c07TimeInput(v ssa.Value) bool {
	switch x := v.(type) {
	case *ssa.Parameter:
		return c07IsTimeType(x.Type())
	case *ssa.FreeVar:
		return c07IsTimeType(c07Deref(x.Type()))
	case *ssa.FieldAddr:
		return c07IsTimeType(c07Deref(x.Type())) && !c07IsClaim(c07Deref(x.X.Type()))
	case *ssa.Field:
		return c07IsTimeType(x.Type()) && !c07IsClaim(x.X.Type())
	}
	return false
}

// c07HasTime: a query time is available to fn (parameter, receiver field; for
// a literal also what its enclosing functions have).
func c07HasTime(fn *ssa.Function) bool {
	for g := fn; g != nil; g = g.Parent() {
		for _, prm := range g.Params {
			if c07IsTimeType(prm.Type()) {
				return true
			}
		}
		if recv := g.Signature.Recv(); recv != nil {
			if st, ok := c07Deref(recv.Type()).Underlying().(*types.Struct); ok {
				for i := 0; i < st.NumFields(); i++ {
					if c07IsTimeType(st.Field(i).Type()) {
						return true
					}
				}
			}
		}
	}
	return false
}

// timeGuard: the skip of claims newer than the query time. Primitive tests:
// claim.Date.After(at) / at.Before(claim.Date) (established when false) and
// at.IsZero() (paths on which the time is known zero are unbounded by design).
func (cx *c07Ctx) timeGuard() *c07Guard {
	if cx.tg != nil {
		return cx.tg
	}
	cx.tg = &c07Guard{needHandle: true}
	cx.tg.prims = func(fn *ssa.Function, handle ssa.Value) []c07Test {
		var out []c07Test
		nDate := 0
		for _, c := range CallsIn(fn, false) {
			call := c.Value()
			if call == nil {
				continue
			}
			args := c.Args()
			switch {
			case c.IsStatic("time", "Time", "After") && len(args) == 2:
				if h, ok := c07ClaimField(args[0], "Date"); ok && h == handle && c07DependsOn(args[1], c07TimeInput) {
					out = append(out, c07Test{call, false})
					nDate++
				}
			case c.IsStatic("time", "Time", "Before") && len(args) == 2:
				if h, ok := c07ClaimField(args[1], "Date"); ok && h == handle && c07DependsOn(args[0], c07TimeInput) {
					out = append(out, c07Test{call, false})
					nDate++
				}
			}
		}
		if nDate == 0 {
			return nil
		}
		for _, c := range CallsIn(fn, false) {
			call := c.Value()
			if call == nil {
				continue
			}
			if n := c.MethodName(); n != "IsZero" && n != "IsAnyZero" {
				continue
			}
			args := c.Args()
			if len(args) == 1 && c07IsTimeType(c07Deref(args[0].Type())) && c07DependsOn(args[0], c07TimeInput) {
				out = append(out, c07Test{call, true})
			}
		}
		return out
	}
	cx.tg.callOK = func(c CallSite, callee *ssa.Function) bool {
		// the helper's time arguments are the caller's query time
		n := 0
		for _, a := range c.Args() {
			if c07IsTimeType(c07Deref(a.Type())) {
				n++
				if !c07DependsOn(a, c07TimeInput) {
					return false
				}
			}
		}
		return n > 0 || callee.Parent() != nil
	}
	return cx.tg
}

type c07TimeRes struct {
	status string // guarded | unguarded | none | undecided
	n      int
	detail string
	pos    token.Pos
}

// timeGuardAt: is target (a block of fn) reachable from the definition of the
// claim handle only through the not-newer-than-the-query-time edge?
func (cx *c07Ctx) timeGuardAt(fn *ssa.Function, handle ssa.Value, target *ssa.BasicBlock) c07TimeRes {
	g := cx.timeGuard()
	tests := g.tests(fn, handle, 0)
	if len(tests) == 0 {
		// comparisons of the claim's date that this rule does not model
		for _, c := range CallsIn(fn, false) {
			cal := c.Callee()
			if cal == nil || !funcIs(cal, "time", "Time", c.MethodName()) {
				continue
			}
			for _, a := range c.Args() {
				if h, ok := c07ClaimField(a, "Date"); ok && h == handle {
					if n := c.MethodName(); n == "After" || n == "Before" {
						return c07TimeRes{status: "undecided", pos: c.Pos(), detail: fmt.Sprintf("the time %s compares the claim's Date with in Date.%s does not derive from a time parameter or time field; cannot tell it is the query time", FuncKey(fn), n)}
					}
					return c07TimeRes{status: "undecided", pos: c.Pos(), detail: fmt.Sprintf("%s compares the claim's Date with time.Time.%s; this rule only models the `cl.Date.After(at)` / `at.Before(cl.Date)` skip", FuncKey(fn), c.MethodName())}
				}
			}
		}
		return c07TimeRes{status: "none"}
	}
	est := c07EstEdges(fn, tests)
	if len(est) == 0 {
		return c07TimeRes{status: "undecided", detail: fmt.Sprintf("the result of the Date test in %s does not feed a branch", FuncKey(fn))}
	}
	if c07Reach(c07DefBlock(fn, handle), target, est) {
		return c07TimeRes{status: "unguarded", n: len(tests)}
	}
	return c07TimeRes{status: "guarded", n: len(tests)}
}

type c07TimeUp struct {
	kind   string // guarded | violation | undecided | cachebuild
	fn     *ssa.Function
	pos    token.Pos
	detail string
}

// timeUp follows a one-claim fold (its claim is parameter idx of fn) to its
// static callers: each call must lie behind the time skip in the caller; a
// caller that has no time and passes its own parameter is followed further; a
// chain ending where no time exists at all builds a present-time cache.
func (cx *c07Ctx) timeUp(fn *ssa.Function, idx int, depth int, seen map[*ssa.Function]bool) []c07TimeUp {
	if seen[fn] {
		return nil
	}
	seen[fn] = true
	if !cx.followable(fn) || depth > 4 {
		return []c07TimeUp{{kind: "cachebuild", fn: fn, pos: fn.Pos()}}
	}
	var out []c07TimeUp
	for _, c := range cx.callers(fn) {
		args := c.Args()
		if idx >= len(args) {
			continue
		}
		g := c.Fn
		h := originValue(args[idx])
		res := cx.timeGuardAt(g, h, c.Block())
		switch res.status {
		case "guarded":
			out = append(out, c07TimeUp{kind: "guarded", fn: g, pos: c.Pos()})
		case "unguarded":
			out = append(out, c07TimeUp{kind: "violation", fn: g, pos: c.Pos(), detail: fmt.Sprintf("in %s a path reaches the call of %s without having passed `Date.After(at)` on its false edge (and without the time being known zero): claims newer than the query time are folded", FuncKey(g), FuncKey(fn))})
		case "undecided":
			out = append(out, c07TimeUp{kind: "undecided", fn: g, pos: c.Pos(), detail: res.detail})
		default:
			prm, isPrm := h.(*ssa.Parameter)
			switch {
			case isPrm && prm.Parent() == g && g.Parent() == nil:
				out = append(out, cx.timeUp(g, c07ParamIndex(g, prm), depth+1, seen)...)
			case c07HasTime(g):
				out = append(out, c07TimeUp{kind: "violation", fn: g, pos: c.Pos(), detail: fmt.Sprintf("%s has a query time available but hands claims to %s without skipping those whose Date is After it: a historical query folds claims newer than the requested time", FuncKey(g), FuncKey(fn))})
			default:
				out = append(out, c07TimeUp{kind: "cachebuild", fn: g, pos: c.Pos()})
			}
		}
	}
	if len(out) == 0 {
		out = append(out, c07TimeUp{kind: "cachebuild", fn: fn, pos: fn.Pos()})
	}
	return out
}

func c07FoldTime(cx *c07Ctx, r *Reporter, f *c07Fold, site string) {
	p := cx.p
	fn := f.fn
	construct := f.key + "#time-bound"
	res := cx.timeGuardAt(fn, f.handle, f.head)
	switch res.status {
	case "guarded":
		r.OK("A-fold", construct, site, fmt.Sprintf("(ii) every path to the switch passes the false edge of claim.Date.After(<query time>) (%d test(s), boolean helpers followed), or a time-is-zero edge", res.n))
		return
	case "unguarded":
		r.Violation("A-fold", construct, site, fmt.Sprintf("(ii) in %s a path reaches the claim-type switch without having passed `Date.After(at)` on its false edge (and without the time being known zero): claims newer than the query time are folded", FuncKey(fn)))
		return
	case "undecided":
		s := site
		if res.pos.IsValid() {
			s = p.Pos(res.pos)
		}
		r.Undecided("A-fold", construct, s, "(ii) "+res.detail)
		return
	}
	// no test of the claim's date in the function holding the switch
	prm, isPrm := f.handle.(*ssa.Parameter)
	if !isPrm || prm.Parent() != fn || fn.Parent() != nil {
		if c07HasTime(fn) {
			r.Violation("A-fold", construct, site, fmt.Sprintf("(ii) %s has a query time available but never skips claims whose Date is After it: a historical query folds claims newer than the requested time", FuncKey(fn)))
		} else {
			r.OKTable("A-fold", construct, site, fmt.Sprintf("(ii) not applicable: %s has no time input (no time parameter, no time field on its receiver) and so answers for the present only", FuncKey(fn)))
		}
		return
	}
	// the switch applies ONE claim handed in by the caller: the bound is the callers' business
	ups := cx.timeUp(fn, c07ParamIndex(fn, prm), 0, map[*ssa.Function]bool{})
	nGuarded, cache := 0, false
	for _, u := range ups {
		switch u.kind {
		case "violation":
			r.Violation("A-fold", construct, p.Pos(u.pos), "(ii) "+u.detail)
			return
		case "undecided":
			r.Undecided("A-fold", construct, p.Pos(u.pos), "(ii) "+u.detail)
			return
		case "guarded":
			nGuarded++
		case "cachebuild":
			cache = true
		}
	}
	if cache {
		c07CacheConsumers(cx, r, f, construct, site)
		return
	}
	r.OK("A-fold", construct, site, fmt.Sprintf("(ii) %s applies one claim handed in by its caller; all %d static call(s) lie behind the false edge of claim.Date.After(<query time>) in the caller", FuncKey(fn), nGuarded))
}

func c07IsParam(v ssa.Value) bool { _, ok := v.(*ssa.Parameter); return ok }

// c07CacheConsumers handles a fold step that applies ONE claim (a parameter)
// to an accumulator and has no time input: the accumulator's named type is a
// cache; whoever hands it out together with a time must check validity.
func c07CacheConsumers(cx *c07Ctx, r *Reporter, f *c07Fold, construct, site string) {
	p := cx.p
	fn := f.fn
	cacheT := c07StepCacheType(fn)
	if cacheT == nil {
		r.Undecided("A-fold", construct, site, fmt.Sprintf("(ii) %s folds one claim without a time bound (nor do its callers have one) and has no receiver / parameter of a named map type to identify the cache it builds", FuncKey(fn)))
		return
	}
	rel := RelPkg(fn.Pkg.Pkg)
	var consumers []*ssa.Function
	for _, g := range p.FuncsIn(rel) {
		if g.Parent() != nil || g.Blocks == nil {
			continue
		}
		hasTime, resIdx := false, -1
		for _, prm := range g.Params {
			if c07IsTimeType(prm.Type()) {
				hasTime = true
			}
		}
		res := g.Signature.Results()
		for i := 0; i < res.Len(); i++ {
			if types.Identical(res.At(i).Type(), cacheT) {
				resIdx = i
			}
		}
		if hasTime && resIdx >= 0 {
			consumers = append(consumers, g)
			c07CheckConsumer(cx, r, g, resIdx, cacheT)
		}
	}
	if len(consumers) == 0 {
		r.Violation("A-fold", construct, site, fmt.Sprintf("(ii) %s builds a %s cache without a time bound and no function returns that cache under a time check", FuncKey(fn), cacheT.Obj().Name()))
		return
	}
	r.OK("A-fold", construct, site, fmt.Sprintf("(ii) cache builder without time input; its cache type %s is handed out with a time only by %s (checked as #cache-valid-at) and read by nobody else (checked as #reads-cache)", cacheT.Obj().Name(), FuncKey(consumers[0])))

	// who reads fields holding the cache: only consumers and the methods of the
	// owning struct that (transitively) run the fold step
	builders := map[*ssa.Function]bool{fn: true}
	for d := 0; d < 4; d++ {
		for g := range builders {
			for _, c := range p.StaticCallers(g) {
				builders[TopFunc(c.Fn)] = true
			}
		}
	}
	holdsCache := func(t types.Type) bool {
		if types.Identical(t, cacheT) {
			return true
		}
		if m, ok := t.Underlying().(*types.Map); ok && types.Identical(m.Elem(), cacheT) {
			return true
		}
		return false
	}
	readers := map[*ssa.Function]token.Pos{}
	writers := map[*ssa.Function]token.Pos{}
	for _, g := range p.AllFuncs {
		if g.Pkg == nil || IsTestSupportPkg(RelPkg(g.Pkg.Pkg)) {
			continue
		}
		for _, b := range g.Blocks {
			for _, in := range b.Instrs {
				fa, ok := in.(*ssa.FieldAddr)
				if !ok || !holdsCache(c07Deref(fa.Type())) {
					continue
				}
				if c07WriteOnly(fa) {
					// replaces the field, or inserts into / measures the map of caches: nothing is read out
					if _, seen := writers[TopFunc(g)]; !seen {
						writers[TopFunc(g)] = fa.Pos()
					}
					continue
				}
				if _, seen := readers[TopFunc(g)]; !seen {
					readers[TopFunc(g)] = fa.Pos()
				}
			}
		}
	}
	var keys []*ssa.Function
	for g := range readers {
		keys = append(keys, g)
	}
	for g := range writers {
		if _, isReader := readers[g]; !isReader {
			keys = append(keys, g)
		}
	}
	sort.Slice(keys, func(i, j int) bool { return FuncKey(keys[i]) < FuncKey(keys[j]) })
	for _, g := range keys {
		if _, isReader := readers[g]; !isReader {
			r.OK("A-fold", FuncKey(g)+"#reads-cache", p.Pos(writers[g]), "only replaces the attribute-cache fields or inserts into / measures the map of caches; reads no cache out of them")
			continue
		}
		isConsumer := false
		for _, c := range consumers {
			if c == g {
				isConsumer = true
			}
		}
		// a builder is on the call chain to the fold step and is a method of the struct that owns the cache fields (or of
		// the cache type), or cannot hand attribute values to a query because it returns nothing but errors
		okBuilder := builders[g] && c07ReturnsNoValues(g)
		if recv := g.Signature.Recv(); recv != nil && builders[g] {
			if n := NamedOf(recv.Type()); n != nil {
				if types.Identical(n, cacheT) {
					okBuilder = true
				} else if st, ok := n.Underlying().(*types.Struct); ok {
					for i := 0; i < st.NumFields(); i++ {
						if holdsCache(st.Field(i).Type()) {
							okBuilder = true
						}
					}
				}
			}
		}
		r.Check(isConsumer || okBuilder, "A-fold", FuncKey(g)+"#reads-cache", p.Pos(readers[g]),
			"touches the attribute-cache fields as the time-checked accessor or as part of the cache builder",
			fmt.Sprintf("(ii) %s reads the %s cache fields directly; only the time-checked accessor may hand the cache to queries, otherwise a historical query sees present-time attributes", FuncKey(g), cacheT.Obj().Name()))
	}
}

// c07ReturnsNoValues: fn's results are only errors.
func c07ReturnsNoValues(fn *ssa.Function) bool {
	res := fn.Signature.Results()
	for i := 0; i < res.Len(); i++ {
		if t := res.At(i).Type(); !isErrorType(t) {
			return false
		}
	}
	return true
}

// c07WriteOnly: the field address is used only to store a new value, or its
// loaded map is used only as the target of map updates/deletes and by len.
func c07WriteOnly(fa *ssa.FieldAddr) bool {
	refs := fa.Referrers()
	if refs == nil {
		return true
	}
	for _, u := range *refs {
		switch x := u.(type) {
		case *ssa.DebugRef:
		case *ssa.Store:
			if x.Addr != ssa.Value(fa) {
				return false
			}
		case *ssa.UnOp:
			if x.Op != token.MUL {
				return false
			}
			if _, isMap := x.Type().Underlying().(*types.Map); !isMap || x.Referrers() == nil {
				return false
			}
			for _, lu := range *x.Referrers() {
				switch y := lu.(type) {
				case *ssa.DebugRef:
				case *ssa.BinOp:
					// `cache == nil` / `cache != nil`: nothing is read out of the cache
					if (y.Op != token.EQL && y.Op != token.NEQ) || !(IsNilConst(y.X) || IsNilConst(y.Y)) {
						return false
					}
				case *ssa.MapUpdate:
					if y.Map != ssa.Value(x) || y.Value == ssa.Value(x) {
						return false
					}
				case *ssa.Call:
					if n := c07Builtin(y.Common()); n != "len" && n != "delete" {
						return false
					}
				default:
					return false
				}
			}
		default:
			return false
		}
	}
	return true
}

// c07CheckConsumer: every return of a non-nil cache (with ok not constant
// false) must be unreachable once the validity edges are removed.
func c07CheckConsumer(cx *c07Ctx, r *Reporter, g *ssa.Function, resIdx int, cacheT *types.Named) {
	p := cx.p
	construct := FuncKey(g) + "#cache-valid-at"
	isAt := func(v ssa.Value) bool {
		prm, ok := originValue(v).(*ssa.Parameter)
		return ok && c07IsTimeType(prm.Type())
	}
	claimsOf := func(v ssa.Value) (string, bool) { // v is a load of the claim-list field; returns its access path
		base, owner, name, ok := c07FieldRef(v)
		if !ok || name != cx.claimsField || !types.Identical(owner, cx.pmT) {
			return "", false
		}
		return AccessPath(base) + "." + name, true
	}
	lenOfClaims := func(v ssa.Value) (string, bool) {
		c, ok := v.(*ssa.Call)
		if !ok {
			return "", false
		}
		if bi, ok := c.Call.Value.(*ssa.Builtin); !ok || bi.Name() != "len" {
			return "", false
		}
		return claimsOf(c.Call.Args[0])
	}
	removed := map[c07Edge]bool{}
	var accepted []string
	// at.IsZero()
	for _, e := range c07IfEdges(g, func(v ssa.Value) bool {
		c, ok := v.(*ssa.Call)
		return ok && CallSite{g, c}.IsStatic("time", "Time", "IsZero") && isAt(c.Call.Args[0])
	}) {
		removed[e] = true
		accepted = append(accepted, "time is zero")
	}
	// len(Claims) == 0
	for _, b := range g.Blocks {
		for _, in := range b.Instrs {
			bo, ok := in.(*ssa.BinOp)
			if !ok {
				continue
			}
			if _, ok := lenOfClaims(bo.X); !ok {
				continue
			}
			n, ok := ConstInt(bo.Y)
			if !ok {
				continue
			}
			emptyWhenTrue := (bo.Op == token.EQL && n == 0) || (bo.Op == token.LSS && n == 1) || (bo.Op == token.LEQ && n == 0)
			emptyWhenFalse := (bo.Op == token.NEQ && n == 0) || (bo.Op == token.GTR && n == 0) || (bo.Op == token.GEQ && n == 1)
			for _, e := range c07IfEdges(g, func(v ssa.Value) bool { return v == ssa.Value(bo) }) {
				if emptyWhenTrue {
					removed[e] = true
					accepted = append(accepted, "no claims")
				} else if emptyWhenFalse {
					removed[c07Other(e)] = true
					accepted = append(accepted, "no claims")
				}
			}
		}
	}
	// !Claims[len(Claims)-1].Date.After(at)
	for _, c := range CallsIn(g, false) {
		if !c.IsStatic("time", "Time", "After") || c.Value() == nil || !isAt(c.Args()[1]) {
			continue
		}
		h, ok := c07ClaimField(c.Args()[0], "Date")
		if !ok {
			continue
		}
		ld, ok := h.(*ssa.UnOp)
		if !ok || ld.Op != token.MUL {
			continue
		}
		ia, ok := ld.X.(*ssa.IndexAddr)
		if !ok {
			continue
		}
		path, ok := claimsOf(ia.X)
		if !ok {
			continue
		}
		sub, ok := ia.Index.(*ssa.BinOp)
		if !ok || sub.Op != token.SUB {
			continue
		}
		one, ok := ConstInt(sub.Y)
		lp, ok2 := lenOfClaims(sub.X)
		if !ok || !ok2 || one != 1 || lp != path {
			continue
		}
		for _, e := range c07IfEdges(g, func(v ssa.Value) bool { return v == ssa.Value(c.Value()) }) {
			removed[c07Other(e)] = true
			accepted = append(accepted, "last claim not after the time")
		}
	}
	n := 0
	for _, ri := range Returns(g) {
		v := ri.Results[resIdx]
		if IsNilConst(originValue(v)) {
			continue
		}
		// an accompanying constant-false bool says "not valid"
		invalid := false
		for i, o := range ri.Results {
			if i == resIdx {
				continue
			}
			if c, ok := originValue(o).(*ssa.Const); ok && c.Value != nil && c.Value.Kind() == constant.Bool && !constant.BoolVal(c.Value) {
				invalid = true
			}
		}
		if invalid {
			continue
		}
		n++
		if c07Reach(g.Blocks[0], ri.Ret.Block(), removed) {
			r.Violation("A-fold", construct, p.Pos(ri.Ret.Pos()), fmt.Sprintf("(ii) %s can return the present-time %s cache for a non-zero query time without having established that the last claim is not After that time (accepted validity edges found: %v): a historical query would see later claims", FuncKey(g), cacheT.Obj().Name(), c07Uniq(accepted)))
			return
		}
	}
	if n == 0 {
		r.Violation("A-fold", construct, p.Pos(g.Pos()), fmt.Sprintf("(ii) %s never returns a cache", FuncKey(g)))
		return
	}
	r.OK("A-fold", construct, p.Pos(g.Pos()), fmt.Sprintf("(ii) all %d return(s) of a cache lie behind one of: %v", n, c07Uniq(accepted)))
}

func c07Uniq(s []string) []string {
	m := map[string]bool{}
	var out []string
	for _, x := range s {
		if !m[x] {
			m[x] = true
			out = append(out, x)
		}
	}
	sort.Strings(out)
	return out
}

// ---------------------------------------------------------------------------
// clause (iii): deleted claims

// deletedGuard looks for `X.IsDeleted(handle.BlobRef)` tests in fn (also
// inside boolean helpers / literals the claim is handed to) and reports
// (found, guarded): guarded means target cannot be reached from the handle's
// definition without taking the not-deleted edge of such a test.
func (cx *c07Ctx) deletedGuard(fn *ssa.Function, handle ssa.Value, target *ssa.BasicBlock) (found, guarded bool) {
	if cx.dg == nil {
		cx.dg = &c07Guard{needHandle: true}
		cx.dg.prims = func(fn *ssa.Function, handle ssa.Value) []c07Test {
			var out []c07Test
			for _, c := range CallsIn(fn, false) {
				if c.MethodName() != "IsDeleted" || c.Value() == nil {
					continue
				}
				args := c.Args()
				if len(args) != 2 || !c07IsBool(c.Value().Type()) {
					continue
				}
				h, ok := c07ClaimField(args[1], "BlobRef")
				if !ok || h != handle {
					continue
				}
				out = append(out, c07Test{c.Value(), false})
			}
			return out
		}
	}
	tests := cx.dg.tests(fn, handle, 0)
	if len(tests) == 0 {
		return false, false
	}
	est := c07EstEdges(fn, tests)
	if len(est) == 0 {
		return true, false
	}
	return true, !c07Reach(c07DefBlock(fn, handle), target, est)
}

type c07Src struct {
	kind string // raw | filtered | guarded | unknown
	fn   *ssa.Function
	pos  token.Pos
	what string
}

func c07FoldDeleted(cx *c07Ctx, r *Reporter, f *c07Fold, site string) {
	p := cx.p
	found, guarded := cx.deletedGuard(f.fn, f.handle, f.head)
	if guarded {
		r.OK("A-fold", f.key+"#deleted", site, "(iii) an IsDeleted(claim.BlobRef) skip lies on every path to the switch")
		return
	}
	if found {
		r.Violation("A-fold", f.key+"#deleted", site, fmt.Sprintf("(iii) %s tests IsDeleted(claim.BlobRef) but a path reaches the claim-type switch without taking the not-deleted edge", FuncKey(f.fn)))
		return
	}
	tr := &c07Tracer{cx: cx, seen: map[ssa.Value]bool{}}
	tr.trace(f.handle, 0)
	if len(tr.out) == 0 {
		r.Undecided("A-fold", f.key+"#deleted", site, fmt.Sprintf("(iii) %s has no IsDeleted skip and the folded claims could not be traced to any source", FuncKey(f.fn)))
		return
	}
	// one obligation per (fold, source function, kind)
	type k struct{ fn, kind string }
	done := map[k]bool{}
	sort.SliceStable(tr.out, func(i, j int) bool { return FuncKey(tr.out[i].fn) < FuncKey(tr.out[j].fn) })
	for _, s := range tr.out {
		kk := k{FuncKey(s.fn), s.kind}
		if done[kk] {
			continue
		}
		done[kk] = true
		construct := f.key + "#deleted<-" + FuncKey(s.fn)
		switch s.kind {
		case "raw":
			r.Violation("A-fold", construct, p.Pos(s.pos), fmt.Sprintf("(iii) %s folds claims taken in %s from %s with no IsDeleted(claim.BlobRef) skip anywhere between that list and the claim-type switch; the index path (AppendClaims) skips deleted claims, so a deleted attribute claim still counts here", FuncKey(f.fn), FuncKey(s.fn), s.what))
		case "filtered":
			r.OK("A-fold", construct, p.Pos(s.pos), fmt.Sprintf("(iii) claims come from %s, whose implementations skip deleted claims (obligations #deleted-skip)", s.what))
		case "guarded":
			r.OK("A-fold", construct, p.Pos(s.pos), "(iii) "+s.what)
		default:
			r.Undecided("A-fold", construct, p.Pos(s.pos), fmt.Sprintf("(iii) cannot trace the claims folded by %s further: %s", FuncKey(f.fn), s.what))
		}
	}
}

type c07Tracer struct {
	cx   *c07Ctx
	seen map[ssa.Value]bool
	out  []c07Src
}

func (t *c07Tracer) add(kind string, fn *ssa.Function, pos token.Pos, what string) {
	if fn == nil {
		return
	}
	t.out = append(t.out, c07Src{kind, TopFunc(fn), pos, what})
}

func c07ParentOf(v ssa.Value) *ssa.Function {
	switch x := v.(type) {
	case ssa.Instruction:
		return x.Parent()
	case *ssa.Parameter:
		return x.Parent()
	case *ssa.FreeVar:
		return x.Parent()
	}
	return nil
}

// trace walks from a claim (or a container of claims) back to where the
// claims come from.
func (t *c07Tracer) trace(v ssa.Value, depth int) {
	if v == nil || t.seen[v] {
		return
	}
	t.seen[v] = true
	fn := c07ParentOf(v)
	if depth > 60 {
		t.add("unknown", fn, v.Pos(), "trace too deep")
		return
	}
	p := t.cx.p
	switch x := v.(type) {
	case *ssa.Const:
		return // nil container: nothing folded
	case *ssa.ChangeType:
		t.trace(x.X, depth+1)
	case *ssa.Convert:
		t.trace(x.X, depth+1)
	case *ssa.MakeInterface:
		t.trace(x.X, depth+1)
	case *ssa.ChangeInterface:
		t.trace(x.X, depth+1)
	case *ssa.TypeAssert:
		t.trace(x.X, depth+1)
	case *ssa.Slice:
		t.trace(x.X, depth+1)
	case *ssa.Phi:
		for _, e := range x.Edges {
			t.trace(e, depth+1)
		}
	case *ssa.Index:
		t.trace(x.X, depth+1)
	case *ssa.IndexAddr:
		t.trace(x.X, depth+1)
	case *ssa.Field:
		t.traceField(x.X.Type(), fieldName(x.X.Type(), x.Field), fn, x.Pos())
	case *ssa.Alloc:
		sts := storesTo(x)
		if len(sts) == 0 {
			t.add("unknown", fn, x.Pos(), "local with no store")
		}
		for _, st := range sts {
			t.trace(st.Val, depth+1)
		}
	case *ssa.FreeVar:
		if b := bindingOf(x); b != nil {
			t.trace(b, depth+1)
		} else {
			t.add("unknown", fn, x.Pos(), "captured variable with ambiguous binding")
		}
	case *ssa.UnOp:
		if x.Op != token.MUL {
			t.add("unknown", fn, x.Pos(), "unmodelled operator")
			return
		}
		switch a := x.X.(type) {
		case *ssa.IndexAddr:
			t.trace(a.X, depth+1)
		case *ssa.FieldAddr:
			t.traceField(a.X.Type(), fieldName(a.X.Type(), a.Field), fn, x.Pos())
		default:
			if cell, ok := varOf(x.X); ok {
				if al, ok := cell.(*ssa.Alloc); ok {
					t.trace(al, depth+1)
					return
				}
			}
			if _, isClaimPtr := x.X.Type().Underlying().(*types.Pointer); isClaimPtr && c07IsClaim(x.X.Type()) {
				t.trace(x.X, depth+1) // *cl: a copy of the claim cl points to
				return
			}
			t.add("unknown", fn, x.Pos(), "load from an unmodelled address")
		}
	case *ssa.Extract:
		if c, ok := x.Tuple.(*ssa.Call); ok {
			t.traceCall(c, x.Index, depth)
		} else {
			t.add("unknown", fn, x.Pos(), "component of a non-call tuple")
		}
	case *ssa.Call:
		t.traceCall(x, 0, depth)
	case *ssa.Parameter:
		t.traceParam(x, depth)
	default:
		t.add("unknown", fn, v.Pos(), fmt.Sprintf("unmodelled value %T", v))
	}
	_ = p
}

func (t *c07Tracer) traceField(owner types.Type, name string, fn *ssa.Function, pos token.Pos) {
	cx := t.cx
	if types.Identical(c07Deref(owner), cx.pmT) && name == cx.claimsField {
		t.add("raw", fn, pos, "PermanodeMeta."+name+" (every claim ever received for the permanode, deleted ones included)")
		return
	}
	key := c07FieldKey(owner, name)
	sts := cx.storesToField(key)
	if len(sts) == 0 {
		t.add("unknown", fn, pos, "field "+key+" is never stored")
		return
	}
	for _, st := range sts {
		t.trace(st.Val, 1)
	}
}

func (t *c07Tracer) traceCall(c *ssa.Call, idx int, depth int) {
	cs := CallSite{c.Parent(), c}
	cc := c.Common()
	res := cc.Signature().Results()
	if cs.MethodName() == "AppendClaims" && cs.RecvType() != nil && idx < res.Len() && c07IsClaimSlice(res.At(idx).Type()) {
		t.add("filtered", c.Parent(), c.Pos(), cs.CalleeKey())
		return
	}
	if cc.IsInvoke() {
		// element accessor of a claims container interface: the claims are the receiver's
		if idx < res.Len() && c07IsClaim(res.At(idx).Type()) {
			t.trace(cc.Value, depth+1)
			return
		}
		t.add("unknown", c.Parent(), c.Pos(), "result of interface call "+cs.CalleeKey())
		return
	}
	if bi, ok := cc.Value.(*ssa.Builtin); ok {
		if bi.Name() == "append" && len(cc.Args) == 2 {
			t.trace(cc.Args[0], depth+1)
			t.traceAppended(c, depth)
			return
		}
		t.add("unknown", c.Parent(), c.Pos(), "result of builtin "+bi.Name())
		return
	}
	callee := cs.Callee()
	if callee == nil || callee.Blocks == nil || !(InModule(callee) || callee.Parent() != nil) {
		t.add("unknown", c.Parent(), c.Pos(), "result of "+cs.CalleeKey())
		return
	}
	for _, ri := range Returns(callee) {
		if idx < len(ri.Results) {
			t.trace(ri.Results[idx], depth+1)
		}
	}
}

// c07Appended lists, for an append call, the claim handles appended one by
// one (nil second return when the appended operand is a whole slice).
func c07Appended(c *ssa.Call) (handles []ssa.Value, whole ssa.Value) {
	arg := c.Call.Args[1]
	sl, ok := arg.(*ssa.Slice)
	if !ok {
		return nil, arg
	}
	al, ok := sl.X.(*ssa.Alloc)
	if !ok {
		return nil, arg
	}
	refs := al.Referrers()
	if refs == nil {
		return nil, arg
	}
	for _, rf := range *refs {
		ia, ok := rf.(*ssa.IndexAddr)
		if !ok {
			continue
		}
		if iar := ia.Referrers(); iar != nil {
			for _, u := range *iar {
				if st, ok := u.(*ssa.Store); ok && st.Addr == ssa.Value(ia) {
					v := st.Val
					if ld, ok := v.(*ssa.UnOp); ok && ld.Op == token.MUL && c07IsClaim(ld.X.Type()) {
						if _, isPtr := ld.X.Type().Underlying().(*types.Pointer); isPtr {
							v = ld.X // *cl -> cl
						}
					}
					handles = append(handles, originValue(v))
				}
			}
		}
	}
	return handles, nil
}

func (t *c07Tracer) traceAppended(c *ssa.Call, depth int) {
	handles, whole := c07Appended(c)
	if whole != nil {
		t.trace(whole, depth+1)
		return
	}
	for _, h := range handles {
		if found, guarded := t.cx.deletedGuard(c.Parent(), h, c.Block()); found && guarded {
			t.add("guarded", c.Parent(), c.Pos(), fmt.Sprintf("claims are filtered in %s: appended only behind an IsDeleted(claim.BlobRef) skip", FuncKey(c.Parent())))
			continue
		}
		t.trace(h, depth+1)
	}
}

func (t *c07Tracer) traceParam(prm *ssa.Parameter, depth int) {
	p := t.cx.p
	fn := prm.Parent()
	idx := -1
	for i, q := range fn.Params {
		if q == prm {
			idx = i
		}
	}
	if idx < 0 || fn.Parent() != nil {
		t.add("unknown", fn, prm.Pos(), "parameter of a function literal")
		return
	}
	if uses := p.FuncValueUses(fn); len(uses) > 0 {
		t.add("unknown", fn, prm.Pos(), FuncKey(fn)+" is used as a function value")
		return
	}
	if fn.Signature.Recv() != nil {
		if inv := p.InvokeSites(fn); len(inv) > 0 {
			t.add("unknown", fn, prm.Pos(), FuncKey(fn)+" is reachable through an interface")
			return
		}
	}
	n := 0
	for _, c := range p.StaticCallers(fn) {
		if c.Fn.Pkg != nil && IsTestSupportPkg(RelPkg(TopFunc(c.Fn).Pkg.Pkg)) {
			continue
		}
		args := c.Args()
		if idx >= len(args) {
			continue
		}
		n++
		arg := args[idx]
		if c07IsClaim(arg.Type()) {
			h := originValue(arg)
			if found, guarded := t.cx.deletedGuard(c.Fn, h, c.Block()); found && guarded {
				t.add("guarded", c.Fn, c.Pos(), fmt.Sprintf("%s passes the claim on only behind an IsDeleted(claim.BlobRef) skip", FuncKey(c.Fn)))
				continue
			}
		}
		t.trace(arg, depth+1)
	}
	if n == 0 && c07Exported(fn) {
		t.add("unknown", fn, prm.Pos(), FuncKey(fn)+" has no static caller")
	}
	// an unexported function that is never called, never used as a value and not reachable through an
	// interface is dead code: no claims come this way
}

// appendClaimsScan counts the one-by-one appends of claims in fn's effective
// body (fn and the module helpers / literals it calls that return a claim
// list, depth 3) and checks that each lies behind the not-deleted edge of
// IsDeleted(claim.BlobRef), in the function holding the append or, for a
// claim the helper was handed as a parameter, at the helper's call.
func (cx *c07Ctx) appendClaimsScan(fn *ssa.Function, depth int, guardedAtCall func(prm *ssa.Parameter) bool) (appends, delegations int, bad string, badPos token.Pos) {
	for _, c := range CallsIn(fn, false) {
		c := c
		call := c.Value()
		if call == nil {
			continue
		}
		if c.MethodName() == "AppendClaims" {
			delegations++
			continue
		}
		bi, ok := c.Common().Value.(*ssa.Builtin)
		if !ok {
			callee := c.Callee()
			if callee == nil || callee == fn || callee.Blocks == nil || depth >= 3 || !(InModule(callee) || callee.Parent() != nil) {
				continue
			}
			res := callee.Signature.Results()
			carries := false
			for i := 0; i < res.Len(); i++ {
				if c07IsClaimSlice(res.At(i).Type()) {
					carries = true
				}
			}
			if !carries {
				continue
			}
			a, d, b, bp := cx.appendClaimsScan(callee, depth+1, func(prm *ssa.Parameter) bool {
				idx := c07ParamIndex(callee, prm)
				if idx < 0 || idx >= len(c.Args()) {
					return false
				}
				h := originValue(c.Args()[idx])
				if found, guarded := cx.deletedGuard(fn, h, c.Block()); found && guarded {
					return true
				}
				if q, isPrm := h.(*ssa.Parameter); isPrm && guardedAtCall != nil {
					return guardedAtCall(q)
				}
				return false
			})
			appends += a
			delegations += d
			if b != "" {
				bad, badPos = b, bp
			}
			continue
		}
		if bi.Name() != "append" || !c07IsClaimSlice(call.Type()) {
			continue
		}
		handles, whole := c07Appended(call)
		if whole != nil {
			bad, badPos = "appends a whole slice of claims; this rule only follows one-by-one appends", call.Pos()
			continue
		}
		for _, h := range handles {
			appends++
			if found, guarded := cx.deletedGuard(fn, h, call.Block()); found && guarded {
				continue
			}
			if prm, isPrm := h.(*ssa.Parameter); isPrm && guardedAtCall != nil && guardedAtCall(prm) {
				continue
			}
			bad, badPos = "appends a claim to its result on a path that has not taken the not-deleted edge of IsDeleted(claim.BlobRef)", call.Pos()
		}
	}
	return
}

// c07RuleAppendClaims: the claim sources the index path folds.
func c07RuleAppendClaims(cx *c07Ctx, r *Reporter) {
	p := cx.p
	n := 0
	for _, fn := range p.AllFuncs {
		if fn.Parent() != nil || fn.Name() != "AppendClaims" || fn.Signature.Recv() == nil || fn.Pkg == nil || IsTestSupportPkg(RelPkg(fn.Pkg.Pkg)) {
			continue
		}
		res := fn.Signature.Results()
		if res.Len() == 0 || !c07IsClaimSlice(res.At(0).Type()) {
			continue
		}
		n++
		construct := FuncKey(fn) + "#deleted-skip"
		appends, delegations, bad, badPos := cx.appendClaimsScan(fn, 0, nil)
		switch {
		case strings.HasPrefix(bad, "appends a whole"):
			r.Undecided("A-fold", construct, p.Pos(badPos), fmt.Sprintf("(iii) %s %s", FuncKey(fn), bad))
		case bad != "":
			r.Violation("A-fold", construct, p.Pos(badPos), fmt.Sprintf("(iii) %s %s: every fold fed by AppendClaims (Describe, location, GetClaims) then counts deleted attribute claims", FuncKey(fn), bad))
		case appends+delegations == 0:
			r.Undecided("A-fold", construct, p.Pos(fn.Pos()), fmt.Sprintf("(iii) %s neither appends claims nor delegates to another AppendClaims", FuncKey(fn)))
		default:
			r.OK("A-fold", construct, p.Pos(fn.Pos()), fmt.Sprintf("(iii) %d guarded append(s), %d delegation(s) to another AppendClaims", appends, delegations))
		}
	}
	if n < 2 {
		r.Violation("A-fold", "AppendClaims#implementations", "", fmt.Sprintf("(iii) expected the index and corpus AppendClaims methods, found %d", n))
	}
}

// ---------------------------------------------------------------------------
// A-deleted

func c07RuleDeleted(cx *c07Ctx, r *Reporter) {
	p := cx.p
	entries := []*ssa.Function{p.Func("pkg/index", "Corpus", "IsDeleted"), p.Func("pkg/index", "Index", "IsDeleted")}
	selfRec := func(fn *ssa.Function) []CallSite {
		return FindCalls(fn, false, func(c CallSite) bool { return c.Callee() == fn && c.Value() != nil })
	}
	cores := map[*ssa.Function]bool{}
	var coreList []*ssa.Function
	addCore := func(fn *ssa.Function) {
		if !cores[fn] {
			cores[fn] = true
			coreList = append(coreList, fn)
		}
	}
	for _, e := range entries {
		if len(selfRec(e)) > 0 {
			addCore(e)
			continue
		}
		// dispatcher: every return is a core applied to the same argument
		construct := FuncKey(e) + "#dispatch"
		bad := ""
		var badPos token.Pos
		nret := 0
		for _, ri := range Returns(e) {
			nret++
			call, ok := originValue(ri.Results[0]).(*ssa.Call)
			if !ok {
				bad, badPos = "returns something other than the result of a deletion test", ri.Ret.Pos()
				continue
			}
			cs := CallSite{e, call}
			g := cs.Callee()
			if g == nil || g.Blocks == nil || !types.Identical(g.Signature.Results(), e.Signature.Results()) || len(selfRec(g)) == 0 {
				bad, badPos = fmt.Sprintf("returns the result of %s, which is not a recursive deletion test", cs.CalleeKey()), ri.Ret.Pos()
				continue
			}
			args := cs.Args()
			if len(args) != 2 || !sameOrigin(args[1], e.Params[1]) {
				bad, badPos = fmt.Sprintf("calls %s with something other than its own argument", FuncKey(g)), ri.Ret.Pos()
				continue
			}
			addCore(g)
		}
		if bad != "" {
			r.Violation("A-deleted", construct, p.Pos(badPos), fmt.Sprintf("%s %s", FuncKey(e), bad))
		} else if nret == 0 {
			r.Undecided("A-deleted", construct, p.Pos(e.Pos()), "no return found")
		} else {
			r.OK("A-deleted", construct, p.Pos(e.Pos()), fmt.Sprintf("all %d return(s) are a recursive deletion test applied to the function's own argument", nret))
		}
	}
	for _, fn := range coreList {
		c07CheckDeletedCore(cx, r, fn, selfRec(fn))
	}
	r.Floor("A-deleted", 4) // Corpus.IsDeleted, Index.isDeleted, Index.isDeletedNoCache + the Index.IsDeleted dispatcher
}

func c07CheckDeletedCore(cx *c07Ctx, r *Reporter, fn *ssa.Function, recs []CallSite) {
	p := cx.p
	construct := FuncKey(fn) + "#recurse-on-deleter"
	site := p.Pos(fn.Pos())
	if len(fn.Params) != 2 {
		r.Undecided("A-deleted", construct, site, "unexpected signature")
		return
	}
	br := fn.Params[1]
	for _, rc := range recs {
		arg := rc.Args()[1]
		if sameOrigin(arg, br) {
			r.Violation("A-deleted", construct, p.Pos(rc.Pos()), fmt.Sprintf("%s recurses on its own argument instead of on the deleter", FuncKey(fn)))
			return
		}
		_, owner, name, ok := c07FieldRef(arg)
		isDeleter := ok && ((name == "deleter" && IsNamed(owner, modPrefix+"pkg/index", "deletion")) || (name == "BlobRef" && c07IsClaim(owner)))
		if !ok {
			r.Undecided("A-deleted", construct, p.Pos(rc.Pos()), fmt.Sprintf("the argument of the recursive call in %s is not a field read; cannot tell it is the deleter", FuncKey(fn)))
			return
		}
		if !isDeleter {
			r.Violation("A-deleted", construct, p.Pos(rc.Pos()), fmt.Sprintf("%s recurses on field %s of %s, which is not the deleting claim (deletion.deleter, or BlobRef of the claim parsed from a 'deleted' row)", FuncKey(fn), name, typeKey(owner)))
			return
		}
		if !c07DependsOn(arg, func(v ssa.Value) bool { return v == ssa.Value(br) }) {
			r.Violation("A-deleted", construct, p.Pos(rc.Pos()), fmt.Sprintf("the deleter %s recurses on is not selected by the function's argument (it must come from the deletion records of that blob)", FuncKey(fn)))
			return
		}
	}
	isRec := func(c CallSite) bool { return c.Callee() == fn }
	nTrue := 0
	for _, ri := range Returns(fn) {
		c, ok := originValue(ri.Results[0]).(*ssa.Const)
		if !ok || c.Value == nil || c.Value.Kind() != constant.Bool {
			r.Undecided("A-deleted", construct, p.Pos(ri.Ret.Pos()), fmt.Sprintf("%s returns a non-constant; this rule models `return true` on the not-deleted edge of the recursive call", FuncKey(fn)))
			return
		}
		if !constant.BoolVal(c.Value) {
			continue
		}
		nTrue++
		known, val, _ := BoolCallFact(ri.Ret.Block(), isRec)
		if !known || val {
			r.Violation("A-deleted", construct, p.Pos(ri.Ret.Pos()), fmt.Sprintf("%s answers 'deleted' at a point where the recursive test of the deleter is not known to have returned false: a delete claim that was itself deleted (undelete) would still count", FuncKey(fn)))
			return
		}
	}
	if nTrue == 0 {
		r.Violation("A-deleted", construct, site, fmt.Sprintf("%s never answers true", FuncKey(fn)))
		return
	}
	r.OK("A-deleted", construct, site, fmt.Sprintf("%d recursive call(s) on the deleter selected by the argument; %d `return true` all on the recursive call's false edge", len(recs), nTrue))
}

// ---------------------------------------------------------------------------
// A-order

func c07RuleOrder(cx *c07Ctx, r *Reporter, folds []*c07Fold) {
	p := cx.p
	// step folds: apply ONE claim (a parameter) to a cache, no time input
	var steps []*c07Fold
	for _, f := range folds {
		if !c07IsParam(f.handle) {
			continue
		}
		hasTime := false
		for _, prm := range f.fn.Params {
			if c07IsTimeType(prm.Type()) {
				hasTime = true
			}
		}
		if !hasTime && c07StepCacheType(f.fn) != nil {
			steps = append(steps, f)
		}
	}
	if len(steps) == 0 {
		r.Violation("A-order", "cache-step", "", "no fold step that applies one claim to an attribute cache was found; the cache-maintenance rules have nothing to anchor on")
		r.Floor("A-order", 5)
		return
	}
	isClaimsLoad := func(v ssa.Value) bool {
		_, owner, name, ok := c07FieldRef(v)
		return ok && name == cx.claimsField && types.Identical(owner, cx.pmT)
	}
	// claimsList: the PermanodeMeta claim list, or a parameter of a helper to which every static caller passes it
	var claimsList func(v ssa.Value, d int) bool
	claimsList = func(v ssa.Value, d int) bool {
		if isClaimsLoad(v) {
			return true
		}
		prm, ok := originValue(v).(*ssa.Parameter)
		if !ok || d >= 3 || !c07IsClaimSlice(prm.Type()) || !cx.followable(prm.Parent()) || c07Exported(prm.Parent()) {
			return false
		}
		idx := c07ParamIndex(prm.Parent(), prm)
		for _, c := range cx.callers(prm.Parent()) {
			if idx >= len(c.Args()) || !claimsList(c.Args()[idx], d+1) {
				return false
			}
		}
		return true
	}
	lenOfClaims := func(v ssa.Value) bool {
		c, ok := v.(*ssa.Call)
		if !ok {
			return false
		}
		bi, ok := c.Call.Value.(*ssa.Builtin)
		return ok && bi.Name() == "len" && claimsList(c.Call.Args[0], 0)
	}
	lenMinus := func(v ssa.Value, k int64) bool {
		sub, ok := v.(*ssa.BinOp)
		if !ok || sub.Op != token.SUB || !lenOfClaims(sub.X) {
			return false
		}
		n, ok := ConstInt(sub.Y)
		return ok && n == k
	}
	// the date-order guard: fewer than two claims, or ClaimPtrsByDate(Claims).Less(n-2, n-1)
	var accepted []string
	og := &c07Guard{}
	og.prims = func(g *ssa.Function, _ ssa.Value) []c07Test {
		var out []c07Test
		for _, b := range g.Blocks {
			for _, in := range b.Instrs {
				switch x := in.(type) {
				case *ssa.BinOp:
					n, ok := ConstInt(x.Y)
					if !ok || !lenOfClaims(x.X) {
						continue
					}
					fewTrue := (x.Op == token.LSS && n <= 2) || (x.Op == token.LEQ && n <= 1) || (x.Op == token.EQL && n <= 1)
					fewFalse := (x.Op == token.GEQ && n <= 2) || (x.Op == token.GTR && n <= 1)
					if fewTrue {
						out = append(out, c07Test{x, true})
						accepted = append(accepted, "fewer than two claims")
					} else if fewFalse {
						out = append(out, c07Test{x, false})
						accepted = append(accepted, "fewer than two claims")
					}
				case *ssa.Call:
					cs := CallSite{g, x}
					if cs.MethodName() != "Less" || cs.Callee() == nil {
						continue
					}
					args := cs.Args()
					if len(args) != 3 || !c07DependsOn(args[0], isClaimsLoad) || !lenMinus(args[1], 2) || !lenMinus(args[2], 1) {
						continue
					}
					if !IsNamed(cs.RecvType(), c07CamtypesPath, "ClaimPtrsByDate") {
						continue
					}
					out = append(out, c07Test{x, true})
					accepted = append(accepted, "ClaimPtrsByDate.Less(n-2, n-1)")
				}
			}
		}
		return out
	}
	// orderGuarded: block of g is reached only over an establishing edge of the guard, in g or
	// - when g is a helper - at every static call of g
	var orderGuarded func(g *ssa.Function, blk *ssa.BasicBlock, depth int) bool
	orderGuarded = func(g *ssa.Function, blk *ssa.BasicBlock, depth int) bool {
		if est := c07EstEdges(g, og.tests(g, nil, 0)); len(est) > 0 && !c07Reach(g.Blocks[0], blk, est) {
			return true
		}
		if depth >= 3 || !cx.followable(g) || c07Exported(g) {
			return false
		}
		for _, c := range cx.callers(g) {
			if !orderGuarded(c.Fn, c.Block(), depth+1) {
				return false
			}
		}
		return true
	}
	for _, step := range steps {
		cacheT := c07StepCacheType(step.fn)
		holdsCache := func(t types.Type) bool {
			if types.Identical(t, cacheT) {
				return true
			}
			m, ok := t.Underlying().(*types.Map)
			return ok && types.Identical(m.Elem(), cacheT)
		}
		// appliers: the step and the functions passing their own claim parameter on to an applier
		appliers := map[*ssa.Function]int{step.fn: c07ParamIndex(step.fn, step.handle.(*ssa.Parameter))} // -> index of the claim parameter
		for round := 0; round < 5; round++ {
			grew := false
			for a, idx := range appliers {
				for _, c := range p.StaticCallers(a) {
					g := c.Fn
					if g.Parent() != nil || idx >= len(c.Args()) {
						continue
					}
					if _, known := appliers[g]; known {
						continue
					}
					if prm, ok := originValue(c.Args()[idx]).(*ssa.Parameter); ok && c07IsClaim(prm.Type()) && prm.Parent() == g {
						appliers[g] = c07ParamIndex(g, prm)
						grew = true
					}
				}
			}
			if !grew {
				break
			}
		}
		if len(appliers) == 1 && len(cx.callers(step.fn)) == 0 {
			r.Undecided("A-order", FuncKey(step.fn)+"#appliers", p.Pos(step.fn.Pos()), "nothing calls the cache step; cannot find the cache maintenance code")
			continue
		}
		type site struct {
			c    CallSite
			kind string // incremental | rebuild
		}
		var sites []site
		siteKind := map[ssa.Instruction]string{}
		rebuildFns := map[*ssa.Function]bool{}
		var applierList []*ssa.Function
		for a := range appliers {
			applierList = append(applierList, a)
		}
		sort.Slice(applierList, func(i, j int) bool { return FuncKey(applierList[i]) < FuncKey(applierList[j]) })
		for _, a := range applierList {
			idx := appliers[a]
			for _, c := range cx.callers(a) {
				if idx >= len(c.Args()) {
					continue
				}
				arg := originValue(c.Args()[idx])
				if prm, ok := arg.(*ssa.Parameter); ok && prm.Parent() == c.Fn {
					if _, passOn := appliers[c.Fn]; passOn {
						continue // hands its own claim parameter on: the sites are its callers
					}
				}
				construct := FuncKey(c.Fn) + "#cache-update"
				ld, ok := arg.(*ssa.UnOp)
				var ia *ssa.IndexAddr
				if ok && ld.Op == token.MUL {
					ia, _ = ld.X.(*ssa.IndexAddr)
				}
				if ia == nil || !claimsList(ia.X, 0) {
					r.Undecided("A-order", construct, p.Pos(c.Pos()), fmt.Sprintf("%s feeds the attribute cache a claim that is not an element of PermanodeMeta.%s; cannot tell whether date order is respected", FuncKey(c.Fn), cx.claimsField))
					continue
				}
				switch {
				case lenMinus(ia.Index, 1):
					sites = append(sites, site{c, "incremental"})
					siteKind[c.Instr] = "incremental"
				case inLoop(c.Block()):
					sites = append(sites, site{c, "rebuild"})
					siteKind[c.Instr] = "rebuild"
					rebuildFns[TopFunc(c.Fn)] = true
				default:
					r.Undecided("A-order", construct, p.Pos(c.Pos()), fmt.Sprintf("%s feeds the cache one claim that is neither the last one nor part of a loop over all claims", FuncKey(c.Fn)))
				}
			}
		}
		// performers: a call of such a function is a fix-up (rebuild) on every path through it.
		// A function holding the loop that refolds all claims is one by definition (no claims: nothing to fold);
		// any other function is one when each path from its entry to a return passes a fix-up site or calls a performer.
		fixPerf := map[*ssa.Function]bool{}
		rebPerf := map[*ssa.Function]bool{}
		for g := range rebuildFns {
			fixPerf[g], rebPerf[g] = true, true
		}
		cands := map[*ssa.Function]bool{}
		for _, s := range sites {
			cands[TopFunc(s.c.Fn)] = true
		}
		for d := 0; d < 4; d++ {
			for g := range cands {
				for _, c := range cx.callers(g) {
					cands[TopFunc(c.Fn)] = true
				}
			}
		}
		stopFor := func(g *ssa.Function, perf map[*ssa.Function]bool, rebuildOnly bool) func(ssa.Instruction) bool {
			return func(in ssa.Instruction) bool {
				if k, ok := siteKind[in]; ok && (!rebuildOnly || k == "rebuild") {
					return true
				}
				ci, ok := in.(ssa.CallInstruction)
				if !ok {
					return false
				}
				if _, isCall := in.(*ssa.Call); !isCall {
					return false // go / defer do not run here
				}
				cal := CallSite{g, ci}.Callee()
				return cal != nil && perf[cal]
			}
		}
		for round := 0; round < 5; round++ {
			grew := false
			for g := range cands {
				if g.Blocks == nil || len(g.Blocks[0].Instrs) == 0 {
					continue
				}
				first := g.Blocks[0].Instrs[0]
				if !rebPerf[g] {
					st := stopFor(g, rebPerf, true)
					if st(first) || len(LeakingExits(PathQuery{Start: first, Stop: st, IgnorePanics: true})) == 0 {
						rebPerf[g], grew = true, true
					}
				}
				if !fixPerf[g] {
					st := stopFor(g, fixPerf, false)
					if st(first) || len(LeakingExits(PathQuery{Start: first, Stop: st, IgnorePanics: true})) == 0 {
						fixPerf[g], grew = true, true
					}
				}
			}
			if !grew {
				break
			}
		}
		sort.Slice(sites, func(i, j int) bool {
			return FuncKey(sites[i].c.Fn)+sites[i].kind < FuncKey(sites[j].c.Fn)+sites[j].kind
		})
		var partial []string // functions holding a fix-up site that are not performers
		for _, s := range sites {
			g := s.c.Fn
			if !fixPerf[TopFunc(g)] {
				partial = append(partial, FuncKey(TopFunc(g)))
			}
			switch s.kind {
			case "rebuild":
				construct := FuncKey(g) + "#rebuild"
				// sorted before folding
				isSort := func(in ssa.Instruction) bool {
					ci, ok := in.(*ssa.Call)
					if !ok {
						return false
					}
					c := CallSite{in.Parent(), ci}
					cal := c.Callee()
					if cal == nil || cal.Pkg == nil {
						return false
					}
					pk := cal.Pkg.Pkg.Path()
					if !((pk == "sort" && (cal.Name() == "Sort" || cal.Name() == "Stable" || cal.Name() == "Slice" || cal.Name() == "SliceStable")) || (pk == "slices" && strings.HasPrefix(cal.Name(), "Sort"))) {
						return false
					}
					return len(c.Args()) > 0 && c07DependsOn(c.Args()[0], isClaimsLoad)
				}
				if !cx.before(s.c.Instr, isSort, 0) {
					r.Violation("A-order", construct, p.Pos(s.c.Pos()), fmt.Sprintf("%s refolds all claims into the attribute cache without sorting PermanodeMeta.%s first: claims that arrived out of date order are applied in arrival order", FuncKey(g), cx.claimsField))
					continue
				}
				// caches reset before folding
				st, _ := cx.pmT.Underlying().(*types.Struct)
				missing := ""
				for i := 0; i < st.NumFields(); i++ {
					if !holdsCache(st.Field(i).Type()) {
						continue
					}
					fname := st.Field(i).Name()
					isReset := func(in ssa.Instruction) bool {
						sto, ok := in.(*ssa.Store)
						if !ok {
							return false
						}
						fa, ok := sto.Addr.(*ssa.FieldAddr)
						if !ok || !types.Identical(c07Deref(fa.X.Type()), cx.pmT) || fieldName(fa.X.Type(), fa.Field) != fname {
							return false
						}
						_, fresh := originValue(sto.Val).(*ssa.MakeMap)
						return fresh
					}
					if !cx.before(s.c.Instr, isReset, 0) {
						missing = fname
					}
				}
				if missing != "" {
					r.Violation("A-order", construct, p.Pos(s.c.Pos()), fmt.Sprintf("%s refolds all claims without first replacing cache field %s by a fresh map: old values survive and add-attribute values are duplicated", FuncKey(g), missing))
					continue
				}
				r.OK("A-order", construct, p.Pos(s.c.Pos()), "the claim list is sorted and every cache field replaced by a fresh map before the loop that refolds all claims (helpers called before the loop, and the callers of a helper holding the loop, are followed)")
			case "incremental":
				construct := FuncKey(g) + "#incremental"
				accepted = nil
				if !orderGuarded(g, s.c.Block(), 0) {
					r.Violation("A-order", construct, p.Pos(s.c.Pos()), fmt.Sprintf("%s applies only the last claim to the attribute cache on a path where it is not known that the last two claims are in date order (accepted edges found: %v): a claim arriving with an older date is applied after newer ones", FuncKey(g), c07Uniq(accepted)))
					continue
				}
				r.OK("A-order", construct, p.Pos(s.c.Pos()), fmt.Sprintf("the last claim alone is applied only behind %v; that every other path rebuilds is checked where the claim list grows (#claims-append)", c07Uniq(accepted)))
			}
		}
		// every growth of the claim list is followed by a fix-up unless building
		buildingFlags := map[string]bool{}
		assumeBuilding := func(cond ssa.Value) (bool, bool) {
			_, owner, name, ok := c07FieldRef(cond)
			if !ok {
				return false, false
			}
			if !c07IsBool(cond.Type()) {
				return false, false
			}
			buildingFlags[c07FieldKey(owner, name)] = true
			return true, false // checked below: the flag is cleared only after a rebuild of every permanode
		}
		// fixedAfter: every path from start to an exit of its function passes a fix-up; for a helper
		// the paths continue after each of its static calls
		var fixedAfter func(start ssa.Instruction, depth int) (bool, token.Pos)
		fixedAfter = func(start ssa.Instruction, depth int) (bool, token.Pos) {
			g := start.Parent()
			leaks := LeakingExits(PathQuery{Start: start, Stop: stopFor(g, fixPerf, false), Assume: assumeBuilding, IgnorePanics: true})
			if len(leaks) == 0 {
				return true, token.NoPos
			}
			if depth >= 3 || !cx.followable(g) || c07Exported(g) {
				return false, leaks[0].Exit.Pos()
			}
			for _, c := range cx.callers(g) {
				if _, isCall := c.Instr.(*ssa.Call); !isCall {
					return false, c.Pos()
				}
				if ok, pos := fixedAfter(c.Instr, depth+1); !ok {
					return false, pos
				}
			}
			return true, token.NoPos
		}
		for _, sto := range cx.storesToField(c07FieldKey(cx.pmT, cx.claimsField)) {
			g := sto.Parent()
			if g.Pkg != nil && IsTestSupportPkg(RelPkg(TopFunc(g).Pkg.Pkg)) {
				continue
			}
			construct := FuncKey(g) + "#claims-append"
			if rebuildFns[TopFunc(g)] {
				r.OKTable("A-order", construct, p.Pos(sto.Pos()), "store inside the cache rebuild itself")
				continue
			}
			if ok, pos := fixedAfter(sto, 0); !ok {
				extra := ""
				if len(partial) > 0 {
					extra = fmt.Sprintf(" (%v hold(s) a fix-up but can return without performing it, so calling it does not count)", c07Uniq(partial))
				}
				r.Violation("A-order", construct, p.Pos(pos), fmt.Sprintf("%s stores a new claim list into PermanodeMeta.%s and can return without a cache fix-up (applying the last claim in date order, or a rebuild)%s: the cached attributes miss the claim, or Claims is left unsorted", FuncKey(g), cx.claimsField, extra))
				continue
			}
			r.OK("A-order", construct, p.Pos(sto.Pos()), "every path from the store to an exit applies the last claim / rebuilds the cache (directly or through a function that does so on all its paths), or runs with the bulk-load flag set")
		}
		var flags []string
		for k := range buildingFlags {
			flags = append(flags, k)
		}
		sort.Strings(flags)
		for _, k := range flags {
			n := 0
			for _, sto := range cx.storesToField(k) {
				cv, ok := sto.Val.(*ssa.Const)
				if !ok || cv.Value == nil || cv.Value.Kind() != constant.Bool || constant.BoolVal(cv.Value) {
					continue
				}
				n++
				g := sto.Parent()
				construct := FuncKey(g) + "#" + k + "-cleared"
				// dominated by a range loop over *PermanodeMeta values whose body rebuilds the ranged value
				ok = false
				for _, c := range CallsIn(g, false) {
					cal := c.Callee()
					if cal == nil || !rebPerf[cal] || len(c.Args()) == 0 {
						continue
					}
					ex, isEx := originValue(c.Args()[0]).(*ssa.Extract)
					if !isEx {
						continue
					}
					nx, isNext := ex.Tuple.(*ssa.Next)
					if !isNext {
						continue
					}
					if nx.Block().Dominates(sto.Block()) && nx.Block() != sto.Block() {
						ok = true
					}
				}
				r.Check(ok, "A-order", construct, p.Pos(sto.Pos()),
					"the bulk-load flag is cleared only after the loop that rebuilds the cache of every permanode",
					fmt.Sprintf("%s clears bulk-load flag %s without a preceding loop that rebuilds every permanode's cache: claims appended while the flag was set are never sorted nor folded", FuncKey(g), k))
			}
			if n == 0 {
				r.Violation("A-order", k+"-cleared", "", fmt.Sprintf("flag %s lets claim appends skip the cache fix-up but is never cleared", k))
			}
		}
	}
	// today: restoreInvariants#rebuild, fixupLastClaim#incremental, mergeClaimRow#claims-append, scanFromStorage#...building-cleared
	r.Floor("A-order", 4)
}

// ---------------------------------------------------------------------------
// A-own: distinct attribute caches never share slice storage
//
// The attribute cache type (a named map from attribute to []string, found as
// the receiver of the one-claim fold step) is maintained IN PLACE: the fold
// step appends to and filters the slice of an entry and stores it back under
// the same key. That is only right while the storage of an entry is reachable
// from exactly one (map, key). The rule follows
//   - whole cache maps forward (type, conversions, fields, results, parameters)
//     to find every entry read, entry store and escape;
//   - every stored entry value backward to what it is made of;
//   - every entry read forward to what happens with the slice.

type c07Issue struct {
	bad  bool // true: violation, false: undecided
	fn   *ssa.Function
	pos  token.Pos
	what string
}

type c07Root struct {
	v    ssa.Value // the cached []string as read
	m, k ssa.Value // the map and key it was read from
	fn   *ssa.Function
}

type c07Mutation struct {
	fn   *ssa.Function // function holding the cached slice (root function)
	at   *ssa.Function // function containing the write
	pos  token.Pos
	how  string
	root *c07Root
}

type c07SumKey struct {
	fn  *ssa.Function
	idx int
}

// c07Summary: what a callee does with a slice parameter.
type c07Summary struct {
	done     bool
	retAlias map[int]bool // result indices that may alias the parameter
	muts     []c07Mutation
	issues   []c07Issue
}

type c07Own struct {
	cx     *c07Ctx
	p      *Program
	cacheT *types.Named
	step   *ssa.Function

	inScope    map[*ssa.Function]bool
	cm         map[ssa.Value]bool // values that are (aliases of) a cache map
	work       []ssa.Value
	fieldReads map[string][]ssa.Value
	carriers   map[string]bool
	mapIssues  []c07Issue
	roots      []*c07Root
	rootSeen   map[ssa.Value]bool
	updates    []*ssa.MapUpdate
	updSeen    map[*ssa.MapUpdate]bool
	sums       map[c07SumKey]*c07Summary
}

func c07RuleOwn(cx *c07Ctx, r *Reporter, folds []*c07Fold) {
	p := cx.p
	o := &c07Own{cx: cx, p: p, inScope: map[*ssa.Function]bool{}, cm: map[ssa.Value]bool{}, carriers: map[string]bool{},
		rootSeen: map[ssa.Value]bool{}, updSeen: map[*ssa.MapUpdate]bool{}, sums: map[c07SumKey]*c07Summary{}}
	// today: 4 entry stores, 4 holder stores, 6 functions reading entries, 1 double application,
	// the list of in-place updates, the map-flow summary = 17
	defer r.Floor("A-own", 16)
	for _, f := range folds {
		if !c07IsParam(f.handle) {
			continue
		}
		n := c07StepCacheType(f.fn)
		if n == nil {
			continue
		}
		if mt, ok := n.Underlying().(*types.Map); ok {
			if _, ok := mt.Elem().Underlying().(*types.Slice); ok {
				if o.cacheT != nil && !types.Identical(o.cacheT, n) {
					r.Undecided("A-own", "cache-type", p.Pos(f.fn.Pos()), fmt.Sprintf("two attribute cache types found (%s and %s); this rule models one", typeKey(o.cacheT), typeKey(n)))
					return
				}
				o.cacheT, o.step = n, f.fn
			}
		}
	}
	if o.cacheT == nil {
		r.Violation("A-own", "cache-type", "", "no fold step with a named map-of-slices receiver was found; the ownership rule has nothing to anchor on")
		return
	}
	for _, fn := range p.AllFuncs {
		if fn.Pkg == nil || IsTestSupportPkg(RelPkg(fn.Pkg.Pkg)) {
			continue
		}
		o.inScope[fn] = true
	}
	o.findCacheMaps()

	// 1. what does each read of an entry do with the slice
	type perFn struct {
		fn     *ssa.Function
		roots  int
		muts   []c07Mutation
		issues []c07Issue
		pos    token.Pos
	}
	byFn := map[*ssa.Function]*perFn{}
	var fnOrder []*perFn
	var ownMuts []c07Mutation
	for _, rt := range o.roots {
		pf := byFn[rt.fn]
		if pf == nil {
			pf = &perFn{fn: rt.fn, pos: rt.v.Pos()}
			if !pf.pos.IsValid() {
				pf.pos = rt.m.Pos()
			}
			if !pf.pos.IsValid() {
				pf.pos = rt.fn.Pos()
			}
			byFn[rt.fn] = pf
			fnOrder = append(fnOrder, pf)
		}
		pf.roots++
		w := &c07SliceWalk{o: o, root: rt, seen: map[ssa.Value]bool{}}
		w.push(rt.v)
		w.run()
		pf.issues = append(pf.issues, w.issues...)
		// in-place writes are the entry's own update when the slice goes back under the same (map, key)
		own := false
		for _, mu := range w.stores {
			if c07SameVal(mu.Map, rt.m) && rt.k != nil && c07SameVal(mu.Key, rt.k) {
				own = true
			}
		}
		for _, m := range w.muts {
			if own {
				ownMuts = append(ownMuts, m)
			} else {
				pf.muts = append(pf.muts, m)
			}
		}
	}
	sort.Slice(fnOrder, func(i, j int) bool { return FuncKeyAny(fnOrder[i].fn) < FuncKeyAny(fnOrder[j].fn) })

	// 2. the precondition: somebody writes cached storage in place
	mutWhere := map[string]bool{}
	var firstMut *c07Mutation
	for i, m := range ownMuts {
		mutWhere[fmt.Sprintf("%s (%s)", FuncKeyAny(m.fn), m.how)] = true
		if firstMut == nil {
			firstMut = &ownMuts[i]
		}
	}
	var mutList []string
	for k := range mutWhere {
		mutList = append(mutList, k)
	}
	sort.Strings(mutList)
	inPlace := len(mutList) > 0
	because := "no code writes cached storage in place"
	if inPlace {
		because = "entries are updated in place by " + strings.Join(mutList, ", ")
		r.OK("A-own", "in-place-updates", p.Pos(firstMut.pos), fmt.Sprintf("the storage of a cache entry is written in place (element stores through, or append onto, a slice read from the map and stored back under the same key): %s; so entry storage must have exactly one owner", strings.Join(mutList, ", ")))
	} else {
		r.OKTable("A-own", "in-place-updates", p.Pos(o.step.Pos()), "no function writes the storage of a cache entry in place; shared storage between entries would be harmless, the sharing clauses below are reported but not enforced")
	}
	shareViolation := func(construct, site, detail string) {
		if inPlace {
			r.Violation("A-own", construct, site, detail+"; "+because)
		} else {
			r.OKTable("A-own", construct, site, "not enforced ("+because+"): "+detail)
		}
	}

	// 3. every store of an entry
	sort.SliceStable(o.updates, func(i, j int) bool {
		a, b := o.updates[i], o.updates[j]
		if ka, kb := FuncKeyAny(a.Parent()), FuncKeyAny(b.Parent()); ka != kb {
			return ka < kb
		}
		if a.Block().Index != b.Block().Index {
			return a.Block().Index < b.Block().Index
		}
		return instrIndex(a) < instrIndex(b)
	})
	for _, mu := range o.updates {
		fn := mu.Parent()
		construct := FuncKeyAny(fn) + "#entry-store"
		site := p.Pos(mu.Pos())
		var leaves []c07Leaf
		sw := &c07SrcWalk{o: o, seen: map[c07SrcKey]bool{}}
		sw.walk(mu.Value, nil, false, 0)
		leaves = sw.out
		var fresh, own int
		var bad, unk []string
		for _, lf := range leaves {
			switch lf.kind {
			case "fresh", "empty":
				fresh++
			case "entry":
				switch {
				case c07SameVal(lf.m, mu.Map) && lf.k != nil && c07SameVal(lf.k, mu.Key) && !lf.viaCaller:
					own++
				case lf.viaCaller:
					unk = append(unk, fmt.Sprintf("a cache entry read in a caller (%s); cannot compare it with the entry stored here", p.Pos(lf.pos)))
				case c07SameVal(lf.m, mu.Map):
					bad = append(bad, fmt.Sprintf("the slice of ANOTHER key of the same map (read at %s)", p.Pos(lf.pos)))
				default:
					bad = append(bad, fmt.Sprintf("the slice of an entry of a DIFFERENT cache map (read at %s) through re-slicing/clipping/conversion only, without a copy", p.Pos(lf.pos)))
				}
			default:
				unk = append(unk, fmt.Sprintf("%s (%s)", lf.what, p.Pos(lf.pos)))
			}
		}
		switch {
		case len(bad) > 0:
			shareViolation(construct, site, fmt.Sprintf("%s stores into an attribute cache %s: the two entries alias one backing array, so an in-place update through one (del-attribute with a value filters in place; add-attribute appends into spare capacity) changes the values seen through the other", FuncKeyAny(fn), strings.Join(c07Uniq(bad), "; ")))
		case len(unk) > 0:
			r.Undecided("A-own", construct, site, fmt.Sprintf("%s stores into an attribute cache a slice whose storage cannot be shown to be owned by that entry alone: %s", FuncKeyAny(fn), strings.Join(c07Uniq(unk), "; ")))
		case fresh+own == 0:
			r.Undecided("A-own", construct, site, fmt.Sprintf("%s: the stored value could not be traced", FuncKeyAny(fn)))
		default:
			r.OK("A-own", construct, site, fmt.Sprintf("the stored slice is made only of freshly allocated/empty storage (%d source(s)) and of the same entry's previous value (%d source(s))", fresh, own))
		}
	}

	// 4. every read of an entry
	for _, pf := range fnOrder {
		construct := FuncKeyAny(pf.fn) + "#cached-slice-use"
		site := p.Pos(pf.pos)
		var bad, unk []string
		for _, is := range pf.issues {
			s := fmt.Sprintf("%s (%s)", is.what, p.Pos(is.pos))
			if is.bad {
				bad = append(bad, s)
			} else {
				unk = append(unk, s)
			}
		}
		for _, m := range pf.muts {
			bad = append(bad, fmt.Sprintf("its storage is written in place (%s, %s) although the slice is not stored back under the key it was read from", m.how, p.Pos(m.pos)))
		}
		switch {
		case len(bad) > 0:
			shareViolation(construct, site, fmt.Sprintf("%s reads a cached attribute slice and %s: the cache keeps updating that storage in place, so the holder sees values that were never the attribute's values (and what the holder writes lands in the cache)", FuncKeyAny(pf.fn), strings.Join(c07Uniq(bad), "; ")))
		case len(unk) > 0:
			r.Undecided("A-own", construct, site, fmt.Sprintf("%s reads a cached attribute slice; cannot show it stays private to the cache: %s", FuncKeyAny(pf.fn), strings.Join(c07Uniq(unk), "; ")))
		default:
			r.OK("A-own", construct, site, fmt.Sprintf("%d read(s) of a cache entry: the slice is only read (len, element loads, copied out by append/copy) or updated and stored back under the same key; it is not returned by an exported function, stored in a field/global/other map, nor passed to code that keeps or writes it", pf.roots))
		}
	}

	// 5. whole maps: holders and escapes
	o.holderStores(r, shareViolation)
	o.applyOnce(r)
	var bad, unk []string
	var firstPos token.Pos
	for _, is := range o.mapIssues {
		if !firstPos.IsValid() {
			firstPos = is.pos
		}
		s := fmt.Sprintf("%s in %s (%s)", is.what, FuncKeyAny(is.fn), p.Pos(is.pos))
		if is.bad {
			bad = append(bad, s)
		} else {
			unk = append(unk, s)
		}
	}
	var carr []string
	for k := range o.carriers {
		carr = append(carr, k)
	}
	sort.Strings(carr)
	switch {
	case len(bad) > 0:
		shareViolation("cache-map-flow", p.Pos(firstPos), "a whole attribute cache map leaves the cache: "+strings.Join(c07Uniq(bad), "; "))
	case len(unk) > 0:
		r.Undecided("A-own", "cache-map-flow", p.Pos(firstPos), "cannot follow a cache map: "+strings.Join(c07Uniq(unk), "; "))
	default:
		r.OK("A-own", "cache-map-flow", p.Pos(o.step.Pos()), fmt.Sprintf("every value of type %s was followed through conversions, variables, parameters, results and fields (carriers beyond the type itself: %v); no cache map is returned by an exported function, stored in a global, converted to an interface or passed to code without a body", o.cacheT.Obj().Name(), carr))
	}
	r.Analysed("cache_map_values", len(o.cm))
	r.Analysed("cache_entry_reads", len(o.roots))
}

// c07SameVal: two values of one function denote the same run-time value as far
// as a local analysis can tell: same origin, or the same access path
// (parameter/field/constant chain) - two loads of pm.attr, two loads of cl.Attr.
func c07SameVal(a, b ssa.Value) bool {
	if a == nil || b == nil {
		return false
	}
	if a == b || originValue(a) == originValue(b) {
		return true
	}
	pa, pb := AccessPath(a), AccessPath(b)
	return pa == pb && !strings.Contains(pa, "?")
}

func c07Exported(fn *ssa.Function) bool {
	if fn.Parent() != nil {
		return false
	}
	obj := fn.Object()
	if obj == nil || !obj.Exported() {
		return false
	}
	if recv := fn.Signature.Recv(); recv != nil {
		n := NamedOf(recv.Type())
		return n != nil && n.Obj().Exported()
	}
	return true
}

// c07LoadsOf lists the loads of a local variable in its function and nested literals.
func c07LoadsOf(cell *ssa.Alloc) []ssa.Value {
	var out []ssa.Value
	var walk func(f *ssa.Function)
	walk = func(f *ssa.Function) {
		for _, b := range f.Blocks {
			for _, in := range b.Instrs {
				if ld, ok := in.(*ssa.UnOp); ok && ld.Op == token.MUL {
					if c, ok := varOf(ld.X); ok && c == ssa.Value(cell) {
						out = append(out, ld)
					}
				}
			}
		}
		for _, a := range f.AnonFuncs {
			walk(a)
		}
	}
	walk(cell.Parent())
	return out
}

// c07OnlyFormatted: the interface value is used only as an operand of a call
// into package fmt or log (directly or through the variadic operand array).
// Table entry, one reason: the formatting functions read their operands while
// the call runs and keep no reference to them.
func c07OnlyFormatted(mi *ssa.MakeInterface) bool {
	isFmt := func(in ssa.Instruction) bool {
		ci, ok := in.(ssa.CallInstruction)
		if !ok {
			return false
		}
		if _, isGo := in.(*ssa.Go); isGo {
			return false
		}
		f := ci.Common().StaticCallee()
		if f == nil || f.Pkg == nil {
			return false
		}
		pk := f.Pkg.Pkg.Path()
		return pk == "fmt" || pk == "log"
	}
	refs := mi.Referrers()
	if refs == nil {
		return true
	}
	for _, u := range *refs {
		switch y := u.(type) {
		case *ssa.DebugRef:
		case *ssa.Store:
			ia, ok := y.Addr.(*ssa.IndexAddr)
			if !ok || y.Val != ssa.Value(mi) {
				return false
			}
			al, ok := ia.X.(*ssa.Alloc)
			if !ok || al.Referrers() == nil {
				return false
			}
			for _, au := range *al.Referrers() {
				switch z := au.(type) {
				case *ssa.IndexAddr, *ssa.DebugRef:
				case *ssa.Slice:
					if z.Referrers() == nil {
						continue
					}
					for _, su := range *z.Referrers() {
						if _, isDbg := su.(*ssa.DebugRef); !isDbg && !isFmt(su) {
							return false
						}
					}
				default:
					return false
				}
			}
		default:
			if !isFmt(u) {
				return false
			}
		}
	}
	return true
}

func c07Builtin(cc *ssa.CallCommon) string {
	if bi, ok := cc.Value.(*ssa.Builtin); ok {
		return bi.Name()
	}
	return ""
}

// c07ZeroCap: a slice expression whose capacity is the constant 0 owns no storage.
func c07ZeroCap(s *ssa.Slice) bool {
	if s.Max == nil {
		return false
	}
	n, ok := ConstInt(s.Max)
	return ok && n == 0
}

// c07ResultValues: the values at a call site that receive result idx.
func c07ResultValues(c CallSite, idx int) []ssa.Value {
	call := c.Value()
	if call == nil {
		return nil
	}
	if call.Common().Signature().Results().Len() == 1 {
		return []ssa.Value{call}
	}
	var out []ssa.Value
	if refs := call.Referrers(); refs != nil {
		for _, rf := range *refs {
			if ex, ok := rf.(*ssa.Extract); ok && ex.Index == idx {
				out = append(out, ex)
			}
		}
	}
	return out
}

// ---- whole cache maps, forward

func (o *c07Own) addCM(v ssa.Value) {
	if v == nil || o.cm[v] {
		return
	}
	if _, isConst := v.(*ssa.Const); isConst {
		return
	}
	o.cm[v] = true
	o.work = append(o.work, v)
}

func (o *c07Own) mapIssue(bad bool, in ssa.Instruction, what string) {
	o.mapIssues = append(o.mapIssues, c07Issue{bad, in.Parent(), in.Pos(), what})
}

func (o *c07Own) findCacheMaps() {
	p := o.p
	o.fieldReads = map[string][]ssa.Value{}
	isCache := func(t types.Type) bool { return types.Identical(t, o.cacheT) }
	for _, fn := range p.AllFuncs {
		if !o.inScope[fn] {
			continue
		}
		for _, prm := range fn.Params {
			if isCache(prm.Type()) {
				o.addCM(prm)
			}
		}
		for _, fv := range fn.FreeVars {
			if isCache(fv.Type()) {
				o.addCM(fv)
			}
		}
		for _, b := range fn.Blocks {
			for _, in := range b.Instrs {
				switch x := in.(type) {
				case *ssa.UnOp:
					if fa, ok := x.X.(*ssa.FieldAddr); ok && x.Op == token.MUL {
						k := c07FieldKey(fa.X.Type(), fieldName(fa.X.Type(), fa.Field))
						o.fieldReads[k] = append(o.fieldReads[k], x)
					}
				case *ssa.Field:
					k := c07FieldKey(x.X.Type(), fieldName(x.X.Type(), x.Field))
					o.fieldReads[k] = append(o.fieldReads[k], x)
				}
				if v, ok := in.(ssa.Value); ok && isCache(v.Type()) {
					o.addCM(v)
				}
			}
		}
	}
	for len(o.work) > 0 {
		v := o.work[len(o.work)-1]
		o.work = o.work[:len(o.work)-1]
		refs := v.Referrers()
		if refs == nil {
			continue
		}
		for _, rf := range *refs {
			o.cmUse(v, rf)
		}
	}
}

func (o *c07Own) addRoot(v, m, k ssa.Value, fn *ssa.Function) {
	if o.rootSeen[v] {
		return
	}
	o.rootSeen[v] = true
	o.roots = append(o.roots, &c07Root{v: v, m: m, k: k, fn: fn})
}

func (o *c07Own) cmUse(v ssa.Value, rf ssa.Instruction) {
	p := o.p
	isCache := func(t types.Type) bool { return types.Identical(t, o.cacheT) }
	switch x := rf.(type) {
	case *ssa.DebugRef, *ssa.BinOp, *ssa.If:
	case *ssa.ChangeType:
		o.addCM(x)
	case *ssa.Convert:
		o.addCM(x)
	case *ssa.Phi:
		o.addCM(x)
	case *ssa.Lookup:
		if x.X != v {
			return
		}
		if !x.CommaOk {
			o.addRoot(x, v, x.Index, x.Parent())
			return
		}
		if refs := x.Referrers(); refs != nil {
			for _, u := range *refs {
				if ex, ok := u.(*ssa.Extract); ok && ex.Index == 0 {
					o.addRoot(ex, v, x.Index, x.Parent())
				}
			}
		}
	case *ssa.Range:
		refs := x.Referrers()
		if refs == nil {
			return
		}
		for _, u := range *refs {
			nx, ok := u.(*ssa.Next)
			if !ok {
				o.mapIssue(false, u, "unmodelled use of a range iterator over a cache map")
				continue
			}
			var key ssa.Value
			var elems []*ssa.Extract
			if nr := nx.Referrers(); nr != nil {
				for _, e := range *nr {
					if ex, ok := e.(*ssa.Extract); ok {
						switch ex.Index {
						case 1:
							key = ex
						case 2:
							elems = append(elems, ex)
						}
					}
				}
			}
			for _, ex := range elems {
				o.addRoot(ex, v, key, x.Parent())
			}
		}
	case *ssa.MapUpdate:
		if x.Map == v && !o.updSeen[x] {
			o.updSeen[x] = true
			o.updates = append(o.updates, x)
		}
		if x.Value == v {
			mt, _ := x.Map.Type().Underlying().(*types.Map)
			if mt == nil || !isCache(mt.Elem()) {
				o.mapIssue(false, x, "a cache map is stored into a map whose element type is not the cache type")
			}
		}
	case *ssa.Store:
		if x.Val != v {
			return
		}
		switch a := x.Addr.(type) {
		case *ssa.FieldAddr:
			k := c07FieldKey(a.X.Type(), fieldName(a.X.Type(), a.Field))
			if !isCache(c07Deref(a.Type())) {
				o.carriers["field "+k] = true
			}
			for _, rd := range o.fieldReads[k] {
				o.addCM(rd)
			}
		default:
			cell, ok := varOf(x.Addr)
			if al, isAlloc := cell.(*ssa.Alloc); ok && isAlloc {
				for _, ld := range c07LoadsOf(al) {
					o.addCM(ld)
				}
				return
			}
			if g, isGlobal := cell.(*ssa.Global); ok && isGlobal {
				o.mapIssue(true, x, "stored into package variable "+g.Name())
				return
			}
			if !isCache(c07Deref(x.Addr.Type())) {
				o.mapIssue(false, x, "stored through an address this rule does not model")
			}
			// a typed location: its loads are cache maps by type
		}
	case *ssa.Return:
		fn := x.Parent()
		for i, res := range x.Results {
			if res != v {
				continue
			}
			if c07Exported(fn) && o.inScope[fn] {
				o.mapIssue(true, x, fmt.Sprintf("returned by exported %s to callers that do not hold the cache's lock for as long as they use it", FuncKeyAny(fn)))
				continue
			}
			typed := isCache(fn.Signature.Results().At(i).Type())
			if !typed {
				o.carriers[fmt.Sprintf("result %d of %s", i, FuncKeyAny(fn))] = true
				if fn.Parent() != nil || len(p.FuncValueUses(fn)) > 0 || len(p.InvokeSites(fn)) > 0 {
					o.mapIssue(false, x, "returned (under another type) by a function that is called dynamically")
					continue
				}
			}
			for _, c := range p.StaticCallers(fn) {
				for _, rv := range c07ResultValues(c, i) {
					o.addCM(rv)
				}
			}
		}
	case *ssa.MakeClosure:
		lf := x.Fn.(*ssa.Function)
		for i, b := range x.Bindings {
			if b == v && i < len(lf.FreeVars) {
				o.addCM(lf.FreeVars[i])
			}
		}
	case ssa.CallInstruction:
		cc := x.Common()
		if name := c07Builtin(cc); name != "" {
			return // len, delete, clear, print
		}
		cs := CallSite{x.Parent(), x}
		callee := cs.Callee()
		for i, a := range cc.Args {
			if a != v {
				continue
			}
			if cc.IsInvoke() || callee == nil {
				o.mapIssue(false, x, "passed to a dynamically dispatched call "+cs.CalleeKey())
				continue
			}
			if funcIs(callee.Origin(), "maps", "", "Clone") || funcIs(callee, "maps", "", "Clone") {
				o.mapIssue(true, x, "shallow-copied with maps.Clone: the copy shares the slice of every entry with the original")
				continue
			}
			if callee.Blocks == nil || i >= len(callee.Params) {
				o.mapIssue(false, x, "passed to "+cs.CalleeKey()+", which has no body to follow")
				continue
			}
			o.addCM(callee.Params[i])
		}
		if cc.IsInvoke() && cc.Value == v {
			o.mapIssue(false, x, "used as the receiver of an interface call")
		}
	case *ssa.MakeInterface:
		if !c07OnlyFormatted(x) {
			o.mapIssue(false, x, "converted to an interface value that is not merely an operand of a fmt/log call")
		}
	case *ssa.Send:
		o.mapIssue(true, x, "sent on a channel")
	default:
		o.mapIssue(false, rf, fmt.Sprintf("unmodelled use %T", rf))
	}
}

// holderStores: a cache map stored into a holder (a field of the cache type, a
// map of caches) is fresh, or - the single-signer optimisation - shared with
// another holder only where the receiving map of caches is known to be empty.
func (o *c07Own) holderStores(r *Reporter, shareViolation func(construct, site, detail string)) {
	p := o.p
	isCache := func(t types.Type) bool { return types.Identical(t, o.cacheT) }
	type hs struct {
		in     ssa.Instruction
		val    ssa.Value
		holder ssa.Value // the map of caches (nil for a field store)
		what   string
	}
	var all []hs
	for _, fn := range p.AllFuncs {
		if !o.inScope[fn] {
			continue
		}
		for _, b := range fn.Blocks {
			for _, in := range b.Instrs {
				switch x := in.(type) {
				case *ssa.MapUpdate:
					if mt, ok := x.Map.Type().Underlying().(*types.Map); ok && isCache(mt.Elem()) {
						all = append(all, hs{x, x.Value, x.Map, "an entry of " + AccessPath(x.Map)})
					}
				case *ssa.Store:
					if !isCache(x.Val.Type()) {
						continue
					}
					if fa, ok := x.Addr.(*ssa.FieldAddr); ok {
						all = append(all, hs{x, x.Val, nil, "field " + c07FieldKey(fa.X.Type(), fieldName(fa.X.Type(), fa.Field))})
						continue
					}
					if cell, ok := varOf(x.Addr); ok {
						if _, isAlloc := cell.(*ssa.Alloc); isAlloc {
							continue // a local variable is not a holder
						}
					}
					all = append(all, hs{x, x.Val, nil, "a location reached through a pointer"})
				}
			}
		}
	}
	for _, h := range all {
		fn := h.in.Parent()
		construct := FuncKeyAny(fn) + "#holder-store"
		site := p.Pos(h.in.Pos())
		kinds := map[string]token.Pos{}
		c07MapSources(o, h.val, map[ssa.Value]bool{}, 0, kinds)
		_, shared := kinds["shared"]
		_, unknown := kinds["unknown"]
		switch {
		case unknown:
			r.Undecided("A-own", construct, site, fmt.Sprintf("%s stores into %s a cache map that is neither a fresh make nor read from another holder (%s)", FuncKeyAny(fn), h.what, p.Pos(kinds["unknown"])))
		case !shared:
			r.OK("A-own", construct, site, fmt.Sprintf("%s receives a map made by make in this call chain (or nil): a new, unshared cache", h.what))
		case h.holder == nil:
			shareViolation(construct, site, fmt.Sprintf("%s makes %s reference a cache map that another holder already references (read at %s); this rule accepts a shared map only as the sole entry of a map of caches", FuncKeyAny(fn), h.what, p.Pos(kinds["shared"])))
		default:
			// the receiving map of caches must be known empty
			removed := map[c07Edge]bool{}
			for _, b := range fn.Blocks {
				for _, in := range b.Instrs {
					bo, ok := in.(*ssa.BinOp)
					if !ok {
						continue
					}
					call, ok := bo.X.(*ssa.Call)
					if !ok || c07Builtin(call.Common()) != "len" || !c07SameVal(call.Call.Args[0], h.holder) {
						continue
					}
					n, ok := ConstInt(bo.Y)
					if !ok {
						continue
					}
					emptyWhenTrue := (bo.Op == token.EQL && n == 0) || (bo.Op == token.LSS && n == 1) || (bo.Op == token.LEQ && n == 0)
					emptyWhenFalse := (bo.Op == token.NEQ && n == 0) || (bo.Op == token.GTR && n == 0) || (bo.Op == token.GEQ && n == 1)
					for _, e := range c07IfEdges(fn, func(v ssa.Value) bool { return v == ssa.Value(bo) }) {
						if emptyWhenTrue {
							removed[e] = true
						} else if emptyWhenFalse {
							removed[c07Other(e)] = true
						}
					}
				}
			}
			if len(removed) == 0 || c07Reach(fn.Blocks[0], h.in.Block(), removed) {
				shareViolation(construct, site, fmt.Sprintf("%s stores into %s a cache map that another holder references (read at %s) on a path where that map of caches is not known to be empty: two signers (or all-signers and one of several signers) then fold their claims into one map", FuncKeyAny(fn), h.what, p.Pos(kinds["shared"])))
				continue
			}
			r.OK("A-own", construct, site, fmt.Sprintf("%s receives a map shared with another holder only on paths where len(%s) is known 0: it becomes the only entry (single-signer sharing)", h.what, AccessPath(h.holder)))
		}
	}
}

// applyOnce: holderStores accepts ONE map referenced by a field holder and by
// the only entry of a map of caches. A function that applies one claim to two
// cache maps, one read from a field and one read from an entry of a map of
// caches H, therefore applies it twice to the same map unless len(H) >= 2 is
// known on the way.
func (o *c07Own) applyOnce(r *Reporter) {
	p := o.p
	for _, fn := range p.AllFuncs {
		if !o.inScope[fn] {
			continue
		}
		calls := FindCalls(fn, false, func(c CallSite) bool { return c.Callee() == o.step && c.Value() != nil && len(c.Args()) == 2 })
		if len(calls) < 2 {
			continue
		}
		construct := FuncKeyAny(fn) + "#apply-once"
		pairs, guarded := 0, 0
		bad := ""
		var badPos token.Pos
		for _, c1 := range calls {
			for _, c2 := range calls {
				if c1.Instr == c2.Instr || !c07SameVal(c1.Args()[1], c2.Args()[1]) {
					continue
				}
				if c1.Block() == c2.Block() {
					if instrIndex(c1.Instr) > instrIndex(c2.Instr) {
						continue
					}
				} else if !c07Reach(c1.Block(), c2.Block(), nil) {
					continue
				}
				r1, r2 := c1.Args()[0], c2.Args()[0]
				if c07SameVal(r1, r2) {
					bad, badPos = "applies one claim twice to the same cache map", c2.Pos()
					continue
				}
				k1, k2 := map[string]token.Pos{}, map[string]token.Pos{}
				var h1, h2 []ssa.Value
				c07MapSourcesH(o, r1, map[ssa.Value]bool{}, 0, k1, &h1)
				c07MapSourcesH(o, r2, map[ssa.Value]bool{}, 0, k2, &h2)
				_, f1 := k1["field"]
				_, f2 := k2["field"]
				_, u1 := k1["unknown"]
				_, u2 := k2["unknown"]
				holders := append(append([]ssa.Value(nil), h1...), h2...)
				mayAlias := (f1 && len(h2) > 0) || (f2 && len(h1) > 0) || u1 || u2
				if !mayAlias {
					continue
				}
				pairs++
				removed := map[c07Edge]bool{}
				for _, b := range fn.Blocks {
					for _, in := range b.Instrs {
						bo, ok := in.(*ssa.BinOp)
						if !ok {
							continue
						}
						call, ok := bo.X.(*ssa.Call)
						if !ok || c07Builtin(call.Common()) != "len" {
							continue
						}
						isH := false
						for _, h := range holders {
							if c07SameVal(call.Call.Args[0], h) {
								isH = true
							}
						}
						n, ok := ConstInt(bo.Y)
						if !ok || !isH {
							continue
						}
						// H holds the entry just read or inserted, so len(H) != 1 means len(H) >= 2
						twoWhenTrue := (bo.Op == token.GTR && n >= 1) || (bo.Op == token.GEQ && n >= 2) || (bo.Op == token.NEQ && n == 1)
						twoWhenFalse := (bo.Op == token.LEQ && n >= 1) || (bo.Op == token.LSS && n >= 2) || (bo.Op == token.EQL && n == 1)
						for _, e := range c07IfEdges(fn, func(v ssa.Value) bool { return v == ssa.Value(bo) }) {
							if twoWhenTrue {
								removed[e] = true
							} else if twoWhenFalse {
								removed[c07Other(e)] = true
							}
						}
					}
				}
				both := c07Reach(fn.Blocks[0], c1.Block(), removed) && c07Reach(c1.Block(), c2.Block(), removed)
				if len(removed) == 0 || both {
					bad, badPos = fmt.Sprintf("applies one claim to a cache map read from a field (%s) and to one read from an entry of a map of caches on a path where that map of caches is not known to hold at least two entries; with a single signer both are the same map and the claim is folded twice (add-attribute values doubled)", p.Pos(c1.Pos())), c2.Pos()
					continue
				}
				guarded++
			}
		}
		switch {
		case bad != "":
			r.Violation("A-own", construct, p.Pos(badPos), FuncKeyAny(fn)+" "+bad)
		case pairs > 0:
			r.OK("A-own", construct, p.Pos(calls[0].Pos()), fmt.Sprintf("%d pair(s) of applications of one claim to two possibly identical cache maps (one read from a field, one from an entry of a map of caches); in each, the two applications cannot both run unless that map of caches is known to hold at least two entries (then the single-signer map is no longer shared)", pairs))
		}
	}
}

// c07MapSourcesH is c07MapSources that tells field holders ("field") from
// entries of a map of caches ("entry", the map appended to holders).
func c07MapSourcesH(o *c07Own, v ssa.Value, seen map[ssa.Value]bool, depth int, out map[string]token.Pos, holders *[]ssa.Value) {
	if v == nil || seen[v] {
		return
	}
	seen[v] = true
	if depth > 12 {
		out["unknown"] = v.Pos()
		return
	}
	switch x := v.(type) {
	case *ssa.MakeMap:
		out["fresh"] = x.Pos()
	case *ssa.Const:
		out["fresh"] = token.NoPos
	case *ssa.ChangeType:
		c07MapSourcesH(o, x.X, seen, depth+1, out, holders)
	case *ssa.Convert:
		c07MapSourcesH(o, x.X, seen, depth+1, out, holders)
	case *ssa.Phi:
		for _, e := range x.Edges {
			c07MapSourcesH(o, e, seen, depth+1, out, holders)
		}
	case *ssa.Lookup:
		out["entry"] = x.Pos()
		*holders = append(*holders, x.X)
	case *ssa.Extract:
		switch t := x.Tuple.(type) {
		case *ssa.Lookup:
			out["entry"] = x.Pos()
			*holders = append(*holders, t.X)
		case *ssa.Next:
			out["entry"] = x.Pos()
			if rg, ok := t.Iter.(*ssa.Range); ok {
				*holders = append(*holders, rg.X)
			}
		default:
			out["unknown"] = x.Pos()
		}
	case *ssa.UnOp:
		if x.Op != token.MUL {
			out["unknown"] = x.Pos()
			return
		}
		if cell, ok := varOf(x.X); ok {
			if al, isAlloc := cell.(*ssa.Alloc); isAlloc {
				for _, st := range storesTo(al) {
					c07MapSourcesH(o, st.Val, seen, depth+1, out, holders)
				}
				return
			}
		}
		if _, ok := x.X.(*ssa.FieldAddr); ok {
			out["field"] = x.Pos()
			return
		}
		out["unknown"] = x.Pos()
	case *ssa.Field:
		out["field"] = x.Pos()
	default:
		out["unknown"] = v.Pos()
	}
}

// c07MapSources classifies where a cache map value comes from: "fresh"
// (make/nil), "shared" (read from a holder), "unknown".
func c07MapSources(o *c07Own, v ssa.Value, seen map[ssa.Value]bool, depth int, out map[string]token.Pos) {
	if v == nil || seen[v] {
		return
	}
	seen[v] = true
	if depth > 12 {
		out["unknown"] = v.Pos()
		return
	}
	switch x := v.(type) {
	case *ssa.MakeMap:
		out["fresh"] = x.Pos()
	case *ssa.Const:
		out["fresh"] = token.NoPos
	case *ssa.ChangeType:
		c07MapSources(o, x.X, seen, depth+1, out)
	case *ssa.Convert:
		c07MapSources(o, x.X, seen, depth+1, out)
	case *ssa.Phi:
		for _, e := range x.Edges {
			c07MapSources(o, e, seen, depth+1, out)
		}
	case *ssa.Lookup:
		out["shared"] = x.Pos()
	case *ssa.Extract:
		switch t := x.Tuple.(type) {
		case *ssa.Lookup, *ssa.Next:
			out["shared"] = x.Pos()
		case *ssa.Call:
			c07MapSourcesCall(o, t, x.Index, seen, depth, out)
		default:
			out["unknown"] = x.Pos()
		}
	case *ssa.Call:
		c07MapSourcesCall(o, x, 0, seen, depth, out)
	case *ssa.UnOp:
		if x.Op != token.MUL {
			out["unknown"] = x.Pos()
			return
		}
		if cell, ok := varOf(x.X); ok {
			if al, isAlloc := cell.(*ssa.Alloc); isAlloc {
				sts := storesTo(al)
				if len(sts) == 0 {
					out["fresh"] = x.Pos() // zero value
				}
				for _, st := range sts {
					c07MapSources(o, st.Val, seen, depth+1, out)
				}
				return
			}
		}
		out["shared"] = x.Pos() // a field, global or element: some other holder
	case *ssa.Parameter:
		// a helper that stores its argument: fresh if every caller passes a fresh map;
		// a shared map cannot be judged here (the emptiness test would be in the caller)
		fn := x.Parent()
		idx := -1
		for i, q := range fn.Params {
			if q == x {
				idx = i
			}
		}
		if idx < 0 || fn.Parent() != nil || len(o.p.FuncValueUses(fn)) > 0 || (fn.Signature.Recv() != nil && len(o.p.InvokeSites(fn)) > 0) {
			out["unknown"] = x.Pos()
			return
		}
		n := 0
		for _, c := range o.p.StaticCallers(fn) {
			if !o.inScope[c.Fn] || idx >= len(c.Common().Args) {
				continue
			}
			n++
			sub := map[string]token.Pos{}
			c07MapSources(o, c.Common().Args[idx], seen, depth+1, sub)
			for k, pos := range sub {
				if k == "fresh" {
					out["fresh"] = pos
				} else {
					out["unknown"] = pos
				}
			}
		}
		if n == 0 {
			out["unknown"] = x.Pos()
		}
	default:
		out["unknown"] = v.Pos()
	}
}

func c07MapSourcesCall(o *c07Own, c *ssa.Call, idx int, seen map[ssa.Value]bool, depth int, out map[string]token.Pos) {
	callee := CallSite{c.Parent(), c}.Callee()
	if callee == nil || callee.Blocks == nil {
		out["unknown"] = c.Pos()
		return
	}
	for _, ri := range Returns(callee) {
		if idx < len(ri.Results) {
			c07MapSources(o, ri.Results[idx], seen, depth+1, out)
		}
	}
}

// ---- an entry's slice, forward

type c07SliceWalk struct {
	o      *c07Own
	root   *c07Root
	sum    *c07Summary   // non-nil: summarising callee sumFn
	sumFn  *ssa.Function //
	seen   map[ssa.Value]bool
	work   []ssa.Value
	muts   []c07Mutation
	issues []c07Issue
	stores []*ssa.MapUpdate // stores of the (derived) slice into a cache map
}

func (w *c07SliceWalk) push(v ssa.Value) {
	if v == nil || w.seen[v] {
		return
	}
	w.seen[v] = true
	w.work = append(w.work, v)
}

func (w *c07SliceWalk) issue(bad bool, in ssa.Instruction, what string) {
	w.issues = append(w.issues, c07Issue{bad, in.Parent(), in.Pos(), what})
}

func (w *c07SliceWalk) mut(in ssa.Instruction, how string) {
	fn := in.Parent()
	if w.root != nil {
		fn = w.root.fn
	}
	w.muts = append(w.muts, c07Mutation{fn: fn, at: in.Parent(), pos: in.Pos(), how: how, root: w.root})
}

func (w *c07SliceWalk) run() {
	for len(w.work) > 0 {
		v := w.work[len(w.work)-1]
		w.work = w.work[:len(w.work)-1]
		refs := v.Referrers()
		if refs == nil {
			continue
		}
		for _, rf := range *refs {
			w.use(v, rf)
		}
	}
}

func (w *c07SliceWalk) use(v ssa.Value, rf ssa.Instruction) {
	o := w.o
	p := o.p
	switch x := rf.(type) {
	case *ssa.DebugRef, *ssa.BinOp, *ssa.If:
	case *ssa.Slice:
		if x.X == v && !c07ZeroCap(x) {
			w.push(x)
		}
	case *ssa.ChangeType:
		w.push(x)
	case *ssa.Convert:
		if _, ok := x.Type().Underlying().(*types.Slice); ok {
			w.push(x)
		}
	case *ssa.Phi:
		w.push(x)
	case *ssa.IndexAddr:
		if x.X != v {
			return
		}
		if refs := x.Referrers(); refs != nil {
			for _, u := range *refs {
				switch y := u.(type) {
				case *ssa.UnOp, *ssa.DebugRef:
				case *ssa.Store:
					if y.Addr == ssa.Value(x) {
						w.mut(y, "element store")
					}
				default:
					w.issue(false, u, "the address of an element is used other than by a load or store")
				}
			}
		}
	case *ssa.Index:
	case *ssa.Store:
		if x.Val != v {
			return
		}
		switch a := x.Addr.(type) {
		case *ssa.FieldAddr:
			w.issue(true, x, "it is stored into field "+c07FieldKey(a.X.Type(), fieldName(a.X.Type(), a.Field)))
		case *ssa.IndexAddr:
			w.issue(false, x, "it is stored into an element of a slice or array")
		default:
			cell, ok := varOf(x.Addr)
			if al, isAlloc := cell.(*ssa.Alloc); ok && isAlloc {
				for _, ld := range c07LoadsOf(al) {
					w.push(ld)
				}
				return
			}
			if g, isGlobal := cell.(*ssa.Global); ok && isGlobal {
				w.issue(true, x, "it is stored into package variable "+g.Name())
				return
			}
			w.issue(false, x, "it is stored through an address this rule does not model")
		}
	case *ssa.MapUpdate:
		if x.Value != v {
			return
		}
		if o.cm[x.Map] {
			w.stores = append(w.stores, x) // judged as an entry store
			return
		}
		w.issue(true, x, "it is stored into a map that is not an attribute cache")
	case *ssa.Return:
		fn := x.Parent()
		for i, res := range x.Results {
			if res != v {
				continue
			}
			if w.sum != nil && fn == w.sumFn {
				w.sum.retAlias[i] = true
				continue
			}
			switch {
			case fn.Parent() != nil:
				w.issue(false, x, "it is returned from a function literal")
			case c07Exported(fn) && o.inScope[fn]:
				w.issue(true, x, fmt.Sprintf("it is returned by exported %s, i.e. handed to callers outside the cache", FuncKeyAny(fn)))
			case len(p.FuncValueUses(fn)) > 0 || len(p.InvokeSites(fn)) > 0:
				w.issue(false, x, fmt.Sprintf("it is returned by %s, which is called dynamically", FuncKeyAny(fn)))
			default:
				for _, c := range p.StaticCallers(fn) {
					for _, rv := range c07ResultValues(c, i) {
						w.push(rv)
					}
				}
			}
		}
	case *ssa.MakeClosure:
		lf := x.Fn.(*ssa.Function)
		for i, b := range x.Bindings {
			if b == v && i < len(lf.FreeVars) {
				w.push(lf.FreeVars[i])
			}
		}
	case ssa.CallInstruction:
		cc := x.Common()
		call, _ := x.(*ssa.Call)
		switch c07Builtin(cc) {
		case "len", "cap", "print", "println":
			return
		case "append":
			if cc.Args[0] == v {
				w.mut(x, "append onto it")
				if call != nil {
					w.push(call)
				}
			}
			return // as the appended operand its elements are copied out
		case "copy":
			if cc.Args[0] == v {
				w.mut(x, "copy into it")
			}
			return
		case "clear":
			w.mut(x, "clear")
			return
		case "":
		default:
			w.issue(false, x, "it is passed to builtin "+c07Builtin(cc))
			return
		}
		cs := CallSite{x.Parent(), x}
		callee := cs.Callee()
		for i, a := range cc.Args {
			if a != v {
				continue
			}
			if cc.IsInvoke() || callee == nil || callee.Blocks == nil || i >= len(callee.Params) {
				w.issue(false, x, "it is passed to "+cs.CalleeKey()+", whose body cannot be followed")
				continue
			}
			if _, isGo := x.(*ssa.Go); isGo {
				w.issue(true, x, "it is handed to a goroutine")
				continue
			}
			s := o.summary(callee, i)
			for _, m := range s.muts {
				m.root = w.root
				if w.root != nil {
					m.fn = w.root.fn
				}
				m.how = "written by " + FuncKeyAny(m.at)
				w.muts = append(w.muts, m)
			}
			w.issues = append(w.issues, s.issues...)
			for idx := range s.retAlias {
				for _, rv := range c07ResultValues(cs, idx) {
					w.push(rv)
				}
			}
		}
	case *ssa.MakeInterface:
		if !c07OnlyFormatted(x) {
			w.issue(false, x, "it is converted to an interface value that is not merely an operand of a fmt/log call")
		}
	case *ssa.Send:
		w.issue(true, x, "it is sent on a channel")
	default:
		w.issue(false, rf, fmt.Sprintf("unmodelled use %T", rf))
	}
}

// summary: what callee does with the slice passed as parameter idx.
func (o *c07Own) summary(callee *ssa.Function, idx int) *c07Summary {
	k := c07SumKey{callee, idx}
	if s := o.sums[k]; s != nil {
		return s // finished, or in progress (recursion: the outer activation records the effects)
	}
	s := &c07Summary{retAlias: map[int]bool{}}
	o.sums[k] = s
	w := &c07SliceWalk{o: o, sum: s, sumFn: callee, seen: map[ssa.Value]bool{}}
	w.push(callee.Params[idx])
	w.run()
	s.muts, s.issues = w.muts, w.issues
	for _, mu := range w.stores {
		s.issues = append(s.issues, c07Issue{false, callee, mu.Pos(), "it is stored into a cache map by a callee"})
	}
	s.done = true
	return s
}

// ---- a stored entry value, backward

type c07Leaf struct {
	kind      string // fresh | empty | entry | other
	m, k      ssa.Value
	viaCaller bool
	pos       token.Pos
	what      string
}

type c07Frame struct {
	call   *ssa.Call
	callee *ssa.Function
}

type c07SrcKey struct {
	v     ssa.Value
	depth int
}

type c07SrcWalk struct {
	o    *c07Own
	seen map[c07SrcKey]bool
	out  []c07Leaf
}

func (w *c07SrcWalk) leaf(kind string, v ssa.Value, what string) {
	var pos token.Pos
	if v != nil {
		pos = v.Pos()
	}
	w.out = append(w.out, c07Leaf{kind: kind, pos: pos, what: what})
}

// resolve maps a value of the innermost frame's callee back to the caller
// that the walk started in, when it is a parameter (chain).
func c07Resolve(v ssa.Value, frames []c07Frame) (ssa.Value, bool) {
	for i := len(frames) - 1; i >= 0; i-- {
		prm, ok := originValue(v).(*ssa.Parameter)
		if !ok || prm.Parent() != frames[i].callee {
			return v, false
		}
		idx := -1
		for j, q := range frames[i].callee.Params {
			if q == prm {
				idx = j
			}
		}
		args := frames[i].call.Call.Args
		if idx < 0 || idx >= len(args) {
			return v, false
		}
		v = args[idx]
	}
	return v, true
}

func (w *c07SrcWalk) entry(v, m, k ssa.Value, frames []c07Frame, viaCaller bool) {
	lf := c07Leaf{kind: "entry", pos: v.Pos(), viaCaller: viaCaller}
	if !lf.pos.IsValid() {
		lf.pos = m.Pos()
	}
	if len(frames) > 0 {
		rm, okm := c07Resolve(m, frames)
		var rk ssa.Value
		okk := false
		if k != nil {
			rk, okk = c07Resolve(k, frames)
		}
		if okm {
			lf.m = rm
		}
		if okk {
			lf.k = rk
		}
	} else {
		lf.m, lf.k = m, k
	}
	w.out = append(w.out, lf)
}

func (w *c07SrcWalk) walk(v ssa.Value, frames []c07Frame, viaCaller bool, depth int) {
	o := w.o
	p := o.p
	if v == nil {
		return
	}
	key := c07SrcKey{v, len(frames)}
	if w.seen[key] {
		return
	}
	w.seen[key] = true
	if depth > 60 || len(frames) > 6 {
		w.leaf("other", v, "a value traced too deep")
		return
	}
	switch x := v.(type) {
	case *ssa.Const:
		w.leaf("empty", x, "nil")
	case *ssa.MakeSlice:
		w.leaf("fresh", x, "make")
	case *ssa.Slice:
		if c07ZeroCap(x) {
			w.leaf("empty", x, "zero-capacity slice")
			return
		}
		if _, isPtr := x.X.Type().Underlying().(*types.Pointer); isPtr {
			if _, ok := x.X.(*ssa.Alloc); ok {
				w.leaf("fresh", x, "slice of a new array")
				return
			}
			w.leaf("other", x, "a slice of an array that is not allocated here")
			return
		}
		w.walk(x.X, frames, viaCaller, depth+1)
	case *ssa.ChangeType:
		w.walk(x.X, frames, viaCaller, depth+1)
	case *ssa.Convert:
		w.walk(x.X, frames, viaCaller, depth+1)
	case *ssa.Phi:
		for _, e := range x.Edges {
			w.walk(e, frames, viaCaller, depth+1)
		}
	case *ssa.Lookup:
		if o.cm[x.X] {
			w.entry(x, x.X, x.Index, frames, viaCaller)
			return
		}
		w.leaf("other", x, "an element of a map that is not an attribute cache (its storage has another holder)")
	case *ssa.Extract:
		switch t := x.Tuple.(type) {
		case *ssa.Lookup:
			if x.Index == 0 && o.cm[t.X] {
				w.entry(x, t.X, t.Index, frames, viaCaller)
				return
			}
			w.leaf("other", x, "an element of a map that is not an attribute cache (its storage has another holder)")
		case *ssa.Next:
			rg, _ := t.Iter.(*ssa.Range)
			if x.Index == 2 && rg != nil && o.cm[rg.X] {
				var k ssa.Value
				if refs := t.Referrers(); refs != nil {
					for _, u := range *refs {
						if ex, ok := u.(*ssa.Extract); ok && ex.Index == 1 {
							k = ex
						}
					}
				}
				w.entry(x, rg.X, k, frames, viaCaller)
				return
			}
			w.leaf("other", x, "an element ranged out of a map that is not an attribute cache (its storage has another holder)")
		case *ssa.Call:
			w.call(t, x.Index, frames, viaCaller, depth)
		default:
			w.leaf("other", x, "a component of an unmodelled tuple")
		}
	case *ssa.Call:
		w.call(x, 0, frames, viaCaller, depth)
	case *ssa.UnOp:
		if x.Op != token.MUL {
			w.leaf("other", x, "an unmodelled operator")
			return
		}
		if cell, ok := varOf(x.X); ok {
			if al, isAlloc := cell.(*ssa.Alloc); isAlloc {
				sts := storesTo(al)
				if len(sts) == 0 {
					w.leaf("empty", x, "zero value")
				}
				for _, st := range sts {
					w.walk(st.Val, frames, viaCaller, depth+1)
				}
				return
			}
		}
		switch a := x.X.(type) {
		case *ssa.FieldAddr:
			w.leaf("other", x, "the slice held in field "+c07FieldKey(a.X.Type(), fieldName(a.X.Type(), a.Field)))
		case *ssa.IndexAddr:
			w.leaf("other", x, "an element of a slice of slices")
		default:
			w.leaf("other", x, "a slice loaded from a place this rule does not model")
		}
	case *ssa.FreeVar:
		if b := bindingOf(x); b != nil {
			w.walk(b, frames, viaCaller, depth+1)
			return
		}
		w.leaf("other", x, "a captured variable")
	case *ssa.Parameter:
		fn := x.Parent()
		idx := -1
		for i, q := range fn.Params {
			if q == x {
				idx = i
			}
		}
		if n := len(frames); n > 0 && frames[n-1].callee == fn {
			args := frames[n-1].call.Call.Args
			if idx >= 0 && idx < len(args) {
				w.walk(args[idx], frames[:n-1], viaCaller, depth+1)
				return
			}
		}
		if idx < 0 || fn.Parent() != nil || len(p.FuncValueUses(fn)) > 0 || (fn.Signature.Recv() != nil && len(p.InvokeSites(fn)) > 0) {
			w.leaf("other", x, "a parameter of a function that is called dynamically")
			return
		}
		callers := p.StaticCallers(fn)
		n := 0
		for _, c := range callers {
			if !o.inScope[c.Fn] {
				continue
			}
			args := c.Common().Args
			if idx < len(args) {
				n++
				w.walk(args[idx], nil, true, depth+1)
			}
		}
		if n == 0 {
			w.leaf("other", x, "a parameter of a function without static callers")
		}
	default:
		w.leaf("other", v, fmt.Sprintf("an unmodelled value %T", v))
	}
}

func (w *c07SrcWalk) call(c *ssa.Call, idx int, frames []c07Frame, viaCaller bool, depth int) {
	cc := c.Common()
	switch c07Builtin(cc) {
	case "append":
		// the result lives in the first operand's array or in a new one; the appended elements are copied
		w.walk(cc.Args[0], frames, viaCaller, depth+1)
		return
	case "":
	default:
		w.leaf("other", c, "the result of builtin "+c07Builtin(cc))
		return
	}
	cs := CallSite{c.Parent(), c}
	callee := cs.Callee()
	if cc.IsInvoke() || callee == nil || callee.Blocks == nil {
		w.leaf("other", c, "the result of "+cs.CalleeKey()+", whose body cannot be followed")
		return
	}
	for _, fr := range frames {
		if fr.callee == callee {
			w.leaf("other", c, "the result of a recursive call")
			return
		}
	}
	nf := append(append([]c07Frame(nil), frames...), c07Frame{c, callee})
	for _, ri := range Returns(callee) {
		if idx < len(ri.Results) {
			w.walk(ri.Results[idx], nf, viaCaller, depth+1)
		}
	}
}

// ---------------------------------------------------------------------------
// A-fold clause (iv) "#del-removes-all": in the arm of the del-attribute case
// that handles a del WITH a value, the list that reaches the fold's
// accumulator has had EVERY element equal to the claim's Value removed.
//
// Decided on SSA, per fold:
//   * the arm is the set of blocks dominated by the target of the "Value is not
//     empty" edge of the emptiness test in the del case (the whole del case when
//     that edge cannot be located inside it);
//   * the lists the arm produces are the slice-typed values defined in the arm
//     that reach a phi outside it, a map update, a store or a return;
//   * each such list is the result of slices.DeleteFunc with an `== Value`
//     predicate, or of a loop whose every header-to-header path is classified
//     (filter by append, filter by in-place compaction, or in-place removal at
//     the compared position) with the loop counter's next value computed per
//     path as counter + constant.

type c07RmLoop struct {
	head   *ssa.BasicBlock
	blocks map[*ssa.BasicBlock]bool
}

type c07RmPath struct {
	blocks []*ssa.BasicBlock // blocks[0] is the loop header
	end    *ssa.BasicBlock   // the header again (back path) or the first block outside the loop
	back   bool
}

type c07ElemCmp struct {
	list  ssa.Value // the list the element was loaded from
	elem  ssa.Value // the loaded element
	base  ssa.Value // index = base + off
	off   int64
	equal bool // the path runs on the edge where elem == claim.Value
}

type c07DelArm struct {
	cx      *c07Ctx
	fn      *ssa.Function
	isValue func(ssa.Value) bool // v is the Value of the claim being folded
	isClaim func(ssa.Value) bool // v is the claim being folded
	depth   int                  // helper functions followed so far
	precise bool                 // the arm is exactly the code run for a del WITH a value
	region  map[*ssa.BasicBlock]bool
	loops   []*c07RmLoop
	viol    []string
	undec   []string
	oks     []string
}

func (a *c07DelArm) violf(format string, args ...any) {
	a.viol = append(a.viol, fmt.Sprintf(format, args...))
}
func (a *c07DelArm) undecf(format string, args ...any) {
	a.undec = append(a.undec, fmt.Sprintf(format, args...))
}

func c07IsSliceT(t types.Type) bool {
	_, ok := t.Underlying().(*types.Slice)
	return ok
}

func c07IsSlicesFunc(f *ssa.Function, name string) bool {
	if f == nil {
		return false
	}
	return funcIs(f.Origin(), "slices", "", name) || funcIs(f, "slices", "", name)
}

// c07NonEmptyEdges: the If edges inside the del case taken when the claim's
// Value is known NOT empty.
func c07NonEmptyEdges(f *c07Fold, body *ssa.BasicBlock) []c07Edge {
	isValue := func(v ssa.Value) bool {
		h, ok := c07ClaimField(v, "Value")
		return ok && h == f.handle
	}
	flip := map[token.Token]token.Token{token.LSS: token.GTR, token.GTR: token.LSS, token.LEQ: token.GEQ, token.GEQ: token.LEQ, token.EQL: token.EQL, token.NEQ: token.NEQ}
	var out []c07Edge
	for _, b := range f.fn.Blocks {
		if !body.Dominates(b) {
			continue
		}
		for _, in := range b.Instrs {
			bo, ok := in.(*ssa.BinOp)
			if !ok {
				continue
			}
			// trueMeans: +1 the comparison is true when Value is empty, -1 when it is not empty
			trueMeans := 0
			for side, pair := range [][2]ssa.Value{{bo.X, bo.Y}, {bo.Y, bo.X}} {
				op := bo.Op
				if side == 1 {
					op = flip[op]
				}
				if s, ok := ConstString(pair[1]); ok && s == "" && isValue(pair[0]) {
					switch op {
					case token.EQL, token.LEQ:
						trueMeans = 1
					case token.NEQ, token.GTR:
						trueMeans = -1
					}
				}
				if n, ok := ConstInt(pair[1]); ok {
					c, isCall := pair[0].(*ssa.Call)
					if !isCall || c07Builtin(&c.Call) != "len" || !isValue(c.Call.Args[0]) {
						continue
					}
					switch {
					case n == 0 && (op == token.EQL || op == token.LEQ), n == 1 && op == token.LSS:
						trueMeans = 1
					case n == 0 && (op == token.NEQ || op == token.GTR), n == 1 && op == token.GEQ:
						trueMeans = -1
					}
				}
			}
			if trueMeans == 0 {
				continue
			}
			for _, e := range c07IfEdges(f.fn, func(v ssa.Value) bool { return v == ssa.Value(bo) }) {
				if trueMeans == 1 {
					e = c07Other(e)
				}
				out = append(out, e)
			}
		}
	}
	return out
}

func c07FoldDelAll(cx *c07Ctx, r *Reporter, f *c07Fold, site string) {
	if len(f.cmps["del"]) == 0 {
		return // clause (i) reports the missing case
	}
	construct := f.key + "#del-removes-all"
	a := &c07DelArm{cx: cx, fn: f.fn, region: map[*ssa.BasicBlock]bool{}, precise: true}
	a.isValue = func(v ssa.Value) bool {
		h, ok := c07ClaimField(v, "Value")
		return ok && h == f.handle
	}
	a.isClaim = func(v ssa.Value) bool { return v == f.handle || originValue(v) == f.handle }
	for _, cmp := range f.cmps["del"] {
		body := c07TrueSucc(cmp)
		if body == nil {
			return // clause (i) reports it
		}
		var entries []*ssa.BasicBlock
		for _, e := range c07NonEmptyEdges(f, body) {
			if t := e.b.Succs[e.succ]; body.Dominates(t) {
				entries = append(entries, t)
			}
		}
		if len(entries) == 0 {
			// no emptiness test (clause (i) reports that), or the valued arm is not a
			// separate region of the del case: look at the whole case
			entries = []*ssa.BasicBlock{body}
			a.precise = false
		}
		for _, t := range entries {
			for _, b := range f.fn.Blocks {
				if t.Dominates(b) {
					a.region[b] = true
				}
			}
		}
	}
	a.findLoops()
	outs := a.outputs()
	if len(outs) == 0 {
		if what := a.touchesList(); what != "" {
			r.Undecided("A-fold", construct, site, fmt.Sprintf("(iv) the del-attribute-with-value arm of %s works on a list (%s) but no list it produces reaches a phi outside the arm, a map entry, a variable or a return; cannot tell what the arm computes", FuncKey(f.fn), what))
			return
		}
		r.OKTable("A-fold", construct, site, fmt.Sprintf("(iv) not applicable: the del-attribute arm of %s produces no list (no slice value leaves it, no loop, no call or element store on a slice): a single-result fold that only records presence", FuncKey(f.fn)))
		return
	}
	for _, o := range outs {
		a.classify(o)
	}
	where := "the del-attribute-with-value arm"
	if !a.precise {
		where = "the del-attribute case (the valued arm is not a separate region)"
	}
	switch {
	case len(a.viol) > 0:
		r.Violation("A-fold", construct, site, fmt.Sprintf("(iv) %s of %s does not remove every occurrence of the claim's value: %s", where, FuncKey(f.fn), strings.Join(c07Uniq(append(a.viol, a.undec...)), "; ")))
	case len(a.undec) > 0:
		r.Undecided("A-fold", construct, site, fmt.Sprintf("(iv) %s of %s: %s", where, FuncKey(f.fn), strings.Join(c07Uniq(a.undec), "; ")))
	case len(a.oks) == 0:
		r.Undecided("A-fold", construct, site, fmt.Sprintf("(iv) %s of %s only empties the list; no code removing the one value was found", where, FuncKey(f.fn)))
	default:
		r.OK("A-fold", construct, site, fmt.Sprintf("(iv) %s removes every occurrence: %s", where, strings.Join(c07Uniq(a.oks), "; ")))
	}
}

// findLoops: the natural loops whose header and latch lie in the arm.
func (a *c07DelArm) findLoops() {
	for _, h := range a.fn.Blocks {
		if !a.region[h] {
			continue
		}
		var l *c07RmLoop
		for _, p := range h.Preds {
			if !a.region[p] || !h.Dominates(p) {
				continue
			}
			if l == nil {
				l = &c07RmLoop{head: h, blocks: map[*ssa.BasicBlock]bool{h: true}}
			}
			work := []*ssa.BasicBlock{p}
			for len(work) > 0 {
				b := work[len(work)-1]
				work = work[:len(work)-1]
				if l.blocks[b] {
					continue
				}
				l.blocks[b] = true
				work = append(work, b.Preds...)
			}
		}
		if l != nil {
			a.loops = append(a.loops, l)
		}
	}
}

// loopOf: the outermost loop of the arm containing b.
func (a *c07DelArm) loopOf(b *ssa.BasicBlock) *c07RmLoop {
	var best *c07RmLoop
	for _, l := range a.loops {
		if l.blocks[b] && (best == nil || len(l.blocks) > len(best.blocks)) {
			best = l
		}
	}
	return best
}

func (a *c07DelArm) loopWithHead(h *ssa.BasicBlock) *c07RmLoop {
	for _, l := range a.loops {
		if l.head == h {
			return l
		}
	}
	return nil
}

func (a *c07DelArm) definedIn(v ssa.Value) bool {
	in, ok := v.(ssa.Instruction)
	return ok && in.Block() != nil && in.Parent() == a.fn && a.region[in.Block()]
}

// outputs: slice-typed values defined in the arm that leave it.
func (a *c07DelArm) outputs() []ssa.Value {
	var out []ssa.Value
	seen := map[ssa.Value]bool{}
	add := func(v ssa.Value) {
		if v != nil && c07IsSliceT(v.Type()) && !seen[v] {
			seen[v] = true
			out = append(out, v)
		}
	}
	for _, b := range a.fn.Blocks {
		for _, in := range b.Instrs {
			switch x := in.(type) {
			case *ssa.Phi:
				if a.region[b] {
					continue
				}
				for k, p := range b.Preds {
					if a.region[p] && a.definedIn(x.Edges[k]) {
						add(x.Edges[k])
					}
				}
			case *ssa.MapUpdate:
				if a.region[b] {
					add(x.Value)
				}
			case *ssa.Store:
				if a.region[b] {
					add(x.Val)
				}
			case *ssa.Return:
				if a.region[b] {
					for _, res := range x.Results {
						if a.definedIn(res) {
							add(res)
						}
					}
				}
			}
		}
	}
	return out
}

// touchesList: does the arm work on a slice at all (used only when it has no
// list output)?
func (a *c07DelArm) touchesList() string {
	if len(a.loops) > 0 {
		return "it contains a loop"
	}
	for b := range a.region {
		for _, in := range b.Instrs {
			switch x := in.(type) {
			case *ssa.Store:
				if ia, ok := x.Addr.(*ssa.IndexAddr); ok && c07IsSliceT(ia.X.Type()) {
					return "it stores into a slice element"
				}
			case ssa.CallInstruction:
				cc := x.Common()
				switch c07Builtin(cc) {
				case "len", "cap", "delete", "print", "println":
					continue
				}
				for _, arg := range cc.Args {
					if c07IsSliceT(arg.Type()) {
						return "it passes a slice to a call"
					}
				}
				if v := x.Value(); v != nil && c07IsSliceT(v.Type()) {
					return "a call returns a slice"
				}
			}
		}
	}
	return ""
}

func c07EmptyList(v ssa.Value) bool {
	switch x := v.(type) {
	case *ssa.Const:
		return x.Value == nil
	case *ssa.Slice:
		if x.High != nil {
			n, ok := ConstInt(x.High)
			return ok && n == 0
		}
	case *ssa.MakeSlice:
		n, ok := ConstInt(x.Len)
		return ok && n == 0
	}
	return false
}

func c07StripList(v ssa.Value) ssa.Value {
	for i := 0; i < 8; i++ {
		switch x := v.(type) {
		case *ssa.ChangeType:
			v = x.X
			continue
		case *ssa.Convert:
			if c07IsSliceT(x.X.Type()) {
				v = x.X
				continue
			}
		}
		break
	}
	return v
}

func (a *c07DelArm) classify(v ssa.Value) {
	p := a.cx.p
	v = c07StripList(v)
	pos := v.Pos()
	if c07EmptyList(v) {
		if a.precise {
			a.violf("at %s the arm for a del WITH a value makes the whole list empty, where only the values equal to the claim's value are to go", p.Pos(pos))
		}
		return
	}
	if in, ok := v.(ssa.Instruction); ok && a.definedIn(v) {
		if l := a.loopOf(in.Block()); l != nil {
			a.loop(l, v, nil)
			return
		}
	}
	switch x := v.(type) {
	case *ssa.Slice:
		if x.High != nil && x.Max == nil && (x.Low == nil || c07IsConstInt(x.Low, 0)) {
			if ph, ok := c07StripInt(x.High).(*ssa.Phi); ok {
				if l := a.loopWithHead(ph.Block()); l != nil {
					a.loop(l, nil, x)
					return
				}
			}
		}
	case *ssa.Call:
		callee := x.Call.StaticCallee()
		if c07IsSlicesFunc(callee, "DeleteFunc") && len(x.Call.Args) == 2 {
			if why := a.predIsEqValue(x.Call.Args[1]); why != "" {
				a.undecf("slices.DeleteFunc at %s: %s", p.Pos(x.Pos()), why)
				return
			}
			a.oks = append(a.oks, "slices.DeleteFunc with an `element == claim.Value` predicate (the library visits every element once)")
			return
		}
		if callee != nil && callee.Blocks != nil && InModule(callee) && a.helper(x, callee) {
			return
		}
	}
	if in, ok := v.(ssa.Instruction); ok && in.Block() != nil {
		// one element taken out by code that is not inside a loop carrying the list
		// (an index search followed by a splice, or a splice followed by break)
		here := &c07RmPath{blocks: []*ssa.BasicBlock{in.Block()}}
		if _, _, rhow, ok := c07RemovalAt(here, v, func(ssa.Value) bool { return true }); ok {
			a.violf("at %s a single element is removed (%s) by code that is not inside a loop carrying the list round: at most one occurrence of the claim's value goes, further occurrences stay", p.Pos(pos), rhow)
			return
		}
	}
	a.undecf("the list produced at %s (%s) is not the result of a recognised way of removing a value (filter loop, in-place removal loop, slices.DeleteFunc)", p.Pos(pos), v.String())
}

// helper follows a call to a module function that returns the list: the
// callee's body is judged like an arm, with the claim's Value (or the claim)
// identified by the parameters that receive it. Reports whether it decided.
func (a *c07DelArm) helper(c *ssa.Call, callee *ssa.Function) bool {
	p := a.cx.p
	if a.depth >= 2 || len(callee.Params) != len(c.Call.Args) || c.Call.IsInvoke() {
		return false
	}
	valueP, claimP := map[ssa.Value]bool{}, map[ssa.Value]bool{}
	for k, arg := range c.Call.Args {
		switch {
		case a.isValue(arg):
			valueP[callee.Params[k]] = true
		case a.isClaim(arg):
			claimP[callee.Params[k]] = true
		}
	}
	if len(valueP)+len(claimP) == 0 {
		a.undecf("the list comes from %s, called at %s, which receives neither the claim nor its Value", FuncKey(callee), p.Pos(c.Pos()))
		return true
	}
	sub := &c07DelArm{cx: a.cx, fn: callee, depth: a.depth + 1, region: map[*ssa.BasicBlock]bool{}}
	sub.isValue = func(v ssa.Value) bool {
		if valueP[v] || valueP[originValue(v)] {
			return true
		}
		h, ok := c07ClaimField(v, "Value")
		return ok && claimP[h]
	}
	sub.isClaim = func(v ssa.Value) bool { return claimP[v] || claimP[originValue(v)] }
	for _, b := range callee.Blocks {
		sub.region[b] = true
	}
	sub.findLoops()
	n := 0
	for _, ri := range Returns(callee) {
		for _, res := range ri.Results {
			if !c07IsSliceT(res.Type()) {
				continue
			}
			n++
			if _, isParam := c07StripList(res).(*ssa.Parameter); isParam {
				continue // a path that hands the list back unchanged (e.g. nothing to do)
			}
			sub.classify(res)
		}
	}
	a.viol = append(a.viol, sub.viol...)
	a.undec = append(a.undec, sub.undec...)
	for _, o := range sub.oks {
		a.oks = append(a.oks, "in "+FuncKey(callee)+": "+o)
	}
	if n == 0 || (len(sub.viol)+len(sub.undec)+len(sub.oks) == 0) {
		a.undecf("%s, called at %s, returns no list this rule can follow", FuncKey(callee), p.Pos(c.Pos()))
	}
	return true
}

func c07IsConstInt(v ssa.Value, n int64) bool {
	c, ok := ConstInt(v)
	return ok && c == n
}

func c07StripInt(v ssa.Value) ssa.Value {
	for i := 0; i < 4; i++ {
		if x, ok := v.(*ssa.ChangeType); ok {
			v = x.X
			continue
		}
		break
	}
	return v
}

// predIsEqValue: the predicate handed to slices.DeleteFunc returns exactly
// `param == <a claim's Value>`. Returns "" when it does.
func (a *c07DelArm) predIsEqValue(pred ssa.Value) string {
	var fn *ssa.Function
	switch x := pred.(type) {
	case *ssa.MakeClosure:
		fn, _ = x.Fn.(*ssa.Function)
	case *ssa.Function:
		fn = x
	}
	if fn == nil || fn.Blocks == nil || len(fn.Params) != 1 {
		return "the predicate is not a function literal or declared function whose body can be read"
	}
	n := 0
	for _, ri := range Returns(fn) {
		if len(ri.Results) != 1 {
			return "unexpected predicate signature"
		}
		bo, ok := ri.Results[0].(*ssa.BinOp)
		if !ok || bo.Op != token.EQL {
			return "the predicate does not return a plain `element == value` comparison"
		}
		match := false
		for _, pair := range [][2]ssa.Value{{bo.X, bo.Y}, {bo.Y, bo.X}} {
			if originValue(pair[0]) != ssa.Value(fn.Params[0]) && pair[0] != ssa.Value(fn.Params[0]) {
				continue
			}
			if _, ok := c07ClaimField(pair[1], "Value"); ok || a.isValue(pair[1]) || a.isValue(originValue(pair[1])) {
				match = true
			}
		}
		if !match {
			return "the predicate does not compare its parameter with the claim's Value"
		}
		n++
	}
	if n == 0 {
		return "the predicate never returns"
	}
	return ""
}

// ---- paths through a loop

func c07RmPaths(l *c07RmLoop) (paths []*c07RmPath, ok bool) {
	ok = true
	var cur []*ssa.BasicBlock
	var dfs func(b *ssa.BasicBlock)
	dfs = func(b *ssa.BasicBlock) {
		if !ok {
			return
		}
		cur = append(cur, b)
		defer func() { cur = cur[:len(cur)-1] }()
		done := map[*ssa.BasicBlock]bool{}
		for _, s := range b.Succs {
			if done[s] {
				continue
			}
			done[s] = true
			switch {
			case s == l.head:
				paths = append(paths, &c07RmPath{blocks: append([]*ssa.BasicBlock(nil), cur...), end: s, back: true})
			case !l.blocks[s]:
				paths = append(paths, &c07RmPath{blocks: append([]*ssa.BasicBlock(nil), cur...), end: s})
			default:
				for _, c := range cur {
					if c == s {
						ok = false // an inner cycle
						return
					}
				}
				dfs(s)
			}
			if len(paths) > 256 {
				ok = false
				return
			}
		}
	}
	dfs(l.head)
	return paths, ok
}

func (pa *c07RmPath) index(b *ssa.BasicBlock) int {
	for i, x := range pa.blocks {
		if x == b {
			return i
		}
	}
	return -1
}

// res resolves phis of the blocks on the path (other than the header, whose
// phis stand for the values at the start of the iteration).
func (pa *c07RmPath) res(v ssa.Value) ssa.Value {
	for i := 0; i < 32 && v != nil; i++ {
		switch x := v.(type) {
		case *ssa.ChangeType:
			v = x.X
			continue
		case *ssa.Phi:
			if pa == nil {
				return v
			}
			j := pa.index(x.Block())
			if j <= 0 {
				return v
			}
			found := false
			for k, p := range x.Block().Preds {
				if p == pa.blocks[j-1] {
					v, found = x.Edges[k], true
					break
				}
			}
			if found {
				continue
			}
		}
		return v
	}
	return v
}

// next: the value header phi ph receives when the back path is taken.
func (pa *c07RmPath) next(ph *ssa.Phi) ssa.Value {
	last := pa.blocks[len(pa.blocks)-1]
	for k, p := range ph.Block().Preds {
		if p == last {
			return pa.res(ph.Edges[k])
		}
	}
	return nil
}

// affine: v == base + off along the path (base nil: a constant).
func (pa *c07RmPath) affine(v ssa.Value) (base ssa.Value, off int64) {
	for i := 0; i < 32 && v != nil; i++ {
		v = pa.res(v)
		bo, ok := v.(*ssa.BinOp)
		if !ok {
			break
		}
		if c, ok := ConstInt(bo.Y); ok && bo.Op == token.ADD {
			off, v = off+c, bo.X
			continue
		}
		if c, ok := ConstInt(bo.Y); ok && bo.Op == token.SUB {
			off, v = off-c, bo.X
			continue
		}
		if c, ok := ConstInt(bo.X); ok && bo.Op == token.ADD {
			off, v = off+c, bo.Y
			continue
		}
		break
	}
	if v != nil {
		if c, ok := v.(*ssa.Const); ok && c.Value != nil && c.Value.Kind() == constant.Int {
			return nil, off + c.Int64()
		}
	}
	return v, off
}

func (pa *c07RmPath) instrs() []ssa.Instruction {
	var out []ssa.Instruction
	for _, b := range pa.blocks {
		out = append(out, b.Instrs...)
	}
	return out
}

// elemCmps: the comparisons `list[index] ==/!= claim.Value` decided along the path.
func (a *c07DelArm) elemCmps(pa *c07RmPath) []c07ElemCmp {
	var out []c07ElemCmp
	isValue := a.isValue
	for j, b := range pa.blocks {
		if len(b.Succs) != 2 || b.Succs[0] == b.Succs[1] || len(b.Instrs) == 0 {
			continue
		}
		ifi, ok := b.Instrs[len(b.Instrs)-1].(*ssa.If)
		if !ok {
			continue
		}
		nb := pa.end
		if j+1 < len(pa.blocks) {
			nb = pa.blocks[j+1]
		}
		val := nb == b.Succs[0]
		cond := ifi.Cond
		for {
			if u, ok := cond.(*ssa.UnOp); ok && u.Op == token.NOT {
				cond, val = u.X, !val
				continue
			}
			break
		}
		bo, ok := cond.(*ssa.BinOp)
		if !ok || (bo.Op != token.EQL && bo.Op != token.NEQ) {
			continue
		}
		for _, pair := range [][2]ssa.Value{{bo.X, bo.Y}, {bo.Y, bo.X}} {
			if !isValue(pair[1]) {
				continue
			}
			ld, ok := originValue(pa.res(pair[0])).(*ssa.UnOp)
			if !ok || ld.Op != token.MUL {
				continue
			}
			ia, ok := ld.X.(*ssa.IndexAddr)
			if !ok || !c07IsSliceT(ia.X.Type()) {
				continue
			}
			base, off := pa.affine(ia.Index)
			out = append(out, c07ElemCmp{list: pa.res(ia.X), elem: ld, base: base, off: off, equal: (bo.Op == token.EQL) == val})
		}
	}
	return out
}

// c07RemovalAt: n is `list` with the one element at index base+off removed:
// slices.Delete(list, i, i+1), append(list[:i], list[i+1:]...), or
// list[:len(list)-1] after copy(list[i:], list[i+1:]) on the path.
func c07RemovalAt(pa *c07RmPath, n ssa.Value, isList func(ssa.Value) bool) (base ssa.Value, off int64, how string, ok bool) {
	plus1 := func(lo, hi ssa.Value) (ssa.Value, int64, bool) {
		b1, o1 := pa.affine(lo)
		b2, o2 := pa.affine(hi)
		if b1 == b2 && o2 == o1+1 {
			return b1, o1, true
		}
		return nil, 0, false
	}
	switch x := n.(type) {
	case *ssa.Call:
		if c07IsSlicesFunc(x.Call.StaticCallee(), "Delete") && len(x.Call.Args) == 3 && isList(pa.res(x.Call.Args[0])) {
			if b, o, ok := plus1(x.Call.Args[1], x.Call.Args[2]); ok {
				return b, o, "slices.Delete(list, i, i+1)", true
			}
		}
		if c07Builtin(&x.Call) == "append" && len(x.Call.Args) == 2 {
			s1, ok1 := pa.res(x.Call.Args[0]).(*ssa.Slice)
			s2, ok2 := pa.res(x.Call.Args[1]).(*ssa.Slice)
			if ok1 && ok2 && isList(pa.res(s1.X)) && isList(pa.res(s2.X)) && s1.High != nil && s2.Low != nil && s2.High == nil &&
				(s1.Low == nil || c07IsConstInt(s1.Low, 0)) {
				if b, o, ok := plus1(s1.High, s2.Low); ok {
					return b, o, "append(list[:i], list[i+1:]...)", true
				}
			}
		}
	case *ssa.Slice:
		if pa == nil || !isList(pa.res(x.X)) || x.High == nil || (x.Low != nil && !c07IsConstInt(x.Low, 0)) {
			break
		}
		hb, ho := pa.affine(x.High)
		lc, isCall := hb.(*ssa.Call)
		if !isCall || ho != -1 || c07Builtin(&lc.Call) != "len" || !isList(pa.res(lc.Call.Args[0])) {
			break
		}
		for _, in := range pa.instrs() {
			c, isCall := in.(*ssa.Call)
			if !isCall || c07Builtin(&c.Call) != "copy" {
				continue
			}
			d, ok1 := pa.res(c.Call.Args[0]).(*ssa.Slice)
			s, ok2 := pa.res(c.Call.Args[1]).(*ssa.Slice)
			if !ok1 || !ok2 || !isList(pa.res(d.X)) || !isList(pa.res(s.X)) || d.Low == nil || s.Low == nil || d.High != nil || s.High != nil {
				continue
			}
			if b, o, ok := plus1(d.Low, s.Low); ok {
				return b, o, "copy(list[i:], list[i+1:]) then list[:len(list)-1]", true
			}
		}
	}
	return nil, 0, "", false
}

// loop decides one removal loop. Exactly one of out (a list value defined
// inside the loop, normally its header phi) and outSlice (list[:w] taken after
// the loop, w a header phi: in-place compaction) is set.
func (a *c07DelArm) loop(l *c07RmLoop, out ssa.Value, outSlice *ssa.Slice) {
	p := a.cx.p
	h := l.head
	var lbs []*ssa.BasicBlock
	for b := range l.blocks {
		lbs = append(lbs, b)
	}
	at := "the loop at " + p.Pos(c07BlocksPos(h.Parent(), lbs...))
	paths, ok := c07RmPaths(l)
	if !ok {
		a.undecf("%s contains an inner loop (or too many paths); only single-level removal loops are modelled", at)
		return
	}
	inLoop := func(v ssa.Value) bool {
		in, ok := v.(ssa.Instruction)
		return ok && in.Block() != nil && l.blocks[in.Block()]
	}
	var slicePhis, intPhis []*ssa.Phi
	for _, in := range h.Instrs {
		ph, ok := in.(*ssa.Phi)
		if !ok {
			continue
		}
		if c07IsSliceT(ph.Type()) {
			slicePhis = append(slicePhis, ph)
		} else if bt, ok := ph.Type().Underlying().(*types.Basic); ok && bt.Info()&types.IsInteger != 0 {
			intPhis = append(intPhis, ph)
		}
	}
	isHeadInt := func(v ssa.Value) *ssa.Phi {
		for _, ph := range intPhis {
			if v == ssa.Value(ph) {
				return ph
			}
		}
		return nil
	}

	// the element comparison fixes the list that is read and the cursor
	var cur *ssa.Phi
	var d int64
	var list ssa.Value
	for _, pa := range paths {
		for _, c := range a.elemCmps(pa) {
			ph := isHeadInt(c.base)
			if ph == nil {
				continue
			}
			if cur == nil {
				cur, d, list = ph, c.off, c.list
			} else if cur != ph || d != c.off || list != c.list {
				a.undecf("%s compares elements at different positions or of different lists with the claim's value", at)
				return
			}
		}
	}
	if cur == nil {
		a.undecf("%s never compares a list element indexed by a loop counter with the claim's Value", at)
		return
	}

	// mode
	const (
		modeInPlace = iota
		modeAppend
		modeCompact
	)
	mode := -1
	var acc, wr *ssa.Phi // accumulator list phi (in-place: the list itself; append: the kept list); write cursor
	if outSlice != nil {
		wr = isHeadInt(c07StripInt(outSlice.High))
		if wr == nil || wr == cur || inLoop(list) {
			a.undecf("%s: the result list[:n] is not cut at a write counter of a loop that reads an unchanged list", at)
			return
		}
		mode = modeCompact
	} else {
		for _, ph := range slicePhis {
			if out == ssa.Value(ph) {
				acc = ph
			}
		}
		if acc == nil && len(slicePhis) == 1 {
			acc = slicePhis[0] // the list leaves the loop from inside its body; the exit is judged below
		}
		switch {
		case acc == nil && len(slicePhis) == 0:
			if _, _, rhow, ok := c07RemovalAt(nil, out, func(ssa.Value) bool { return true }); ok {
				a.violf("%s removes a single element (%s) and is then left, the list is not carried round the loop: only the first occurrence of the claim's value goes, further occurrences stay", at, rhow)
				return
			}
			a.undecf("%s produces a list that is not carried round the loop", at)
			return
		case acc == nil:
			a.undecf("%s: cannot tell which loop-carried list is the result", at)
			return
		case list == ssa.Value(acc):
			mode = modeInPlace
		case !inLoop(list):
			mode = modeAppend
		default:
			a.undecf("%s reads a list that changes in the loop but is not the result", at)
			return
		}
	}

	type step struct {
		n   int64
		pos token.Pos
	}
	var keepSteps, rmSteps []step
	how := ""
	for _, pa := range paths {
		var eq, ne bool
		var elem ssa.Value
		for _, c := range a.elemCmps(pa) {
			if c.base == ssa.Value(cur) && c.off == d && c.list == list {
				elem = c.elem
				if c.equal {
					eq = true
				} else {
					ne = true
				}
			}
		}
		last := pa.blocks[len(pa.blocks)-1]
		lastPos := c07BlocksPos(h.Parent(), last)
		if len(pa.blocks) > 1 && lastPos == h.Parent().Pos() {
			lastPos = c07BlocksPos(h.Parent(), pa.blocks[1:]...)
		}
		if !pa.back {
			if len(pa.blocks) == 1 {
				continue // left at the header: judged with the loop bound below
			}
			if n := len(pa.end.Instrs); n > 0 {
				if _, isPanic := pa.end.Instrs[n-1].(*ssa.Panic); isPanic {
					continue
				}
			}
			if eq {
				a.violf("%s is left (break/return near %s) on the path where an element equal to the claim's value was found: the elements after it are never examined, later occurrences stay (or the values after it are lost)", at, p.Pos(lastPos))
			} else {
				a.undecf("%s can be left from inside its body near %s before every element was examined", at, p.Pos(lastPos))
			}
			continue
		}
		nb, noff := pa.affine(pa.next(cur))
		if nb != ssa.Value(cur) {
			a.undecf("%s: on the path through %s the loop counter is not advanced by a constant", at, p.Pos(lastPos))
			continue
		}
		kept := func() bool { // an element stays in the list on this path
			switch {
			case ne && !eq:
				return true
			case eq:
				a.violf("%s keeps an element on the path (through %s) where it is known EQUAL to the claim's value", at, p.Pos(lastPos))
			default:
				a.undecf("%s keeps an element on the path through %s without having compared it with the claim's value", at, p.Pos(lastPos))
			}
			return false
		}
		dropped := func() bool {
			switch {
			case eq && !ne:
				return true
			case ne:
				a.violf("%s drops an element on the path (through %s) where it is known to DIFFER from the claim's value", at, p.Pos(lastPos))
			default:
				a.undecf("%s drops an element on the path through %s without having compared it with the claim's value", at, p.Pos(lastPos))
			}
			return false
		}
		switch mode {
		case modeInPlace:
			na := pa.next(acc)
			if na == ssa.Value(acc) {
				if kept() {
					keepSteps = append(keepSteps, step{noff, lastPos})
				}
				continue
			}
			rb, roff, rhow, ok := c07RemovalAt(pa, na, func(v ssa.Value) bool { return v == ssa.Value(acc) })
			if !ok {
				a.undecf("%s: on the path through %s the list becomes %s, which is not a recognised removal of one element (slices.Delete(l,i,i+1), append(l[:i], l[i+1:]...), copy-down + re-slice)", at, p.Pos(lastPos), na.String())
				continue
			}
			if rb != ssa.Value(cur) || roff != d {
				a.undecf("%s removes an element at another position than the one it compared (path through %s)", at, p.Pos(lastPos))
				continue
			}
			if dropped() {
				how = rhow
				rmSteps = append(rmSteps, step{noff, lastPos})
			}
		case modeAppend:
			na := pa.next(acc)
			if noff != 1 {
				a.undecf("%s: the read counter is not advanced by exactly one on the path through %s", at, p.Pos(lastPos))
				continue
			}
			if na == ssa.Value(acc) {
				dropped()
				continue
			}
			c, isCall := na.(*ssa.Call)
			if !isCall || c07Builtin(&c.Call) != "append" || len(c.Call.Args) != 2 || pa.res(c.Call.Args[0]) != ssa.Value(acc) {
				a.undecf("%s: on the path through %s the kept list becomes %s, not append(kept, element)", at, p.Pos(lastPos), na.String())
				continue
			}
			ev := c07SingleAppended(pa.res(c.Call.Args[1]))
			if ev == nil || elem == nil || pa.res(ev) != elem {
				a.undecf("%s: what is appended to the kept list on the path through %s is not the one element that was compared", at, p.Pos(lastPos))
				continue
			}
			if kept() {
				how = "filter: append(kept, element) only on the `element != claim.Value` edge"
			}
		case modeCompact:
			if noff != 1 {
				a.undecf("%s: the read counter is not advanced by exactly one on the path through %s", at, p.Pos(lastPos))
				continue
			}
			wb, woff := pa.affine(pa.next(wr))
			var stores []*ssa.Store
			bad := false
			for _, in := range pa.instrs() {
				st, ok := in.(*ssa.Store)
				if !ok {
					continue
				}
				ia, ok := st.Addr.(*ssa.IndexAddr)
				if !ok || !c07IsSliceT(ia.X.Type()) {
					continue
				}
				ib, ioff := pa.affine(ia.Index)
				if pa.res(ia.X) != pa.res(outSlice.X) || ib != ssa.Value(wr) || ioff != 0 || elem == nil || pa.res(st.Val) != elem {
					bad = true
				}
				stores = append(stores, st)
			}
			switch {
			case bad || wb != ssa.Value(wr):
				a.undecf("%s: on the path through %s a slice element is written that is not result[write counter] = compared element, or the write counter is not advanced by a constant", at, p.Pos(lastPos))
			case woff == 0 && len(stores) == 0:
				dropped()
			case woff == 1 && len(stores) == 1:
				if kept() {
					how = "filter by in-place compaction: list[w] = element; w++ only on the `element != claim.Value` edge, result list[:w]"
				}
			default:
				a.undecf("%s: on the path through %s the write counter moves by %d with %d element store(s)", at, p.Pos(lastPos), woff, len(stores))
			}
		}
	}
	if len(a.viol) > 0 || len(a.undec) > 0 {
		return
	}

	// direction and the step taken after a removal
	dir := int64(1)
	if mode == modeInPlace {
		if len(keepSteps) == 0 || len(rmSteps) == 0 {
			a.undecf("%s has no path that keeps an element or none that removes one", at)
			return
		}
		dir = keepSteps[0].n
		for _, s := range keepSteps {
			if s.n != dir || (dir != 1 && dir != -1) {
				a.undecf("%s: the counter does not move by one element (+1 or -1) on every path that keeps the element", at)
				return
			}
		}
		for _, s := range rmSteps {
			switch {
			case dir == 1 && s.n == 0, dir == -1 && s.n == -1:
			case dir == 1 && s.n == 1:
				a.violf("removal loop skips the element that slides into the removed slot: in %s, after the element at index i was removed (%s, path through %s) the counter still advances to i+1, so the element that moved into slot i is never compared; of adjacent equal values only every other one is removed", at, how, p.Pos(s.pos))
			default:
				a.undecf("%s: after a removal the counter moves by %d", at, s.n)
			}
		}
		if len(a.viol) > 0 || len(a.undec) > 0 {
			return
		}
	}

	// loop bound and initial values: every element is visited
	var ifi *ssa.If
	if n := len(h.Instrs); n > 0 {
		ifi, _ = h.Instrs[n-1].(*ssa.If)
	}
	hp := &c07RmPath{blocks: []*ssa.BasicBlock{h}}
	boundOK := false
	if ifi != nil && len(h.Succs) == 2 && l.blocks[h.Succs[0]] && !l.blocks[h.Succs[1]] {
		if bo, ok := ifi.Cond.(*ssa.BinOp); ok {
			x, y, op := bo.X, bo.Y, bo.Op
			if yb, _ := hp.affine(y); yb == ssa.Value(cur) { // counter on the right: mirror
				x, y = y, x
				op = map[token.Token]token.Token{token.LSS: token.GTR, token.GTR: token.LSS, token.LEQ: token.GEQ, token.GEQ: token.LEQ}[op]
			}
			xb, xo := hp.affine(x)
			if xb == ssa.Value(cur) {
				switch {
				case dir == 1 && op == token.LSS && xo == d:
					if lc, ok := originValue(y).(*ssa.Call); ok && c07Builtin(&lc.Call) == "len" {
						arg := hp.res(lc.Call.Args[0])
						boundOK = arg == list || (mode != modeInPlace && originValue(arg) == originValue(list))
					}
				case dir == -1:
					// position examined = counter + d >= 0, written as counter+xo >= yo or counter+xo > yo
					yb, yo := hp.affine(y)
					boundOK = yb == nil && ((op == token.GEQ && xo-yo == d) || (op == token.GTR && xo-yo == d+1))
				}
			}
		}
	}
	if !boundOK {
		a.undecf("%s: the loop condition is not `index < len(list)` (or `index >= 0` when counting down) on the list being filtered", at)
		return
	}
	for k, pr := range h.Preds {
		if l.blocks[pr] {
			continue
		}
		ib, ioff := hp.affine(cur.Edges[k])
		switch {
		case dir == 1 && ib == nil && ioff+d == 0:
		case dir == -1 && ioff+d == -1 && c07IsLenOf(ib, acc.Edges[k]):
		default:
			a.undecf("%s does not start at the first element (last element when counting down)", at)
			return
		}
		if mode == modeAppend && !c07EmptyList(c07StripList(acc.Edges[k])) {
			a.undecf("%s: the kept list does not start empty", at)
			return
		}
		if mode == modeCompact {
			if wb, wo := hp.affine(wr.Edges[k]); wb != nil || wo != 0 {
				a.undecf("%s: the write counter does not start at 0", at)
				return
			}
		}
	}
	switch mode {
	case modeInPlace:
		if dir == 1 {
			a.oks = append(a.oks, fmt.Sprintf("in-place removal loop (%s): after a removal at index i the counter stays at i, otherwise i+1; bound len(list) re-read each iteration; left only at the bound", how))
		} else {
			a.oks = append(a.oks, fmt.Sprintf("in-place removal loop counting down (%s): the elements that slide were already examined; left only at the bound", how))
		}
	default:
		a.oks = append(a.oks, how+"; every element read exactly once, loop left only at len(list)")
	}
}

func c07IsLenOf(v, list ssa.Value) bool {
	c, ok := v.(*ssa.Call)
	if !ok || c07Builtin(&c.Call) != "len" {
		return false
	}
	return c.Call.Args[0] == list || originValue(c.Call.Args[0]) == originValue(list)
}

// c07SingleAppended: s is the variadic slice of exactly one element; returns it.
func c07SingleAppended(s ssa.Value) ssa.Value {
	sl, ok := s.(*ssa.Slice)
	if !ok || sl.Low != nil || sl.High != nil {
		return nil
	}
	al, ok := sl.X.(*ssa.Alloc)
	if !ok {
		return nil
	}
	arr, ok := c07Deref(al.Type()).Underlying().(*types.Array)
	if !ok || arr.Len() != 1 || al.Referrers() == nil {
		return nil
	}
	var val ssa.Value
	for _, rf := range *al.Referrers() {
		ia, ok := rf.(*ssa.IndexAddr)
		if !ok || ia.Referrers() == nil {
			continue
		}
		for _, u := range *ia.Referrers() {
			if st, ok := u.(*ssa.Store); ok && st.Addr == ssa.Value(ia) {
				if val != nil {
					return nil
				}
				val = st.Val
			}
		}
	}
	return val
}

func c07BlockPos(b *ssa.BasicBlock) token.Pos { return c07BlocksPos(b.Parent(), b) }

// c07BlocksPos: the smallest valid source position of an instruction in the
// blocks (for the human-readable site only).
func c07BlocksPos(fn *ssa.Function, blocks ...*ssa.BasicBlock) token.Pos {
	best := token.NoPos
	for _, b := range blocks {
		for _, in := range b.Instrs {
			if _, isPhi := in.(*ssa.Phi); isPhi {
				continue
			}
			if ps := in.Pos(); ps.IsValid() && (!best.IsValid() || ps < best) {
				best = ps
			}
		}
	}
	if !best.IsValid() {
		return fn.Pos()
	}
	return best
}

// ---------------------------------------------------------------------------
// effective bodies: helpers shared by all rules of C07
//
// A rule that looks for a test, a call or a store "in function F" looks in F's
// effective body: F, the unexported helpers / literals F calls statically
// (parameters standing for the caller's arguments), and - for a site that lies
// in such a helper - the helper's static callers.

// c07NonTestCallers lists the static call sites of fn outside test support.
func (cx *c07Ctx) callers(fn *ssa.Function) []CallSite {
	var out []CallSite
	for _, c := range cx.p.StaticCallers(fn) {
		t := TopFunc(c.Fn)
		if t != nil && t.Pkg != nil && IsTestSupportPkg(RelPkg(t.Pkg.Pkg)) {
			continue
		}
		out = append(out, c)
	}
	return out
}

// followable: every entry into fn is one of its static call sites (declared
// function, never used as a value, not reachable through an interface).
func (cx *c07Ctx) followable(fn *ssa.Function) bool {
	if fn == nil || fn.Parent() != nil || fn.Blocks == nil || !InModule(fn) {
		return false
	}
	if len(cx.p.FuncValueUses(fn)) > 0 {
		return false
	}
	if fn.Signature.Recv() != nil && len(cx.p.InvokeSites(fn)) > 0 {
		return false
	}
	return len(cx.callers(fn)) > 0
}

func c07ParamIndex(fn *ssa.Function, prm *ssa.Parameter) int {
	for i, q := range fn.Params {
		if q == prm {
			return i
		}
	}
	return -1
}

// c07HandleParam: the parameter of its function a claim handle is taken from
// (the handle itself, or the container it is an element of); nil when the
// claims originate in the function.
func c07HandleParam(v ssa.Value) *ssa.Parameter {
	for i := 0; i < 12 && v != nil; i++ {
		switch x := v.(type) {
		case *ssa.Parameter:
			return x
		case *ssa.ChangeType:
			v = x.X
		case *ssa.Convert:
			v = x.X
		case *ssa.MakeInterface:
			v = x.X
		case *ssa.ChangeInterface:
			v = x.X
		case *ssa.Slice:
			v = x.X
		case *ssa.Index:
			v = x.X
		case *ssa.IndexAddr:
			v = x.X
		case *ssa.Lookup:
			v = x.X
		case *ssa.Extract:
			nx, ok := x.Tuple.(*ssa.Next)
			if !ok {
				return nil
			}
			rg, ok := nx.Iter.(*ssa.Range)
			if !ok {
				return nil
			}
			v = rg.X
		case *ssa.Call:
			// element accessor of a claims container interface
			if x.Call.IsInvoke() && c07IsClaim(x.Type()) {
				v = x.Call.Value
				continue
			}
			return nil
		case *ssa.Alloc:
			sts := storesTo(x)
			if len(sts) != 1 {
				return nil
			}
			v = sts[0].Val
		case *ssa.UnOp:
			if x.Op != token.MUL {
				return nil
			}
			if o := originValue(x); o != ssa.Value(x) {
				v = o
				continue
			}
			v = x.X
		default:
			return nil
		}
	}
	return nil
}

// c07FoldOwner names a fold: the unique function in which the folded claims
// originate as something other than a parameter when every static call chain
// from the switch leads to that one function (a loop body or a switch moved
// into a helper keeps the name of the loop's function); otherwise the
// outermost pure delegate above the function holding the switch (a wrapper
// that only passes its own parameters on); otherwise that function itself.
func (cx *c07Ctx) foldOwner(f *c07Fold) *ssa.Function {
	fn := f.fn
	top := TopFunc(fn)
	prm := c07HandleParam(f.handle)
	if prm == nil || prm.Parent() != fn || fn.Parent() != nil {
		return top
	}
	cur, curPrm := fn, prm
	delegateTop, pure := fn, true
	// iterTop: the first function up the chain that does not merely pass its own claim parameter on (it selects or
	// iterates over the claims); the name when the origin is not unique
	var iterTop *ssa.Function
	if ssa.Value(prm) != f.handle {
		iterTop = fn
	}
	fallback := func() *ssa.Function {
		if iterTop != nil {
			return iterTop
		}
		return delegateTop
	}
	for d := 0; d < 4; d++ {
		if !cx.followable(cur) || c07Exported(cur) {
			return fallback()
		}
		idx := c07ParamIndex(cur, curPrm)
		sites := cx.callers(cur)
		if idx < 0 || len(sites) == 0 {
			return fallback()
		}
		g := TopFunc(sites[0].Fn)
		var next *ssa.Parameter
		nOrigin, nPlain := 0, 0
		for _, c := range sites {
			if TopFunc(c.Fn) != g || idx >= len(c.Args()) {
				return fallback()
			}
			av := originValue(c.Args()[idx])
			if _, plain := av.(*ssa.Parameter); plain {
				nPlain++
			}
			q := c07HandleParam(av)
			switch {
			case q == nil:
				nOrigin++
			case q.Parent() != g:
				return fallback()
			case next == nil:
				next = q
			case next != q:
				return fallback()
			}
		}
		if nOrigin == len(sites) {
			return g
		}
		if nOrigin > 0 {
			return fallback()
		}
		if iterTop == nil && nPlain == 0 {
			iterTop = g
		}
		if pure && len(sites) == 1 && c07OnlyOwnParams(sites[0]) {
			delegateTop = g
		} else {
			pure = false
		}
		cur, curPrm = g, next
	}
	return fallback()
}

// c07OnlyOwnParams: every argument of the call is a parameter of the caller.
func c07OnlyOwnParams(c CallSite) bool {
	for _, a := range c.Args() {
		prm, ok := originValue(a).(*ssa.Parameter)
		if !ok || prm.Parent() != c.Fn {
			return false
		}
	}
	return true
}

// c07StepCacheType: the named map type a one-claim fold step accumulates into:
// its receiver, or its only parameter of a named map type.
func c07StepCacheType(fn *ssa.Function) *types.Named {
	if recv := fn.Signature.Recv(); recv != nil {
		if n := NamedOf(recv.Type()); n != nil {
			return n
		}
	}
	var found *types.Named
	for _, prm := range fn.Params {
		n := NamedOf(prm.Type())
		if n == nil {
			continue
		}
		if _, isMap := n.Underlying().(*types.Map); !isMap {
			continue
		}
		if found != nil && !types.Identical(found, n) {
			return nil
		}
		found = n
	}
	return found
}

// ---- guard tests, also through boolean helpers

// c07Test: the guard is established on the edge where v == est.
type c07Test struct {
	v   ssa.Value
	est bool
}

type c07GuardMemoKey struct {
	fn  *ssa.Function
	idx int
	x   bool
}

// c07Guard describes one kind of skip (claim newer than the query time, claim
// deleted, last two claims in date order, recursive deletion test).
type c07Guard struct {
	// prims lists the primitive tests fn makes about handle (nil handle: the
	// guard is not about one claim).
	prims      func(fn *ssa.Function, handle ssa.Value) []c07Test
	needHandle bool
	// callOK vets the call of a helper whose body holds the tests.
	callOK func(c CallSite, callee *ssa.Function) bool
	memo   map[c07GuardMemoKey]int // 1 yes, 2 no, 3 in progress
}

func c07IsBool(t types.Type) bool {
	b, ok := t.Underlying().(*types.Basic)
	return ok && b.Kind() == types.Bool
}

// tests: the primitive tests of fn, plus calls of boolean helpers / literals
// whose result X implies that the guard was established inside the helper.
func (g *c07Guard) tests(fn *ssa.Function, handle ssa.Value, depth int) []c07Test {
	out := g.prims(fn, handle)
	if depth >= 3 {
		return out
	}
	for _, c := range CallsIn(fn, false) {
		call := c.Value()
		if call == nil || !c07IsBool(call.Type()) {
			continue
		}
		callee := c.Callee()
		if callee == nil || callee == fn || callee.Blocks == nil || !(InModule(callee) || callee.Parent() != nil) {
			continue
		}
		idx := -1
		var h2 ssa.Value
		if g.needHandle {
			for i, a := range c.Args() {
				if i < len(callee.Params) && handle != nil && originValue(a) == handle {
					idx, h2 = i, callee.Params[i]
				}
			}
			if idx < 0 {
				if callee.Parent() == nil {
					continue
				}
				h2 = handle // a literal sees the captured claim
			}
		}
		if g.callOK != nil && !g.callOK(c, callee) {
			continue
		}
		for _, x := range []bool{true, false} {
			if g.implies(callee, idx, h2, x, depth+1) {
				out = append(out, c07Test{call, x})
			}
		}
	}
	return out
}

func c07EstEdges(fn *ssa.Function, tests []c07Test) map[c07Edge]bool {
	est := map[c07Edge]bool{}
	for _, t := range tests {
		t := t
		for _, e := range c07IfEdges(fn, func(v ssa.Value) bool { return v == t.v }) {
			if t.est {
				est[e] = true
			} else {
				est[c07Other(e)] = true
			}
		}
	}
	return est
}

// c07ReachEdge: block from is reachable from the entry without an establishing
// edge, and the edge from -> to is not itself establishing.
func c07ReachEdge(fn *ssa.Function, from, to *ssa.BasicBlock, est map[c07Edge]bool) bool {
	if !c07Reach(fn.Blocks[0], from, est) {
		return false
	}
	for i, s := range from.Succs {
		if s == to && !est[c07Edge{from, i}] {
			return true
		}
	}
	return false
}

// implies: whenever callee returns x, the guard has been established in it.
func (g *c07Guard) implies(callee *ssa.Function, idx int, h2 ssa.Value, x bool, depth int) bool {
	if g.memo == nil {
		g.memo = map[c07GuardMemoKey]int{}
	}
	k := c07GuardMemoKey{callee, idx, x}
	switch g.memo[k] {
	case 1:
		return true
	case 2, 3:
		return false
	}
	g.memo[k] = 3
	res := func() bool {
		if callee.Signature.Results().Len() != 1 {
			return false
		}
		tests := g.tests(callee, h2, depth)
		if len(tests) == 0 {
			return false
		}
		est := c07EstEdges(callee, tests)
		isTest := func(v ssa.Value) (bool, bool) {
			for _, t := range tests {
				if t.v == v || t.v == originValue(v) {
					return true, t.est
				}
			}
			return false, false
		}
		var safe func(v ssa.Value, want bool, at *ssa.BasicBlock, from *ssa.BasicBlock, d int) bool
		safe = func(v ssa.Value, want bool, at, from *ssa.BasicBlock, d int) bool {
			reach := func() bool {
				if from != nil {
					return c07ReachEdge(callee, from, at, est)
				}
				return c07Reach(callee.Blocks[0], at, est)
			}
			if c, ok := v.(*ssa.Const); ok && c.Value != nil && c.Value.Kind() == constant.Bool {
				return constant.BoolVal(c.Value) != want || !reach()
			}
			if u, ok := v.(*ssa.UnOp); ok && u.Op == token.NOT && d < 6 {
				return safe(u.X, !want, at, from, d+1)
			}
			if is, e := isTest(v); is && e == want {
				return true
			}
			if ph, ok := v.(*ssa.Phi); ok && d < 6 && ph.Block() == at && from == nil {
				for i, e := range ph.Edges {
					if !safe(e, want, at, at.Preds[i], d+1) {
						return false
					}
				}
				return true
			}
			return !reach()
		}
		n := 0
		for _, ri := range Returns(callee) {
			n++
			if !safe(ri.Results[0], x, ri.Ret.Block(), nil, 0) {
				return false
			}
		}
		return n > 0
	}()
	if res {
		g.memo[k] = 1
	} else {
		g.memo[k] = 2
	}
	return res
}

// c07Before: an instruction satisfying pred executes before site on every path
// to it, in the effective body: in site's function; inside a helper called
// before site that performs it on every path to each of its returns; or
// before every static call of site's function when that is a helper.
func (cx *c07Ctx) before(site ssa.Instruction, pred func(ssa.Instruction) bool, depth int) bool {
	fn := site.Parent()
	for _, b := range fn.Blocks {
		for _, in := range b.Instrs {
			if in == site {
				continue
			}
			if pred(in) && Precedes(in, site) {
				return true
			}
			if ci, ok := in.(*ssa.Call); ok && depth < 3 && Precedes(in, site) {
				if cal := (CallSite{fn, ci}).Callee(); cal != nil && cal != fn && cal.Blocks != nil && (InModule(cal) || cal.Parent() != nil) && cx.always(cal, pred, depth+1) {
					return true
				}
			}
		}
	}
	if depth < 3 && cx.followable(fn) && !c07Exported(fn) {
		for _, c := range cx.callers(fn) {
			if !cx.before(c.Instr, pred, depth+1) {
				return false
			}
		}
		return true
	}
	return false
}

// always: every return of fn is preceded by an instruction satisfying pred.
func (cx *c07Ctx) always(fn *ssa.Function, pred func(ssa.Instruction) bool, depth int) bool {
	rets := Returns(fn)
	if len(rets) == 0 {
		return false
	}
	for _, ri := range rets {
		ok := false
		for _, b := range fn.Blocks {
			for _, in := range b.Instrs {
				if ok || in == ssa.Instruction(ri.Ret) {
					continue
				}
				if pred(in) && Precedes(in, ri.Ret) {
					ok = true
				} else if ci, isCall := in.(*ssa.Call); isCall && depth < 3 && Precedes(in, ri.Ret) {
					if cal := (CallSite{fn, ci}).Callee(); cal != nil && cal != fn && cal.Blocks != nil && (InModule(cal) || cal.Parent() != nil) && cx.always(cal, pred, depth+1) {
						ok = true
					}
				}
			}
		}
		if !ok {
			return false
		}
	}
	return true
}
