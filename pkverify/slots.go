package main

import (
	"fmt"
	"os"
	"strconv"
	"syscall"
	"time"
)

// acquireSlot bounds the number of pkverify processes that hold a loaded
// program at the same time on this machine (each needs 3-4 GB). It is only a
// courtesy between concurrently running checks/self-tests: the lock files are
// created on demand and nothing depends on them existing.
func acquireSlot() {
	n, _ := strconv.Atoi(os.Getenv("PKVERIFY_SLOTS"))
	if n <= 0 || n > 6 {
		n = 6 // default and cap: each process holds 3-4 GB and loads with ~4 threads
	}
	dir := os.TempDir()
	for {
		for i := 0; i < n; i++ {
			f, err := os.OpenFile(fmt.Sprintf("%s/pkverify-slot-%d.lock", dir, i), os.O_CREATE|os.O_RDWR, 0o666)
			if err != nil {
				return // cannot create lock files: run unthrottled
			}
			if syscall.Flock(int(f.Fd()), syscall.LOCK_EX|syscall.LOCK_NB) == nil {
				slotFile = f // held until the process exits
				return
			}
			f.Close()
		}
		time.Sleep(500 * time.Millisecond)
	}
}

var slotFile *os.File
